(* Sem/TypeSpecProofs.v -- proofs about the declaration layer: Sem/TypeSpec.v (model) against
   Sem/DeclSpec.v (abstract declarations and their spellings). *)
From Coq Require Import ZArith Lia.
From Ford Require Import Base.Str Base.StrFacts Base.StrX Base.StrXFacts Sem.TypeSpec Sem.DeclSpec.
Local Open Scope nat_scope.

(* ------------------------------------------------------------------ letter case of keywords *)
Lemma lower_recase m w : forallb is_lower w = true -> map lower_ch (recase m w) = w.
Proof.
  revert m. induction w as [|c w IH]; intros m H; [reflexivity|].
  simpl in H. apply andb_true_iff in H as [Hc Hw].
  destruct m as [|b m]; simpl.
  - rewrite (lower_ch_lower c Hc). f_equal. apply (IH [] Hw).
  - destruct b; [rewrite (lower_upper_ch c Hc)|rewrite (lower_ch_lower c Hc)]; f_equal; apply (IH m Hw).
Qed.

Lemma length_recase m w : length (recase m w) = length w.
Proof. revert m. induction w as [|c w IH]; intros [|b m]; simpl; auto. Qed.

Lemma is_lower_alpha c : is_lower c = true -> is_alpha c = true.
Proof. intros H. unfold is_alpha. rewrite H. apply orb_true_r. Qed.

Lemma alpha_recase m w : forallb is_lower w = true -> forallb is_alpha (recase m w) = true.
Proof.
  revert m. induction w as [|c w IH]; intros m H; [reflexivity|].
  simpl in H. apply andb_true_iff in H as [Hc Hw].
  destruct m as [|b m]; simpl.
  - rewrite (is_lower_alpha c Hc). apply (IH [] Hw).
  - rewrite (IH m Hw), andb_true_r. destruct b; [|now apply is_lower_alpha].
    unfold is_alpha. now rewrite (upper_ch_alpha c Hc).
Qed.

Lemma map_lower_blanks n : map lower_ch (blanks n) = blanks n.
Proof. unfold blanks. induction n as [|n IH]; [reflexivity|]. simpl. now rewrite IH. Qed.

Lemma skip_ws_bl n x : skip_ws (blanks n ++ x) = skip_ws x.
Proof. apply skip_ws_blanks. Qed.
Lemma strip_bl n x : strip (blanks n ++ x) = strip x.
Proof. apply strip_blanks. Qed.
Lemma remove_ws_bl n : remove_ws (blanks n) = [].
Proof. apply remove_ws_blanks. Qed.

(* a keyword matches itself in any letter case *)
Lemma match_ci_recase m w r : forallb is_lower w = true -> match_ci w (recase m w ++ r) = Some r.
Proof. intros H. apply match_ci_app. now apply lower_recase. Qed.

(* an alpha character is none of the characters the scanners react to *)
Lemma alpha_plain c : is_alpha c = true ->
  Ascii.eqb c c_lpar = false /\ Ascii.eqb c c_rpar = false /\ Ascii.eqb c c_lbr = false /\
  Ascii.eqb c c_rbr = false /\ is_space c = false /\ Ascii.eqb c c_comma = false /\ Ascii.eqb c c_eq = false
  /\ Ascii.eqb c c_star = false.
Proof.
  intros H.
  assert (G : forall d, is_alpha d = false -> Ascii.eqb c d = false).
  { intros d Hd. destruct (Ascii.eqb c d) eqn:E; [|reflexivity]. apply Ascii.eqb_eq in E. subst. congruence. }
  repeat split; try (apply G; reflexivity).
  unfold is_alpha, is_upper, is_lower, is_space in *.
  apply orb_true_iff in H. apply orb_false_iff. split; apply andb_false_iff.
  - right. apply Nat.leb_gt. destruct H as [H|H]; apply andb_true_iff in H as [H1 H2]; apply Nat.leb_le in H1; lia.
  - right. apply Nat.leb_gt. destruct H as [H|H]; apply andb_true_iff in H as [H1 H2]; apply Nat.leb_le in H1; lia.
Qed.

Lemma recase_head m c w : is_lower c = true ->
  exists d r, recase m (c :: w) = d :: r /\ is_alpha d = true /\ r = recase (tl m) w.
Proof.
  intros H. destruct m as [|b m]; simpl.
  - exists c, (recase [] w). auto using is_lower_alpha.
  - exists (if b then upper_ch c else c), (recase m w). repeat split.
    destruct b; [unfold is_alpha; now rewrite (upper_ch_alpha c H)|now apply is_lower_alpha].
Qed.

(* ------------------------------------------------------------------ the type word *)
Ltac fail_alt :=
  match goal with
  | |- context [match_ci ?w ?x] =>
    rewrite (match_ci_lower w x) by (rewrite ?map_app, ?lower_recase by reflexivity; reflexivity)
  end.

Definition simple_words : list str :=
  [s "integer"; s "real"; s "character"; s "complex"; s "logical"; s "type"; s "class"].

Lemma match_alts_word m w r : In w simple_words -> match_alts type_words (recase m w ++ r) = Some r.
Proof.
  unfold simple_words. intros H. unfold type_words. cbn [match_alts]. unfold match_two.
  repeat (destruct H as [<-|H]; [repeat fail_alt; now rewrite match_ci_recase by reflexivity|]).
  destruct H.
Qed.

Lemma firstn_app_len {A} (a b : list A) : firstn (length (a ++ b) - length b) (a ++ b) = a.
Proof.
  rewrite app_length. replace (length a + length b - length b) with (length a) by lia.
  rewrite firstn_app, firstn_all, Nat.sub_diag. simpl. apply app_nil_r.
Qed.

Lemma match_vartype_word m w r : In w simple_words ->
  match_vartype (recase m w ++ r) = Some (recase m w, r).
Proof.
  intros H. unfold match_vartype. rewrite (match_alts_word m w r H). now rewrite firstn_app_len.
Qed.

Lemma skip_ws_recase m c w r : is_lower c = true -> skip_ws (recase m (c :: w) ++ r) = recase m (c :: w) ++ r.
Proof.
  intros H. destruct (recase_head m c w H) as (d & t & -> & A & _).
  destruct (alpha_plain d A) as (_ & _ & _ & _ & Sp & _). cbn [app]. now apply skip_ws_head.
Qed.

Lemma skip_ws_recase_word m w r : w <> [] -> forallb is_lower w = true ->
  skip_ws (recase m w ++ r) = recase m w ++ r.
Proof.
  destruct w as [|c w]; [congruence|]. intros _ H. simpl in H. apply andb_true_iff in H as [H _].
  now apply skip_ws_recase.
Qed.

Lemma match_alts_double m n second r :
  (second = s "precision" \/ second = s "complex") ->
  match_alts type_words (recase m (s "double") ++ blanks n ++ recase (skipn 6 m) second ++ r) = Some r.
Proof.
  intros H. unfold type_words. cbn [match_alts]. unfold match_two.
  assert (L : forall w, match_ci w (s "double" ++ blanks n ++ second ++ map lower_ch r) = None ->
                        match_ci w (recase m (s "double") ++ blanks n ++ recase (skipn 6 m) second ++ r) = None).
  { intros w E. apply match_ci_lower. rewrite !map_app, lower_recase, map_lower_blanks by reflexivity.
    destruct H as [-> | ->]; now rewrite lower_recase by reflexivity. }
  rewrite (L (s "integer")) by reflexivity. rewrite (L (s "real")) by reflexivity.
  rewrite (match_ci_recase m (s "double")) by reflexivity.
  rewrite skip_ws_bl.
  destruct H as [-> | ->].
  - rewrite skip_ws_recase_word by (try discriminate; reflexivity). now rewrite match_ci_recase by reflexivity.
  - rewrite skip_ws_recase_word by (try discriminate; reflexivity).
    rewrite (match_ci_lower (s "precision")) by (rewrite map_app, lower_recase by reflexivity; reflexivity).
    rewrite (L (s "character")) by reflexivity. rewrite (L (s "complex")) by reflexivity.
    now rewrite match_ci_recase by reflexivity.
Qed.

(* ------------------------------------------------------------------ get_parens *)
Definition stop_next (y : str) : bool := match y with [] => true | c :: _ => stops_parens c end.

Lemma stops_not_paren c : stops_parens c = true ->
  Ascii.eqb c c_lpar = false /\ Ascii.eqb c c_rpar = false /\ Ascii.eqb c c_lbr = false /\ Ascii.eqb c c_rbr = false.
Proof.
  intros H.
  assert (G : forall d, stops_parens d = false -> Ascii.eqb c d = false).
  { intros d Hd. destruct (Ascii.eqb c d) eqn:E; [|reflexivity]. apply Ascii.eqb_eq in E. subst. congruence. }
  repeat split; apply G; reflexivity.
Qed.

Lemma get_parens_stop y acc : stop_next y = true -> get_parens_go y 0%Z 0%Z acc = Some (rev acc).
Proof.
  destruct y as [|c y]; intros H; [reflexivity|]. simpl in H.
  destruct (stops_not_paren c H) as (A & B & C & D). simpl. now rewrite A, B, C, D, H.
Qed.

Lemma znat_succ_nonzero l : (Z.of_nat (S l) =? 0)%Z = false.
Proof. apply Z.eqb_neq. lia. Qed.

(* inside a parenthesis nothing stops the scan: a body that closes what it opens is consumed *)
Lemma get_parens_body body : forall l b rest acc, bal l b body = true ->
  get_parens_go (body ++ rest) (Z.of_nat (S l)) (Z.of_nat b) acc
  = get_parens_go rest 1%Z 0%Z (rev body ++ acc).
Proof.
  induction body as [|c body IH]; intros l b rest acc H.
  - simpl in H. apply andb_true_iff in H as [H1 H2]. apply Nat.eqb_eq in H1, H2. now subst.
  - cbn [bal] in H. cbn [app get_parens_go].
    destruct (Ascii.eqb c c_lpar) eqn:E1.
    { replace (Z.of_nat (S l) + 1)%Z with (Z.of_nat (S (S l))) by lia.
      rewrite (IH (S l) b rest (c :: acc) H). simpl. now rewrite <- app_assoc. }
    destruct (Ascii.eqb c c_rpar) eqn:E2.
    { destruct l as [|l]; [discriminate|].
      replace (Z.of_nat (S (S l)) - 1)%Z with (Z.of_nat (S l)) by lia.
      rewrite (IH l b rest (c :: acc) H). simpl. now rewrite <- app_assoc. }
    destruct (Ascii.eqb c c_lbr) eqn:E3.
    { replace (Z.of_nat b + 1)%Z with (Z.of_nat (S b)) by lia.
      rewrite (IH l (S b) rest (c :: acc) H). simpl. now rewrite <- app_assoc. }
    destruct (Ascii.eqb c c_rbr) eqn:E4.
    { destruct b as [|b]; [discriminate|].
      replace (Z.of_nat (S b) - 1)%Z with (Z.of_nat b) by lia.
      rewrite (IH l b rest (c :: acc) H). simpl. now rewrite <- app_assoc. }
    rewrite znat_succ_nonzero, andb_false_r. cbn [andb].
    rewrite (IH l b rest (c :: acc) H). simpl. now rewrite <- app_assoc.
Qed.

Lemma get_parens_group body y : bal 0 0 body = true -> stop_next y = true ->
  get_parens (c_lpar :: body ++ c_rpar :: y) = Some (c_lpar :: body ++ [c_rpar]).
Proof.
  intros B S. unfold get_parens. cbn [get_parens_go]. change (Ascii.eqb c_lpar c_lpar) with true. cbv iota.
  change (0 + 1)%Z with (Z.of_nat 1). change 0%Z with (Z.of_nat 0) at 1.
  rewrite (get_parens_body body 0 0 (c_rpar :: y) [c_lpar] B).
  cbn [get_parens_go]. change (Ascii.eqb c_rpar c_lpar) with false. change (Ascii.eqb c_rpar c_rpar) with true.
  cbv iota. change (1 - 1)%Z with 0%Z. rewrite get_parens_stop by exact S.
  cbn [rev]. rewrite rev_app_distr, rev_involutive. reflexivity.
Qed.

Lemma stop_next_blanks n t : (n <> 0 \/ stop_next t = true) -> stop_next (blanks n ++ t) = true.
Proof. destruct n as [|n]; intros [H|H]; try congruence; try exact H; reflexivity. Qed.

(* no parenthesis, bracket or stopper: the scan goes through *)
Definition inert (c : ascii) : bool :=
  negb (Ascii.eqb c c_lpar) && negb (Ascii.eqb c c_rpar) && negb (Ascii.eqb c c_lbr) && negb (Ascii.eqb c c_rbr)
  && negb (stops_parens c).

Lemma get_parens_inert x : forall y acc, forallb inert x = true ->
  get_parens_go (x ++ y) 0%Z 0%Z acc = get_parens_go y 0%Z 0%Z (rev x ++ acc).
Proof.
  induction x as [|c x IH]; intros y acc H; [reflexivity|].
  simpl in H. apply andb_true_iff in H as [Hc Hx]. unfold inert in Hc.
  repeat (apply andb_true_iff in Hc as [Hc ?]).
  repeat match goal with H : negb _ = true |- _ => apply negb_true_iff in H end.
  cbn [app get_parens_go]. rewrite Hc, H, H0, H1, H2. cbn [andb].
  rewrite (IH y (c :: acc) Hx). simpl. now rewrite <- app_assoc.
Qed.

Lemma digit_inert c : is_digit c = true -> inert c = true.
Proof.
  intros H.
  assert (G : forall d, is_digit d = false -> Ascii.eqb c d = false).
  { intros d Hd. destruct (Ascii.eqb c d) eqn:E; [|reflexivity]. apply Ascii.eqb_eq in E. subst. congruence. }
  unfold inert, stops_parens. rewrite !G by reflexivity.
  assert (A : is_alpha c = false).
  { unfold is_digit, is_alpha, is_upper, is_lower in *. apply andb_true_iff in H as [H1 H2].
    apply Nat.leb_le in H1, H2. apply orb_false_iff. split; apply andb_false_iff; left; apply Nat.leb_gt; lia. }
  now rewrite A.
Qed.

(* ------------------------------------------------------------------ pieces of text *)
Lemma before_last_end c x : before_last c (x ++ [c]) = Some x.
Proof.
  induction x as [|d x IH]; simpl.
  - now rewrite Ascii.eqb_refl.
  - now rewrite IH.
Qed.

Lemma length_ge3 (body : str) : body <> [] -> (length (c_lpar :: body ++ [c_rpar]) <? 3) = false.
Proof.
  intros N. apply Nat.ltb_ge. destruct body; [congruence|]. simpl. rewrite app_length. simpl. lia.
Qed.

Lemma skipn_app_len {A} (a b : list A) : skipn (length a) (a ++ b) = b.
Proof. induction a; simpl; auto. Qed.

(* what follows the type spec: [n] blanks and a text that is empty or starts with a stopper and
   carries no white space at its ends *)
Definition tail_ok (n : nat) (t : str) : bool :=
  stripped t && stop_next t && (match t with [] => n =? 0 | _ => true end).

Lemma tail_ok_inv n t : tail_ok n t = true ->
  stripped t = true /\ stop_next t = true /\ (t = [] -> n = 0).
Proof.
  unfold tail_ok. intros H. apply andb_true_iff in H as [H H3]. apply andb_true_iff in H as [H1 H2].
  repeat split; auto. intros ->. now apply Nat.eqb_eq.
Qed.

Lemma strip_tail n t : tail_ok n t = true -> strip (blanks n ++ t) = t.
Proof. intros H. destruct (tail_ok_inv n t H) as (S & _ & _). rewrite strip_bl. now apply stripped_strip. Qed.

(* a text X that starts and ends with something that is not white space, followed by the tail *)
Lemma strip_group_tail (X : str) c r n t :
  X = c :: r -> is_space c = false -> is_space (last X c) = false -> tail_ok n t = true ->
  strip (X ++ blanks n ++ t) = X ++ blanks n ++ t.
Proof.
  intros E Hc Hl H. destruct (tail_ok_inv n t H) as (S & _ & Z).
  apply stripped_strip. destruct t as [|d t].
  - rewrite (Z eq_refl). cbn [blanks repeat app]. rewrite app_nil_r. subst X. unfold stripped.
    now rewrite Hc, Hl.
  - apply (stripped_app X (blanks n ++ d :: t) c r E Hc).
    + destruct (blanks n); discriminate.
    + rewrite last_app by discriminate. unfold stripped in S. apply andb_true_iff in S as [_ S].
      apply negb_true_iff in S. now rewrite (last_indep (d :: t) c d) by discriminate.
Qed.

(* ------------------------------------------------------------------ blanks after "*" *)
Lemma star_space_other rest : prefix [c_star] rest = false -> star_space rest = rest.
Proof.
  destruct rest as [|c r]; [reflexivity|]. cbn [prefix star_space]. rewrite (Ascii.eqb_sym c c_star).
  now destruct (Ascii.eqb c_star c).
Qed.

Lemma stop_not_star t : stop_next t = true -> prefix [c_star] t = false.
Proof.
  destruct t as [|c r]; [reflexivity|]. cbn [stop_next prefix]. intros H.
  destruct (Ascii.eqb c_star c) eqn:E; [|reflexivity]. apply Ascii.eqb_eq in E. subst c. discriminate H.
Qed.

Lemma star_space_blanks b d y : is_space d = false ->
  star_space (c_star :: blanks b ++ d :: y) = c_star :: d :: y.
Proof.
  intros H. destruct b as [|b].
  - cbn [blanks repeat app star_space]. change (Ascii.eqb c_star c_star) with true. cbv match. now rewrite H.
  - change (blanks (S b) ++ d :: y) with (c_sp :: (blanks b ++ d :: y)).
    cbn [star_space]. change (Ascii.eqb c_star c_star) with true. change (is_space c_sp) with true. cbv match.
    cbn [skip_ws]. change (is_space c_sp) with true. cbv match. rewrite skip_ws_bl. now rewrite skip_ws_head.
Qed.

(* ------------------------------------------------------------------ after the type word *)
Definition plain_type (vt : str) : bool := negb (one_of vt [s "type"; s "class"; s "character"]).

(* no kind selector *)
Lemma after_type_none vt n t : tail_ok n t = true ->
  after_type vt (blanks n ++ t) =
  if plain_type vt then Ok (mkpt vt t None None None)
  else if seqb vt (s "character") then Ok (mkpt vt t None (Some (s "1")) None) else value_error.
Proof.
  intros H. destruct (tail_ok_inv n t H) as (S & N & _).
  unfold after_type. rewrite (strip_tail n t H), (star_space_other t (stop_not_star t N)).
  unfold get_parens. rewrite (get_parens_stop t [] N). cbn [rev length skipn].
  rewrite (stripped_strip t S). unfold plain_type.
  change (0 <? 3) with true. change (prefix [c_star] []) with false. cbn [negb andb].
  destruct (negb (one_of vt [s "type"; s "class"; s "character"])); reflexivity.
Qed.

(* a parenthesised selector *)
Lemma after_type_paren vt b1 body n t :
  body <> [] -> bal 0 0 body = true -> tail_ok n t = true ->
  after_type vt (blanks b1 ++ c_lpar :: body ++ c_rpar :: blanks n ++ t)
  = finish_type vt t false (remove_ws body).
Proof.
  intros Nb B H. destruct (tail_ok_inv n t H) as (S & N & Z).
  unfold after_type. rewrite strip_bl.
  assert (E : strip (c_lpar :: body ++ c_rpar :: blanks n ++ t) = (c_lpar :: body ++ [c_rpar]) ++ blanks n ++ t).
  { replace (c_lpar :: body ++ c_rpar :: blanks n ++ t) with ((c_lpar :: body ++ [c_rpar]) ++ blanks n ++ t)
      by (cbn [app]; now rewrite <- app_assoc).
    apply (strip_group_tail _ c_lpar (body ++ [c_rpar])); auto.
    change (c_lpar :: body ++ [c_rpar]) with ((c_lpar :: body) ++ [c_rpar]). now rewrite last_last. }
  rewrite E. rewrite star_space_other by reflexivity.
  assert (G : get_parens ((c_lpar :: body ++ [c_rpar]) ++ blanks n ++ t) = Some (c_lpar :: body ++ [c_rpar])).
  { replace ((c_lpar :: body ++ [c_rpar]) ++ blanks n ++ t) with (c_lpar :: body ++ c_rpar :: blanks n ++ t)
      by (cbn [app]; now rewrite <- app_assoc).
    apply get_parens_group; [exact B|]. apply stop_next_blanks.
    destruct n; [right; exact N|left; discriminate]. }
  rewrite G. rewrite skipn_app_len, (strip_tail n t H).
  rewrite (length_ge3 body Nb). cbn [andb].
  cbn [varkind_search]. change (Ascii.eqb c_lpar c_lpar) with true. cbv iota.
  rewrite before_last_end. destruct body as [|c body]; [congruence|].
  unfold kind_args. now rewrite remove_ws_strip.
Qed.

(* "*" followed by digits *)
Lemma digit_nospace d : is_digit d = true -> is_space d = false.
Proof.
  intros D. destruct (is_space d) eqn:Sd; [|reflexivity]. exfalso. unfold is_digit, is_space in *.
  apply andb_true_iff in D as [D1 D2]. apply Nat.leb_le in D1, D2.
  apply orb_true_iff in Sd as [Sd|Sd]; apply andb_true_iff in Sd as [S1 S2]; apply Nat.leb_le in S1, S2; lia.
Qed.

Lemma after_type_star vt b ds n t :
  ds <> [] -> forallb is_digit ds = true -> tail_ok n t = true ->
  after_type vt (c_star :: blanks b ++ ds ++ blanks n ++ t) = finish_type vt t true ds.
Proof.
  intros Nd D H. destruct (tail_ok_inv n t H) as (S & N & Z).
  unfold after_type.
  assert (E0 : star_space (strip (c_star :: blanks b ++ ds ++ blanks n ++ t)) = (c_star :: ds) ++ blanks n ++ t).
  { assert (Lx : forall c, is_space (last (c_star :: blanks b ++ ds) c) = false).
    { intros c. change (c_star :: blanks b ++ ds) with ((c_star :: blanks b) ++ ds). rewrite last_app by exact Nd.
      destruct (exists_last Nd) as (ds' & z & ->). rewrite last_last.
      rewrite forallb_app in D. apply andb_true_iff in D as [_ D]. simpl in D. rewrite andb_true_r in D.
      now apply digit_nospace. }
    replace (c_star :: blanks b ++ ds ++ blanks n ++ t) with ((c_star :: blanks b ++ ds) ++ blanks n ++ t)
      by (cbn [app]; now rewrite <- app_assoc).
    rewrite (strip_group_tail _ c_star (blanks b ++ ds) n t eq_refl eq_refl (Lx c_star) H).
    destruct ds as [|d ds]; [congruence|]. cbn [forallb] in D. apply andb_true_iff in D as [Dd _].
    cbn [app]. rewrite <- app_assoc. cbn [app]. now rewrite (star_space_blanks b d _ (digit_nospace d Dd)). }
  rewrite E0. clear E0.
  assert (Ld : forall c, is_space (last (c_star :: ds) c) = false).
  { intros c. change (c_star :: ds) with ([c_star] ++ ds). rewrite last_app by exact Nd.
    destruct (exists_last Nd) as (ds' & z & ->). rewrite last_last.
    rewrite forallb_app in D. apply andb_true_iff in D as [_ D]. simpl in D. rewrite andb_true_r in D.
    unfold inert in *. destruct (is_space z) eqn:Sz; [|reflexivity].
    exfalso. unfold is_digit, is_space in *. apply andb_true_iff in D as [D1 D2]. apply Nat.leb_le in D1, D2.
    apply orb_true_iff in Sz as [Sz|Sz]; apply andb_true_iff in Sz as [S1 S2]; apply Nat.leb_le in S1, S2; lia. }
  assert (I : forallb inert (c_star :: ds) = true).
  { cbn [forallb]. apply andb_true_iff. split; [reflexivity|].
    apply forallb_forall. intros c Hc. rewrite forallb_forall in D. now apply digit_inert, D. }
  unfold get_parens. rewrite (get_parens_inert _ _ [] I).
  rewrite get_parens_stop by (apply stop_next_blanks; destruct n; [right; exact N|left; discriminate]).
  rewrite app_nil_r, rev_involutive. rewrite skipn_app_len, (strip_tail n t H).
  change (prefix [c_star] (c_star :: ds)) with true. rewrite andb_false_r.
  cbn [varkind_search]. change (Ascii.eqb c_star c_lpar) with false. change (Ascii.eqb c_star c_star) with true.
  cbv iota.
  assert (Sk : skip_ws ds = ds).
  { destruct ds as [|d ds]; [congruence|]. apply skip_ws_head. simpl in D. apply andb_true_iff in D as [D _].
    destruct (is_space d) eqn:Sd; [|reflexivity]. exfalso. unfold is_digit, is_space in *.
    apply andb_true_iff in D as [D1 D2]. apply Nat.leb_le in D1, D2.
    apply orb_true_iff in Sd as [Sd|Sd]; apply andb_true_iff in Sd as [S1 S2]; apply Nat.leb_le in S1, S2; lia. }
  rewrite Sk, (take_while_end is_digit ds D). destruct ds as [|d ds]; [congruence|].
  unfold kind_args. cbv zeta.
  assert (St : strip (d :: ds) = d :: ds).
  { apply stripped_strip. unfold stripped. apply andb_true_iff. split.
    - apply negb_true_iff. destruct (is_space d) eqn:Sd; [|reflexivity].
      simpl in Sk. rewrite Sd in Sk. exfalso.
      assert (L : forall y, length (skip_ws y) <= length y).
      { clear. induction y as [|a y IH]; simpl; [lia|]. destruct (is_space a); simpl; lia. }
      specialize (L ds). rewrite Sk in L. simpl in L. lia.
    - apply negb_true_iff. specialize (Ld d).
      change (c_star :: d :: ds) with ([c_star] ++ d :: ds) in Ld. now rewrite last_app in Ld by discriminate. }
  rewrite St.
  assert (Pd : prefix [c_lpar] (d :: ds) = false).
  { cbn [prefix]. destruct (Ascii.eqb c_lpar d) eqn:Ed; [|reflexivity]. apply Ascii.eqb_eq in Ed. subst d.
    cbn [forallb] in D. apply andb_true_iff in D as [D _]. discriminate D. }
  rewrite Pd. f_equal. apply remove_ws_id.
  apply Bool.not_true_is_false. intros Ex. apply existsb_exists in Ex as (c & Hc & Sc).
  rewrite forallb_forall in D. specialize (D c Hc). unfold is_digit, is_space in *.
  apply andb_true_iff in D as [D1 D2]. apply Nat.leb_le in D1, D2.
  apply orb_true_iff in Sc as [Sc|Sc]; apply andb_true_iff in Sc as [S1 S2]; apply Nat.leb_le in S1, S2; lia.
Qed.

(* ------------------------------------------------------------------ balanced text *)
Definition noparen (c : ascii) : bool :=
  negb (Ascii.eqb c c_lpar) && negb (Ascii.eqb c c_rpar) && negb (Ascii.eqb c c_lbr) && negb (Ascii.eqb c c_rbr).

Lemma bal_noparen_head u : forall l b x, forallb noparen u = true -> bal l b (u ++ x) = bal l b x.
Proof.
  induction u as [|c u IH]; intros l b x H; [reflexivity|].
  simpl in H. apply andb_true_iff in H as [Hc Hu]. unfold noparen in Hc.
  repeat (apply andb_true_iff in Hc as [Hc ?]).
  repeat match goal with H : negb _ = true |- _ => apply negb_true_iff in H end.
  cbn [app bal]. rewrite Hc, H, H0, H1. now apply IH.
Qed.

Lemma bal_noparen_tail x : forall l b u, forallb noparen u = true -> bal l b (x ++ u) = bal l b x.
Proof.
  induction x as [|c x IH]; intros l b u H.
  - cbn [app]. rewrite <- (app_nil_r u). now rewrite bal_noparen_head.
  - cbn [app bal]. destruct (Ascii.eqb c c_lpar); [now apply IH|].
    destruct (Ascii.eqb c c_rpar); [destruct l; [reflexivity|now apply IH]|].
    destruct (Ascii.eqb c c_lbr); [now apply IH|].
    destruct (Ascii.eqb c c_rbr); [destruct b; [reflexivity|now apply IH]|]. now apply IH.
Qed.

Lemma noparen_blanks n : forallb noparen (blanks n) = true.
Proof. unfold blanks. induction n; [reflexivity|]. simpl. exact IHn. Qed.

Lemma noparen_alpha x : forallb is_alpha x = true -> forallb noparen x = true.
Proof.
  intros H. apply forallb_forall. intros c Hc. rewrite forallb_forall in H.
  destruct (alpha_plain c (H c Hc)) as (A & B & C & D & _). unfold noparen. now rewrite A, B, C, D.
Qed.

Lemma nospace_alpha x : forallb is_alpha x = true -> existsb is_space x = false.
Proof.
  intros H. apply Bool.not_true_is_false. intros E. apply existsb_exists in E as (c & Hc & Sc).
  rewrite forallb_forall in H. destruct (alpha_plain c (H c Hc)) as (_ & _ & _ & _ & S & _). congruence.
Qed.

Lemma paren_shape sp inner y :
  paren sp inner ++ y = blanks (t_b1 sp) ++ c_lpar :: (blanks (t_b2 sp) ++ inner ++ blanks (t_b2 sp)) ++ c_rpar :: y.
Proof. unfold paren. repeat rewrite <- app_assoc. reflexivity. Qed.

Lemma padded_nonempty n inner : inner <> [] -> blanks n ++ inner ++ blanks n <> [].
Proof. intros N E. apply app_eq_nil in E as [_ E]. apply app_eq_nil in E as [E _]. contradiction. Qed.

Lemma remove_ws_padded n inner : remove_ws (blanks n ++ inner ++ blanks n) = remove_ws inner.
Proof. now rewrite !remove_ws_app, remove_ws_bl, app_nil_r. Qed.

Lemma bal_padded n inner : bal 0 0 (blanks n ++ inner ++ blanks n) = bal 0 0 inner.
Proof. rewrite bal_noparen_head by apply noparen_blanks. apply bal_noparen_tail, noparen_blanks. Qed.

(* ------------------------------------------------------------------ expressions *)
Lemma expr_ok_inv k : expr_ok k = true ->
  k <> [] /\ existsb is_space k = false /\ existsb (Ascii.eqb c_eq) k = false /\ bal 0 0 k = true.
Proof.
  unfold expr_ok. destruct k as [|c k]; [discriminate|]. intros H.
  apply andb_true_iff in H as [H B]. apply andb_true_iff in H as [H E]. apply andb_true_iff in H as [S _].
  apply negb_true_iff in S, E. repeat split; auto. discriminate.
Qed.

Lemma finish_char_star t a : has_quote a = false ->
  finish_type (s "character") t true a = Ok (mkpt (s "character") t None (Some a) None).
Proof. intros Q. unfold finish_type. now rewrite Q. Qed.

Lemma expr_quote k : expr_ok k = true -> existsb is_quote k = false.
Proof.
  unfold expr_ok. destruct k; [discriminate|]. intros H.
  apply andb_true_iff in H as [H _]. apply andb_true_iff in H as [H _]. apply andb_true_iff in H as [_ Q].
  now apply negb_true_iff.
Qed.

Lemma match_ci_suffix w : forall x r, match_ci w x = Some r -> exists p, x = p ++ r.
Proof.
  induction w as [|a w IH]; intros x r H.
  - simpl in H. injection H as <-. now exists [].
  - destruct x as [|b x]; [discriminate|]. simpl in H. destruct (Ascii.eqb a (lower_ch b)); [|discriminate].
    destruct (IH x r H) as (p & ->). now exists (b :: p).
Qed.

Lemma skip_ws_suffix x : exists p, x = p ++ skip_ws x.
Proof.
  induction x as [|c x IH]; [now exists []|]. simpl. destruct (is_space c).
  - destruct IH as (p & E). exists (c :: p). simpl. now rewrite <- E.
  - now exists [].
Qed.

Lemma key_eq_rest_none key x : existsb (Ascii.eqb c_eq) x = false -> key_eq_rest key x = None.
Proof.
  intros H. unfold key_eq_rest. destruct (match_ci key x) as [r|] eqn:M; [|reflexivity].
  destruct (skip_ws r) as [|c r2] eqn:Sk; [reflexivity|].
  destruct (Ascii.eqb c c_eq) eqn:E; [|reflexivity]. exfalso.
  apply Ascii.eqb_eq in E. subst c.
  destruct (match_ci_suffix _ _ _ M) as (p & ->). destruct (skip_ws_suffix r) as (q & Er). rewrite Sk in Er.
  assert (In c_eq (p ++ r)) by (rewrite Er; apply in_or_app; right; apply in_or_app; right; now left).
  assert (existsb (Ascii.eqb c_eq) (p ++ r) = true) by (apply existsb_exists; exists c_eq; split; [assumption|apply Ascii.eqb_refl]).
  congruence.
Qed.

Lemma kind_re_none x : existsb (Ascii.eqb c_eq) x = false -> kind_re x = None.
Proof. apply key_eq_rest_none. Qed.

Lemma skip_ws_nospace x : existsb is_space x = false -> skip_ws x = x.
Proof. destruct x as [|c x]; [reflexivity|]. simpl. intros H. apply orb_false_iff in H as [H _]. now rewrite H. Qed.

(* "key = v" without white space: the whole of v *)
Lemma key_eq_rest_keyeq kc key v : forallb is_lower key = true -> v <> [] -> existsb is_space v = false ->
  key_eq_rest key (recase kc key ++ c_eq :: v) = Some v.
Proof.
  intros L N S. unfold key_eq_rest. rewrite match_ci_recase by exact L.
  cbn [skip_ws]. change (is_space c_eq) with false. cbv match. change (Ascii.eqb c_eq c_eq) with true. cbv match.
  unfold rest_group. rewrite (skip_ws_nospace v S). destruct v; [congruence|reflexivity].
Qed.

Lemma kind_re_keyeq kc k : k <> [] -> existsb is_space k = false ->
  kind_re (recase kc (s "kind") ++ c_eq :: k) = Some k.
Proof. intros N S. now apply key_eq_rest_keyeq. Qed.

Lemma remove_ws_keyeq sp key v : forallb is_lower key = true -> existsb is_space v = false ->
  remove_ws (keyeq sp key v) = recase (t_kcase sp) key ++ c_eq :: v.
Proof.
  intros L S. unfold keyeq. rewrite !remove_ws_app, !remove_ws_bl.
  rewrite (remove_ws_id (recase (t_kcase sp) key)) by (apply nospace_alpha, alpha_recase, L).
  rewrite (remove_ws_id v S). reflexivity.
Qed.

Lemma bal_keyeq sp key v : forallb is_lower key = true -> bal 0 0 (keyeq sp key v) = bal 0 0 v.
Proof.
  intros L. unfold keyeq.
  rewrite bal_noparen_head by (apply noparen_alpha, alpha_recase, L).
  rewrite bal_noparen_head by apply noparen_blanks.
  rewrite (bal_noparen_head [c_eq]) by reflexivity.
  now rewrite bal_noparen_head by apply noparen_blanks.
Qed.

Lemma keyeq_nonempty sp key v : v <> [] -> keyeq sp key v <> [].
Proof.
  intros N E. unfold keyeq in E. apply app_eq_nil in E as [_ E]. apply app_eq_nil in E as [_ E].
  apply app_eq_nil in E as [_ E]. apply app_eq_nil in E as [_ E]. contradiction.
Qed.

Lemma digits_no_eq k : forallb is_digit k = true -> existsb (Ascii.eqb c_eq) k = false.
Proof.
  intros H. apply Bool.not_true_is_false. intros E. apply existsb_exists in E as (c & Hc & Ec).
  apply Ascii.eqb_eq in Ec. subst c. rewrite forallb_forall in H. specialize (H _ Hc). discriminate H.
Qed.

(* ------------------------------------------------------------------ numeric types *)
Lemma quote_recase m w : forallb is_lower w = true -> existsb is_quote (recase m w) = false.
Proof.
  intros L. apply Bool.not_true_is_false. intros E. apply existsb_exists in E as (c & Hc & Q).
  pose proof (alpha_recase m w L) as A. rewrite forallb_forall in A. specialize (A c Hc).
  unfold is_quote in Q. apply orb_true_iff in Q as [Q|Q]; apply Ascii.eqb_eq in Q; subst c; discriminate A.
Qed.

Lemma quote_digits ds : forallb is_digit ds = true -> existsb is_quote ds = false.
Proof.
  intros D. apply Bool.not_true_is_false. intros E. apply existsb_exists in E as (c & Hc & Q).
  rewrite forallb_forall in D. specialize (D c Hc).
  unfold is_quote in Q. apply orb_true_iff in Q as [Q|Q]; apply Ascii.eqb_eq in Q; subst c; discriminate D.
Qed.

(* the selector text is free of quotes *)
Ltac noquote :=
  unfold has_quote;
  rewrite ?existsb_app; cbn [existsb]; rewrite ?existsb_app; cbn [existsb];
  rewrite ?quote_recase by reflexivity;
  change (is_quote c_eq) with false; change (is_quote c_comma) with false;
  repeat match goal with H : existsb is_quote ?x = false |- _ => rewrite H end;
  reflexivity.

Lemma finish_num b t star args : has_quote args = false ->
  finish_type (base_word b) t star args
  = Ok (mkpt (base_word b) t (Some (match kind_re args with Some k => k | None => args end)) None None).
Proof. intros Q. unfold finish_type. rewrite Q. destruct b; reflexivity. Qed.

Lemma base_word_simple b : In (base_word b) simple_words.
Proof. destruct b; simpl; auto 8. Qed.

Lemma lower_is_map x : lower x = map lower_ch x.
Proof. reflexivity. Qed.

Lemma parse_type_word m w y : In w simple_words -> forallb is_lower w = true ->
  parse_type (recase m w ++ y) = after_type (normalise_double w) y.
Proof.
  intros H L. unfold parse_type. rewrite (match_vartype_word m w y H).
  now rewrite lower_is_map, (lower_recase m w L).
Qed.

Lemma all_digits_inv k : all_digits k = true -> k <> [] /\ forallb is_digit k = true.
Proof. unfold all_digits. destruct k; [discriminate|]. intros H. split; [discriminate|exact H]. Qed.

Theorem type_spellings_num sp b k n t :
  type_ok sp (ANum b k) = true -> tail_ok n t = true ->
  parse_type (render_type sp (ANum b k) ++ blanks n ++ t) = Ok (mkpt (base_word b) t k None None).
Proof.
  intros W T.
  assert (Lw : forallb is_lower (base_word b) = true) by (destruct b; reflexivity).
  assert (Nd : normalise_double (base_word b) = base_word b) by (destruct b; reflexivity).
  assert (Pl : plain_type (base_word b) = true) by (destruct b; reflexivity).
  destruct k as [k|].
  - cbn [type_ok] in W. apply andb_true_iff in W as [E F].
    destruct (expr_ok_inv k E) as (Nk & Sk & Ek & Bk). pose proof (expr_quote k E) as Qk.
    cbn [render_type]. rewrite <- app_assoc.
    rewrite (parse_type_word _ _ _ (base_word_simple b) Lw), Nd.
    destruct (t_form sp) as [|[|f]] eqn:Form.
    + (* (k) *)
      rewrite paren_shape.
      rewrite after_type_paren; [|now apply padded_nonempty|now rewrite bal_padded|exact T].
      rewrite remove_ws_padded, (remove_ws_id k Sk), finish_num by noquote. now rewrite (kind_re_none k Ek).
    + (* (kind=k) *)
      rewrite paren_shape.
      rewrite after_type_paren; [|apply padded_nonempty, keyeq_nonempty, Nk
                                 |now rewrite bal_padded, bal_keyeq by reflexivity|exact T].
      rewrite remove_ws_padded, remove_ws_keyeq by (try reflexivity; exact Sk).
      rewrite finish_num by noquote. now rewrite (kind_re_keyeq _ k Nk Sk).
    + (* *k, with any number of blanks after the star *)
      change (2 <=? S (S f)) with true in F. cbv iota in F.
      destruct (all_digits_inv k F) as (_ & Dk).
      cbn [app]. rewrite <- app_assoc.
      rewrite (after_type_star _ (t_bstar sp) k n t Nk Dk T), finish_num by (apply quote_digits, Dk).
      now rewrite (kind_re_none k (digits_no_eq k Dk)).
  - cbn [render_type].
    rewrite (parse_type_word _ _ _ (base_word_simple b) Lw), Nd.
    now rewrite (after_type_none _ n t T), Pl.
Qed.

(* ------------------------------------------------------------------ double precision / double complex *)
Lemma normalise_double_blanks d second :
  (second = s "precision" \/ second = s "complex") ->
  normalise_double (s "double" ++ blanks d ++ second) = s "double" ++ [c_sp] ++ second.
Proof.
  intros H. unfold normalise_double.
  change (match_ci (s "double") (s "double" ++ blanks d ++ second)) with (Some (blanks d ++ second)).
  cbv match. rewrite skip_ws_bl. destruct H as [-> | ->]; reflexivity.
Qed.

(* any number of blanks, none included, between the two words *)
Theorem type_spellings_double sp (complex : bool) n t :
  let T := if complex then ADoubleComplex else ADouble in
  tail_ok n t = true ->
  parse_type (render_type sp T ++ blanks n ++ t)
  = Ok (mkpt (if complex then s "double complex" else s "double precision") t None None None).
Proof.
  intros T H. set (second := if complex then s "complex" else s "precision").
  assert (Hs : second = s "precision" \/ second = s "complex") by (unfold second; destruct complex; auto).
  assert (Ls : forallb is_lower second = true) by (unfold second; destruct complex; reflexivity).
  assert (Rt : render_type sp T = recase (t_case sp) (s "double") ++ blanks (t_dbl sp) ++ recase (skipn 6 (t_case sp)) second)
    by (unfold T, second; destruct complex; reflexivity).
  set (d := t_dbl sp) in *.
  rewrite Rt. unfold parse_type, match_vartype. repeat rewrite <- app_assoc.
  rewrite (match_alts_double (t_case sp) d second (blanks n ++ t) Hs).
  replace (recase (t_case sp) (s "double") ++ blanks d ++ recase (skipn 6 (t_case sp)) second ++ blanks n ++ t)
    with ((recase (t_case sp) (s "double") ++ blanks d ++ recase (skipn 6 (t_case sp)) second) ++ blanks n ++ t)
    by (now repeat rewrite <- app_assoc).
  rewrite firstn_app_len.
  rewrite lower_is_map, !map_app, map_lower_blanks, !lower_recase by (try reflexivity; exact Ls).
  rewrite (normalise_double_blanks d second Hs), (after_type_none _ n t H).
  unfold second. destruct complex; reflexivity.
Qed.

(* ------------------------------------------------------------------ derived types *)
Lemma ident_ok_inv x : ident_ok x = true -> exists c r, x = c :: r /\ is_alpha c = true /\ forallb is_word x = true.
Proof.
  unfold ident_ok. destruct x as [|c r]; [discriminate|]. intros H. apply andb_true_iff in H as [A W]. eauto.
Qed.

Lemma word_plain c : is_word c = true ->
  is_space c = false /\ Ascii.eqb c c_lpar = false /\ Ascii.eqb c c_rpar = false /\ Ascii.eqb c c_lbr = false
  /\ Ascii.eqb c c_rbr = false /\ Ascii.eqb c c_comma = false /\ Ascii.eqb c c_eq = false /\ Ascii.eqb c c_star = false.
Proof.
  intros H.
  assert (G : forall d, is_word d = false -> Ascii.eqb c d = false).
  { intros d Hd. destruct (Ascii.eqb c d) eqn:E; [|reflexivity]. apply Ascii.eqb_eq in E. subst. congruence. }
  split; [|repeat split; apply G; reflexivity].
  destruct (is_space c) eqn:S; [|reflexivity]. exfalso.
  unfold is_word, is_alpha, is_upper, is_lower, is_digit, is_space in *.
  repeat match goal with
         | H : (_ || _) = true |- _ => apply orb_true_iff in H as [H|H]
         | H : (_ && _) = true |- _ => apply andb_true_iff in H as [? ?]
         | H : (_ <=? _) = true |- _ => apply Nat.leb_le in H
         | H : (_ =? _) = true |- _ => apply Nat.eqb_eq in H
         end; lia.
Qed.

Lemma words_nospace x : forallb is_word x = true -> existsb is_space x = false.
Proof.
  intros H. apply Bool.not_true_is_false. intros E. apply existsb_exists in E as (c & Hc & Sc).
  rewrite forallb_forall in H. destruct (word_plain c (H c Hc)) as (S & _). congruence.
Qed.

Lemma words_noparen x : forallb is_word x = true -> forallb noparen x = true.
Proof.
  intros H. apply forallb_forall. intros c Hc. rewrite forallb_forall in H.
  destruct (word_plain c (H c Hc)) as (_ & A & B & C & D & _). unfold noparen. now rewrite A, B, C, D.
Qed.

Lemma bal_words x : forallb is_word x = true -> bal 0 0 x = true.
Proof. intros H. rewrite <- (app_nil_r x). now rewrite bal_noparen_head by now apply words_noparen. Qed.

Theorem type_spellings_derived sp cls name n t :
  type_ok sp (ADerived cls name) = true -> tail_ok n t = true ->
  parse_type (render_type sp (ADerived cls name) ++ blanks n ++ t)
  = Ok (mkpt (if cls then s "class" else s "type") t None None (Some (name, []))).
Proof.
  intros W T. cbn [type_ok] in W. destruct (ident_ok_inv name W) as (c & r & E & A & Ws).
  set (w := if cls then s "class" else s "type").
  assert (Iw : In w simple_words) by (unfold w, simple_words; destruct cls; simpl; auto 8).
  assert (Lw : forallb is_lower w = true) by (unfold w; destruct cls; reflexivity).
  cbn [render_type]. fold w. rewrite <- app_assoc.
  rewrite (parse_type_word _ w _ Iw Lw).
  assert (Nd : normalise_double w = w) by (unfold w; destruct cls; reflexivity). rewrite Nd.
  rewrite paren_shape.
  rewrite after_type_paren; [|apply padded_nonempty; subst name; discriminate
                             |now rewrite bal_padded, bal_words|exact T].
  rewrite remove_ws_padded, (remove_ws_id name (words_nospace name Ws)).
  assert (Qn : has_quote name = false).
  { unfold has_quote. apply Bool.not_true_is_false. intros Ex. apply existsb_exists in Ex as (q & Hq & Q).
    rewrite forallb_forall in Ws. specialize (Ws q Hq).
    unfold is_quote in Q. apply orb_true_iff in Q as [Q|Q]; apply Ascii.eqb_eq in Q; subst q; discriminate Ws. }
  assert (F : forall args, has_quote args = false -> finish_type w t false args
                           = match proto_re args with Some p => Ok (mkpt w t None None (Some p)) | None => value_error end)
    by (intros args Qa; unfold finish_type; rewrite Qa; unfold w; destruct cls; reflexivity).
  rewrite (F name Qn). unfold proto_re. rewrite E.
  destruct (alpha_plain c A) as (_ & _ & _ & _ & _ & _ & _ & St). rewrite St.
  rewrite <- E, (take_while_end is_word name Ws). rewrite E. reflexivity.
Qed.

(* ------------------------------------------------------------------ character *)
(* "*" followed by a parenthesised length *)
Lemma after_type_star_paren vt b body n t :
  body <> [] -> bal 0 0 body = true -> tail_ok n t = true ->
  after_type vt (c_star :: blanks b ++ c_lpar :: body ++ c_rpar :: blanks n ++ t) = finish_type vt t true (remove_ws body).
Proof.
  intros Nb B H. destruct (tail_ok_inv n t H) as (S & N & Z).
  unfold after_type.
  set (X := c_star :: c_lpar :: body ++ [c_rpar]).
  assert (EX : c_star :: c_lpar :: body ++ c_rpar :: blanks n ++ t = X ++ blanks n ++ t)
    by (unfold X; cbn [app]; now rewrite <- app_assoc).
  assert (E0 : star_space (strip (c_star :: blanks b ++ c_lpar :: body ++ c_rpar :: blanks n ++ t)) = X ++ blanks n ++ t).
  { set (Y := c_star :: blanks b ++ c_lpar :: body ++ [c_rpar]).
    assert (EY : c_star :: blanks b ++ c_lpar :: body ++ c_rpar :: blanks n ++ t = Y ++ blanks n ++ t).
    { unfold Y. cbn [app]. rewrite <- app_assoc. cbn [app]. now rewrite <- app_assoc. }
    rewrite EY.
    rewrite (strip_group_tail Y c_star (blanks b ++ c_lpar :: body ++ [c_rpar]) n t eq_refl eq_refl); [|
      unfold Y; replace (c_star :: blanks b ++ c_lpar :: body ++ [c_rpar])
                  with ((c_star :: blanks b ++ c_lpar :: body) ++ [c_rpar])
                  by (cbn [app]; rewrite <- app_assoc; reflexivity);
      now rewrite last_last | exact H].
    rewrite <- EY, <- EX. now rewrite (star_space_blanks b c_lpar _ eq_refl). }
  rewrite E0. clear E0.
  assert (G : get_parens (X ++ blanks n ++ t) = Some X).
  { rewrite <- EX. unfold get_parens. cbn [get_parens_go].
    change (Ascii.eqb c_star c_lpar) with false. change (Ascii.eqb c_star c_rpar) with false.
    change (Ascii.eqb c_star c_lbr) with false. change (Ascii.eqb c_star c_rbr) with false.
    change (stops_parens c_star) with false. cbn [andb]. change (Ascii.eqb c_lpar c_lpar) with true. cbv iota.
    change (0 + 1)%Z with (Z.of_nat 1). change 0%Z with (Z.of_nat 0) at 1.
    rewrite (get_parens_body body 0 0 (c_rpar :: blanks n ++ t) [c_lpar; c_star] B).
    cbn [get_parens_go]. change (Ascii.eqb c_rpar c_lpar) with false. change (Ascii.eqb c_rpar c_rpar) with true.
    cbv iota. change (1 - 1)%Z with 0%Z.
    rewrite get_parens_stop by (apply stop_next_blanks; destruct n; [right; exact N|left; discriminate]).
    cbn [rev]. rewrite rev_app_distr, rev_involutive. reflexivity. }
  rewrite G, skipn_app_len, (strip_tail n t H).
  change (prefix [c_star] X) with true. rewrite andb_false_r.
  unfold X. cbn [varkind_search]. change (Ascii.eqb c_star c_lpar) with false. change (Ascii.eqb c_star c_star) with true.
  cbv iota. cbn [skip_ws]. change (is_space c_lpar) with false. cbv iota.
  cbn [take_while]. change (is_digit c_lpar) with false. cbv iota.
  change (Ascii.eqb c_lpar c_lpar) with true. cbv iota. rewrite before_last_end.
  unfold kind_args. cbv zeta.
  assert (St : strip (c_lpar :: body ++ [c_rpar]) = c_lpar :: body ++ [c_rpar]).
  { apply stripped_strip. unfold stripped. change (is_space c_lpar) with false. cbn [negb andb].
    change (c_lpar :: body ++ [c_rpar]) with ((c_lpar :: body) ++ [c_rpar]). now rewrite last_last. }
  rewrite St. change (prefix [c_lpar] (c_lpar :: body ++ [c_rpar])) with true. cbv iota.
  cbn [tl]. rewrite removelast_last. now rewrite remove_ws_strip.
Qed.

Lemma split_on_go_none c x : forall cur, existsb (Ascii.eqb c) x = false -> split_on_go c x cur = [rev cur ++ x].
Proof.
  induction x as [|d x IH]; intros cur H; simpl.
  - now rewrite app_nil_r.
  - simpl in H. apply orb_false_iff in H as [H1 H2]. rewrite Ascii.eqb_sym in H1. rewrite H1.
    rewrite (IH (d :: cur) H2). simpl. now rewrite <- app_assoc.
Qed.

Lemma split_on_none c x : existsb (Ascii.eqb c) x = false -> split_on c x = [x].
Proof. intros H. unfold split_on. now rewrite split_on_go_none. Qed.

Lemma split_on_go_app c a b : forall cur, existsb (Ascii.eqb c) a = false ->
  split_on_go c (a ++ c :: b) cur = (rev cur ++ a) :: split_on c b.
Proof.
  induction a as [|d a IH]; intros cur H; simpl.
  - rewrite Ascii.eqb_refl. now rewrite app_nil_r.
  - simpl in H. apply orb_false_iff in H as [H1 H2]. rewrite Ascii.eqb_sym in H1. rewrite H1.
    rewrite (IH (d :: cur) H2). simpl. now rewrite <- app_assoc.
Qed.

Lemma split_on_app c a b : existsb (Ascii.eqb c) a = false -> split_on c (a ++ c :: b) = a :: split_on c b.
Proof. intros H. unfold split_on at 1. now rewrite split_on_go_app. Qed.

Lemma existsb_app_false {A} (f : A -> bool) x y : existsb f x = false -> existsb f y = false -> existsb f (x ++ y) = false.
Proof. intros H1 H2. rewrite existsb_app, H1, H2. reflexivity. Qed.

Lemma alpha_no x (d : ascii) : is_alpha d = false -> forallb is_alpha x = true -> existsb (Ascii.eqb d) x = false.
Proof.
  intros Hd H. apply Bool.not_true_is_false. intros E. apply existsb_exists in E as (c & Hc & Ec).
  apply Ascii.eqb_eq in Ec. subst c. rewrite forallb_forall in H. specialize (H _ Hc). congruence.
Qed.

(* "key=value" has no comma when the value has none *)
Lemma keyeq_no_comma kc key v : forallb is_lower key = true -> existsb (Ascii.eqb c_comma) v = false ->
  existsb (Ascii.eqb c_comma) (recase kc key ++ c_eq :: v) = false.
Proof.
  intros L H. apply existsb_app_false.
  - apply alpha_no; [reflexivity|now apply alpha_recase].
  - simpl. exact H.
Qed.

(* LEN_RE *)
Lemma len_re_named kc l : l <> [] -> existsb is_space l = false ->
  len_re (recase kc (s "len") ++ c_eq :: l) = Some l.
Proof. intros N S. unfold len_re. now rewrite key_eq_rest_keyeq. Qed.

(* without "=": the text itself when it consists of digits, nothing otherwise *)
Lemma len_re_other l : existsb (Ascii.eqb c_eq) l = false -> len_re l = Some l \/ len_re l = None.
Proof.
  intros E. unfold len_re. rewrite (key_eq_rest_none _ l E).
  destruct (take_while is_digit l) as [ds r] eqn:T. destruct ds as [|d ds]; [now right|].
  destruct r as [|c r]; [|now right]. left. f_equal.
  assert (G : forall x a b, take_while is_digit x = (a, b) -> x = a ++ b).
  { induction x as [|c x IH]; intros a b H; simpl in H.
    - now injection H as <- <-.
    - destruct (is_digit c); [|now injection H as <- <-].
      destruct (take_while is_digit x) as [a' b'] eqn:T'. injection H as <- <-. simpl. f_equal. now apply IH. }
  rewrite (G _ _ _ T). now rewrite app_nil_r.
Qed.

(* the first parameter written positionally *)
Lemma char_first_positional l rest kind :
  expr_ok l = true -> char_params (l :: rest) None kind = char_params rest (Some l) kind.
Proof.
  intros E. destruct (expr_ok_inv l E) as (N & S & Eq & B).
  cbn [char_params]. destruct (len_re_other l Eq) as [-> | ->]; [reflexivity|].
  rewrite (kind_re_none l Eq). destruct kind; reflexivity.
Qed.

Lemma char_first_named kc l rest kind :
  l <> [] -> existsb is_space l = false ->
  char_params ((recase kc (s "len") ++ c_eq :: l) :: rest) None kind = char_params rest (Some l) kind.
Proof. intros N S. cbn [char_params]. now rewrite (len_re_named kc l N S). Qed.

Lemma len_re_kind_text kc k : len_re (recase kc (s "kind") ++ c_eq :: k) = None.
Proof.
  unfold len_re, key_eq_rest.
  rewrite (match_ci_lower (s "len")) by (rewrite map_app, lower_recase by reflexivity; reflexivity).
  destruct (recase_head kc "k"%char (s "ind") eq_refl) as (d & r & E & A & _).
  change (s "kind") with ("k"%char :: s "ind"). rewrite E. cbn [app take_while].
  assert (D : is_digit d = false).
  { unfold is_alpha, is_upper, is_lower, is_digit in *. apply andb_false_iff. right. apply Nat.leb_gt.
    apply orb_true_iff in A as [A|A]; apply andb_true_iff in A as [A1 A2]; apply Nat.leb_le in A1; lia. }
  now rewrite D.
Qed.

Lemma has_quote_false k : existsb is_quote k = false -> has_quote k = false.
Proof. auto. Qed.

Lemma char_kind_named kc k rest len :
  expr_ok k = true -> existsb is_quote k = false ->
  char_params ((recase kc (s "kind") ++ c_eq :: k) :: rest) len None = char_params rest len (Some k).
Proof.
  intros E Q. destruct (expr_ok_inv k E) as (N & S & _ & _).
  cbn [char_params]. rewrite len_re_kind_text, (kind_re_keyeq kc k N S). destruct len; reflexivity.
Qed.

Lemma char_kind_positional k rest l :
  expr_ok k = true -> char_params (k :: rest) (Some l) None = char_params rest (Some l) (Some k).
Proof.
  intros E. destruct (expr_ok_inv k E) as (_ & _ & Eq & _).
  cbn [char_params]. rewrite (kind_re_none k Eq). destruct (len_re k); reflexivity.
Qed.

Lemma finish_char t args : has_quote args = false ->
  finish_type (s "character") t false args =
  let parts := split_on c_comma args in
  if 2 <? length parts then value_error
  else do lk <- char_params parts None None;
       Ok (mkpt (s "character") t (snd lk) (Some (match fst lk with Some l => l | None => s "1" end)) None).
Proof. intros Q. unfold finish_type. now rewrite Q. Qed.

Lemma remove_ws_comma sp : remove_ws (comma sp) = [c_comma].
Proof. unfold comma. change (c_comma :: blanks (t_b3 sp)) with ([c_comma] ++ blanks (t_b3 sp)).
       now rewrite remove_ws_app, remove_ws_bl. Qed.

Lemma bal_comma sp x : bal 0 0 (comma sp ++ x) = bal 0 0 x.
Proof.
  unfold comma. change ((c_comma :: blanks (t_b3 sp)) ++ x) with ([c_comma] ++ blanks (t_b3 sp) ++ x).
  rewrite (bal_noparen_head [c_comma]) by reflexivity. now rewrite bal_noparen_head by apply noparen_blanks.
Qed.

Lemma bal_app x y : bal 0 0 x = true -> bal 0 0 (x ++ y) = bal 0 0 y.
Proof.
  assert (G : forall x l b l' b' y, bal l b x = true -> bal (l + l') (b + b') (x ++ y) = bal l' b' y).
  { clear. induction x as [|c x IH]; intros l b l' b' y H.
    - simpl in H. apply andb_true_iff in H as [H1 H2]. apply Nat.eqb_eq in H1, H2. now subst.
    - cbn [app bal] in *. destruct (Ascii.eqb c c_lpar); [apply (IH (S l) b l' b' y H)|].
      destruct (Ascii.eqb c c_rpar).
      { destruct l as [|l]; [discriminate|]. apply (IH l b l' b' y H). }
      destruct (Ascii.eqb c c_lbr); [apply (IH l (S b) l' b' y H)|].
      destruct (Ascii.eqb c c_rbr).
      { destruct b as [|b]; [discriminate|]. apply (IH l b l' b' y H). }
      apply (IH l b l' b' y H). }
  intros H. apply (G x 0 0 0 0 y H).
Qed.

Lemma split_two a b : existsb (Ascii.eqb c_comma) a = false -> existsb (Ascii.eqb c_comma) b = false ->
  split_on c_comma (a ++ [c_comma] ++ b) = [a; b].
Proof. intros Ha Hb. cbn [app]. now rewrite (split_on_app c_comma a b Ha), (split_on_none c_comma b Hb). Qed.

Ltac fixty := change (@cons (list ascii)) with (@cons str); change (@nil (list ascii)) with (@nil str).

Theorem type_spellings_char sp l k n t :
  type_ok sp (AChar l k) = true -> tail_ok n t = true ->
  parse_type (render_type sp (AChar l k) ++ blanks n ++ t)
  = Ok (mkpt (s "character") t k (Some (match l with Some x => x | None => s "1" end)) None).
Proof.
  intros W T.
  assert (Iw : In (s "character") simple_words) by (simpl; auto).
  assert (P : forall y, parse_type (recase (t_case sp) (s "character") ++ y) = after_type (s "character") y).
  { intros y. now rewrite (parse_type_word _ (s "character") y Iw eq_refl). }
  destruct l as [l|], k as [k|]; cbn [render_type type_ok] in *.
  - (* length and kind *)
    repeat (apply andb_true_iff in W as [W ?]).
    apply negb_true_iff in H, H0.
    rename W into El, H1 into Ek, H0 into Cl, H into Ck.
    destruct (expr_ok_inv l El) as (Nl & Sl & _ & Bl). destruct (expr_ok_inv k Ek) as (Nk & Sk & _ & Bk).
    pose proof (expr_quote k Ek) as Qk. pose proof (expr_quote l El) as Ql.
    rewrite <- app_assoc, P.
    destruct (t_form sp) as [|[|[|[|f]]]] eqn:Form; rewrite paren_shape.
    + rewrite after_type_paren; [|apply padded_nonempty; destruct l; [congruence|discriminate]
                                 |now rewrite bal_padded, (bal_app l _ Bl), bal_comma|exact T].
      rewrite remove_ws_padded, !remove_ws_app, remove_ws_comma, (remove_ws_id l Sl), (remove_ws_id k Sk).
      rewrite finish_char by noquote. cbv zeta. rewrite (split_two l k Cl Ck).
      change (2 <? 2) with false. cbv match. fixty.
      rewrite (char_first_positional l [k] None El), (char_kind_positional k [] l Ek). reflexivity.
    + rewrite after_type_paren; [|apply padded_nonempty; destruct l; [congruence|discriminate]
                                 |now rewrite bal_padded, (bal_app l _ Bl), bal_comma|exact T].
      rewrite remove_ws_padded, !remove_ws_app, remove_ws_comma, (remove_ws_id l Sl), (remove_ws_id k Sk).
      rewrite finish_char by noquote. cbv zeta. rewrite (split_two l k Cl Ck).
      change (2 <? 2) with false. cbv match. fixty.
      rewrite (char_first_positional l [k] None El), (char_kind_positional k [] l Ek). reflexivity.
    + (* len=l, kind=k *)
      rewrite after_type_paren; [|apply padded_nonempty; intros E0; apply app_eq_nil in E0 as [E0 _]; now apply (keyeq_nonempty sp (s "len") l Nl)
                                 | |exact T].
      2:{ rewrite bal_padded. rewrite bal_app by (now rewrite bal_keyeq by reflexivity).
          now rewrite bal_comma, bal_keyeq by reflexivity. }
      rewrite remove_ws_padded, !remove_ws_app, remove_ws_comma, !remove_ws_keyeq by (try reflexivity; assumption).
      rewrite finish_char by noquote. cbv zeta.
      rewrite split_two by (apply keyeq_no_comma; [reflexivity|assumption]).
      change (2 <? 2) with false. cbv match. fixty.
      rewrite (char_first_named _ l _ None Nl Sl), (char_kind_named _ k [] (Some l) Ek Qk). reflexivity.
    + (* kind=k, len=l *)
      rewrite after_type_paren; [|apply padded_nonempty; intros E0; apply app_eq_nil in E0 as [E0 _]; now apply (keyeq_nonempty sp (s "kind") k Nk)
                                 | |exact T].
      2:{ rewrite bal_padded. rewrite bal_app by (now rewrite bal_keyeq by reflexivity).
          now rewrite bal_comma, bal_keyeq by reflexivity. }
      rewrite remove_ws_padded, !remove_ws_app, remove_ws_comma, !remove_ws_keyeq by (try reflexivity; assumption).
      rewrite finish_char by noquote. cbv zeta.
      rewrite split_two by (apply keyeq_no_comma; [reflexivity|assumption]).
      change (2 <? 2) with false. cbv match. fixty.
      rewrite (char_kind_named _ k _ None Ek Qk), (char_first_named _ l [] (Some k) Nl Sl). reflexivity.
    + (* l, kind=k *)
      rewrite after_type_paren; [|apply padded_nonempty; destruct l; [congruence|discriminate]
                                 | |exact T].
      2:{ rewrite bal_padded, (bal_app l _ Bl), bal_comma. now rewrite bal_keyeq by reflexivity. }
      rewrite remove_ws_padded, !remove_ws_app, remove_ws_comma, (remove_ws_id l Sl), remove_ws_keyeq by (try reflexivity; assumption).
      rewrite finish_char by noquote. cbv zeta.
      rewrite split_two by (try (apply keyeq_no_comma; [reflexivity|assumption]); assumption).
      change (2 <? 2) with false. cbv match. fixty.
      rewrite (char_first_positional l _ None El), (char_kind_named _ k [] (Some l) Ek Qk). reflexivity.
  - (* length only *)
    apply andb_true_iff in W as [El Cl]. apply negb_true_iff in Cl.
    destruct (expr_ok_inv l El) as (Nl & Sl & _ & Bl). pose proof (expr_quote l El) as Ql.
    rewrite <- app_assoc, P.
    destruct (t_form sp) as [|[|f]] eqn:Form.
    + destruct (all_digits l) eqn:Ad.
      * destruct (all_digits_inv l Ad) as (_ & Dl). cbn [app]. rewrite <- app_assoc.
        now rewrite (after_type_star _ (t_bstar sp) l n t Nl Dl T), (finish_char_star t l Ql).
      * cbn [app]. rewrite <- !app_assoc. cbn [app]. rewrite <- app_assoc. cbn [app].
        rewrite (after_type_star_paren _ (t_bstar sp) l n t Nl Bl T). now rewrite (remove_ws_id l Sl), (finish_char_star t l Ql).
    + rewrite paren_shape.
      rewrite after_type_paren; [|now apply padded_nonempty|now rewrite bal_padded|exact T].
      rewrite remove_ws_padded, (remove_ws_id l Sl), finish_char by noquote. cbv zeta.
      rewrite (split_on_none c_comma l Cl). change (2 <? 1) with false. cbv match. fixty.
      rewrite (char_first_positional l [] None El). reflexivity.
    + rewrite paren_shape.
      rewrite after_type_paren; [|apply padded_nonempty, keyeq_nonempty, Nl
                                 |now rewrite bal_padded, bal_keyeq by reflexivity|exact T].
      rewrite remove_ws_padded, remove_ws_keyeq by (try reflexivity; exact Sl). rewrite finish_char by noquote. cbv zeta.
      rewrite split_on_none by (apply keyeq_no_comma; [reflexivity|exact Cl]).
      change (2 <? 1) with false. cbv match. fixty. rewrite (char_first_named _ l [] None Nl Sl). reflexivity.
  - (* kind only *)
    apply andb_true_iff in W as [Ek Ck]. apply negb_true_iff in Ck.
    destruct (expr_ok_inv k Ek) as (Nk & Sk & _ & Bk). pose proof (expr_quote k Ek) as Qk.
    rewrite <- app_assoc, P, paren_shape.
    rewrite after_type_paren; [|apply padded_nonempty, keyeq_nonempty, Nk
                               |now rewrite bal_padded, bal_keyeq by reflexivity|exact T].
    rewrite remove_ws_padded, remove_ws_keyeq by (try reflexivity; exact Sk). rewrite finish_char by noquote. cbv zeta.
    rewrite split_on_none by (apply keyeq_no_comma; [reflexivity|exact Ck]).
    change (2 <? 1) with false. cbv match. fixty. now rewrite (char_kind_named _ k [] None Ek Qk).
  - (* bare *)
    rewrite P. now rewrite (after_type_none _ n t T).
Qed.

(* ------------------------------------------------------------------ all type spellings *)
Definition spec_parsed (T : atype) (rest : str) : ptype :=
  let '(vt, k, l, p) := spec_ptype T in mkpt vt rest k l p.

Theorem type_spellings sp T n t :
  type_ok sp T = true -> tail_ok n t = true ->
  parse_type (render_type sp T ++ blanks n ++ t) = Ok (spec_parsed T t).
Proof.
  intros W H. destruct T as [b k| | |l k|cls name].
  - now apply type_spellings_num.
  - apply (type_spellings_double sp false n t H).
  - apply (type_spellings_double sp true n t H).
  - now apply type_spellings_char.
  - unfold spec_parsed. cbn [spec_ptype]. now apply type_spellings_derived.
Qed.

Definition plain_sp : tspell := mkts [] [] 0 0 0 0 0 1.

Example type_spellings_nonvacuous :
  let sp := mkts [true; false; true] [true] 1 1 1 2 0 1 in
  let T := ANum BReal (Some (s "selected_real_kind(6,37)")) in
  type_ok sp T = true /\ tail_ok 0 (s ", intent(in) :: x") = true /\
  render_type sp T = s "ReAl ( Kind  =  selected_real_kind(6,37) )" /\
  type_ok plain_sp (AChar (Some (s "*")) (Some (s "ck"))) = true /\ tail_ok 1 (s "x") = true.
Proof. repeat split; vm_compute; reflexivity. Qed.

(* the inputs on which the code used to fail (recorded findings, repaired): kept as examples *)
Example type_spellings_regressions :
  parse_type (s "doubleprecision x") = Ok (mkpt (s "double precision") (s "x") None None None) /\
  parse_type (s "doublecomplex z") = Ok (mkpt (s "double complex") (s "z") None None None) /\
  parse_type (s "real * 8 x") = Ok (mkpt (s "real") (s "x") (Some (s "8")) None None) /\
  parse_type (s "character * 10 c") = Ok (mkpt (s "character") (s "c") None (Some (s "10")) None) /\
  parse_type (s "character * ( * ) c") = Ok (mkpt (s "character") (s "c") None (Some (s "*")) None) /\
  parse_type (s "character(len=n+1) c") = Ok (mkpt (s "character") (s "c") None (Some (s "n+1")) None) /\
  parse_type (s "character(2*n) c") = Ok (mkpt (s "character") (s "c") None (Some (s "2*n")) None) /\
  parse_type (s "real(kind=selected_real_kind(6,37)) r")
  = Ok (mkpt (s "real") (s "r") (Some (s "selected_real_kind(6,37)")) None None).
Proof. repeat split; vm_compute; reflexivity. Qed.

(* the report does not depend on the spelling: letter case of every keyword, the three ways of
   writing a kind, every order of len= / kind=, blanks *)
Theorem case_invariance sp sp' T n t :
  type_ok sp T = true -> type_ok sp' T = true -> tail_ok n t = true ->
  parse_type (render_type sp T ++ blanks n ++ t) = parse_type (render_type sp' T ++ blanks n ++ t).
Proof. intros. now rewrite !type_spellings. Qed.

Example case_invariance_example :
  parse_type (s "INTEGER*4 x") = parse_type (s "integer ( Kind = 4 ) x") /\
  parse_type (s "character(len=*, kind=ck) c") = parse_type (s "CHARACTER ( KIND = ck , LEN = * ) c") /\
  parse_type (s "Double   Precision x") = parse_type (s "doubleprecision x").
Proof. repeat split; vm_compute; reflexivity. Qed.

(* attributes that are kept as text keep their spelling: the report depends on letter case *)
Definition attr_case_statement : Prop :=
  forall sp sp' d,
    type_ok (ds_type sp) (d_type d) = true -> type_ok (ds_type sp') (d_type d) = true ->
    ds_dimattr sp = false -> ds_dimattr sp' = false ->
    declaration (render_decl sp d) (s "public") = declaration (render_decl sp' d) (s "public").

Definition upper_dspell : dspell := mkds plain_sp true false [true; true; true; true; true; true] 0 false 1.
Definition target_decl : adecl :=
  mkdecl (ANum BInteger None) false None false [s "target"] [mkent (s "w") None false None].

Theorem case_invariance_refuted_attribute : ~ attr_case_statement.
Proof.
  intros H.
  specialize (H plain_dspell upper_dspell target_decl eq_refl eq_refl eq_refl eq_refl).
  vm_compute in H. discriminate H.
Qed.

Example attribute_case_witness :
  render_decl upper_dspell target_decl = s "integer, TARGET :: w" /\
  match declaration (s "integer, TARGET :: w") (s "public"), declaration (s "integer, target :: w") (s "public") with
  | Ok [v], Ok [v'] => list_eqb seqb (v_attribs v) [s "TARGET"] && list_eqb seqb (v_attribs v') [s "target"]
  | _, _ => false
  end = true.
Proof. split; vm_compute; reflexivity. Qed.

(* ------------------------------------------------------------------ attribute statements *)
Lemma paren_split_words sep x : forallb is_word x = true -> is_word sep = false ->
  paren_split sep x = [x].
Proof.
  intros W Hs. unfold paren_split.
  assert (G : forall y cur, forallb is_word y = true -> paren_split_go sep y 0%Z 0%Z cur = [rev cur ++ y]).
  { induction y as [|c y IH]; intros cur H; simpl.
    - now rewrite app_nil_r.
    - simpl in H. apply andb_true_iff in H as [Hc Hy].
      destruct (word_plain c Hc) as (_ & A & B & C & D & _). rewrite A, B, C, D.
      assert (E : Ascii.eqb c sep = false).
      { destruct (Ascii.eqb c sep) eqn:E; [|reflexivity]. apply Ascii.eqb_eq in E. subst. congruence. }
      rewrite E. cbn [andb]. rewrite (IH (c :: cur) Hy). simpl. now rewrite <- app_assoc. }
  apply (G x [] W).
Qed.

Lemma words_stripped x : forallb is_word x = true -> strip x = x.
Proof.
  intros W. apply stripped_strip. destruct x as [|c r]; [reflexivity|]. unfold stripped.
  rewrite forallb_forall in W. apply andb_true_iff. split; apply negb_true_iff.
  - destruct (word_plain c (W c (or_introl eq_refl))) as (S & _). exact S.
  - assert (I : In (last (c :: r) c) (c :: r)).
    { destruct (exists_last (l := c :: r)) as (y & a & E); [discriminate|]. rewrite E, last_last.
      apply in_or_app. right. now left. }
    destruct (word_plain _ (W _ I)) as (S & _). exact S.
Qed.

Lemma lower_word c : is_word c = true -> is_word (lower_ch c) = true.
Proof.
  intros H. unfold lower_ch. destruct (is_upper c) eqn:U; [|exact H].
  unfold is_upper in U. apply andb_true_iff in U as [U1 U2]. apply Nat.leb_le in U1, U2.
  unfold is_word, is_alpha, is_lower, code. rewrite nat_ascii_embedding by (unfold code in *; lia).
  unfold code in *.
  replace ((97 <=? nat_of_ascii c + 32) && (nat_of_ascii c + 32 <=? 122)) with true; [now rewrite orb_true_r|].
  symmetry. apply andb_true_iff. split; apply Nat.leb_le; lia.
Qed.

Lemma lower_words x : forallb is_word x = true -> forallb is_word (lower x) = true.
Proof.
  intros H. unfold lower. apply forallb_forall. intros c Hc. apply in_map_iff in Hc as (d & <- & Hd).
  rewrite forallb_forall in H. now apply lower_word, H.
Qed.

Lemma find_ch_words c x : forallb is_word x = true -> is_word c = false -> find_ch c x = None.
Proof.
  intros W Hc. induction x as [|d x IH]; [reflexivity|]. simpl in W. apply andb_true_iff in W as [Wd Wx].
  simpl. destruct (Ascii.eqb c d) eqn:E; [apply Ascii.eqb_eq in E; subst; congruence|]. now rewrite (IH Wx).
Qed.

Lemma record_dimlike st lits g1 a name :
  remove_blanks (lower g1) = a -> seqb a (s "data") = false ->
  one_of a [s "dimension"; s "allocatable"; s "pointer"] = true ->
  forallb is_word name = true ->
  record_attribute st lits g1 name = Ok (mkas (dict_append (lower name) a (as_attr st)) (as_param st)).
Proof.
  intros E D O W. unfold record_attribute. rewrite E, D, O.
  rewrite (paren_split_words c_comma name W eq_refl). cbn [fold_left].
  rewrite (words_stripped name W), (find_ch_words c_lpar (lower name) (lower_words _ W) eq_refl).
  now rewrite app_nil_r.
Qed.

Lemma record_plain st lits g1 a name :
  remove_blanks (lower g1) = a -> seqb a (s "data") = false ->
  one_of a [s "dimension"; s "allocatable"; s "pointer"] = false -> seqb a (s "parameter") = false ->
  forallb is_word name = true ->
  record_attribute st lits g1 name = Ok (mkas (dict_append (lower name) a (as_attr st)) (as_param st)).
Proof.
  intros E D O P W. unfold record_attribute. rewrite E, D, O, P.
  rewrite (paren_split_words c_comma name W eq_refl). cbn [fold_left bind].
  unfold attr_key. now rewrite (remove_ws_id name (words_nospace name W)).
Qed.

Lemma apply_text_attr params v a :
  one_of a [s "public"; s "private"; s "protected"] = false -> seqb (firstn 6 a) (s "intent") = false ->
  seqb a (s "optional") = false -> dim_re a = false -> seqb a (s "parameter") = false ->
  apply_attr params (Ok v) a = Ok (set_attribs v (v_attribs v ++ [a])).
Proof. intros A B O C D. unfold apply_attr. cbn [bind]. now rewrite A, B, O, C, D. Qed.

(* attributes that both forms report as a piece of text *)
Definition text_attrs : list str :=
  [s "allocatable"; s "pointer"; s "target"; s "save"; s "volatile"; s "asynchronous"; s "value"].

(* For each of these attributes: the attribute statement [a :: name] after a declaration without
   the attribute gives the variable that the declaration with the attribute gives (written in
   lower case on the declaration). *)
Theorem attr_stmt_equiv a v acc :
  In a text_attrs -> forallb is_word (v_name v) = true ->
  (exists st, record_attribute (mkas [] []) [] a (v_name v) = Ok st /\
              process_attribs st [v] = Ok [set_attribs v (v_attribs v ++ [a])])
  /\ classify acc a = mkacc (a_attribs acc ++ [a]) (a_intent acc) (a_optional acc) (a_permission acc) (a_parameter acc).
Proof.
  intros Ha W. unfold text_attrs in Ha.
  assert (Fin : forall st, as_attr st = [(lower (v_name v), [a])] ->
                (one_of a [s "public"; s "private"; s "protected"] = false) ->
                seqb (firstn 6 a) (s "intent") = false -> seqb a (s "optional") = false ->
                dim_re a = false -> seqb a (s "parameter") = false ->
                process_attribs st [v] = Ok [set_attribs v (v_attribs v ++ [a])]).
  { intros st E A B O C D. unfold process_attribs. cbn [mapM]. rewrite E. unfold attr_key.
    rewrite (remove_ws_id _ (words_nospace _ W)). cbn [dict_get]. rewrite seqb_refl.
    cbn [fold_left]. now rewrite (apply_text_attr _ v a A B O C D). }
  destruct Ha as [<-|[<-|Ha]].
  - split; [|reflexivity]. eexists. split; [apply (record_dimlike _ _ _ (s "allocatable")); try reflexivity; exact W|].
    apply Fin; reflexivity.
  - split; [|reflexivity]. eexists. split; [apply (record_dimlike _ _ _ (s "pointer")); try reflexivity; exact W|].
    apply Fin; reflexivity.
  - repeat (destruct Ha as [<-|Ha];
            [split; [|reflexivity]; eexists; split;
             [eapply record_plain; try reflexivity; exact W|apply Fin; reflexivity]|]).
    destruct Ha.
Qed.

Example attr_stmt_equiv_example :
  let h := mkhdr USubroutine None (s "sub") (Some (s "()")) None in
  unit_model h [s "integer y, z"; s "save y, z"] = unit_model h [s "integer, save :: y, z"] /\
  unit_model h [s "real al"; s "allocatable :: al(:)"] = unit_model h [s "real, allocatable :: al(:)"] /\
  unit_model (mkhdr USubroutine None (s "sub") (Some (s "(a)")) None) [s "real a"; s "intent ( In ) a"]
  = unit_model (mkhdr USubroutine None (s "sub") (Some (s "(a)")) None) [s "real, intent(in) :: a"].
Proof. repeat split; vm_compute; reflexivity. Qed.

(* OPTIONAL, INTENT and PARAMETER set a field of the variable instead of adding a piece of text; the
   statement form sets the same field as the attribute on the declaration *)
Definition with_optional (v : var) : var :=
  mkvar (v_name v) (v_vartype v) (v_kind v) (v_strlen v) (v_proto v) (v_attribs v) (v_intent v) true
        (v_permission v) (v_parameter v) (v_points v) (v_initial v) (v_dimension v).
Definition with_intent (v : var) (i : str) : var :=
  mkvar (v_name v) (v_vartype v) (v_kind v) (v_strlen v) (v_proto v) (v_attribs v) i (v_optional v)
        (v_permission v) (v_parameter v) (v_points v) (v_initial v) (v_dimension v).
Definition with_parameter (v : var) (init : str) : var :=
  mkvar (v_name v) (v_vartype v) (v_kind v) (v_strlen v) (v_proto v) (v_attribs v) (v_intent v) (v_optional v)
        (v_permission v) true (v_points v) (Some init) (v_dimension v).

Theorem attr_stmt_equiv_optional params v acc :
  apply_attr params (Ok v) (s "optional") = Ok (with_optional v) /\
  classify acc (s "optional") = mkacc (a_attribs acc) (a_intent acc) true (a_permission acc) (a_parameter acc).
Proof. split; reflexivity. Qed.

Theorem attr_stmt_equiv_intent params v acc i :
  In i [s "in"; s "out"; s "inout"] ->
  apply_attr params (Ok v) (s "intent(" ++ i ++ s ")") = Ok (with_intent v i) /\
  classify acc (s "intent(" ++ i ++ s ")")
  = mkacc (a_attribs acc) i (a_optional acc) (a_permission acc) (a_parameter acc).
Proof. intros [<-|[<-|[<-|[]]]]; split; reflexivity. Qed.

Theorem attr_stmt_equiv_parameter params v init :
  pdict_get (lower (v_name v)) params = Some init ->
  apply_attr params (Ok v) (s "parameter") = Ok (with_parameter v init).
Proof. intros H. unfold apply_attr. cbn [bind]. change (one_of (s "parameter") _) with false. cbv match.
       change (seqb (firstn 6 (s "parameter")) (s "intent")) with false.
       change (seqb (s "parameter") (s "optional")) with false.
       change (dim_re (s "parameter")) with false. change (seqb (s "parameter") (s "parameter")) with true.
       cbv match. cbn [andb]. now rewrite H. Qed.

(* the inputs on which the two forms used to differ (recorded findings, repaired): now equal *)
Definition sub1 (arg : str) : header := mkhdr USubroutine None (s "sub") (Some (c_lpar :: arg ++ [c_rpar])) None.

Example attr_stmt_regressions :
  unit_model (sub1 (s "b")) [s "integer b"; s "optional b"] = unit_model (sub1 (s "b")) [s "integer, optional :: b"] /\
  unit_model (sub1 []) [s "character(len=5) str"; s "parameter (str = 'a  b')"]
  = unit_model (sub1 []) [s "character(len=5), parameter :: str = 'a  b'"] /\
  unit_model (sub1 (s "d")) [s "real d"; s "intent(in out) d"] = unit_model (sub1 (s "d")) [s "real, intent(in out) :: d"] /\
  unit_model (mkhdr UFunction None (s "f") (Some (s "()")) (Some (s "r"))) [s "real r"; s "save r"; s "pointer r"]
  = unit_model (mkhdr UFunction None (s "f") (Some (s "()")) (Some (s "r"))) [s "real, save, pointer :: r"] /\
  unit_model (mkhdr UFunction (Some (s "real")) (s "f") (Some (s "()")) None) [s "save f"]
  = unit_model (mkhdr UFunction None (s "f") (Some (s "()")) None) [s "real, save :: f"].
Proof. repeat split; vm_compute; reflexivity. Qed.

(* still different: an array spec given by the DIMENSION attribute or a DIMENSION statement is kept
   as attribute text, whereas the array spec after the name fills the dimension field *)
Definition unit_vars_of (h : header) (body : list str) : list var :=
  match unit_model h body with Ok u => u_args u ++ match u_retvar u with Some r => [r] | None => [] end ++ u_vars u | _ => [] end.
Definition both (h : header) (b1 b2 : list str) (p : var -> var -> bool) : bool :=
  match unit_vars_of h b1, unit_vars_of h b2 with [v], [v'] => p v v' | _, _ => false end.
Definition attribs_are (v : var) (l : list str) : bool := list_eqb seqb (v_attribs v) l.

Theorem attr_stmt_equiv_refuted_dimension :
  both (sub1 []) [s "real a"; s "dimension a(3)"] [s "real :: a(3)"]
       (fun v v' => seqb (v_dimension v) [] && attribs_are v [s "dimension(3)"]
                    && seqb (v_dimension v') (s "(3)") && attribs_are v' []) = true /\
  both (sub1 []) [s "real, dimension(3) :: a"] [s "real :: a(3)"]
       (fun v v' => seqb (v_dimension v) [] && attribs_are v [s "dimension(3)"]
                    && seqb (v_dimension v') (s "(3)") && attribs_are v' []) = true.
Proof. split; vm_compute; reflexivity. Qed.

(* typed function prefixes: the result type keeps its letter case, prefix keywords are whole words *)
Definition fun0 (attrs : option str) (name : str) : header := mkhdr UFunction attrs name (Some (s "()")) None.

Example prefix_regressions :
  unit_model (fun0 (Some (s "real(WP)")) (s "f")) [] = unit_model (fun0 None (s "f")) [s "real(WP) :: f"] /\
  unit_model (fun0 (Some (s "type(module_t)")) (s "f3")) [] = unit_model (fun0 None (s "f3")) [s "type(module_t) :: f3"] /\
  unit_model (fun0 (Some (s "double precision")) (s "f")) [] = unit_model (fun0 None (s "f")) [s "double precision f"] /\
  procedure_attributes (Some (s "Pure MODULE type(pure_t)")) = ([s "pure"; s "module"], s "type(pure_t)").
Proof. repeat split; vm_compute; reflexivity. Qed.

(* ------------------------------------------------------------------ argument order *)
(* every dummy argument, in the order of the argument list, becomes the variable declared under
   that name (up to letter case) or an implicitly typed variable; nothing is lost or invented *)
Lemma take_var_spec name vars v rest : take_var name vars = Some (v, rest) ->
  seqb (lower name) (lower (v_name v)) = true /\ length vars = S (length rest) /\ In v vars.
Proof.
  revert v rest. induction vars as [|w vars IH]; intros v rest H; [discriminate|].
  simpl in H. destruct (seqb (lower name) (lower (v_name w))) eqn:E.
  - injection H as <- <-. repeat split; auto. now left.
  - destruct (take_var name vars) as [[u r]|]; [|discriminate]. injection H as <- <-.
    destruct (IH u r eq_refl) as (A & B & C). repeat split; auto; simpl; [now rewrite B|now right].
Qed.

Theorem match_args_order args : forall vars,
  Forall2 (fun a v => seqb (lower a) (lower (v_name v)) = true \/ v = implicit_var a)
          args (fst (match_args args vars))
  /\ length (fst (match_args args vars)) = length args
  /\ length (snd (match_args args vars)) <= length vars.
Proof.
  induction args as [|a args IH]; intros vars; simpl.
  - repeat split; [constructor|lia].
  - destruct (take_var a vars) as [[v rest]|] eqn:T.
    + specialize (IH rest). destruct (match_args args rest) as [avs locals]. destruct IH as (F & L & N).
      destruct (take_var_spec _ _ _ _ T) as (A & B & C). simpl in *. repeat split.
      * constructor; [left; exact A|exact F].
      * now rewrite L.
      * lia.
    + specialize (IH vars). destruct (match_args args vars) as [avs locals]. destruct IH as (F & L & N).
      simpl in *. repeat split; [constructor; [right; reflexivity|exact F]|now rewrite L|exact N].
Qed.

Example match_args_example :
  let x := mkvar (s "X") (s "real") None None None [] [] false (s "public") false false None [] in
  let n := mkvar (s "n") (s "integer") None None None [] (s "in") false (s "public") false false None [] in
  match_args [s "n"; s "x"; s "k"] [x; n] = ([n; x; implicit_var (s "k")], []).
Proof. vm_compute. reflexivity. Qed.
