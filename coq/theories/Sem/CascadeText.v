(* Sem/CascadeText.v -- declared program structure as TEXT: Sem/TreeSpec.v's declarations with every
   statement spelled (Sem/CascadeSpec.v's sline: any letter case, blanks, END forms, prefixes, type
   spellings ...), the lines such a program consists of, and the side conditions of the dispatch
   theorem at the place where each line stands.  Written from the property text; executable
   definitions only.  Proofs: Sem/CascadeTextProofs.v. *)
From Ford Require Import Base.Str Base.StrX Sem.Tree Sem.TreeSpec Sem.TypeSpec Sem.DeclSpec
     Sem.CascadeTypes Sem.Cascade Sem.CascadeSpec Sem.CascadeTree.

Inductive tdecl :=
| TLeaf (l : sline) (docs : list str)
      (* one spelled declaration statement for leaf entities, followed by its documentation *)
| TExec (ls : list sline)
      (* spelled statements that declare nothing *)
| TUnit (h : sline) (docs : list str) (spec : list tdecl) (cl : sline) (contained : list tdecl) (e : sline)
      (* a unit: spelled first line, documentation, specification part, the CONTAINS line (written
         only when something is contained), the contained part, the spelled END line *)
| TIface (h : sline) (docs : list str) (body : list tdecl) (e : sline).
      (* an interface block: spelled first line, documentation, body, spelled END line *)

(* the unit a first line opens *)
Definition unit_of (st : stmt) : option (ckind * str) :=
  match st with
  | SUnit KModProcImpl _ => None
  | SUnit k n => Some (k, n)
  | SModProcImpl n => Some (KModProcImpl, n)
  | _ => None
  end.

(* the declaration a spelled declaration is *)
Fixpoint erase (d : tdecl) : decl :=
  match d with
  | TLeaf l docs => match stmt_of l with SLeaf lk names => DLeaf lk names docs | _ => DExec 0 end
  | TExec ls => DExec (length ls)
  | TUnit h docs spec _ cont _ =>
    match unit_of (stmt_of h) with
    | Some (k, name) => DUnit k name docs (map erase spec) (map erase cont)
    | None => DExec 0
    end
  | TIface h docs body _ =>
    match stmt_of h with SIface ab name => DIface ab name docs (map erase body) | _ => DExec 0 end
  end.

(* the logical lines of a spelled declaration, as the reader delivers them *)
Definition doc_line (d : str) : str := s "!!" ++ d.
Fixpoint text_of (d : tdecl) : list str :=
  match d with
  | TLeaf l docs => render l :: map doc_line docs
  | TExec ls => map render ls
  | TUnit h docs spec cl cont e =>
    render h :: map doc_line docs ++ flat_map text_of spec
    ++ (match cont with [] => [] | _ => render cl :: flat_map text_of cont end)
    ++ [render e]
  | TIface h docs body e => render h :: map doc_line docs ++ flat_map text_of body ++ [render e]
  end.

(* the side conditions of the dispatch theorem for a line standing in a unit of kind k, before or
   after its CONTAINS, outside BLOCK constructs *)
Definition here (k : ckind) (after_contains : bool) (l : sline) : bool :=
  line_ok l && place_ok k after_contains true l.

Definition is_noop (st : stmt) : bool := match st with SNoop => true | _ => false end.
Definition is_contains (st : stmt) : bool := match st with SContains => true | _ => false end.
Definition is_end_plain (st : stmt) : bool := match st with SEnd EndPlain => true | _ => false end.
Definition is_leaf_stmt (st : stmt) : bool := match st with SLeaf _ _ => true | _ => false end.

(* every line of the declaration is the kind of line the structure says, and satisfies the side
   conditions where it stands *)
Fixpoint lines_ok (parent : ckind) (after_contains : bool) (d : tdecl) : bool :=
  match d with
  | TLeaf l _ => here parent after_contains l && is_leaf_stmt (stmt_of l)
  | TExec ls => forallb (fun l => here parent after_contains l && is_noop (stmt_of l)) ls
  | TUnit h _ spec cl cont e =>
    here parent after_contains h &&
    match unit_of (stmt_of h) with
    | Some (k, _) =>
      forallb (lines_ok k false) spec
      && (match cont with [] => true | _ => here k false cl && is_contains (stmt_of cl) end)
      && forallb (lines_ok k true) cont
      && here k (match cont with [] => false | _ => true end) e && is_end_plain (stmt_of e)
    | None => false
    end
  | TIface h _ body e =>
    here parent after_contains h &&
    match stmt_of h with
    | SIface _ _ => forallb (lines_ok KInterface false) body && here KInterface false e && is_end_plain (stmt_of e)
    | _ => false
    end
  end.

Definition file_text (units : list tdecl) : list str := flat_map text_of units.
