(* Sem/Display.v — C05: which entities the site documents, given `display`, `proc_internals`, `hide_undoc`.

   MODEL (run) mirrors, as it is:
     ford/sourceform.py  FortranBase._set_display (inheritance at construction, `none`, the source-file
                         special case — `none` ignored, the file's words handed down to its contents after
                         they were built —, unknown words ignored), _should_display (the comment of the
                         procedure inside an interface block counts), _should_display_unscoped (common
                         blocks, final procedures), filter_display, FortranCodeUnit.prune (enums with their
                         enumerators, common blocks, namelists included), FortranType.prune (final procedures
                         included), FortranBlockData.prune, the `visible` flags set in prune;
     ford/fortran_project.py  Project.correlate: prune of every unit, gathering of the page lists, namelists
                         kept when still displayed.
   The input is the entity tree as it stands after correlate() and before prune(): every node carries its
   permission (a_perm: what FORD computed, property C04) next to the accessibility Fortran defines (a_acc),
   whether its doc_list is non-empty, the `display` words and the `proc_internals` value of its own metadata;
   children are tagged with the name of the list they sit in.
   The output gives, for EVERY node of the input (also the removed ones — other objects keep references to
   them, and `__str__` / graph nodes consult their `visible` flag): (id, kept, visible).

   SPEC (sel) is written from the property text and FORD's documentation of `display`:
     an entity is selected iff its container is selected, its permission is in the container's display
     (project-wide, or overridden by the metadata of an enclosing entity — file included — and inherited),
     it is documented when hide_undoc is on, and the enclosing procedure shows its internals.
   Definitions only; proofs are in Sem/DisplayProofs.v. *)
From Ford Require Import Base.Str Sem.Access.

(* ------------------------------------------------------------------ data *)

(* a word of a `display` setting *)
Inductive word := WPublic | WPrivate | WProtected | WNone | WOther.

Definition word_of_perm (p : perm) : word :=
  match p with Public => WPublic | Private => WPrivate | Protected => WProtected end.

Definition word_eqb (a b : word) : bool :=
  match a, b with
  | WPublic, WPublic | WPrivate, WPrivate | WProtected, WProtected | WNone, WNone | WOther, WOther => true
  | _, _ => false
  end.

Definition has_word (w : word) (l : list word) : bool := existsb (word_eqb w) l.

(* the lists of FORD's entity objects *)
Inductive lname :=
  | LModules | LSubmodules | LPrograms | LProcs | LBlockData           (* of a source file *)
  | LFunctions | LSubroutines | LTypes | LInterfaces | LAbsInterfaces | LVariables
  | LEnums | LCommon | LNamelists
  | LModProcedures | LModFunctions | LModSubroutines                    (* of a submodule *)
  | LBoundProcs | LFinalProcs                                           (* of a derived type *)
  | LArgs.                                                              (* of a procedure *)

Definition lname_eqb (a b : lname) : bool :=
  match a, b with
  | LModules, LModules | LSubmodules, LSubmodules | LPrograms, LPrograms | LProcs, LProcs
  | LBlockData, LBlockData | LFunctions, LFunctions | LSubroutines, LSubroutines | LTypes, LTypes
  | LInterfaces, LInterfaces | LAbsInterfaces, LAbsInterfaces | LVariables, LVariables | LEnums, LEnums
  | LCommon, LCommon | LNamelists, LNamelists | LModProcedures, LModProcedures
  | LModFunctions, LModFunctions | LModSubroutines, LModSubroutines | LBoundProcs, LBoundProcs
  | LFinalProcs, LFinalProcs | LArgs, LArgs => true
  | _, _ => false
  end.

Definition in_lists (l : lname) (ls : list lname) : bool := existsb (lname_eqb l) ls.

(* what kind of object a node is, as far as prune() is concerned:
   NProc = function / subroutine / module-procedure implementation (obj == "proc");
   NEnum = an enum (its enumerators are filtered), NCommon = a common block (its variables belong to it),
   NOther = anything else (variables, interfaces, bound procedures, namelists, dummy arguments, ...) *)
Inductive nkind := NFile | NModule | NSubmodule | NProgram | NProc | NType | NBlockData | NEnum | NCommon | NOther.

Record attrs := mk_attrs {
  a_id : nat;
  a_perm : perm;                 (* entity.permission, as FORD computed it *)
  a_acc : perm;                  (* the accessibility Fortran defines for the entity (Spec of C04) *)
  a_doc : bool;                  (* doc_list non-empty *)
  a_doc2 : bool;                 (* the procedure inside a nameless / abstract interface block has a comment *)
  a_display : list word;         (* `display:` words of the entity's own metadata *)
  a_internals : option bool      (* `proc_internals:` of the entity's own metadata *)
}.

Inductive node := Node (k : nkind) (a : attrs) (cs : list (lname * node)).

Record cfg := mk_cfg {
  c_display : list word;         (* project setting *)
  c_internals : bool;
  c_hide_undoc : bool;
  c_incl_src : bool
}.

Definition node_kind (n : node) : nkind := match n with Node k _ _ => k end.
Definition node_attrs (n : node) : attrs := match n with Node _ a _ => a end.
Definition node_children (n : node) : list (lname * node) := match n with Node _ _ cs => cs end.

(* ------------------------------------------------------------------ MODEL *)

Definition is_known (w : word) : bool :=
  match w with WPublic | WPrivate | WProtected => true | _ => false end.

(* FortranBase._set_display: [pd] is parent.display when the entity is constructed *)
Definition disp_of (is_file : bool) (pd : list word) (meta : list word) : list word :=
  let tmp := if is_file then filter (fun w => negb (word_eqb w WNone)) meta else meta in
  match tmp with
  | [] => pd
  | _ => if has_word WNone tmp then []
         else if existsb is_known tmp then tmp else pd
  end.

(* _should_display: an interface block may be documented at the procedure it holds *)
Definition should_display (c : cfg) (d : list word) (a : attrs) : bool :=
  if c_hide_undoc c && negb (a_doc a || a_doc2 a) then false else has_word (word_of_perm (a_perm a)) d.

(* _should_display_unscoped: common blocks and final procedures have no accessibility *)
Definition should_display_unscoped (c : cfg) (d : list word) (a : attrs) : bool :=
  if c_hide_undoc c && negb (a_doc a) then false else existsb is_known d.

Definition unscoped (l : lname) : bool := in_lists l [LCommon; LFinalProcs].

Definition shown (c : cfg) (d : list word) (l : lname) (a : attrs) : bool :=
  if unscoped l then should_display_unscoped c d a else should_display c d a.

(* meta.proc_internals: project value unless the metadata gives one *)
Definition internals (c : cfg) (a : attrs) : bool :=
  match a_internals a with Some b => b | None => c_internals c end.

(* `visible` as the constructors leave it *)
Definition init_visible (c : cfg) (l : lname) : bool :=
  match l with
  | LModules | LSubmodules | LPrograms | LProcs | LBlockData => true   (* set in _initialize / _fortran_file *)
  | _ => false
  end.

(* lists replaced by filter_display (or the unscoped filter) in the node's prune() *)
Definition filtered (k : nkind) : list lname :=
  match k with
  | NProgram | NProc =>
      [LFunctions; LSubroutines; LTypes; LInterfaces; LAbsInterfaces; LVariables; LEnums; LCommon; LNamelists]
  | NModule =>     (* a separate module procedure may be implemented (`module procedure f`) in the module itself *)
      [LFunctions; LSubroutines; LTypes; LInterfaces; LAbsInterfaces; LVariables; LEnums; LCommon; LNamelists;
       LModProcedures]
  | NSubmodule => [LFunctions; LSubroutines; LTypes; LInterfaces; LAbsInterfaces; LVariables; LEnums; LCommon;
                   LNamelists; LModProcedures; LModSubroutines; LModFunctions]
  | NType => [LBoundProcs; LVariables; LFinalProcs]
  | NBlockData => [LTypes; LVariables; LCommon]
  | NEnum => [LVariables]
  | _ => []
  end.

(* lists whose (remaining) members get visible = True *)
Definition made_visible (k : nkind) : list lname :=
  match k with
  | NModule | NSubmodule | NProgram | NProc =>
      [LAbsInterfaces; LInterfaces; LCommon; LNamelists; LFunctions; LSubroutines; LTypes;
       LModProcedures; LModFunctions; LModSubroutines]
  | NType => [LBoundProcs; LVariables]
  | NBlockData => [LTypes; LCommon]
  | _ => []
  end.

(* lists whose (remaining) members are pruned in turn (for enums: their enumerators are filtered) *)
Definition recursed (k : nkind) : list lname :=
  match k with
  | NModule | NSubmodule | NProgram | NProc =>
      [LFunctions; LSubroutines; LTypes; LEnums; LModProcedures; LModFunctions; LModSubroutines]
  | NBlockData => [LTypes]
  | _ => []
  end.

(* lists emptied when a procedure hides its internals; its namelists are filtered all the same *)
Definition cleared : list lname :=
  [LFunctions; LSubroutines; LTypes; LInterfaces; LAbsInterfaces; LVariables; LEnums; LCommon].

Definition out := (nat * bool * bool)%type.     (* id, kept, visible *)

(* a subtree nobody calls prune() on: every flag stays as constructed *)
Fixpoint untouched (c : cfg) (kept : bool) (l : lname) (n : node) : list out :=
  match n with
  | Node k a cs =>
      (a_id a, kept, init_visible c l)
      :: (fix go (cs : list (lname * node)) : list out :=
            match cs with
            | [] => []
            | (l', ch) :: r => untouched c kept l' ch ++ go r
            end) cs
  end.

(* prune() of a kept node whose display list is [disp_of .. pd ..]; [vis] is its own flag *)
Fixpoint pruned (c : cfg) (pd : list word) (vis : bool) (n : node) : list out :=
  match n with
  | Node k a cs =>
      let d := disp_of false pd (a_display a) in
      let hide := match k with NProc => negb (internals c a) | _ => false end in
      (a_id a, true, vis)
      :: (fix go (cs : list (lname * node)) : list out :=
            match cs with
            | [] => []
            | (l, ch) :: r =>
                (if hide then
                   (* early return: eight lists emptied, namelists filtered, nothing else looked at *)
                   if lname_eqb l LNamelists then
                     if should_display c d (node_attrs ch)
                     then match untouched c true l ch with
                          | (i, kp, _) :: rest => (i, kp, true) :: rest
                          | [] => []
                          end
                     else untouched c false l ch
                   else untouched c (negb (in_lists l cleared)) l ch
                 else if in_lists l (filtered k) && negb (shown c d l (node_attrs ch)) then
                   untouched c false l ch
                 else
                   let v := init_visible c l || in_lists l (made_visible k) in
                   if in_lists l (recursed k) then pruned c d v ch
                   else match untouched c true l ch with
                        | (i, kp, _) :: rest => (i, kp, v) :: rest
                        | [] => []
                        end)
                ++ go r
            end) cs
  end.

(* Project.correlate: every module, submodule, top-level procedure, program and block data unit is pruned;
   the file object itself is not.  The file's own `display` words (none ignored) are what its units inherit. *)
Definition file_display (c : cfg) (t : node) : list word :=
  disp_of true (c_display c) (a_display (node_attrs t)).

Definition run (c : cfg) (t : node) : list out :=
  match t with
  | Node k a cs =>
      (a_id a, true, c_incl_src c)
      :: flat_map (fun lc => pruned c (file_display c t) (init_visible c (fst lc)) (snd lc)) cs
  end.

Definition kept_ids (c : cfg) (t : node) : list nat :=
  map (fun o => fst (fst o)) (filter (fun o => snd (fst o)) (run c t)).
Definition visible_ids (c : cfg) (t : node) : list nat :=
  map (fun o => fst (fst o)) (filter (fun o => snd o) (run c t)).

(* the entities that get a page of their own: project.modules/submodules/programs/blockdata/procedures
   (top-level ones, then functions, subroutines, interfaces of every unit), absinterfaces, types,
   submodprocedures — gathered after prune; project.namelists — gathered at parse time from modules,
   submodules, programs, top-level procedures and the routines directly inside them, kept when prune made
   them visible *)
Definition page_lists : list lname :=
  [LFunctions; LSubroutines; LInterfaces; LAbsInterfaces; LTypes; LModFunctions; LModSubroutines; LModProcedures].

Definition is_routine_list (l : lname) : bool :=
  in_lists l [LFunctions; LSubroutines; LModProcedures; LModFunctions; LModSubroutines].

(* namelists of a pruned procedure / program (display d below it) that stay *)
Definition namelist_pages (c : cfg) (d : list word) (n : node) : list nat :=
  flat_map (fun lc => if lname_eqb (fst lc) LNamelists && should_display c d (node_attrs (snd lc))
                      then [a_id (node_attrs (snd lc))] else [])
           (node_children n).

Definition unit_pages (c : cfg) (pd : list word) (u : node) : list nat :=
  match u with
  | Node k a cs =>
      let d := disp_of false pd (a_display a) in
      let hide := match k with NProc => negb (internals c a) | _ => false end in
      a_id a
      :: (match k with NModule | NSubmodule | NProgram | NProc => namelist_pages c d u | _ => [] end)
      ++ flat_map (fun lc =>
           let l := fst lc in let ch := snd lc in
           match k with
           | NModule | NSubmodule | NProgram | NBlockData =>
               if negb (in_lists l (filtered k) && negb (shown c d l (node_attrs ch))) then
                 (if in_lists l page_lists then [a_id (node_attrs ch)] else [])
                 ++ (match k with
                     | NBlockData => []
                     | _ => if is_routine_list l
                            then namelist_pages c (disp_of false d (a_display (node_attrs ch))) ch else []
                     end)
               else []
           | _ => []
           end) cs
  end.

Definition pages (c : cfg) (t : node) : list nat :=
  flat_map (fun lc => unit_pages c (file_display c t) (snd lc)) (node_children t).

(* ------------------------------------------------------------------ SPEC *)

Record dset := mk_dset { d_pub : bool; d_priv : bool; d_prot : bool }.

Definition dset_has (d : dset) (p : perm) : bool :=
  match p with Public => d_pub d | Private => d_priv d | Protected => d_prot d end.

Definition dset_of (ws : list word) : dset :=
  if has_word WNone ws then mk_dset false false false
  else mk_dset (has_word WPublic ws) (has_word WPrivate ws) (has_word WProtected ws).

(* metadata override: `none` = nothing below is shown (ignored on a source file); otherwise the
   permissions named replace the inherited ones; no recognised word = inherited *)
Definition spec_display (is_file : bool) (inherited : dset) (meta : list word) : dset :=
  let ws := if is_file then filter (fun w => negb (word_eqb w WNone)) meta else meta in
  if has_word WNone ws then mk_dset false false false
  else if existsb is_known ws then dset_of ws else inherited.

Definition documented (a : attrs) : bool := a_doc a || a_doc2 a.

Definition is_unit_list (l : lname) : bool :=
  in_lists l [LModules; LSubmodules; LPrograms; LProcs; LBlockData].

Definition spec_internals (c : cfg) (k : nkind) (a : attrs) : bool :=
  match k with
  | NProc => match a_internals a with Some b => b | None => c_internals c end
  | _ => true
  end.

(* common blocks and final procedures have no accessibility: shown unless the display is `none` *)
Definition perm_free (l : lname) : bool := in_lists l [LCommon; LFinalProcs].
Definition dset_nonempty (d : dset) : bool := d_pub d || d_priv d || d_prot d.

(* is the child (in list l) of a selected node (kind k, attrs a, display d below it) selected? *)
Definition child_selected (c : cfg) (k : nkind) (a : attrs) (d : dset) (l : lname) (ch : attrs) : bool :=
  if is_unit_list l then true                     (* program units and top-level procedures: always *)
  else if lname_eqb l LArgs then true             (* dummy arguments are part of their procedure *)
  else match k with
       | NCommon => true                          (* the variables of a common block are part of it *)
       | _ =>
         (if perm_free l then dset_nonempty d else dset_has d (a_acc ch))
         && (negb (c_hide_undoc c) || documented ch)
         && (lname_eqb l LNamelists || spec_internals c k a)   (* namelists have pages of their own *)
       end.

(* ids of the selected entities below (and including) a selected node; [inh] = display inherited by it *)
Fixpoint sel (c : cfg) (inh : dset) (n : node) : list nat :=
  match n with
  | Node k a cs =>
      let d := spec_display (match k with NFile => true | _ => false end) inh (a_display a) in
      a_id a
      :: (fix go (cs : list (lname * node)) : list nat :=
            match cs with
            | [] => []
            | (l, ch) :: r =>
                (if child_selected c k a d l (node_attrs ch) then sel c d ch else []) ++ go r
            end) cs
  end.

Definition selected (c : cfg) (t : node) : list nat := sel c (dset_of (c_display c)) t.

(* kinds that have a page of their own, by position: a unit; a procedure / interface / type directly inside
   a module, submodule, program or block data unit; a namelist of a module, submodule, program or top-level
   procedure, or of a procedure directly inside a module, submodule or program *)
Definition spec_namelists (c : cfg) (k : nkind) (a : attrs) (d : dset) (n : node) : list nat :=
  flat_map (fun lc => if lname_eqb (fst lc) LNamelists && child_selected c k a d LNamelists (node_attrs (snd lc))
                      then [a_id (node_attrs (snd lc))] else [])
           (node_children n).

Definition spec_pages_unit (c : cfg) (inh : dset) (u : node) : list nat :=
  match u with
  | Node k a cs =>
      let d := spec_display false inh (a_display a) in
      a_id a
      :: (match k with NModule | NSubmodule | NProgram | NProc => spec_namelists c k a d u | _ => [] end)
      ++ flat_map (fun lc =>
           let ch := snd lc in
           match k with
           | NModule | NSubmodule | NProgram | NBlockData =>
               if child_selected c k a d (fst lc) (node_attrs ch) then
                 (if in_lists (fst lc) page_lists then [a_id (node_attrs ch)] else [])
                 ++ (match k with
                     | NBlockData => []
                     | _ => if is_routine_list (fst lc)
                            then spec_namelists c (node_kind ch) (node_attrs ch)
                                   (spec_display false d (a_display (node_attrs ch))) ch
                            else []
                     end)
               else []
           | _ => []
           end) cs
  end.
Definition spec_pages (c : cfg) (t : node) : list nat :=
  match t with
  | Node k a cs =>
      let d := spec_display true (dset_of (c_display c)) (a_display a) in
      flat_map (fun lc => spec_pages_unit c d (snd lc)) cs
  end.

(* ------------------------------------------------------------------ well-formed trees *)

(* the lists FORD's objects of each kind have *)
Definition allowed_child (k : nkind) (l : lname) : bool :=
  match k with
  | NFile => is_unit_list l
  | NOther => lname_eqb l LArgs
  | NCommon => lname_eqb l LVariables
  | _ => in_lists l (filtered k) || lname_eqb l LArgs
  end.

(* kinds as the lists hold them *)
Definition kind_fits (l : lname) (k : nkind) : bool :=
  match l, k with
  | LModules, NModule | LSubmodules, NSubmodule | LPrograms, NProgram | LProcs, NProc
  | LBlockData, NBlockData | LFunctions, NProc | LSubroutines, NProc | LTypes, NType
  | LModProcedures, NProc | LModFunctions, NProc | LModSubroutines, NProc
  | LEnums, NEnum | LCommon, NCommon => true
  | LInterfaces, NOther | LAbsInterfaces, NOther | LVariables, NOther
  | LNamelists, NOther | LBoundProcs, NOther | LFinalProcs, NOther | LArgs, NOther => true
  | _, _ => false
  end.

Fixpoint well_kinded (n : node) : bool :=
  match n with
  | Node k a cs =>
      (fix go (cs : list (lname * node)) : bool :=
         match cs with
         | [] => true
         | (l, ch) :: r => kind_fits l (node_kind ch) && well_kinded ch && go r
         end) cs
  end.

(* only an interface block can be documented at a second place *)
Definition doc2_ok (l : lname) (a : attrs) : bool :=
  negb (a_doc2 a) || in_lists l [LInterfaces; LAbsInterfaces].

(* a regular tree: every node sits in a list its parent's kind has, and FORD's permission of every entity
   is the accessibility Fortran defines (property C04) *)
Fixpoint regular (n : node) : bool :=
  match n with
  | Node k a cs =>
      perm_eqb (a_perm a) (a_acc a)
      && (fix go (cs : list (lname * node)) : bool :=
            match cs with
            | [] => true
            | (l, ch) :: r => allowed_child k l && doc2_ok l (node_attrs ch) && regular ch && go r
            end) cs
  end.

Definition is_file (t : node) : bool := match node_kind t with NFile => true | _ => false end.

(* project-level `none` stands alone *)
Definition cfg_ok (c : cfg) : bool :=
  negb (has_word WNone (c_display c)) || forallb (word_eqb WNone) (c_display c).

(* no recorded finding is left; the judge marks entities below a list their parent's kind does not have
   (bit 64: the generator produced a tree FORD cannot) *)
Fixpoint regions_below (c : cfg) (acc : nat) (n : node) : list (nat * nat) :=
  match n with
  | Node k a cs =>
      (a_id a, acc)
      :: (fix go (cs : list (lname * node)) : list (nat * nat) :=
            match cs with
            | [] => []
            | (l, ch) :: r =>
                regions_below c (Nat.lor acc (if allowed_child k l then 0 else 64)) ch ++ go r
            end) cs
  end.

Definition regions (c : cfg) (t : node) : list (nat * nat) := regions_below c 0 t.
