(* In comments regular expressions are written with {0,} for the star. *)
(* Sem/Calls.v — model of FORD's procedure-call recording (property C08).
   Mirrors, as they are:
     ford/utils.py      strip_paren
     ford/sourceform.py QUOTES_RE masking at the top of FortranContainer.__init__,
                        CALL_RE, SUBCALL_RE, CALL_AND_WHITESPACE_RE, Associations,
                        FortranContainer._add_procedure_calls,
                        the part of the elif cascade of FortranContainer.__init__ an executable
                        statement can reach (FORMAT_RE, END_RE for "end associate", ASSOCIATE_RE,
                        ARITH_GOTO_RE, the CALL_RE/SUBCALL_RE gate),
                        FortranCodeUnit._find_chain_item and the variable/type filter of
                        FortranCodeUnit.correlate.
   The regular expressions are modelled by deterministic recognisers written from the pattern
   text (priorities of the backtracking engine included); they are validated against Python's
   re on every run (Corr/C08.v).  7-bit ASCII, statements carry no newline.
   Executable definitions only. *)
From Coq Require Import ZArith.
From Ford Require Import Base.Str Gen.Intrinsics.

Definition lpar : ascii := "("%char.
Definition rpar : ascii := ")"%char.
Definition pct : ascii := "%"%char.
Definition dquote : ascii := """"%char.
Definition squote : ascii := "'"%char.
Definition nl : ascii := ascii_of_nat 10.
Definition comma : ascii := ","%char.
Definition lbrk : ascii := "["%char.
Definition rbrk : ascii := "]"%char.

Definition chain := list str.

Fixpoint span (p : ascii -> bool) (x : str) : str * str :=
  match x with
  | c :: x' => if p c then let (a, b) := span p x' in (c :: a, b) else ([], x)
  | [] => ([], [])
  end.

Definition is_nil {A} (l : list A) : bool := match l with [] => true | _ => false end.

(* ------------------------------------------------------------------ utils.strip_paren *)
(* state of the character loop: level, curstr, retstrs (both in reading order) *)
Record spst := mk_spst { sp_lvl : Z; sp_cur : str; sp_out : list str }.

Definition sp_step (ret : Z) (st : spst) (c : ascii) : spst :=
  let l := sp_lvl st in
  if Ascii.eqb c lpar then
    mk_spst (l + 1)
            (if Z.eqb l ret || Z.eqb (l + 1) ret then sp_cur st ++ [c] else sp_cur st)
            (sp_out st)
  else if Ascii.eqb c rpar then
    let cur1 := if Z.eqb l ret || Z.eqb (l - 1) ret then sp_cur st ++ [c] else sp_cur st in
    if Z.eqb l ret then mk_spst (l - 1) [] (sp_out st ++ [cur1])
    else mk_spst (l - 1) cur1 (sp_out st)
  else if Z.eqb l ret then mk_spst l (sp_cur st ++ [c]) (sp_out st)
  else st.

Definition sp_run (ret : Z) (st : spst) (line : str) : spst := fold_left (sp_step ret) line st.

Definition sp_finish (st : spst) : list str :=
  match sp_cur st with [] => sp_out st | _ => sp_out st ++ [sp_cur st] end.

Definition strip_paren (line : str) (retlevel : nat) : list str :=
  sp_finish (sp_run (Z.of_nat retlevel) (mk_spst 0 [] []) line).

(* ------------------------------------------------------------------ utils.paren_split *)
Fixpoint psplit (sep : ascii) (level blevel : Z) (cur : str) (x : str) : list str :=
  match x with
  | [] => [cur]
  | c :: x' =>
    if Ascii.eqb c lpar then psplit sep (level + 1) blevel (cur ++ [c]) x'
    else if Ascii.eqb c rpar then psplit sep (level - 1) blevel (cur ++ [c]) x'
    else if Ascii.eqb c lbrk then psplit sep level (blevel + 1) (cur ++ [c]) x'
    else if Ascii.eqb c rbrk then psplit sep level (blevel - 1) (cur ++ [c]) x'
    else if Ascii.eqb c sep && Z.eqb level 0 && Z.eqb blevel 0 then cur :: psplit sep level blevel [] x'
    else psplit sep level blevel (cur ++ [c]) x'
  end.
Definition paren_split (sep : ascii) (x : str) : list str := psplit sep 0 0 [] x.

(* ------------------------------------------------------------------ QUOTES_RE masking *)
(* QUOTES_RE = DQ([^DQ]|DQDQ)*DQ|SQ([^SQ]|SQSQ)*SQ (DQ, SQ: the double and the single quote
   character) — one attempt at an opening quote [q]; [x] is the text
   after it.  Greedy body: non-quote characters and doubled quotes; the literal closes at the
   first single quote; when the text ends first the engine backtracks to the first character
   of the last doubled quote.  Returns the number of characters of [x] the match covers. *)
Fixpoint quote_body (q : ascii) (x : str) (n : nat) (lastpair : option nat) : option nat :=
  match x with
  | [] => lastpair
  | c :: x' =>
    if Ascii.eqb c q then
      match x' with
      | d :: x'' => if Ascii.eqb d q then quote_body q x'' (n + 2) (Some (n + 1)) else Some (n + 1)
      | [] => Some (n + 1)
      end
    else quote_body q x' (n + 1) lastpair
  end.

(* leftmost match of QUOTES_RE in x: (text before, matched literal, text after) *)
Fixpoint quotes_search (pre : str) (x : str) : option (str * str * str) :=
  match x with
  | [] => None
  | c :: x' =>
    if Ascii.eqb c dquote || Ascii.eqb c squote then
      match quote_body c x' 0 None with
      | Some n => Some (pre, c :: firstn n x', skipn n x')
      | None => quotes_search (pre ++ [c]) x'
      end
    else quotes_search (pre ++ [c]) x'
  end.

(* the while loop, literally: the k-th literal found at or after [search_from] becomes the
   number k between double quotes;
   search_from then moves behind the first literal the changed line shows from there *)
Fixpoint mask_loop (fuel : nat) (k : nat) (line : str) (search_from : nat) : str :=
  match fuel with
  | 0 => line
  | S f =>
    match quotes_search [] (skipn search_from line) with
    | Some (pre, _, post) =>
      let line' := firstn search_from line ++ pre ++ dquote :: str_of_nat k ++ dquote :: post in
      match quotes_search [] (skipn search_from line') with
      | Some (pre2, lit2, _) => mask_loop f (S k) line' (search_from + length pre2 + length lit2)
      | None => line'
      end
    | None => line
    end
  end.
Definition mask_quotes (line : str) : str := mask_loop (S (length line)) 0 line 0.

(* ------------------------------------------------------------------ CALL_RE *)
(*  (?P<call_chain> (?:(?:\s{0,}\w+\s{0,}(?:\(\))?\s{0,}%\s{0,})+)?  (?:\w+\s{0,}\(.{0,}?\)) )     IGNORECASE|VERBOSE *)

(* the required part  \w+\s{0,}\(.{0,}?\)  at the head of x: (matched text, rest) *)
Definition match_req (x : str) : option (str * str) :=
  let (w, x1) := span is_word x in
  if is_nil w then None else
  let (ws, x2) := span is_space x1 in
  match x2 with
  | c :: x3 =>
    if Ascii.eqb c lpar then
      let (inner, x4) := span (fun d => negb (Ascii.eqb d rpar || Ascii.eqb d nl)) x3 in
      match x4 with
      | d :: rest => if Ascii.eqb d rpar then Some (w ++ ws ++ [lpar] ++ inner ++ [rpar], rest) else None
      | [] => None
      end
    else None
  | [] => None
  end.

(* one iteration of the prefix group  \s{0,}\w+\s{0,}(?:\(\))?\s{0,}%\s{0,} :
   (has "()", text up to and including the optional "()", whole text, rest) *)
Definition parse_item (x : str) : option (bool * str * str * str) :=
  let (ws1, x1) := span is_space x in
  let (w, x2) := span is_word x1 in
  if is_nil w then None else
  let (ws2, x3) := span is_space x2 in
  let '(hp, par, x4) :=
    match x3 with
    | a :: b :: x4 => if Ascii.eqb a lpar && Ascii.eqb b rpar then (true, [lpar; rpar], x4) else (false, [], x3)
    | _ => (false, [], x3)
    end in
  let (ws3, x5) := span is_space x4 in
  match x5 with
  | c :: x6 =>
    if Ascii.eqb c pct then
      let (ws4, x7) := span is_space x6 in
      Some (hp, ws1 ++ w ++ ws2 ++ par, ws1 ++ w ++ ws2 ++ par ++ ws3 ++ [pct] ++ ws4, x7)
    else None
  | [] => None
  end.

(* the greedy "+" : as many iterations as the text allows *)
Fixpoint parse_items (fuel : nat) (x : str) : list (bool * str * str) * str :=
  match fuel with
  | 0 => ([], x)
  | S f =>
    match parse_item x with
    | Some (hp, head, whole, rest) => let (its, r) := parse_items f rest in ((hp, head, whole) :: its, r)
    | None => ([], x)
    end
  end.

(* when the required part fails after all iterations the engine gives iterations back one by one:
   the required part then succeeds exactly on an iteration that carries "()" — the last such *)
Fixpoint fallback (pre : str) (its : list (bool * str * str)) (best : option str) : option str :=
  match its with
  | [] => best
  | (hp, head, whole) :: t => fallback (pre ++ whole) t (if hp then Some (pre ++ head) else best)
  end.

(* CALL_RE.match at the head of x: (matched text, rest) *)
Definition match_call (x : str) : option (str * str) :=
  let (its, r) := parse_items (length x) x in
  let pre := concat (map (fun it => snd it) its) in
  match match_req r with
  | Some (m, rest) => Some (pre ++ m, rest)
  | None =>
    match fallback [] its None with
    | Some m => Some (m, skipn (length m) x)
    | None => None
    end
  end.

(* CALL_RE.finditer(x): the matched texts.  A match that starts on white space is the match at
   the following word with that white space in front (removed again by the normalisation below),
   and a failure at the start of a word is a failure at each of its characters, so the scan
   tries word starts only. ([call_finditer_naive] in Corr/C08.v tries every position and is
   compared with this one and with Python on every run.)  [skip]: characters still covered by
   the last match or by the word just given up. *)
Fixpoint call_scan (skip : nat) (x : str) : list str :=
  match x with
  | [] => []
  | c :: x' =>
    match skip with
    | S k => call_scan k x'
    | 0 =>
      if is_word c then
        match match_call x with
        | Some (m, _) => m :: call_scan (length m - 1) x'
        | None => call_scan (length (fst (span is_word x)) - 1) x'
        end
      else call_scan 0 x'
    end
  end.
Definition call_matches (x : str) : list str := call_scan 0 x.

(* ------------------------------------------------------------------ SUBCALL_RE *)
(*  ^(?:[0-9]+\s+)?(?:if\s{0,}\(.{0,}\)\s{0,})?call\s+(?P<call_chain>(?:.{0,}%\s{0,})?(?:\w+\s{0,}(?:\(\))?))     IGNORECASE|VERBOSE *)

(* case-insensitive literal prefix (the literal is lower case) *)
Fixpoint starts_ci (p x : str) : bool :=
  match p, x with
  | [], _ => true
  | a :: p', b :: x' => Ascii.eqb a (lower_ch b) && starts_ci p' x'
  | _ :: _, [] => false
  end.

(* \w+\s{0,}(?:\(\))?  at the head of z: the matched text *)
Definition final_name (z : str) : option str :=
  let (w, z1) := span is_word z in
  if is_nil w then None else
  let (ws, z2) := span is_space z1 in
  match z2 with
  | a :: b :: _ => if Ascii.eqb a lpar && Ascii.eqb b rpar then Some (w ++ ws ++ [lpar; rpar]) else Some (w ++ ws)
  | _ => Some (w ++ ws)
  end.

(* (?:.{0,}%\s{0,})? : the last '%' of the line after which  \s{0,}\w+  matches; [pre] = text read so far *)
Fixpoint last_pct (pre : str) (y : str) (best : option (str * str)) : option (str * str) :=
  match y with
  | [] => best
  | c :: y' =>
    if Ascii.eqb c nl then best
    else if Ascii.eqb c pct then
      let (ws, z) := span is_space y' in
      match z with
      | d :: _ => if is_word d then last_pct (pre ++ [c]) y' (Some (pre ++ [c] ++ ws, z))
                  else last_pct (pre ++ [c]) y' best
      | [] => last_pct (pre ++ [c]) y' best
      end
    else last_pct (pre ++ [c]) y' best
  end.

(* the call_chain group at the head of y (the text after  call\s+ ) *)
Definition chain_text (y : str) : option str :=
  match last_pct [] y None with
  | Some (pre, z) => match final_name z with Some n => Some (pre ++ n) | None => None end
  | None => final_name y
  end.

(* call\s+<chain> at the head of y *)
Definition call_kw (y : str) : option str :=
  if starts_ci (s "call") y then
    let (ws, y1) := span is_space (skipn 4 y) in
    if is_nil ws then None else chain_text y1
  else None.

(* after "if\s{0,}(" : the last ')' of the line after which  \s{0,}call\s+<chain>  matches *)
Fixpoint last_close_call (y : str) (best : option str) : option str :=
  match y with
  | [] => best
  | c :: y' =>
    if Ascii.eqb c nl then best
    else if Ascii.eqb c rpar then
      match call_kw (snd (span is_space y')) with
      | Some ch => last_close_call y' (Some ch)
      | None => last_close_call y' best
      end
    else last_close_call y' best
  end.

(* SUBCALL_RE.search(x)["call_chain"]  (the pattern is anchored at the start of the string) *)
(* (?:[0-9]+\s+)?  : an optional statement label *)
Definition strip_label (x : str) : str :=
  let (d, x1) := span is_digit x in
  if is_nil d then x else
  let (w, x2) := span is_space x1 in
  if is_nil w then x else x2.

(* the pattern behind the optional label *)
Definition subcall_core (x : str) : option str :=
  let with_if :=
    if starts_ci (s "if") x then
      match snd (span is_space (skipn 2 x)) with
      | c :: y => if Ascii.eqb c lpar then last_close_call y None else None
      | [] => None
      end
    else None in
  match with_if with
  | Some ch => Some ch
  | None => call_kw x
  end.

Definition subcall_match (x : str) : option str := subcall_core (strip_label x).

(* ------------------------------------------------------------------ chain normalisation *)
(* CALL_AND_WHITESPACE_RE.sub("", text) : drop every "()" and every white-space character *)
Fixpoint strip_cw (x : str) : str :=
  match x with
  | [] => []
  | a :: x' =>
    match x' with
    | b :: x'' => if Ascii.eqb a lpar && Ascii.eqb b rpar then strip_cw x''
                  else if is_space a then strip_cw x' else a :: strip_cw x'
    | [] => if is_space a then [] else [a]
    end
  end.

(* str.split(sep) for a one-character separator *)
Fixpoint split_on (sep : ascii) (cur : str) (x : str) : list str :=
  match x with
  | [] => [cur]
  | c :: x' => if Ascii.eqb c sep then cur :: split_on sep [] x' else split_on sep (cur ++ [c]) x'
  end.

Definition norm_chain (text : str) : chain := split_on pct [] (lower (strip_cw text)).

(* ------------------------------------------------------------------ Associations *)
Definition batch := list (str * option chain).   (* in insertion order; a later equal key overwrites;
                                                    None: the name stands for the value of an expression *)
Definition assocs := list batch.                 (* _batches, oldest first *)

Fixpoint batch_get (k : str) (b : batch) (found : option (option chain)) : option (option chain) :=
  match b with
  | [] => found
  | (k', v) :: b' => batch_get k b' (if str_eqb k k' then Some v else found)
  end.

(* __getitem__/__contains__: newest batch first *)
Fixpoint assocs_get_rev (k : str) (rb : list batch) : option (option chain) :=
  match rb with
  | [] => None
  | b :: rb' => match batch_get k b None with Some v => Some v | None => assocs_get_rev k rb' end
  end.
Definition assocs_get (k : str) (a : assocs) : option (option chain) := assocs_get_rev k (rev a).

(* str.split("=>") *)
Fixpoint split_arrow (cur : str) (x : str) : list str :=
  match x with
  | [] => [cur]
  | a :: x' =>
    match x' with
    | b :: x'' => if Ascii.eqb a "="%char && Ascii.eqb b ">"%char then cur :: split_arrow [] x''
                  else split_arrow (cur ++ [a]) x'
    | [] => [cur ++ [a]]
    end
  end.

(* the chain with a leading ASSOCIATE name replaced; None: the head is the value of an expression *)
Definition subst_head (a : assocs) (ch : chain) : option chain :=
  match ch with
  | h :: t => match assocs_get h a with Some (Some v) => Some (v ++ t) | Some None => None | None => Some ch end
  | [] => Some ch
  end.

Definition space : ascii := " "%char.
(* old.lower().replace("()", "").replace(" ", "") ; a designator  \w+(?:%\w+){0,}  is split at "%",
   anything else is an expression *)
Definition assoc_target (old : str) : option chain :=
  let parts := split_on pct [] (filter (fun c => negb (Ascii.eqb c space)) (replace [lpar; rpar] [] (lower old))) in
  if forallb (fun p => negb (is_nil p) && forallb is_word p) parts then Some parts else None.

(* add_batch: None = ValueError (an item that is not "new => old") *)
Fixpoint build_batch (a : assocs) (items : list str) (cur : batch) : option batch :=
  match items with
  | [] => Some cur
  | it :: items' =>
    match split_arrow [] it with
    | [new; old] =>
      build_batch a items' (cur ++ [(lower (strip new),
                                     match assoc_target old with Some ch => subst_head a ch | None => None end)])
    | _ => None
    end
  end.
Definition add_batch (a : assocs) (items : list str) : option assocs :=
  match build_batch a items [] with Some b => Some (a ++ [b]) | None => None end.

(* ------------------------------------------------------------------ _add_procedure_calls *)
Definition last_of (ch : chain) : str := last ch [].

(* the texts of the call chains of one line, in the order the method collects them *)
Fixpoint collect_levels (fuel : nat) (line : str) (depth : nat) : list str :=
  match fuel with
  | 0 => []
  | S f =>
    match strip_paren line depth with
    | [] => []
    | sl => flat_map call_matches sl ++ collect_levels f line (S depth)
    end
  end.

Definition chain_texts (line : str) : list str :=
  match strip_paren line 0 with
  | [] => []                                  (* _lines[0] would raise; a line that matched is never empty *)
  | first :: _ =>
    match subcall_match first with
    | Some ch => ch :: collect_levels (S (length line)) line 1
    | None => collect_levels (S (length line)) line 0
    end
  end.

Definition raw_calls (a : assocs) (line : str) : list chain :=
  flat_map (fun t => match subst_head a (norm_chain t) with Some ch => [ch] | None => [] end) (chain_texts line).

(* the filter-and-append loop *)
Fixpoint append_calls (calls : list chain) (new : list chain) : list chain :=
  match new with
  | [] => calls
  | ch :: new' =>
    if str_in (last_of ch) INTRINSICS || existsb (list_eqb str_eqb ch) calls
    then append_calls calls new'
    else append_calls (calls ++ [ch]) new'
  end.

(* chains that end in an entry of INTRINSICS (intrinsics, statement keywords) are candidates: kept apart,
   each once; correlate records those that turn out to be procedures the unit sees *)
Fixpoint append_named (named : list chain) (new : list chain) : list chain :=
  match new with
  | [] => named
  | ch :: new' =>
    if str_in (last_of ch) INTRINSICS && negb (existsb (list_eqb str_eqb ch) named)
    then append_named (named ++ [ch]) new'
    else append_named named new'
  end.

(* the method updates two lists from the same chains; [app] is the update of the one followed *)
Definition appender := list chain -> list chain -> list chain.
Definition add_gen (app : appender) (a : assocs) (calls : list chain) (line : str) : list chain :=
  app calls (raw_calls a line).
Definition add_calls : assocs -> list chain -> str -> list chain := add_gen append_calls.
Definition add_named : assocs -> list chain -> str -> list chain := add_gen append_named.

(* ------------------------------------------------------------------ the cascade *)
Definition is_digit_b (c : ascii) : bool := is_digit c.

(* FORMAT_RE.match:  ^[0-9]+\s+format\s{0,}\(.{0,}\)  *)
Definition format_re (x : str) : bool :=
  let (d, x1) := span is_digit_b x in
  if is_nil d then false else
  let (w1, x2) := span is_space x1 in
  if is_nil w1 then false else
  if starts_ci (s "format") x2 then
    let (w2, x3) := span is_space (skipn 6 x2) in
    match x3 with
    | c :: x4 =>
      if Ascii.eqb c lpar then
        let (_, x5) := span (fun d => negb (Ascii.eqb d rpar || Ascii.eqb d nl)) x4 in
        match x5 with d :: _ => Ascii.eqb d rpar | [] => false end
      else false
    | [] => false
    end
  else false.

(* ARITH_GOTO_RE:  \bgo\s{0,}to\s{0,}\([0-9,\s]+\)  — length of a match at the head of x *)
Definition goto_here (x : str) : option nat :=
  if starts_ci (s "go") x then
    let (w1, x1) := span is_space (skipn 2 x) in
    if starts_ci (s "to") x1 then
      let (w2, x2) := span is_space (skipn 2 x1) in
      match x2 with
      | c :: x3 =>
        if Ascii.eqb c lpar then
          let (body, x4) := span (fun d => is_digit d || Ascii.eqb d comma || is_space d) x3 in
          if is_nil body then None else
          match x4 with
          | d :: _ => if Ascii.eqb d rpar then Some (2 + length w1 + 2 + length w2 + 1 + length body + 1) else None
          | [] => None
          end
        else None
      | [] => None
      end
    else None
  else None.

(* ARITH_GOTO_RE.search(line) and the replacement of the match by "goto": the label list of a
   computed GO TO is dropped, the rest of the statement stays.  [prev_word]: the character in front
   is a word character (no word boundary there). *)
Fixpoint goto_rewrite (prev_word : bool) (pre : str) (x : str) : option str :=
  match x with
  | [] => None
  | c :: x' =>
    match (if prev_word then None else goto_here x) with
    | Some n => Some (pre ++ s "goto" ++ skipn n x)
    | None => goto_rewrite (is_word c) (pre ++ [c]) x'
    end
  end.

(* optional construct name  (\w+\s{0,}:)?  then \s{0,}  *)
Definition skip_label (x : str) : str :=
  let (w, x1) := span is_word x in
  let unl := snd (span is_space x) in
  if is_nil w then unl else
  match snd (span is_space x1) with
  | c :: x2 => if Ascii.eqb c ":"%char then snd (span is_space x2) else unl
  | [] => unl
  end.

(* ASSOCIATE_RE.match(line)["associations"]:
   ^(\w+\s{0,}:)?\s{0,}associate\s{0,}\((?P<associations>.+)\)\s{0,}$ *)
Definition associate_re (x : str) : option str :=
  let try (y : str) : option str :=
    if starts_ci (s "associate") y then
      match snd (span is_space (skipn 9 y)) with
      | c :: body =>
        if Ascii.eqb c lpar then
          match rev (rstrip body) with
          | d :: rinner =>
            if Ascii.eqb d rpar && negb (is_nil rinner) && negb (existsb (Ascii.eqb nl) body)
            then Some (rev rinner) else None
          | [] => None
          end
        else None
      | [] => None
      end
    else None in
  match try (skip_label x) with
  | Some r => Some r
  | None => try (snd (span is_space x))
  end.

(* END_RE.match with group 1 = "associate":  ^(?:[0-9]+\s+)?end\s{0,}associate(?:\s+(\w.{0,}))?$
   (an END statement may carry a statement label; without the label group "end" would have to start
   on a digit, so the label is stripped whenever there is one) *)
Definition end_associate_core (x : str) : bool :=
  if starts_ci (s "end") x then
    let x1 := snd (span is_space (skipn 3 x)) in
    if starts_ci (s "associate") x1 then
      match skipn 9 x1 with
      | [] => true
      | rest =>
        let (ws, r) := span is_space rest in
        if is_nil ws then false else
        match r with c :: _ => is_word c && negb (existsb (Ascii.eqb nl) r) | [] => false end
      end
    else false
  else false.

Definition end_associate_re (x : str) : bool := end_associate_core (strip_label x).

Definition call_gate (line : str) : bool :=
  negb (is_nil (call_matches line)) || match subcall_match line with Some _ => true | None => false end.

(* one (unmasked) executable statement of a procedure or program body, none of the earlier
   branches of the cascade (declarations, contains, end of the unit, ...) applying.
   None = the implementation raises (malformed ASSOCIATE list, END ASSOCIATE without ASSOCIATE) *)
Definition line_step_gen (app : appender) (st : assocs * list chain) (line : str) : option (assocs * list chain) :=
  let (a, calls) := st in
  if format_re line then Some st
  else if end_associate_re line then
    match rev a with [] => None | _ :: ra => Some (rev ra, calls) end
  else match associate_re line with
  | Some body =>
    let calls' := add_gen app a calls line in
    match strip_paren body 0 with
    | first :: _ =>
      match add_batch a (paren_split comma first) with
      | Some a' => Some (a', calls')
      | None => None
      end
    | [] => None
    end
  | None =>
    match goto_rewrite false [] line with
    | Some line' => if call_gate line' then Some (a, add_gen app a calls line') else Some st
    | None => if call_gate line then Some (a, add_gen app a calls line) else Some st
    end
  end.
(* unit.calls (chains not ending in an entry of INTRINSICS) *)
Definition line_step : assocs * list chain -> str -> option (assocs * list chain) := line_step_gen append_calls.

Definition stmt_step (st : assocs * list chain) (stmt : str) : option (assocs * list chain) :=
  line_step st (mask_quotes stmt).

Fixpoint run_stmts (st : assocs * list chain) (stmts : list str) : option (assocs * list chain) :=
  match stmts with
  | [] => Some st
  | x :: rest => match stmt_step st x with Some st' => run_stmts st' rest | None => None end
  end.

(* unit.calls before correlate *)
Definition unit_raw_calls (stmts : list str) : option (list chain) :=
  match run_stmts ([], []) stmts with Some (_, c) => Some c | None => None end.

(* the candidates (chains ending in an entry of INTRINSICS) of the unit, the same cascade *)
Fixpoint run_named (st : assocs * list chain) (stmts : list str) : option (assocs * list chain) :=
  match stmts with
  | [] => Some st
  | x :: rest => match line_step_gen append_named st (mask_quotes x) with Some st' => run_named st' rest | None => None end
  end.
Definition unit_named_calls (stmts : list str) : option (list chain) :=
  match run_named ([], []) stmts with Some (_, c) => Some c | None => None end.

(* ------------------------------------------------------------------ resolution (correlate) *)
(* what a label of a call chain can denote *)
Inductive entity :=
  | EFunc (id : str) (rettype : str)
                               (* has a retvar: function (identity; result type string after strip_type,
                                  looked up in the function's table, or its host's as long as the
                                  function has none) *)
  | EProc (id : str)           (* subroutine, interface, bound procedure, ... : recorded, no context *)
  | EVar (ty : str) (ptypes : bool) (scalar : bool)
                               (* variable (type string after strip_type; parent has all_types; a scalar of
                                  numeric or logical type that is no dummy argument: cannot be indexed) *)
  | EType (name : str).        (* derived type *)

(* the labels dictionary of get_label_item, as the sequence of updates (later wins) *)
Definition labels := list (str * entity).
Fixpoint labels_get (k : str) (l : labels) (found : option entity) : option entity :=
  match l with
  | [] => found
  | (k', v) :: l' => labels_get k l' (if str_eqb k k' then Some v else found)
  end.

Record symtab := mk_symtab {
  st_scope : labels;                   (* labels of the unit itself *)
  st_types : list (str * labels);      (* labels of every derived type, by lower-cased name *)
  st_ext : list (str * str)            (* the project's top-level procedures: lower-cased name, identity *)
}.

Definition type_ctx (tb : symtab) (name : str) : option labels := assoc_get name (st_types tb).

(* _find_chain_item *)
Fixpoint find_chain (tb : symtab) (ctx : labels) (ch : chain) : option entity :=
  match ch with
  | [] => None
  | [x] => labels_get x ctx None
  | x :: rest =>
    match labels_get x ctx None with
    | None => None
    | Some (EFunc _ t) => match type_ctx tb t with Some c => find_chain tb c rest | None => None end
    | Some (EType t) => match type_ctx tb t with Some c => find_chain tb c rest | None => None end
    | Some (EVar t true _) => match type_ctx tb t with Some c => find_chain tb c rest | None => None end
    | Some (EVar _ false _) => None
    | Some (EProc _) => None
    end
  end.

(* what correlate makes of one chain: the resolved procedure (its identity), or the last label of a
   chain that did not resolve; None: a variable or a type, dropped *)
(* a chain that resolves to nothing: a plain name is one of the project's own top-level (external)
   procedures if one has that name; otherwise the last label stands for the call *)
Definition unresolved_name (tb : symtab) (ch : chain) : str :=
  match ch with
  | [x] => match assoc_get x (st_ext tb) with Some id => id | None => x end
  | _ => last_of ch
  end.

(* all_procs.get(name): the procedure entry of the unit's own tables, whatever shadows it *)
Fixpoint labels_get_proc (k : str) (l : labels) (found : option entity) : option entity :=
  match l with
  | [] => found
  | (k', v) :: l' =>
    labels_get_proc k l' (if str_eqb k k' then match v with EFunc _ _ | EProc _ => Some v | _ => found end else found)
  end.

(* the item a chain refers to.  A plain scalar followed by "(" is a function reference: the
   declaration only gives the result type of an external function, or names the result variable of
   the enclosing function *)
Definition find_call (tb : symtab) (ch : chain) : option entity :=
  match find_chain tb (st_scope tb) ch, ch with
  | Some (EVar _ _ true), [x] => labels_get_proc x (st_scope tb) None
  | found, _ => found
  end.

Definition resolve_one (tb : symtab) (ch : chain) : option str :=
  match find_call tb ch with
  | None => Some (unresolved_name tb ch)
  | Some (EVar _ _ _) => None
  | Some (EType _) => None
  | Some (EFunc id _) => Some id
  | Some (EProc id) => Some id
  end.

(* the loop of correlate: each procedure once, however many chains lead to it *)
Fixpoint resolve_loop (tb : symtab) (calls : list chain) (acc : list str) : list str :=
  match calls with
  | [] => acc
  | ch :: rest =>
    match resolve_one tb ch with
    | Some n => if str_in n acc then resolve_loop tb rest acc else resolve_loop tb rest (acc ++ [n])
    | None => resolve_loop tb rest acc
    end
  end.
Definition resolve_calls (tb : symtab) (calls : list chain) : list str := resolve_loop tb calls [].

(* the candidates: only what _find_chain_item resolves to a procedure is a call *)
Fixpoint resolve_named (tb : symtab) (named : list chain) (acc : list str) : list str :=
  match named with
  | [] => acc
  | ch :: rest =>
    match find_chain tb (st_scope tb) ch with
    | Some (EFunc id _) | Some (EProc id) =>
      if str_in id acc then resolve_named tb rest acc else resolve_named tb rest (acc ++ [id])
    | _ => resolve_named tb rest acc
    end
  end.

(* unit.calls after correlate: identities of resolved procedures, names of the others *)
Definition recorded (tb : symtab) (stmts : list str) : option (list str) :=
  match unit_raw_calls stmts, unit_named_calls stmts with
  | Some c, Some n => Some (resolve_named tb n (resolve_calls tb c))
  | _, _ => None
  end.
