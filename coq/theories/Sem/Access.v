(* Sem/Access.v — C04: accessibility (PUBLIC / PRIVATE / PROTECTED) of module-level entities,
   derived-type components and type-bound procedures.

   MODEL  (ford_perms)   mirrors ford/sourceform.py as it is:
     - FortranContainer.__init__ parsing loop: `child_permission` / `self.permission` threading,
       bare `public|private|protected` statements (which also reach the entities declared before
       them that carry no access attribute: _set_default_permission), ATTRIB_RE access statements
       collected in `attr_dict` under _attr_key(name) (letter case and blanks dropped), `contains`,
       constructors receiving `self.permission` / `child_permission`;
     - line_to_variables attribute parsing (last of public/private/protected wins);
     - FortranType._initialize / FortranBoundProcedure._initialize (only public/private recognised);
     - FortranCodeUnit.process_attribs (iteration order functions, subroutines, types, interfaces,
       absinterfaces, variables; per item the last access attribute wins; every item of a name
       sees the entry);
     - FortranType.correlate: constructor.permission = type.permission (all_procs look-up);
     - FortranProcedure.permission for procedures of non-generic interface blocks;
     - FortranSubmodule: self.permission = "private" before the loop.
   SPEC   (fortran_perm, fortran_tperms, fortran_perms) is written from the Fortran rules quoted
   in the property text, not from the code.
   Definitions only; proofs are in Sem/AccessProofs.v. *)
From Ford Require Import Base.Str.

(* ------------------------------------------------------------------ data *)

Inductive perm := Public | Private | Protected.

Definition perm_eqb (a b : perm) : bool :=
  match a, b with
  | Public, Public | Private, Private | Protected, Protected => true
  | _, _ => false
  end.

Inductive scope_kind := ScModule | ScSubmodule.

(* interface blocks: `interface name`, `interface operator(..)/assignment(=)`,
   `abstract interface` with one procedure body, nameless `interface` with one procedure body *)
Inductive ikind := IGeneric | IOperator | IAbstract | IExplicit.

Inductive ekind :=
  | KVar | KParam | KType | KSub | KFun | KGeneric | KOperator | KAbstract | KExplicit
  | KComp | KBind
  | KIfProc.   (* the procedure inside an abstract / nameless interface block *)

Definition ekind_eqb (a b : ekind) : bool :=
  match a, b with
  | KVar, KVar | KParam, KParam | KType, KType | KSub, KSub | KFun, KFun | KGeneric, KGeneric
  | KOperator, KOperator | KAbstract, KAbstract | KExplicit, KExplicit | KComp, KComp
  | KBind, KBind | KIfProc, KIfProc => true
  | _, _ => false
  end.

Definition ekind_of_ikind (k : ikind) : ekind :=
  match k with IGeneric => KGeneric | IOperator => KOperator | IAbstract => KAbstract | IExplicit => KExplicit end.

(* statements of a derived-type body; attribute lists are the access keywords among the
   attributes of the declaration, in source order *)
Inductive tstmt :=
  | TDefault (p : perm)                       (* bare public / private / protected *)
  | TComp (n : str) (ats : list perm)         (* integer, <ats> :: n *)
  | TContains
  | TBind (n : str) (ats : list perm).        (* procedure, <ats> :: n => target *)

(* statements of a module / submodule body *)
Inductive sstmt :=
  | SDefault (p : perm)                       (* bare public / private / protected *)
  | SAccess (p : perm) (ns : list str)        (* public :: a, b *)
  | SVar (param : bool) (n : str) (ats : list perm)
  | SType (n : str) (ats : list perm) (tb : list tstmt)
  | SIface (k : ikind) (n : str)
  | SContains
  | SProc (isfun : bool) (n : str).

Record ent := mk_ent { e_kind : ekind; e_owner : str; e_name : str; e_perm : perm }.

Definition ent_eqb (a b : ent) : bool :=
  ekind_eqb (e_kind a) (e_kind b) && str_eqb (e_owner a) (e_owner b)
  && str_eqb (e_name a) (e_name b) && perm_eqb (e_perm a) (e_perm b).

Definition set_perm (e : ent) (p : perm) : ent := mk_ent (e_kind e) (e_owner e) (e_name e) p.

(* ------------------------------------------------------------------ MODEL *)

(* `for attr in ...: permission = attr` *)
Fixpoint last_perm (ats : list perm) (d : perm) : perm :=
  match ats with
  | [] => d
  | a :: r => last_perm r a
  end.

(* FortranType._initialize and FortranBoundProcedure._initialize look for "public"/"private" only *)
Definition is_acc (p : perm) : bool := match p with Protected => false | _ => true end.

(* the loop over a derived-type body: child_permission starts "public", a bare access keyword
   replaces it, `contains` resets it to "public"; a `procedure` line before `contains` does not
   match BOUNDPROC_RE (it needs incontains) and falls through to VARIABLE_RE: a component *)
Fixpoint tscan (owner : str) (child : perm) (inc : bool) (tb : list tstmt) : list ent :=
  match tb with
  | [] => []
  | TDefault p :: r => tscan owner p inc r
  | TComp n ats :: r => mk_ent KComp owner n (last_perm ats child) :: tscan owner child inc r
  | TContains :: r => if inc then tscan owner child inc r else tscan owner Public true r
  | TBind n ats :: r =>
      (if inc then mk_ent KBind owner n (last_perm (filter is_acc ats) child)
       else mk_ent KComp owner n (last_perm ats child)) :: tscan owner child inc r
  end.

Definition is_kind (k : ekind) (e : ent) : bool := ekind_eqb k (e_kind e).

(* type.variables then type.boundprocs *)
Definition tchildren (owner : str) (tb : list tstmt) : list ent :=
  let es := tscan owner Public false tb in filter (is_kind KComp) es ++ filter (is_kind KBind) es.

(* "Multiple CONTAINS statements present" (print_error raises ValueError) *)
Fixpoint tstruct_ok (inc : bool) (tb : list tstmt) : bool :=
  match tb with
  | [] => true
  | TContains :: r => negb inc && tstruct_ok true r
  | _ :: r => tstruct_ok inc r
  end.

(* attr_dict keys, _attr_key(name) = "".join(name.split()).lower(): white space and letter case dropped *)
Definition key (n : str) : str := lower (filter (fun c => negb (is_space c)) n).
(* all_procs keys: name.lower() *)
Definition pkey (n : str) : str := lower n.

(* self.permission after the rest of the lines: the last list-less access statement among them, else cur *)
Fixpoint cur_after (cur : perm) (rest : list sstmt) : perm :=
  match rest with
  | [] => cur
  | SDefault p :: r => cur_after p r
  | _ :: r => cur_after cur r
  end.

(* permission of a declaration: the last access attribute FORD recognises on it; without one, the
   permission inherited at the declaration, overwritten by every later list-less access statement
   (_set_default_permission) *)
Definition decl_perm (ats : list perm) (cur : perm) (rest : list sstmt) : perm :=
  match ats with
  | [] => cur_after cur rest
  | _ => last_perm ats cur
  end.

(* The parsing loop of a module body.  The loop state is (self.permission = child_permission,
   incontains, the entity lists, attr_dict); the two accumulators are independent of each other,
   so they are given as two recursive functions over the same statement list.
   [cur] is self.permission at the current line. *)
Fixpoint scan_ents (cur : perm) (body : list sstmt) : list ent :=
  match body with
  | [] => []
  | SDefault p :: r => scan_ents p r
  | SAccess _ _ :: r => scan_ents cur r
  | SVar pa n ats :: r =>
      mk_ent (if pa then KParam else KVar) [] n (decl_perm ats cur r) :: scan_ents cur r
  | SType n ats tb :: r =>
      mk_ent KType [] n (decl_perm (filter is_acc ats) cur r) :: tchildren n tb ++ scan_ents cur r
  | SIface k n :: r => mk_ent (ekind_of_ikind k) [] n (decl_perm [] cur r) :: scan_ents cur r
  | SContains :: r => scan_ents cur r
  | SProc f n :: r => mk_ent (if f then KFun else KSub) [] n (decl_perm [] cur r) :: scan_ents cur r
  end.

(* attr_dict restricted to the access attributes, as (key, attribute) in statement order *)
Fixpoint scan_attrs (body : list sstmt) : list (str * perm) :=
  match body with
  | [] => []
  | SAccess p ns :: r => map (fun n => (key n, p)) ns ++ scan_attrs r
  | _ :: r => scan_attrs r
  end.

(* "Unexpected SUBROUTINE/FUNCTION" before contains, "Multiple CONTAINS" (ValueError) *)
Fixpoint struct_ok (inc : bool) (body : list sstmt) : bool :=
  match body with
  | [] => true
  | SContains :: r => negb inc && struct_ok true r
  | SProc _ _ :: r => inc && struct_ok inc r
  | SType _ _ tb :: r => tstruct_ok false tb && struct_ok inc r
  | _ :: r => struct_ok inc r
  end.

(* position of an entity list in process_attribs' iteration *)
Definition klass (k : ekind) : nat :=
  match k with
  | KFun => 0
  | KSub => 1
  | KType => 2
  | KGeneric | KOperator | KExplicit => 3
  | KAbstract => 4
  | KVar | KParam => 5
  | KComp | KBind | KIfProc => 6
  end.

Definition of_class (c : nat) (es : list ent) : list ent :=
  filter (fun e => Nat.eqb (klass (e_kind e)) c) es.

Definition ordered (es : list ent) : list ent :=
  of_class 0 es ++ of_class 1 es ++ of_class 2 es ++ of_class 3 es ++ of_class 4 es ++ of_class 5 es.

(* `for attr in attr_dict[k]: if attr in [...]: item.permission = attr` *)
Fixpoint last_for (k : str) (d : list (str * perm)) (dflt : perm) : perm :=
  match d with
  | [] => dflt
  | (k', p) :: r => last_for k r (if str_eqb k k' then p else dflt)
  end.

Definition apply_attrs (items : list ent) (d : list (str * perm)) : list ent :=
  map (fun e => set_perm e (last_for (key (e_name e)) d (e_perm e))) items.

(* all_procs: routines by lower-cased name, then non-abstract interfaces overwrite *)
Definition in_all_procs (e : ent) : bool :=
  match klass (e_kind e) with 0 | 1 | 3 => true | _ => false end.

Fixpoint set_first (k : str) (p : perm) (es : list ent) : list ent :=
  match es with
  | [] => []
  | e :: r =>
      if in_all_procs e && str_eqb k (pkey (e_name e)) then set_perm e p :: r
      else e :: set_first k p r
  end.

(* the dictionary keeps the last writer *)
Definition set_last (k : str) (p : perm) (es : list ent) : list ent := rev (set_first k p (rev es)).

(* FortranType.correlate: if self.name.lower() in all_procs: constructor.permission = self.permission *)
Definition fix_constructors (es : list ent) : list ent :=
  fold_left (fun acc t => set_last (pkey (e_name t)) (e_perm t) acc) (of_class 2 es) es.

(* FortranProcedure.permission: a procedure of a non-generic interface reports parent.permission *)
Definition ifprocs (es : list ent) : list ent :=
  flat_map (fun e => match e_kind e with
                     | KExplicit | KAbstract => [mk_ent KIfProc [] (e_name e) (e_perm e)]
                     | _ => []
                     end) es.

Definition finalize (es : list ent) (d : list (str * perm)) : list ent :=
  let top := fix_constructors (apply_attrs (ordered es) d) in
  top ++ ifprocs top ++ of_class 6 es.

Definition initial_perm (sk : scope_kind) : perm :=
  match sk with ScModule => Public | ScSubmodule => Private end.

(* None = the parser raised (structure error) *)
Definition ford_perms (sk : scope_kind) (body : list sstmt) : option (list ent) :=
  if struct_ok false body
  then Some (finalize (scan_ents (initial_perm sk) body) (scan_attrs body))
  else None.

(* ------------------------------------------------------------------ SPEC *)
(* Written from the Fortran rules:
   - accessibility belongs to the identifier in the scoping unit; blanks and letter case are
     not significant (`operator (+)` and `OPERATOR(+)` are the same generic identifier);
   - the default accessibility of a module is PRIVATE iff a PRIVATE statement without a list
     occurs anywhere in its specification part, else PUBLIC;
   - an access attribute on a declaration of the identifier or an access statement naming it
     overrides the default wherever it stands;
   - PROTECTED is an additional attribute of variables;
   - nothing declared in a submodule is accessible by use association;
   - in a derived type, components are PRIVATE iff a PRIVATE statement occurs in the component
     part, bindings are PRIVATE iff one occurs after CONTAINS; an attribute overrides.
   A single value summarises the answer: Private = not accessible, Protected = accessible and
   protected, Public = accessible. *)

Definition canon (n : str) : str := lower (filter (fun c => negb (is_space c)) n).
Definition same_id (a b : str) : bool := str_eqb (canon a) (canon b).

Definition has (p : perm) (l : list perm) : bool := existsb (perm_eqb p) l.

(* every explicit access / protected keyword given to identifier n in the specification part *)
Fixpoint explicit_specs (n : str) (body : list sstmt) : list perm :=
  match body with
  | [] => []
  | SAccess p ns :: r => (if existsb (same_id n) ns then [p] else []) ++ explicit_specs n r
  | SVar _ m ats :: r => (if same_id n m then ats else []) ++ explicit_specs n r
  | SType m ats _ :: r => (if same_id n m then ats else []) ++ explicit_specs n r
  | _ :: r => explicit_specs n r
  end.

Definition is_bare_private (st : sstmt) : bool :=
  match st with SDefault Private => true | _ => false end.

Definition default_access (body : list sstmt) : perm :=
  if existsb is_bare_private body then Private else Public.

Definition attr_access (ats : list perm) (dflt : perm) : perm :=
  if has Private ats then Private else if has Public ats then Public else dflt.

Definition is_variable (k : ekind) : bool := match k with KVar => true | _ => false end.

Definition fortran_perm (sk : scope_kind) (body : list sstmt) (k : ekind) (n : str) : perm :=
  match sk with
  | ScSubmodule => Private
  | ScModule =>
      let ex := explicit_specs n body in
      match attr_access ex (default_access body) with
      | Private => Private
      | _ => if is_variable k && has Protected ex then Protected else Public
      end
  end.

Fixpoint comp_part (tb : list tstmt) : list tstmt :=
  match tb with
  | [] => []
  | TContains :: _ => []
  | x :: r => x :: comp_part r
  end.
Fixpoint bind_part (tb : list tstmt) : list tstmt :=
  match tb with
  | [] => []
  | TContains :: r => r
  | _ :: r => bind_part r
  end.
Definition is_tprivate (st : tstmt) : bool := match st with TDefault Private => true | _ => false end.
Definition part_default (part : list tstmt) : perm :=
  if existsb is_tprivate part then Private else Public.

Definition fortran_tperms (owner : str) (tb : list tstmt) : list ent :=
  flat_map (fun st => match st with
                      | TComp n ats => [mk_ent KComp owner n (attr_access ats (part_default (comp_part tb)))]
                      | _ => [] end) (comp_part tb)
  ++
  flat_map (fun st => match st with
                      | TBind n ats => [mk_ent KBind owner n (attr_access ats (part_default (bind_part tb)))]
                      | _ => [] end) (bind_part tb).

(* the declared entities of a scope with the accessibility Fortran gives them, in source order
   (components and bindings follow their type) *)
Fixpoint fortran_perms_from (sk : scope_kind) (whole body : list sstmt) : list ent :=
  match body with
  | [] => []
  | SVar pa n _ :: r =>
      let k := if pa then KParam else KVar in
      mk_ent k [] n (fortran_perm sk whole k n) :: fortran_perms_from sk whole r
  | SType n _ tb :: r =>
      mk_ent KType [] n (fortran_perm sk whole KType n) :: fortran_tperms n tb ++ fortran_perms_from sk whole r
  | SIface k n :: r =>
      mk_ent (ekind_of_ikind k) [] n (fortran_perm sk whole (ekind_of_ikind k) n)
      :: match k with
         | IAbstract | IExplicit => [mk_ent KIfProc [] n (fortran_perm sk whole KIfProc n)]
         | _ => []
         end ++ fortran_perms_from sk whole r
  | SProc f n :: r =>
      let k := if f then KFun else KSub in
      mk_ent k [] n (fortran_perm sk whole k n) :: fortran_perms_from sk whole r
  | _ :: r => fortran_perms_from sk whole r
  end.
Definition fortran_perms (sk : scope_kind) (body : list sstmt) : list ent :=
  fortran_perms_from sk body body.

(* ------------------------------------------------------------------ validity (Fortran constraints) *)

Definition is_default (st : sstmt) : bool := match st with SDefault _ => true | _ => false end.
Definition count_defaults (body : list sstmt) : nat := length (filter is_default body).
Definition no_bare_protected (body : list sstmt) : bool :=
  forallb (fun st => match st with SDefault Protected => false | _ => true end) body.

(* at most one access statement without a list, and it is PUBLIC or PRIVATE *)
Definition defaults_valid (body : list sstmt) : bool :=
  (count_defaults body <=? 1) && no_bare_protected body.

(* the identifier is not given both PUBLIC and PRIVATE *)
Definition consistent (n : str) (body : list sstmt) : bool :=
  let ex := explicit_specs n body in negb (has Public ex && has Private ex).

Definition no_access_syntax (body : list sstmt) : bool :=
  forallb (fun st => match st with
                     | SDefault _ | SAccess _ _ => false
                     | SVar _ _ ats | SType _ ats _ => match ats with [] => true | _ => false end
                     | _ => true end) body.

(* derived-type body: PRIVATE statements only, at the head of the component part or right after
   CONTAINS; components before CONTAINS, bindings after; attributes PUBLIC or PRIVATE, not both *)
Definition ok_attrs (ats : list perm) : bool :=
  negb (has Protected ats) && negb (has Public ats && has Private ats).
Fixpoint twf (ph : nat) (tb : list tstmt) : bool :=
  match tb with
  | [] => true
  | TDefault p :: r => perm_eqb p Private && (Nat.eqb ph 0 || Nat.eqb ph 2) && twf ph r
  | TComp _ ats :: r => (ph <=? 1) && ok_attrs ats && twf 1 r
  | TContains :: r => (ph <=? 1) && twf 2 r
  | TBind _ ats :: r => (2 <=? ph) && ok_attrs ats && twf 3 r
  end.

(* ------------------------------------------------------------------ regions *)

Definition declares (n : str) (st : sstmt) : bool :=
  match st with
  | SVar _ m _ | SType m _ _ | SIface _ m | SProc _ m => str_eqb (key n) (key m)
  | _ => false
  end.

(* region 2 (recorded finding): n is given PROTECTED together with an accessibility that FORD's single
   keyword per entity cannot carry: an explicit PUBLIC or PRIVATE, or the PRIVATE default *)
Definition protected_given (n : str) (body : list sstmt) : bool := has Protected (explicit_specs n body).
Definition protected_conflict (n : str) (body : list sstmt) : bool :=
  let ex := explicit_specs n body in
  has Protected ex && (has Public ex || has Private ex || perm_eqb (default_access body) Private).

(* region 4 (no finding — outside C04_partial): the identifier is also declared by ANOTHER statement that
   can carry access attributes (a variable or type declaration).  Entities of kind variable / type may
   have one such declaration, their own; a procedure or interface none — so the constructor interface
   of a derived type lies here (C04_constructor covers it), repeated generic blocks do not. *)
Definition carries_attrs (st : sstmt) : bool :=
  match st with SVar _ _ _ | SType _ _ _ => true | _ => false end.
Definition count_attr_decls (n : str) (body : list sstmt) : nat :=
  length (filter (fun st => declares n st && carries_attrs st) body).
Definition kind_carries (k : ekind) : bool :=
  match k with KVar | KParam | KType => true | _ => false end.
Definition attr_twin (k : ekind) (n : str) (body : list sstmt) : bool :=
  negb (count_attr_decls n body <=? (if kind_carries k then 1 else 0)).

Definition region (body : list sstmt) (k : ekind) (n : str) : nat :=
  (if protected_conflict n body then 2 else 0) + (if attr_twin k n body then 4 else 0).

Definition top_level (e : ent) : bool :=
  match e_kind e with KComp | KBind => false | _ => true end.

(* Fortran constraints on the use of the identifier: what the Spec is defined for *)
Definition valid_for (sk : scope_kind) (body : list sstmt) (k : ekind) (n : str) : bool :=
  match sk with
  | ScSubmodule => no_access_syntax body
  | ScModule =>
      defaults_valid body && consistent n body
      && (negb (protected_given n body) || is_variable k)
  end.
