(* Sem/DeclSpec.v -- the Spec side of the declaration layer of C01: abstract declarations, what
   FORD must report for them (written from the property text and the Fortran rules, not from FORD's
   code), and a renderer whose [spelling] argument chooses among equivalent surface forms:
   letter case, real*8 | real(8) | real(kind=8), the character len/kind forms in every order,
   "double precision" with any number of blanks, optional "::", blanks, DIMENSION attribute vs
   array spec, attribute on the declaration vs separate attribute statement.  Definitions only. *)
From Coq Require Import ZArith.
From Ford Require Import Base.Str Base.StrX Sem.TypeSpec.

(* ------------------------------------------------------------------ abstract types *)
Inductive nbase := BInteger | BReal | BComplex | BLogical.

Inductive atype : Type :=
| ANum (b : nbase) (kind : option str)          (* integer / real / complex / logical [kind] *)
| ADouble                                       (* double precision *)
| ADoubleComplex                                (* double complex *)
| AChar (len kind : option str)                 (* character [len] [kind] *)
| ADerived (is_class : bool) (name : str).      (* type(name) / class(name) *)

Definition base_word (b : nbase) : str :=
  match b with BInteger => s "integer" | BReal => s "real" | BComplex => s "complex" | BLogical => s "logical" end.

(* what must be reported: vartype, kind, length, prototype *)
Definition spec_ptype (t : atype) : str * option str * option str * option (str * str) :=
  match t with
  | ANum b k => (base_word b, k, None, None)
  | ADouble => (s "double precision", None, None, None)
  | ADoubleComplex => (s "double complex", None, None, None)
  | AChar l k => (s "character", k, Some (match l with Some x => x | None => s "1" end), None)
  | ADerived c n => (if c then s "class" else s "type", None, None, Some (n, []))
  end.

(* ------------------------------------------------------------------ spelling of a type spec *)
Record tspell := mkts {
  t_case : list bool;       (* letter case of the type keyword(s): true = upper *)
  t_kcase : list bool;      (* letter case of "kind" / "len" *)
  t_form : nat;             (* numeric kinds: 0 (k), 1 (kind=k), 2 *k;
                               character: 0 *len, 1 positional, 2 len= [, kind=], 3 kind= , len= , 4 len , kind= *)
  t_b1 : nat;               (* blanks between the type word and "(" *)
  t_b2 : nat;               (* blanks just inside the parentheses *)
  t_b3 : nat;               (* blanks around "=" and after "," *)
  t_bstar : nat;            (* blanks after "*" *)
  t_dbl : nat               (* blanks between "double" and "precision" / "complex" *)
}.

Fixpoint recase (m : list bool) (w : str) : str :=
  match w with
  | [] => []
  | c :: w' =>
    match m with
    | b :: m' => (if b then upper_ch c else c) :: recase m' w'
    | [] => c :: recase [] w'
    end
  end.

Definition blanks (n : nat) : str := repeat c_sp n.
Definition all_digits (x : str) : bool := match x with [] => false | _ => forallb is_digit x end.

Definition paren (sp : tspell) (inner : str) : str :=
  blanks (t_b1 sp) ++ [c_lpar] ++ blanks (t_b2 sp) ++ inner ++ blanks (t_b2 sp) ++ [c_rpar].
Definition keyeq (sp : tspell) (key value : str) : str :=
  recase (t_kcase sp) key ++ blanks (t_b3 sp) ++ [c_eq] ++ blanks (t_b3 sp) ++ value.
Definition comma (sp : tspell) : str := c_comma :: blanks (t_b3 sp).

Definition render_type (sp : tspell) (t : atype) : str :=
  match t with
  | ANum b None => recase (t_case sp) (base_word b)
  | ANum b (Some k) =>
    recase (t_case sp) (base_word b) ++
    match t_form sp with
    | 0 => paren sp k
    | 1 => paren sp (keyeq sp (s "kind") k)
    | _ => c_star :: blanks (t_bstar sp) ++ k
    end
  | ADouble => recase (t_case sp) (s "double") ++ blanks (t_dbl sp) ++ recase (skipn 6 (t_case sp)) (s "precision")
  | ADoubleComplex => recase (t_case sp) (s "double") ++ blanks (t_dbl sp) ++ recase (skipn 6 (t_case sp)) (s "complex")
  | AChar None None => recase (t_case sp) (s "character")
  | AChar None (Some k) => recase (t_case sp) (s "character") ++ paren sp (keyeq sp (s "kind") k)
  | AChar (Some l) None =>
    recase (t_case sp) (s "character") ++
    match t_form sp with
    | 0 => c_star :: blanks (t_bstar sp) ++ (if all_digits l then l else c_lpar :: l ++ [c_rpar])
    | 1 => paren sp l
    | _ => paren sp (keyeq sp (s "len") l)
    end
  | AChar (Some l) (Some k) =>
    recase (t_case sp) (s "character") ++
    match t_form sp with
    | 0 | 1 => paren sp (l ++ comma sp ++ k)
    | 2 => paren sp (keyeq sp (s "len") l ++ comma sp ++ keyeq sp (s "kind") k)
    | 3 => paren sp (keyeq sp (s "kind") k ++ comma sp ++ keyeq sp (s "len") l)
    | _ => paren sp (l ++ comma sp ++ keyeq sp (s "kind") k)
    end
  | ADerived c n => recase (t_case sp) (if c then s "class" else s "type") ++ paren sp n
  end.

(* ------------------------------------------------------------------ declarations *)
Inductive itoken := IText (x : str) | ILit (q : ascii) (body : str).   (* body: between the quotes *)

Record aentity := mkent {
  e_name : str;
  e_dim : option str;               (* array spec without blanks, e.g. "(3)", "(0:4,2)" *)
  e_points : bool;                  (* "=>" initialisation *)
  e_init : option (list itoken)
}.

Inductive aintent := IIn | IOut | IInOut.
Definition intent_word (i : aintent) : str :=
  match i with IIn => s "in" | IOut => s "out" | IInOut => s "inout" end.

Record adecl := mkdecl {
  d_type : atype;
  d_parameter : bool;
  d_intent : option aintent;
  d_optional : bool;
  d_attrs : list str;               (* further attributes, lower case: allocatable pointer target save ... *)
  d_entities : list aentity
}.

Definition token_text (t : itoken) : str :=
  match t with IText x => x | ILit q b => q :: b ++ [q] end.

(* the initial value as it must be reported: the expression without blanks, ", " after commas,
   character literals verbatim (FORD substitutes U+00A0 for blanks in runs so that HTML keeps them) *)
Definition spec_token (t : itoken) : str :=
  match t with IText x => comma_space x | ILit q b => nbsp_runs (q :: b ++ [q]) end.
Definition spec_init (ts : list itoken) : str := concat (map spec_token ts).

Definition spec_var (d : adecl) (permission : str) (e : aentity) : var :=
  let '(vt, k, l, p) := spec_ptype (d_type d) in
  mkvar (e_name e) vt k l p (d_attrs d)
        (match d_intent d with Some i => intent_word i | None => [] end)
        (d_optional d) permission (d_parameter d) (e_points e)
        (option_map spec_init (e_init e))
        (match e_dim e with Some x => x | None => [] end).
Definition spec_vars (d : adecl) (permission : str) : list var := map (spec_var d permission) (d_entities d).

Record dspell := mkds {
  ds_type : tspell;
  ds_dcolon : bool;            (* write "::" when it is optional *)
  ds_dimattr : bool;           (* array spec of a single entity written as DIMENSION attribute *)
  ds_acase : list bool;        (* letter case of attribute keywords *)
  ds_ablank : nat;             (* blanks inside attributes: "intent ( in )", "dimension (3)" *)
  ds_inout_blank : bool;       (* "in out" *)
  ds_sep : nat                 (* blanks after commas, around "::", "=" and between tokens *)
}.

Definition render_intent (sp : dspell) (i : aintent) : str :=
  recase (ds_acase sp) (s "intent") ++ blanks (ds_ablank sp) ++ [c_lpar] ++ blanks (ds_ablank sp) ++
  (match i with
   | IInOut => if ds_inout_blank sp then recase (ds_acase sp) (s "in") ++ [c_sp] ++ recase (ds_acase sp) (s "out")
               else recase (ds_acase sp) (s "inout")
   | _ => recase (ds_acase sp) (intent_word i)
   end) ++ blanks (ds_ablank sp) ++ [c_rpar].

Definition dim_attr_of (sp : dspell) (d : adecl) : option str :=
  match d_entities d with
  | [e] => if ds_dimattr sp then e_dim e else None
  | _ => None
  end.

Definition render_attrs (sp : dspell) (d : adecl) : list str :=
  (if d_parameter d then [recase (ds_acase sp) (s "parameter")] else []) ++
  (match d_intent d with Some i => [render_intent sp i] | None => [] end) ++
  (if d_optional d then [recase (ds_acase sp) (s "optional")] else []) ++
  map (recase (ds_acase sp)) (d_attrs d) ++
  (match dim_attr_of sp d with
   | Some dim => [recase (ds_acase sp) (s "dimension") ++ blanks (ds_ablank sp) ++ dim]
   | None => []
   end).

Definition render_init (sp : dspell) (ts : list itoken) : str :=
  join (blanks (ds_sep sp)) (map token_text ts).

Definition render_entity (sp : dspell) (dimattr : bool) (e : aentity) : str :=
  e_name e ++ (if dimattr then [] else match e_dim e with Some x => x | None => [] end) ++
  match e_init e with
  | Some ts => blanks (ds_sep sp) ++ (if e_points e then s "=>" else [c_eq]) ++ blanks (ds_sep sp) ++ render_init sp ts
  | None => []
  end.

Definition needs_dcolon (sp : dspell) (d : adecl) : bool :=
  match render_attrs sp d with _ :: _ => true | [] => existsb (fun e => match e_init e with Some _ => true | None => false end) (d_entities d) end.

Definition render_decl (sp : dspell) (d : adecl) : str :=
  let attrs := render_attrs sp d in
  let dimattr := match dim_attr_of sp d with Some _ => true | None => false end in
  render_type (ds_type sp) (d_type d) ++
  concat (map (fun a => c_comma :: blanks (ds_sep sp) ++ a) attrs) ++
  (if needs_dcolon sp d || ds_dcolon sp then blanks (ds_sep sp) ++ s "::" ++ blanks (ds_sep sp) else [c_sp]) ++
  join (c_comma :: blanks (ds_sep sp)) (map (render_entity sp dimattr) (d_entities d)).

(* ------------------------------------------------------------------ regions of the recorded findings *)
Definition is_lower_mask (m : list bool) : bool := negb (existsb (fun b => b) m).

(* region of a declaration spelling, 0 = none:
   5  an attribute kept among the attributes is written with capitals
   7  array spec written as DIMENSION attribute *)
Definition decl_region (sp : dspell) (d : adecl) : nat :=
  match dim_attr_of sp d with
  | Some _ => 7
  | None =>
    match d_attrs d with
    | _ :: _ => if is_lower_mask (ds_acase sp) then 0 else 5
    | [] => 0
    end
  end.

(* ------------------------------------------------------------------ well-formedness *)
(* parentheses and brackets nest properly from the open counts (l, b) *)
Fixpoint bal (l b : nat) (x : str) : bool :=
  match x with
  | [] => (l =? 0) && (b =? 0)
  | c :: r =>
    if Ascii.eqb c c_lpar then bal (S l) b r
    else if Ascii.eqb c c_rpar then match l with S l' => bal l' b r | O => false end
    else if Ascii.eqb c c_lbr then bal l (S b) r
    else if Ascii.eqb c c_rbr then match b with S b' => bal l b' r | O => false end
    else bal l b r
  end.
Definition balanced_go (x : str) : bool := bal 0 0 x.

(* a kind / length expression: not empty, no white space, no quote, no "=", balanced *)
Definition expr_ok (x : str) : bool :=
  match x with
  | [] => false
  | _ => negb (existsb is_space x) && negb (existsb is_quote x) && negb (existsb (Ascii.eqb c_eq) x)
         && balanced_go x
  end.
Definition ident_ok (x : str) : bool :=
  match x with c :: _ => is_alpha c && forallb is_word x | [] => false end.

Definition has_comma (x : str) : bool := existsb (Ascii.eqb c_comma) x.

Definition type_ok (sp : tspell) (t : atype) : bool :=
  match t with
  | ANum _ None | ADouble | ADoubleComplex | AChar None None => true
  | ANum _ (Some k) => expr_ok k && (if 2 <=? t_form sp then all_digits k else true)
  | AChar None (Some k) => expr_ok k && negb (has_comma k)
  | AChar (Some l) None => expr_ok l && negb (has_comma l)
  | AChar (Some l) (Some k) => expr_ok l && expr_ok k && negb (has_comma l) && negb (has_comma k)
  | ADerived _ n => ident_ok n
  end.

(* ------------------------------------------------------------------ program units *)
Record aunit := mkau {
  au_kind : unit_kind;
  au_name : str;
  au_prefix : list str;             (* pure, elemental, recursive, impure, non_recursive, module *)
  au_args : list str;               (* dummy arguments, in order *)
  au_result : option str;           (* RESULT clause *)
  au_rettype : option atype;        (* result type when it is written in the prefix *)
  au_decls : list adecl             (* specification part *)
}.

Record uspell := mkus {
  us_kwcase : list bool;            (* letter case of subroutine / function / result / end / prefixes *)
  us_decls : list dspell;           (* spelling of declaration i (the last one is reused) *)
  us_stmt : list bool;              (* attributes of declaration i as separate attribute statements *)
  us_dimstmt : list bool;           (* array specs of declaration i as a DIMENSION statement *)
  us_stmt_dcolon : bool;            (* "::" in attribute statements *)
  us_rettype : tspell;              (* spelling of the result type in the prefix *)
  us_argblank : nat                 (* blanks around the dummy argument names *)
}.

Definition plain_tspell : tspell := mkts [] [] 0 0 0 0 0 1.
Definition plain_dspell : dspell := mkds plain_tspell true false [] 0 false 1.

Fixpoint nth_or_last {A} (l : list A) (n : nat) (d : A) : A :=
  match l, n with
  | [], _ => d
  | [x], _ => x
  | x :: _, O => x
  | _ :: l', S n' => nth_or_last l' n' d
  end.

Definition unit_word (k : unit_kind) : str :=
  match k with UModule => s "module" | USubroutine => s "subroutine" | UFunction => s "function" end.

Definition render_header (sp : uspell) (u : aunit) : str :=
  let kw := recase (us_kwcase sp) in
  let b := blanks (us_argblank sp) in
  match au_kind u with
  | UModule => kw (s "module") ++ [c_sp] ++ au_name u
  | k =>
    concat (map (fun p => kw p ++ [c_sp]) (au_prefix u)) ++
    (match au_rettype u with Some t => render_type (us_rettype sp) t ++ [c_sp] | None => [] end) ++
    kw (unit_word k) ++ [c_sp] ++ au_name u ++ [c_lpar] ++
    join [c_comma] (map (fun a => b ++ a ++ b) (au_args u)) ++ [c_rpar] ++
    (match au_result u with
     | Some r => [c_sp] ++ kw (s "result") ++ [c_lpar] ++ r ++ [c_rpar]
     | None => []
     end)
  end.

Definition render_end (sp : uspell) (u : aunit) : str :=
  recase (us_kwcase sp) (s "end") ++ [c_sp] ++ recase (us_kwcase sp) (unit_word (au_kind u)) ++ [c_sp] ++ au_name u.

Definition has_dims (d : adecl) : bool := existsb (fun e => match e_dim e with Some _ => true | None => false end) (d_entities d).

(* the declaration that remains when attributes (and array specs) are written as statements *)
Definition strip_decl (stmt dimstmt : bool) (d : adecl) : adecl :=
  let ents := map (fun e => mkent (e_name e) (if dimstmt then None else e_dim e) (e_points e)
                                  (if stmt && d_parameter d then None else e_init e)) (d_entities d) in
  if stmt then mkdecl (d_type d) false None false [] ents
  else mkdecl (d_type d) (d_parameter d) (d_intent d) (d_optional d) (d_attrs d) ents.

Definition stmt_sep (sp : uspell) : str := if us_stmt_dcolon sp then s " :: " else [c_sp].
Definition names_of (d : adecl) : str := join (s ", ") (map e_name (d_entities d)).

Definition attr_statements (sp : uspell) (dsp : dspell) (d : adecl) : list str :=
  (if d_parameter d
   then [recase (ds_acase dsp) (s "parameter") ++ s " (" ++
         join (s ", ") (map (fun e => e_name e ++ s " = " ++
                                      match e_init e with Some ts => render_init dsp ts | None => [] end)
                            (d_entities d)) ++ s ")"]
   else []) ++
  (match d_intent d with Some i => [render_intent dsp i ++ stmt_sep sp ++ names_of d] | None => [] end) ++
  (if d_optional d then [recase (ds_acase dsp) (s "optional") ++ stmt_sep sp ++ names_of d] else []) ++
  map (fun a => recase (ds_acase dsp) a ++ stmt_sep sp ++ names_of d) (d_attrs d).

Definition dim_statement (sp : uspell) (dsp : dspell) (d : adecl) : list str :=
  if has_dims d then
    [recase (ds_acase dsp) (s "dimension") ++ stmt_sep sp ++
     join (s ", ") (map (fun e => e_name e ++ match e_dim e with Some x => x | None => [] end)
                        (filter (fun e => match e_dim e with Some _ => true | None => false end) (d_entities d)))]
  else [].

Fixpoint render_body (sp : uspell) (ds : list adecl) (i : nat) : list str :=
  match ds with
  | [] => []
  | d :: ds' =>
    let dsp := nth_or_last (us_decls sp) i plain_dspell in
    let stmt := nth i (us_stmt sp) false in
    let dimstmt := nth i (us_dimstmt sp) false && has_dims d in
    (render_decl dsp (strip_decl stmt dimstmt d)
     :: (if dimstmt then dim_statement sp dsp d else [])
     ++ (if stmt then attr_statements sp dsp d else []))
    ++ render_body sp ds' (S i)
  end.

Definition render_unit (sp : uspell) (u : aunit) : str * list str * str :=
  (render_header sp u, render_body sp (au_decls u) 0, render_end sp u).

(* ---- what must be reported *)
Fixpoint find_var (name : str) (vars : list var) : option var :=
  match vars with
  | [] => None
  | v :: vs => if seqb name (v_name v) then Some v else find_var name vs
  end.

Definition spec_implicit (name : str) : var :=
  mkvar name (match name with
              | c :: _ => if existsb (Ascii.eqb (lower_ch c)) (s "ijklmn") then s "integer" else s "real"
              | [] => s "real"
              end) None None None [] [] false (s "public") false false None [].

Definition spec_unit (u : aunit) : unit_out :=
  let all := concat (map (fun d => spec_vars d (s "public")) (au_decls u)) in
  let args := map (fun a => match find_var a all with Some v => v | None => spec_implicit a end) (au_args u) in
  let rname := match au_result u with Some r => r | None => au_name u end in
  let ret :=
    match au_kind u with
    | UFunction =>
      Some (match au_rettype u with
            | Some t => let '(vt, k, l, p) := spec_ptype t in
                        mkvar rname vt k l p [] [] false (s "public") false false None []
            | None => match find_var rname all with Some v => v | None => spec_implicit rname end
            end)
    | _ => None
    end in
  let is_arg (v : var) := sin (v_name v) (au_args u) in
  let is_ret (v : var) := match au_kind u, au_rettype u with
                          | UFunction, None => seqb (v_name v) rname
                          | _, _ => false
                          end in
  mkuo (filter (fun w => sin w (au_prefix u)) proc_keywords)
       args ret (filter (fun v => negb (is_arg v) && negb (is_ret v)) all).

(* ---- regions of the recorded findings at unit level: 10 DIMENSION statement (the array spec is
   reported as attribute text, like the DIMENSION attribute on the declaration) *)

(* region of declaration number i of the unit, with its attribute / DIMENSION statements *)
Definition decl_here (sp : uspell) (u : aunit) (i : nat) (d : adecl) : nat :=
  let dsp := nth_or_last (us_decls sp) i plain_dspell in
  let stmt := nth i (us_stmt sp) false in
  let dimstmt := nth i (us_dimstmt sp) false && has_dims d in
  if dimstmt then 10 else decl_region dsp (strip_decl stmt dimstmt d).

Fixpoint body_region (sp : uspell) (u : aunit) (ds : list adecl) (i : nat) : nat :=
  match ds with
  | [] => 0
  | d :: ds' => match decl_here sp u i d with 0 => body_region sp u ds' (S i) | r => r end
  end.

(* region of the declaration that declares [name] (0 when there is none) *)
Fixpoint region_of_name (sp : uspell) (u : aunit) (ds : list adecl) (i : nat) (name : str) : nat :=
  match ds with
  | [] => 0
  | d :: ds' =>
    if existsb (fun e => seqb (e_name e) name) (d_entities d) then decl_here sp u i d
    else region_of_name sp u ds' (S i) name
  end.

Definition unit_region (sp : uspell) (u : aunit) : nat := body_region sp u (au_decls u) 0.
