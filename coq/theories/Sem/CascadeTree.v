(* Sem/CascadeTree.v -- the statement loop on TEXT: Sem/Tree.v's structural parser with the statement
   kind of every logical line decided by Sem/Cascade.v's [classify] in the state the parser is in
   (kind of the open container, after CONTAINS, block level zero).  Together the two models cover
   FortranContainer.__init__ from the lines the reader delivers to the entity tree.
   Executable definitions only. *)
From Ford Require Import Base.Str Base.StrX Sem.Tree Sem.TypeSpec Sem.CascadeTypes Sem.Cascade.

Definition ctx_of (k : ckind) (st : cstate) : ctx :=
  mkctx k (cs_incontains st) (match cs_block st, cs_negblock st with 0, 0 => true | _, _ => false end).

(* read_docstring: the contiguous documentation lines that follow *)
Definition doc_text (line : str) : option str :=
  if prefix (s "!!") line then Some (skipn 2 line) else None.
Fixpoint take_docs_text (l : list str) : list str * list str :=
  match l with
  | x :: l' =>
    match doc_text x with
    | Some d => let (ds, r) := take_docs_text l' in (d :: ds, r)
    | None => ([], l)
    end
  | [] => ([], [])
  end.

Inductive tres :=
| TErr (e : perr)
| TUnmod                       (* a line outside the classification model *)
| TOk (e : ent) (rest : list str).

Fixpoint parse_lines (fuel : nat) (k : ckind) (name : str) (abstract generic : bool)
         (st : cstate) (l : list str) : tres :=
  match fuel with
  | 0 => TErr EFuel
  | S f =>
    let finish := Container k name abstract generic (cs_docs st) (cs_children st) in
    let continue_with st' l' := parse_lines f k name abstract generic st' l' in
    let add es st := {| cs_incontains := cs_incontains st; cs_block := cs_block st; cs_negblock := cs_negblock st;
                        cs_docs := cs_docs st; cs_children := cs_children st ++ es |} in
    match l with
    | [] => match k with KFile => TOk finish [] | _ => TErr ENested end
    | line :: l' =>
      match classify (ctx_of k st) line with
      | Unmod => TUnmod
      | Fired _ stm =>
        match stm with
        | SDoc t =>
          continue_with {| cs_incontains := cs_incontains st; cs_block := cs_block st; cs_negblock := cs_negblock st;
                           cs_docs := cs_docs st ++ [t]; cs_children := cs_children st |} l'
        | SContains =>
          continue_with {| cs_incontains := cs_incontains st || can_contain k; cs_block := cs_block st;
                           cs_negblock := cs_negblock st; cs_docs := cs_docs st; cs_children := cs_children st |} l'
        | SNoop => continue_with st l'
        | SBlock =>
          continue_with (match cs_negblock st with
                         | 0 => {| cs_incontains := cs_incontains st; cs_block := S (cs_block st); cs_negblock := 0;
                                   cs_docs := cs_docs st; cs_children := cs_children st |}
                         | S n => {| cs_incontains := cs_incontains st; cs_block := 0; cs_negblock := n;
                                     cs_docs := cs_docs st; cs_children := cs_children st |}
                         end) l'
        | SEnd e =>
          match k with
          | KFile => TErr EEndAtFile
          | _ =>
            match e with
            | EndBlock =>
              continue_with (match cs_block st with
                             | 0 => {| cs_incontains := cs_incontains st; cs_block := 0; cs_negblock := S (cs_negblock st);
                                       cs_docs := cs_docs st; cs_children := cs_children st |}
                             | S n => {| cs_incontains := cs_incontains st; cs_block := n; cs_negblock := cs_negblock st;
                                         cs_docs := cs_docs st; cs_children := cs_children st |}
                             end) l'
            | EndAssociate => continue_with st l'
            | EndPlain =>
              match cs_block st, cs_negblock st with
              | 0, 0 => TOk finish l'
              | _, _ => continue_with st l'
              end
            end
          end
        | SUnit c cname =>
          let at_level0 := match cs_block st, cs_negblock st with 0, 0 => true | _, _ => false end in
          let guarded := match c with KType | KEnum => negb at_level0 | _ => false end in
          let before_contains := match c with KSubroutine | KFunction => is_codeunit k && negb (cs_incontains st) | _ => false end in
          if guarded || before_contains || negb (accepts_unit k c) then continue_with st l'
          else
            let (d, l1) := take_docs_text l' in
            match parse_lines f c cname false false
                    {| cs_incontains := false; cs_block := 0; cs_negblock := 0; cs_docs := d; cs_children := [] |} l1 with
            | TOk child rest => continue_with (add [child] st) rest
            | other => other
            end
        | SModProcImpl cname =>
          if negb (accepts_unit k KModProcImpl) then continue_with st l'
          else
            let (d, l1) := take_docs_text l' in
            match parse_lines f KModProcImpl cname false false
                    {| cs_incontains := false; cs_block := 0; cs_negblock := 0; cs_docs := d; cs_children := [] |} l1 with
            | TOk child rest => continue_with (add [child] st) rest
            | other => other
            end
        | SIface abstract' iname =>
          let at_level0 := match cs_block st, cs_negblock st with 0, 0 => true | _, _ => false end in
          if negb at_level0 || negb (accepts_unit k KInterface) then continue_with st l'
          else
            let (d, l1) := take_docs_text l' in
            let generic' := match iname with [] => false | _ => true end in
            match parse_lines f KInterface iname abstract' generic'
                    {| cs_incontains := false; cs_block := 0; cs_negblock := 0; cs_docs := d; cs_children := [] |} l1 with
            | TOk child rest => continue_with (add (flatten_iface child) st) rest
            | other => other
            end
        | SLeaf lk names =>
          let at_level0 := match cs_block st, cs_negblock st with 0, 0 => true | _, _ => false end in
          let guarded := match lk with
                         | LVariable => negb at_level0
                         | LBoundProc | LFinal => negb (cs_incontains st)
                         | _ => false
                         end in
          if guarded || negb (accepts_leaf k lk) then continue_with st l'
          else
            let (d, l1) := take_docs_text l' in
            continue_with (add (leaf_ents lk names d) st) l1
        end
      end
    end
  end.

Definition parse_text (fname : str) (lines : list str) : tres :=
  parse_lines (S (length lines)) KFile fname false false
    {| cs_incontains := false; cs_block := 0; cs_negblock := 0; cs_docs := []; cs_children := [] |} lines.
