(* Sem/CallsStmt.v — segments and statements: their parenthesis trees, the text of one level and
   what the CALL_RE scan finds in it (towards C08_raw). *)
From Coq Require Import Lia.
From Ford Require Import Base.Str Base.StrFacts Gen.Intrinsics Sem.Calls Sem.CallsSpec Sem.CallsDefs Sem.CallsStrip Sem.CallsScan.

(* ------------------------------------------------------------------ first character that is not white space *)
Definition fns (x : str) : option ascii := match lstrip_s x with c :: _ => Some c | [] => None end.

Lemma lstrip_s_cons c x : lstrip_s (c :: x) = if is_space c then lstrip_s x else c :: x.
Proof. unfold lstrip_s. cbn [span]. destruct (is_space c); [|reflexivity]. now destruct (span is_space x). Qed.

Lemma fns_app a b : fns (a ++ b) = match fns a with Some c => Some c | None => fns b end.
Proof.
  unfold fns. induction a as [|c a IH]; [reflexivity|].
  cbn [app]. rewrite !lstrip_s_cons. destruct (is_space c); [exact IH|reflexivity].
Qed.

Lemma fns_word c x : is_word c = true -> fns (c :: x) = Some c.
Proof. intros W. unfold fns. rewrite lstrip_s_cons, (word_not_space c W). reflexivity. Qed.

Lemma fns_name x y : name_ok x = true -> exists c, fns (x ++ y) = Some c /\ is_word c = true.
Proof.
  intros H. destruct (wordy_hd x (name_wordy x H)) as (c & w & -> & W). exists c. split; [|exact W].
  cbn [app]. now apply fns_word.
Qed.

Lemma lstrip_eq x : lstrip x = lstrip_s x.
Proof. induction x as [|c x IH]; [reflexivity|]. rewrite lstrip_s_cons. cbn [lstrip]. now rewrite IH. Qed.

Lemma fns_inert_ok b t c : inert_from b t = true -> fns t = Some c -> Ascii.eqb c lpar = false /\ Ascii.eqb c pct = false.
Proof.
  revert b. induction t as [|a t IH]; intros b Hin Hf; [discriminate|].
  unfold fns in Hf. rewrite lstrip_s_cons in Hf. cbn [inert_from] in Hin.
  destruct (is_space a) eqn:Sa.
  - assert (Wa : is_word a = false) by (destruct (is_word a) eqn:W; [apply word_not_space in W; congruence|reflexivity]).
    rewrite Wa in Hin. destruct (bad_char a); [discriminate|]. destruct (b && true); [discriminate|].
    exact (IH false Hin Hf).
  - injection Hf as <-. destruct (is_word a) eqn:Wa.
    + split; [now apply word_not_lpar|now apply word_not_pct].
    + destruct (bad_char a) eqn:Ba; [discriminate|]. destruct (bad_cases a Ba) as (B1 & _ & B3 & _). now split.
Qed.

Lemma fns_none_nospace t : existsb is_space t = false -> fns t = None -> t = [].
Proof.
  destruct t as [|c t]; [reflexivity|]. cbn [existsb]. intros H. apply orb_false_iff in H as [H _].
  unfold fns. rewrite lstrip_s_cons, H. discriminate.
Qed.

Lemma fns_has_nonspace t : has_nonspace t = true -> fns t <> None.
Proof.
  induction t as [|c t IH]; [discriminate|]. cbn [has_nonspace existsb]. unfold fns. rewrite lstrip_s_cons.
  destruct (is_space c); cbn [negb orb]; intros H; [exact (IH H)|discriminate].
Qed.

Lemma lit_nospace t : lit_ok t = true -> existsb is_space t = false.
Proof. unfold lit_ok. intros H. apply andb_true_iff in H as [_ H]. now apply negb_true_iff in H. Qed.

Lemma op_has_nonspace op : op_ok op = true -> has_nonspace op = true.
Proof. unfold op_ok. intros H. now apply andb_true_iff in H as [_ H]. Qed.
Lemma unop_has_nonspace op : unop_ok op = true -> has_nonspace op = true.
Proof. unfold unop_ok. intros H. apply andb_true_iff in H as [H _]. now apply andb_true_iff in H as [_ H]. Qed.

Lemma sh_d_fns d y : wf_d d = true -> exists c, fns (sh_d d ++ y) = Some c /\ is_word c = true.
Proof.
  intros H. destruct (wf_d_head d H) as (c & z & E & W). exists c. rewrite E. cbn [app]. split; [now apply fns_word|exact W].
Qed.
Lemma render_d_fns d y : wf_d d = true -> exists c, fns (render_d d ++ y) = Some c /\ is_word c = true.
Proof.
  intros H. pose proof (wf_d_name d H) as Hn.
  destruct d as [x|x a|x r|x a r]; cbn [render_d]; rewrite <- ?app_assoc.
  - now apply fns_name.
  - destruct Hn as [Hx _]. now apply fns_name.
  - destruct Hn as [Hx _]. now apply fns_name.
  - destruct Hn as [Hx _]. now apply fns_name.
Qed.

(* the level-0 text and the full text of an expression start alike *)
Lemma e_fns_same e : wf_e e = true -> fns (sh_e e) = fns (render_e e).
Proof.
  induction e as [t|d|e IH|op e IH|a IHa op b IHb]; intros Hwf; cbn [wf_e sh_e render_e] in *.
  - reflexivity.
  - destruct (sh_d_fns d [] Hwf) as (c & E1 & W1). destruct (render_d_fns d [] Hwf) as (c' & E2 & W2).
    rewrite app_nil_r in *. rewrite E1, E2.
    destruct (wf_d_head d Hwf) as (c0 & z & E & W). rewrite E in E1. rewrite (fns_word c0 z W) in E1. injection E1 as <-.
    pose proof (wf_d_name d Hwf) as Hn.
    assert (Hx : forall x y, name_ok x = true -> sh_d d = x ++ y -> forall y', fns (x ++ y') = Some c0).
    { intros x y Hx Ed y'. destruct (wordy_hd x (name_wordy x Hx)) as (c1 & w & -> & W1'). cbn [app] in *.
      rewrite E in Ed. injection Ed as -> _. now apply fns_word. }
    destruct d as [x|x a|x r|x a r]; cbn [render_d sh_d] in *.
    + rewrite E in E2. rewrite (fns_word c0 z W) in E2. now injection E2 as <-.
    + destruct Hn as [Hn _]. rewrite (Hx x _ Hn eq_refl) in E2. now injection E2 as <-.
    + destruct Hn as [Hn _]. rewrite (Hx x _ Hn eq_refl) in E2. now injection E2 as <-.
    + destruct Hn as [Hn _]. rewrite (Hx x _ Hn eq_refl) in E2. now injection E2 as <-.
  - reflexivity.
  - apply andb_true_iff in Hwf as [_ He]. rewrite !fns_app, (IH He). reflexivity.
  - apply andb_true_iff in Hwf as [Hwf Hb]. apply andb_true_iff in Hwf as [Ha _].
    rewrite !fns_app, (IHa Ha), (IHb Hb). reflexivity.
Qed.

Lemma e_fns_ok e c : wf_e e = true -> fns (sh_e e) = Some c -> Ascii.eqb c pct = false.
Proof.
  revert c. induction e as [t|d|e IH|op e IH|a IHa op b IHb]; intros c Hwf Hf; cbn [wf_e sh_e] in *.
  - exact (proj2 (fns_inert_ok false t c (lit_ok_inert t Hwf) Hf)).
  - destruct (sh_d_fns d [] Hwf) as (c' & E & W). rewrite app_nil_r in E. rewrite E in Hf. injection Hf as <-.
    now apply word_not_pct.
  - unfold fns in Hf. cbn in Hf. now injection Hf as <-.
  - apply andb_true_iff in Hwf as [Hop He]. rewrite fns_app in Hf.
    destruct (fns op) as [c'|] eqn:Eo.
    + injection Hf as <-. exact (proj2 (fns_inert_ok false op c' (unop_ok_inert op Hop) Eo)).
    + exfalso. exact (fns_has_nonspace op (unop_has_nonspace op Hop) Eo).
  - apply andb_true_iff in Hwf as [Hwf Hb]. apply andb_true_iff in Hwf as [Ha Hop].
    rewrite !fns_app in Hf. destruct (fns (sh_e a)) as [ca|] eqn:Ea.
    + injection Hf as <-. now apply IHa.
    + destruct (fns op) as [c'|] eqn:Eo.
      * injection Hf as <-. exact (proj2 (fns_inert_ok false op c' (op_ok_inert op Hop) Eo)).
      * exfalso. exact (fns_has_nonspace op (op_has_nonspace op Hop) Eo).
Qed.

Lemma e_fns_none e : wf_e e = true -> fns (sh_e e) = None -> render_e e = [].
Proof.
  induction e as [t|d|e IH|op e IH|a IHa op b IHb]; intros Hwf Hf; cbn [wf_e sh_e render_e] in *.
  - exact (fns_none_nospace t (lit_nospace t Hwf) Hf).
  - destruct (sh_d_fns d [] Hwf) as (c' & E & W). rewrite app_nil_r in E. congruence.
  - discriminate.
  - apply andb_true_iff in Hwf as [Hop He]. rewrite fns_app in Hf.
    destruct (fns op) eqn:Eo; [discriminate|]. exfalso. exact (fns_has_nonspace op (unop_has_nonspace op Hop) Eo).
  - apply andb_true_iff in Hwf as [Hwf Hb]. apply andb_true_iff in Hwf as [Ha Hop].
    rewrite !fns_app in Hf. destruct (fns (sh_e a)); [discriminate|].
    destruct (fns op) eqn:Eo; [discriminate|]. exfalso. exact (fns_has_nonspace op (op_has_nonspace op Hop) Eo).
Qed.




Definition tree_seg (g : seg) : ptree :=
  match g with
  | GWord w => pt_str w
  | GKw kw sp c => pt_app (pt_str (kw ++ kw_sp sp)) (PGrp (tree_e c) PNil)
  | GExpr e => tree_e e
  end.
Fixpoint tree_segs (gs : list seg) : ptree :=
  match gs with
  | [] => PNil
  | [g] => tree_seg g
  | g :: gs' => pt_app (tree_seg g) (PCh space (tree_segs gs'))
  end.

Definition seg_heads (g : seg) : list str :=
  match g with GWord _ => [] | GKw kw sp _ => [kw ++ kw_sp sp ++ par2] | GExpr e => e_heads e end.

Lemma tree_seg_flat g : flat (tree_seg g) = render_seg g.
Proof.
  destruct g as [w|kw sp c|e]; cbn [tree_seg render_seg].
  - apply flat_str.
  - rewrite flat_app, flat_str. cbn [flat]. rewrite (proj1 tree_flat).
    unfold kw_sp. rewrite <- app_assoc. reflexivity.
  - apply (proj1 tree_flat).
Qed.
Lemma tree_seg_shallow g : shallow (tree_seg g) = sh_seg g.
Proof.
  destruct g as [w|kw sp c|e]; cbn [tree_seg sh_seg].
  - apply shallow_str.
  - rewrite shallow_app, shallow_str. cbn [shallow]. unfold par2. now rewrite <- app_assoc.
  - apply (proj1 tree_shallow).
Qed.
Lemma tree_seg_groups g : groups (tree_seg g) = map tree_e (subs_seg g).
Proof.
  destruct g as [w|kw sp c|e]; cbn [tree_seg subs_seg].
  - apply groups_str.
  - rewrite groups_app, groups_str. reflexivity.
  - apply (proj1 tree_groups).
Qed.

Lemma tree_segs_flat gs : flat (tree_segs gs) = render_segs gs.
Proof.
  unfold render_segs. induction gs as [|g gs IH]; [reflexivity|].
  destruct gs as [|g' gs]; [cbn; apply tree_seg_flat|].
  change (tree_segs (g :: g' :: gs)) with (pt_app (tree_seg g) (PCh space (tree_segs (g' :: gs)))).
  rewrite flat_app, tree_seg_flat. cbn [flat]. rewrite IH. reflexivity.
Qed.
Lemma tree_segs_shallow gs : shallow (tree_segs gs) = sh_segs gs.
Proof.
  unfold sh_segs. induction gs as [|g gs IH]; [reflexivity|].
  destruct gs as [|g' gs]; [cbn; apply tree_seg_shallow|].
  change (tree_segs (g :: g' :: gs)) with (pt_app (tree_seg g) (PCh space (tree_segs (g' :: gs)))).
  rewrite shallow_app, tree_seg_shallow. cbn [shallow]. rewrite IH. reflexivity.
Qed.
Lemma tree_segs_groups gs : groups (tree_segs gs) = map tree_e (flat_map subs_seg gs).
Proof.
  induction gs as [|g gs IH]; [reflexivity|].
  destruct gs as [|g' gs]; [cbn [tree_segs flat_map]; rewrite app_nil_r; apply tree_seg_groups|].
  change (tree_segs (g :: g' :: gs)) with (pt_app (tree_seg g) (PCh space (tree_segs (g' :: gs)))).
  rewrite groups_app, tree_seg_groups. cbn [groups]. rewrite IH.
  change (flat_map subs_seg (g :: g' :: gs)) with (subs_seg g ++ flat_map subs_seg (g' :: gs)). now rewrite map_app.
Qed.

(* ------------------------------------------------------------------ scanning segments *)
Lemma hd_not_word_ws ws y : forallb is_space ws = true -> hd_not is_word (ws ++ lpar :: y).
Proof.
  destruct ws as [|c ws]; [reflexivity|]. cbn [forallb app hd_not]. intros H. apply andb_true_iff in H as [H _].
  destruct (is_word c) eqn:W; [|reflexivity]. apply word_not_space in W. congruence.
Qed.

Lemma match_call_kw kw ws rest : wordy kw -> forallb is_space ws = true -> close_after rest ->
  match_call (kw ++ ws ++ par2 ++ rest) = Some (kw ++ ws ++ par2, rest).
Proof.
  intros Hw Hs Hc.
  assert (Hitem : parse_item (kw ++ ws ++ par2 ++ rest) = None).
  { unfold parse_item, par2. cbn [app].
    rewrite (span_space_word kw _ Hw). cbn [app].
    rewrite (span_app is_word kw _ (proj1 Hw) (hd_not_word_ws ws _ Hs)).
    destruct kw as [|c0 k0]; [destruct Hw; contradiction|]. cbn [is_nil].
    rewrite (span_app is_space ws (lpar :: rpar :: rest) Hs) by reflexivity.
    change (Ascii.eqb lpar lpar && Ascii.eqb rpar rpar) with true. cbn iota.
    rewrite (span_space rest). unfold close_after in Hc.
    destruct (lstrip_s rest) as [|a r]; [reflexivity|]. now rewrite Hc. }
  unfold match_call. rewrite (parse_items_none _ _ Hitem). cbn [map concat app].
  unfold match_req, par2. cbn [app].
  rewrite (span_app is_word kw _ (proj1 Hw) (hd_not_word_ws ws _ Hs)).
  destruct kw as [|c0 k0]; [destruct Hw; contradiction|]. cbn [is_nil].
  rewrite (span_app is_space ws (lpar :: rpar :: rest) Hs) by reflexivity.
  change (Ascii.eqb lpar lpar) with true. cbn iota. cbn [span].
  change (Ascii.eqb rpar rpar || Ascii.eqb rpar nl) with true. cbn [negb]. cbn iota.
  change (Ascii.eqb rpar rpar) with true. cbn iota. cbn [app]. reflexivity.
Qed.

Lemma kw_sp_space sp : forallb is_space (kw_sp sp) = true.
Proof. destruct sp; reflexivity. Qed.

Definition wf_seg (g : seg) : bool :=
  match g with
  | GWord w => word_ok w
  | GKw kw _ c => name_ok kw && wf_e c
  | GExpr e => wf_e e && negb (is_nil (render_e e))
  end.

Definition seg_after (g : seg) (rest : str) : Prop :=
  match g with GKw _ _ _ => close_after rest | _ => name_after rest end.

Lemma scan_seg g rest : wf_seg g = true -> seg_after g rest ->
  call_scan 0 (sh_seg g ++ rest) = seg_heads g ++ call_scan 0 rest.
Proof.
  destruct g as [w|kw sp c|e]; cbn [wf_seg seg_after sh_seg seg_heads]; intros Hwf Ha.
  - cbn [app]. unfold word_ok in Hwf. apply andb_true_iff in Hwf as [Hwf _]. apply andb_true_iff in Hwf as [Hl _].
    apply scan_inert; [now apply lit_ok_inert|now right].
  - apply andb_true_iff in Hwf as [Hk _]. pose proof (name_wordy kw Hk) as Hw.
    pose proof (match_call_kw kw (kw_sp sp) rest Hw (kw_sp_space sp) Ha) as Hm.
    rewrite <- !app_assoc. destruct (wordy_hd kw Hw) as (c0 & k0 & -> & W0).
    assert (E : (c0 :: k0) ++ kw_sp sp ++ par2 ++ rest = (c0 :: (k0 ++ kw_sp sp ++ par2)) ++ rest)
      by (cbn [app]; rewrite <- !app_assoc; reflexivity).
    rewrite E in Hm |- *. change ((c0 :: k0) ++ kw_sp sp ++ par2) with (c0 :: (k0 ++ kw_sp sp ++ par2)) in Hm |- *.
    rewrite (call_scan_match c0 _ rest _ W0 Hm). reflexivity.
  - apply andb_true_iff in Hwf as [He _]. now apply scan_e.
Qed.

Definition seg_starts_paren (g : seg) : bool := match g with GExpr e => starts_paren e | _ => false end.

(* first non-blank character of a segment *)
Lemma seg_fns g y : wf_seg g = true ->
  exists c, fns (sh_seg g ++ y) = Some c /\ Ascii.eqb c pct = false /\
            (seg_starts_paren g = false -> Ascii.eqb c lpar = false).
Proof.
  destruct g as [w|kw sp c|e]; cbn [wf_seg sh_seg seg_starts_paren]; intros Hwf.
  - unfold word_ok in Hwf. apply andb_true_iff in Hwf as [_ Hc]. destruct w as [|c w]; [discriminate|].
    exists c. cbn [app]. rewrite (fns_word c _ Hc). repeat split; [now apply word_not_pct|intros _; now apply word_not_lpar].
  - apply andb_true_iff in Hwf as [Hk _]. rewrite <- !app_assoc.
    destruct (fns_name kw (kw_sp sp ++ par2 ++ y) Hk) as (c0 & E & W). exists c0.
    repeat split; [exact E|now apply word_not_pct|intros _; now apply word_not_lpar].
  - apply andb_true_iff in Hwf as [He Hn]. rewrite fns_app.
    destruct (fns (sh_e e)) as [c|] eqn:Ef.
    + exists c. repeat split; [now apply (e_fns_ok e c He)|].
      unfold starts_paren. rewrite lstrip_eq. pose proof (e_fns_same e He) as Es. rewrite Ef in Es. unfold fns in Es.
      destruct (lstrip_s (render_e e)) as [|c' r]; [discriminate|]. injection Es as <-. auto.
    + rewrite (e_fns_none e He Ef) in Hn. discriminate.
Qed.

Lemma after_space_name y c : fns y = Some c -> Ascii.eqb c lpar = false -> Ascii.eqb c pct = false ->
  name_after (space :: y).
Proof.
  intros Hf H1 H2. split; [reflexivity|]. rewrite lstrip_s_cons. change (is_space space) with true. cbn iota.
  unfold fns in Hf. destruct (lstrip_s y) as [|c' r]; [exact I|]. injection Hf as ->. now split.
Qed.
Lemma after_space_close y c : fns y = Some c -> Ascii.eqb c pct = false -> close_after (space :: y).
Proof.
  intros Hf H2. unfold close_after. rewrite lstrip_s_cons. change (is_space space) with true. cbn iota.
  unfold fns in Hf. destruct (lstrip_s y) as [|c' r]; [exact I|]. now injection Hf as ->.
Qed.

Lemma wf_segs_cons g gs : wf_segs (g :: gs) = true ->
  wf_seg g = true /\ wf_segs gs = true /\
  match g, gs with
  | GKw _ _ _, _ => True
  | _, g' :: _ => seg_starts_paren g' = false
  | _, [] => True
  end.
Proof.
  destruct g as [w|kw sp c|e]; cbn [wf_segs wf_seg]; intros H.
  - apply andb_true_iff in H as [H H3]. apply andb_true_iff in H as [H1 H2]. repeat split; try assumption.
    destruct gs as [|[| |e'] gs]; try exact I; try reflexivity. cbn. now apply negb_true_iff in H3.
  - apply andb_true_iff in H as [H H3]. repeat split; assumption.
  - apply andb_true_iff in H as [H H4]. apply andb_true_iff in H as [H H3]. repeat split; try assumption.
    destruct gs as [|[| |e'] gs]; try exact I; try reflexivity. cbn. now apply negb_true_iff in H4.
Qed.

Lemma sh_segs_cons g g' gs : sh_segs (g :: g' :: gs) = sh_seg g ++ space :: sh_segs (g' :: gs).
Proof. reflexivity. Qed.

Lemma scan_segs gs rest : wf_segs gs = true -> name_after rest ->
  call_scan 0 (sh_segs gs ++ rest) = flat_map seg_heads gs ++ call_scan 0 rest.
Proof.
  induction gs as [|g gs IH]; intros Hwf Ha; [reflexivity|].
  destruct (wf_segs_cons g gs Hwf) as (Hg & Hgs & Hnext).
  destruct gs as [|g' gs].
  - unfold sh_segs. cbn [map join flat_map]. rewrite app_nil_r.
    apply scan_seg; [exact Hg|]. destruct g; cbn [seg_after]; try exact Ha. now apply name_after_close.
  - rewrite sh_segs_cons. rewrite <- app_assoc. cbn [app].
    destruct (wf_segs_cons g' gs Hgs) as (Hg' & _ & _).
    assert (Hy : exists y, sh_segs (g' :: gs) ++ rest = sh_seg g' ++ y).
    { destruct gs as [|g'' gs]; [exists rest; unfold sh_segs; cbn [map join]; reflexivity|].
      rewrite sh_segs_cons, <- app_assoc. eauto. }
    destruct Hy as (y & Ey).
    destruct (seg_fns g' y Hg') as (c & Ef & Hp & Hl). rewrite <- Ey in Ef.
    rewrite scan_seg; [|exact Hg|].
    + rewrite call_scan_nonword by reflexivity. rewrite (IH Hgs Ha).
      change (flat_map seg_heads (g :: g' :: gs)) with (seg_heads g ++ flat_map seg_heads (g' :: gs)).
      now rewrite app_assoc.
    + destruct g as [w|kw sp c0|e]; cbn [seg_after].
      * apply (after_space_name _ c Ef); [now apply Hl|exact Hp].
      * now apply (after_space_close _ c Ef).
      * apply (after_space_name _ c Ef); [now apply Hl|exact Hp].
Qed.

(* ------------------------------------------------------------------ all nesting levels *)
(* the slices (d+1) levels below a list of groups *)
Definition deepG (d : nat) (gl : list ptree) : list str :=
  match d with
  | 0 => map (fun g => wrap (shallow g)) gl
  | S d' => flat_map (deep d') gl
  end.

Lemma deep_deepG d t : deep d t = deepG d (groups t).
Proof. destruct d; reflexivity. Qed.

Lemma flat_map_map {A B C} (f : B -> list C) (g : A -> B) l : flat_map f (map g l) = flat_map (fun x => f (g x)) l.
Proof. induction l as [|x l IH]; [reflexivity|]. cbn [map flat_map]. now rewrite IH. Qed.

Lemma flat_map_flat_map {A B C} (f : B -> list C) (g : A -> list B) l :
  flat_map f (flat_map g l) = flat_map (fun x => flat_map f (g x)) l.
Proof. induction l as [|x l IH]; [reflexivity|]. cbn [flat_map]. now rewrite flat_map_app, IH. Qed.

Lemma map_flat_map {A B C} (f : B -> C) (g : A -> list B) l : map f (flat_map g l) = flat_map (fun x => map f (g x)) l.
Proof. induction l as [|x l IH]; [reflexivity|]. cbn [flat_map]. now rewrite map_app, IH. Qed.

Lemma deepG_S d gl : deepG (S d) gl = deepG d (flat_map groups gl).
Proof.
  cbn [deepG]. destruct d.
  - cbn [deepG]. rewrite map_flat_map. reflexivity.
  - cbn [deepG]. rewrite flat_map_flat_map. reflexivity.
Qed.

Lemma wf_subs :
  (forall e, wf_e e = true -> forallb wf_e (subs_e e) = true) /\
  (forall d, wf_d d = true -> forallb wf_e (subs_d d) = true).
Proof.
  apply expr_desig_ind; intros; cbn [wf_e wf_d subs_e subs_d forallb] in *;
    repeat match goal with H : _ && _ = true |- _ => apply andb_true_iff in H as [? ?] end;
    rewrite ?forallb_app;
    repeat match goal with H : ?a = true -> _, H' : ?a = true |- _ => specialize (H H') end;
    repeat match goal with H : _ = true |- _ => rewrite H; clear H end; reflexivity.
Qed.

Lemma wf_subs_list es : forallb wf_e es = true -> forallb wf_e (flat_map subs_e es) = true.
Proof.
  induction es as [|e es IH]; [reflexivity|]. cbn [forallb flat_map]. intros H. apply andb_true_iff in H as [He H].
  rewrite forallb_app, (proj1 wf_subs e He), (IH H). reflexivity.
Qed.

Lemma groups_exprs es : flat_map groups (map tree_e es) = map tree_e (flat_map subs_e es).
Proof.
  induction es as [|e es IH]; [reflexivity|]. cbn [map flat_map]. rewrite map_app, IH, (proj1 tree_groups). reflexivity.
Qed.


Lemma name_after_rpar : name_after [rpar].
Proof. split; [reflexivity|]. unfold lstrip_s. cbn. split; reflexivity. Qed.

Lemma scan_wrap e : wf_e e = true -> call_matches (wrap (sh_e e)) = e_heads e.
Proof.
  intros H. unfold call_matches, wrap. rewrite call_scan_nonword by reflexivity.
  rewrite (scan_e e H [rpar] name_after_rpar). cbn [call_scan]. change (is_word rpar) with false. cbn iota.
  cbn [call_scan]. now rewrite app_nil_r.
Qed.

Lemma scan_deep d : forall es, forallb wf_e es = true ->
  map norm_chain (flat_map call_matches (deepG d (map tree_e es))) = deep_heads d es.
Proof.
  induction d as [|d IH]; intros es Hwf.
  - cbn [deepG deep_heads]. rewrite map_map.
    induction es as [|e es IHes]; [reflexivity|]. cbn [forallb] in Hwf. apply andb_true_iff in Hwf as [He Hes].
    cbn [map flat_map]. rewrite (proj1 tree_shallow), (scan_wrap e He), map_app, (e_heads_norm e He), (IHes Hes). reflexivity.
  - rewrite deepG_S, groups_exprs. cbn [deep_heads]. apply IH. now apply wf_subs_list.
Qed.

(* emptiness of a level persists *)
Lemma deepG_nil d : forall gl, deepG d gl = [] -> deepG (S d) gl = [].
Proof.
  induction d as [|d IH]; intros gl H.
  - cbn [deepG] in H. destruct gl; [reflexivity|discriminate].
  - rewrite deepG_S in H |- *. exact (IH _ H).
Qed.

Lemma collect_levels_tree t : ptree_ok t = true -> forall fuel k,
  collect_levels fuel (flat t) (S k) = flat_map (fun d => flat_map call_matches (deep d t)) (seq k fuel).
Proof.
  intros Hok fuel. induction fuel as [|fuel IH]; intros k; [reflexivity|].
  cbn [collect_levels seq flat_map]. rewrite (strip_levels t (S k) Hok). cbn [level_slices].
  destruct (deep k t) as [|sl sls] eqn:E.
  - (* every deeper level is empty as well *)
    cbn [flat_map app].
    assert (Hall : forall n j, flat_map (fun d => flat_map call_matches (deep d t)) (seq (k + j) n) = []).
    { assert (Hd : forall j, deep (k + j) t = []).
      { induction j as [|j IHj]; [now rewrite Nat.add_0_r|].
        rewrite Nat.add_succ_r. rewrite deep_deepG in IHj |- *. now apply deepG_nil. }
      induction n as [|n IHn]; intros j; [reflexivity|]. cbn [seq flat_map]. rewrite (Hd j). cbn [flat_map app].
      replace (S (k + j)) with (k + S j) by lia. apply IHn. }
    specialize (Hall fuel 1). now replace (k + 1) with (S k) in Hall by lia.
  - rewrite IH. reflexivity.
Qed.

Lemma in_groups_len g t : In g (groups t) -> length (flat g) + 2 <= length (flat t).
Proof.
  induction t as [|c t IH|g' _ t IH]; cbn [groups flat length]; intros H; [contradiction| |].
  - specialize (IH H). lia.
  - rewrite app_length. cbn [length]. destruct H as [->|H]; [lia|]. specialize (IH H). lia.
Qed.

Lemma deep_len d : forall t, deep d t <> [] -> 2 * (S d) <= length (flat t).
Proof.
  induction d as [|d IH]; intros t H.
  - cbn [deep] in H. destruct (groups t) as [|g gl] eqn:E; [contradiction|].
    assert (Hin : In g (groups t)) by (rewrite E; now left). pose proof (in_groups_len g t Hin). lia.
  - cbn [deep] in H.
    assert (Hex : exists g, In g (groups t) /\ deep d g <> []).
    { induction (groups t) as [|g gl IHg]; [contradiction|]. cbn [flat_map] in H.
      destruct (deep d g) eqn:E.
      - destruct (IHg H) as (g0 & Hin & Hne). exists g0. split; [now right|exact Hne].
      - exists g. split; [now left|]. rewrite E. discriminate. }
    destruct Hex as (g & Hin & Hne). pose proof (IH g Hne). pose proof (in_groups_len g t Hin). lia.
Qed.


Lemma call_kw_none z : starts_ci (s "call") z = false -> call_kw z = None.
Proof. intros H. unfold call_kw. now rewrite H. Qed.

Lemma last_close_call_free y best : close_call_free y = true -> last_close_call y best = best.
Proof.
  revert best. induction y as [|c y IH]; intros best H; [reflexivity|].
  cbn [close_call_free] in H. apply andb_true_iff in H as [Hc H]. cbn [last_close_call].
  destruct (Ascii.eqb c nl); [reflexivity|].
  destruct (Ascii.eqb c rpar).
  - apply negb_true_iff in Hc. fold (lstrip_s y). rewrite (call_kw_none _ Hc). now apply IH.
  - now apply IH.
Qed.

Lemma close_call_free_tail c y : close_call_free (c :: y) = true -> close_call_free y = true.
Proof. cbn [close_call_free]. intros H. now apply andb_true_iff in H as [_ H]. Qed.

Lemma close_call_free_skip n : forall y, close_call_free y = true -> close_call_free (skipn n y) = true.
Proof.
  induction n as [|n IH]; intros y H; [exact H|]. destruct y as [|c y]; [reflexivity|].
  cbn [skipn]. apply IH. exact (close_call_free_tail c y H).
Qed.

Lemma close_call_free_lstrip y : close_call_free y = true -> close_call_free (lstrip_s y) = true.
Proof.
  induction y as [|c y IH]; intros H; [reflexivity|]. rewrite lstrip_s_cons.
  destruct (is_space c); [|exact H]. apply IH. exact (close_call_free_tail c y H).
Qed.

Lemma subcall_core_plain x : plain_text x = true -> subcall_core x = None.
Proof.
  unfold plain_text. intros H. apply andb_true_iff in H as [Hc Hi]. apply negb_true_iff in Hc.
  unfold subcall_core. rewrite (call_kw_none x Hc).
  destruct (starts_ci (s "if") x) eqn:Ei; [|reflexivity].
  cbn [negb orb] in Hi.
  fold (lstrip_s (skipn 2 x)).
  pose proof (close_call_free_lstrip _ (close_call_free_skip 2 x Hi)) as Hf.
  destruct (lstrip_s (skipn 2 x)) as [|c y]; [reflexivity|].
  destruct (Ascii.eqb c lpar); [|reflexivity].
  now rewrite (last_close_call_free y None (close_call_free_tail c y Hf)).
Qed.

Lemma subcall_plain x : plain_text (strip_label x) = true -> subcall_match x = None.
Proof. intros H. unfold subcall_match. now apply subcall_core_plain. Qed.

(* a statement label in front *)
Lemma strip_label_lab l y : label_ok l = true -> hd_not is_space y -> strip_label (l ++ space :: y) = y.
Proof.
  unfold label_ok. intros H Hy. apply andb_true_iff in H as [Hn Hd]. unfold strip_label.
  rewrite (span_app is_digit l (space :: y) Hd) by reflexivity.
  destruct l as [|c l]; [discriminate|]. cbn [is_nil span]. change (is_space space) with true. cbn iota.
  rewrite (span_nil is_space y Hy). reflexivity.
Qed.

Lemma norm_kw kw sp : forallb is_word kw = true -> norm_chain (kw ++ kw_sp sp ++ par2) = [lower kw].
Proof.
  intros H. unfold norm_chain. rewrite (strip_cw_words kw _ H).
  assert (E : strip_cw (kw_sp sp ++ par2) = []) by (destruct sp; reflexivity). rewrite E, app_nil_r.
  now rewrite (split_on_word [] (lower kw) (lower_words kw H)).
Qed.

Lemma seg_heads_norm g : wf_seg g = true -> map norm_chain (seg_heads g) = seg_heads0 g.
Proof.
  destruct g as [w|kw sp c|e]; cbn [wf_seg seg_heads seg_heads0 map]; intros H.
  - reflexivity.
  - apply andb_true_iff in H as [Hk _]. now rewrite (norm_kw kw sp (proj1 (name_wordy kw Hk))).
  - apply andb_true_iff in H as [He _]. now apply e_heads_norm.
Qed.

Lemma wf_segs_all gs : wf_segs gs = true -> forallb wf_seg gs = true.
Proof.
  induction gs as [|g gs IH]; intros H; [reflexivity|]. destruct (wf_segs_cons g gs H) as (Hg & Hgs & _).
  cbn [forallb]. now rewrite Hg, (IH Hgs).
Qed.

Lemma segs_heads_norm gs : forallb wf_seg gs = true ->
  map norm_chain (flat_map seg_heads gs) = flat_map seg_heads0 gs.
Proof.
  induction gs as [|g gs IH]; intros H; [reflexivity|]. cbn [forallb] in H. apply andb_true_iff in H as [Hg H].
  cbn [flat_map]. now rewrite map_app, (seg_heads_norm g Hg), (IH H).
Qed.

Lemma wf_seg_subs g : wf_seg g = true -> forallb wf_e (subs_seg g) = true.
Proof.
  destruct g as [w|kw sp c|e]; cbn [wf_seg subs_seg forallb]; intros H.
  - reflexivity.
  - apply andb_true_iff in H as [_ H]. now rewrite H.
  - apply andb_true_iff in H as [H _]. now apply (proj1 wf_subs).
Qed.
Lemma wf_segs_subs gs : forallb wf_seg gs = true -> forallb wf_e (flat_map subs_seg gs) = true.
Proof.
  induction gs as [|g gs IH]; intros H; [reflexivity|]. cbn [forallb] in H. apply andb_true_iff in H as [Hg H].
  cbn [flat_map]. now rewrite forallb_app, (wf_seg_subs g Hg), (IH H).
Qed.

Lemma ok_tree_seg g : wf_seg g = true -> ptree_ok (tree_seg g) = true.
Proof.
  destruct g as [w|kw sp c|e]; cbn [wf_seg tree_seg]; intros H.
  - rewrite ok_str. unfold word_ok in H. apply andb_true_iff in H as [H _]. apply andb_true_iff in H as [H _].
    exact (inert_from_no_paren false w (lit_ok_inert w H)).
  - apply andb_true_iff in H as [Hk Hc]. rewrite ok_app, ok_str. cbn [ptree_ok]. rewrite (proj1 tree_ok c Hc).
    assert (E : no_paren (kw ++ kw_sp sp) = true).
    { unfold no_paren. rewrite forallb_app. fold (no_paren kw). rewrite (word_no_paren kw (proj1 (name_wordy kw Hk))).
      destruct sp; reflexivity. }
    now rewrite E.
  - apply andb_true_iff in H as [H _]. now apply (proj1 tree_ok).
Qed.
Lemma ok_tree_segs gs : forallb wf_seg gs = true -> ptree_ok (tree_segs gs) = true.
Proof.
  induction gs as [|g gs IH]; intros H; [reflexivity|]. cbn [forallb] in H. apply andb_true_iff in H as [Hg H].
  destruct gs as [|g' gs]; [now apply ok_tree_seg|].
  change (tree_segs (g :: g' :: gs)) with (pt_app (tree_seg g) (PCh space (tree_segs (g' :: gs)))).
  rewrite ok_app, (ok_tree_seg g Hg). cbn [ptree_ok]. now rewrite (IH H).
Qed.

Lemma sh_segs_nonempty g gs : wf_seg g = true -> sh_segs (g :: gs) <> [].
Proof.
  intros Hg. destruct (seg_fns g [] Hg) as (c & Ef & _). rewrite app_nil_r in Ef.
  assert (Hne : sh_seg g <> []) by (intros E; rewrite E in Ef; discriminate).
  destruct gs as [|g' gs]; [exact Hne|]. rewrite sh_segs_cons. destruct (sh_seg g); [contradiction|discriminate].
Qed.


Lemma deep_levels_norm t es n : groups t = map tree_e es -> forallb wf_e es = true ->
  map norm_chain (flat_map (fun d => flat_map call_matches (deep d t)) (seq 0 n)) = level_heads es n.
Proof.
  intros Eg Hwf. unfold level_heads. generalize 0 as k. induction n as [|n IH]; intros k; [reflexivity|].
  cbn [seq flat_map]. rewrite map_app, IH. f_equal.
  rewrite deep_deepG, Eg. now apply scan_deep.
Qed.

(* the chains _add_procedure_calls collects from a statement made of segments, in its order *)
Theorem raw_segs gs : wf_segs gs = true -> gs <> [] -> subcall_match (sh_segs gs) = None ->
  map norm_chain (chain_texts (render_segs gs)) =
  flat_map seg_heads0 gs ++ level_heads (flat_map subs_seg gs) (length (render_segs gs)).
Proof.
  intros Hwf Hne Hplain. pose proof (wf_segs_all gs Hwf) as Hall.
  pose proof (ok_tree_segs gs Hall) as Hok.
  unfold chain_texts. rewrite <- (tree_segs_flat gs).
  rewrite (strip_levels _ 0 Hok). cbn [level_slices]. rewrite tree_segs_shallow.
  destruct gs as [|g gs]; [contradiction|].
  assert (Hg : wf_seg g = true) by (cbn [forallb] in Hall; now apply andb_true_iff in Hall as [Hg _]).
  assert (Esh : exists c0 x0, sh_segs (g :: gs) = c0 :: x0).
  { destruct (sh_segs (g :: gs)) as [|c0 x0] eqn:E; [exfalso; exact (sh_segs_nonempty g gs Hg E)|eauto]. }
  destruct Esh as (c0 & x0 & Esh). rewrite Esh. rewrite <- Esh. rewrite Hplain.
  cbn [collect_levels]. rewrite (strip_levels _ 0 Hok). cbn [level_slices]. rewrite tree_segs_shallow, Esh, <- Esh.
  cbn [flat_map]. rewrite app_nil_r.
  rewrite (collect_levels_tree _ Hok). rewrite map_app. f_equal.
  - unfold call_matches. pose proof (scan_segs (g :: gs) [] Hwf) as Hs. rewrite !app_nil_r in Hs.
    rewrite Hs; [|split; [exact I|exact I]]. now apply segs_heads_norm.
  - apply deep_levels_norm; [apply (tree_segs_groups (g :: gs))|exact (wf_segs_subs (g :: gs) Hall)].
Qed.

(* ------------------------------------------------------------------ CALL statements (SUBCALL_RE) *)
Lemma word_not_nl c : is_word c = true -> Ascii.eqb c nl = false.
Proof. destruct c as [[|] [|] [|] [|] [|] [|] [|] [|]]; intros H; try discriminate H; reflexivity. Qed.

Lemma last_pct_word pre w y best : forallb is_word w = true -> last_pct pre (w ++ y) best = last_pct (pre ++ w) y best.
Proof.
  revert pre. induction w as [|c w IH]; intros pre H; [now rewrite app_nil_r|].
  cbn [forallb] in H. apply andb_true_iff in H as [Hc H]. cbn [app last_pct].
  rewrite (word_not_nl c Hc), (word_not_pct c Hc). rewrite (IH _ H). now rewrite <- app_assoc.
Qed.
Lemma last_pct_par pre y best : last_pct pre (lpar :: rpar :: y) best = last_pct (pre ++ par2) y best.
Proof. cbn [last_pct]. change (Ascii.eqb lpar nl) with false. change (Ascii.eqb lpar pct) with false.
  change (Ascii.eqb rpar nl) with false. change (Ascii.eqb rpar pct) with false. cbn iota.
  unfold par2. now rewrite <- app_assoc. Qed.
Lemma last_pct_pct pre c z best : is_word c = true ->
  last_pct pre (pct :: c :: z) best = last_pct (pre ++ [pct]) (c :: z) (Some (pre ++ [pct], c :: z)).
Proof.
  intros W. cbn [last_pct]. change (Ascii.eqb pct nl) with false. change (Ascii.eqb pct pct) with true. cbn iota.
  rewrite (span_nil is_space (c :: z)) by (cbn; now apply word_not_space). rewrite W. now rewrite app_nil_r.
Qed.

Definition d_prefix (d : desig) : str := concat (map (fun it => snd it) (d_items d)).

Lemma d_items_nil d : d_items d = [] -> sh_d d = d_last d.
Proof. intros H. rewrite sh_d_items, H. reflexivity. Qed.

Lemma last_pct_d d : wf_d d = true -> forall pre best,
  last_pct pre (sh_d d) best =
  match d_items d with [] => best | _ => Some (pre ++ d_prefix d, d_last d) end.
Proof.
  induction d as [x|x a|x r IH|x a r IH]; intros Hwf pre best; pose proof (wf_d_name _ Hwf) as Hn;
    cbn [sh_d d_items].
  - rewrite <- (app_nil_r x), (last_pct_word pre x [] best (proj1 (name_wordy x Hn))). reflexivity.
  - destruct Hn as [Hx _]. rewrite (last_pct_word pre x _ best (proj1 (name_wordy x Hx))). reflexivity.
  - destruct Hn as [Hx Hr]. rewrite (last_pct_word pre x _ best (proj1 (name_wordy x Hx))).
    destruct (wf_d_head r Hr) as (c & z & E & W). rewrite E, (last_pct_pct _ c z best W), <- E.
    rewrite (IH Hr). unfold d_prefix. cbn [d_items map concat snd d_last].
    destruct (d_items r) eqn:Ei.
    + cbn [map concat]. rewrite app_nil_r, <- app_assoc. now rewrite (d_items_nil r Ei).
    + rewrite <- !app_assoc. reflexivity.
  - destruct Hn as (Hx & _ & Hr). rewrite (last_pct_word pre x _ best (proj1 (name_wordy x Hx))).
    rewrite last_pct_par.
    destruct (wf_d_head r Hr) as (c & z & E & W). rewrite E, (last_pct_pct _ c z best W), <- E.
    rewrite (IH Hr). unfold d_prefix, par2. cbn [d_items map concat snd d_last].
    destruct (d_items r) eqn:Ei.
    + cbn [map concat]. rewrite app_nil_r, <- !app_assoc. now rewrite (d_items_nil r Ei).
    + rewrite <- !app_assoc. reflexivity.
Qed.

Lemma final_name_last d : wf_d d = true -> final_name (d_last d) = Some (d_last d).
Proof.
  intros Hwf. destruct (d_last_cases d Hwf) as (x & Hx & E). rewrite E. unfold final_name.
  destruct (last_has_args d).
  - rewrite (span_app is_word x par2 (proj1 Hx)) by reflexivity.
    destruct x as [|c x]; [destruct Hx; contradiction|]. cbn [is_nil]. reflexivity.
  - rewrite <- (app_nil_r x) at 1. rewrite (span_app is_word x [] (proj1 Hx) I).
    destruct x as [|c x]; [destruct Hx; contradiction|]. cbn [is_nil span]. now rewrite app_nil_r.
Qed.

Lemma chain_text_d d : wf_d d = true -> chain_text (sh_d d) = Some (sh_d d).
Proof.
  intros Hwf. unfold chain_text. rewrite (last_pct_d d Hwf [] None).
  destruct (d_items d) eqn:Ei.
  - rewrite (d_items_nil d Ei). now apply final_name_last.
  - rewrite (final_name_last d Hwf). cbn [app]. unfold d_prefix. now rewrite <- sh_d_items.
Qed.

Lemma call_kw_d d : wf_d d = true -> call_kw (s "call" ++ space :: sh_d d) = Some (sh_d d).
Proof.
  intros Hwf. unfold call_kw.
  assert (E1 : starts_ci (s "call") (s "call" ++ space :: sh_d d) = true) by reflexivity. rewrite E1.
  change (skipn 4 (s "call" ++ space :: sh_d d)) with (space :: sh_d d).
  destruct (wf_d_head d Hwf) as (c & z & E & W). cbn [span]. change (is_space space) with true. cbn iota.
  rewrite (span_nil is_space (sh_d d)) by (rewrite E; cbn; now apply word_not_space).
  cbn [is_nil]. now apply chain_text_d.
Qed.

Lemma lcc_word w y best : forallb is_word w = true -> last_close_call (w ++ y) best = last_close_call y best.
Proof.
  induction w as [|c w IH]; intros H; [reflexivity|]. cbn [forallb] in H. apply andb_true_iff in H as [Hc H].
  cbn [app last_close_call]. rewrite (word_not_nl c Hc), (word_not_rpar c Hc). exact (IH H).
Qed.

Lemma lcc_d d : wf_d d = true -> forall best, last_close_call (sh_d d) best = best.
Proof.
  induction d as [x|x a|x r IH|x a r IH]; intros Hwf best; pose proof (wf_d_name _ Hwf) as Hn; cbn [sh_d].
  - rewrite <- (app_nil_r x), (lcc_word x [] best (proj1 (name_wordy x Hn))). reflexivity.
  - destruct Hn as [Hx _]. rewrite (lcc_word x _ best (proj1 (name_wordy x Hx))). reflexivity.
  - destruct Hn as [Hx Hr]. rewrite (lcc_word x _ best (proj1 (name_wordy x Hx))).
    cbn [last_close_call]. change (Ascii.eqb pct nl) with false. change (Ascii.eqb pct rpar) with false. cbn iota.
    exact (IH Hr best).
  - destruct Hn as (Hx & _ & Hr). rewrite (lcc_word x _ best (proj1 (name_wordy x Hx))).
    cbn [last_close_call]. change (Ascii.eqb lpar nl) with false. change (Ascii.eqb lpar rpar) with false.
    change (Ascii.eqb rpar nl) with false. change (Ascii.eqb rpar rpar) with true. cbn iota.
    cbn [span]. change (is_space pct) with false. cbn iota. cbn [snd].
    assert (E : call_kw (pct :: sh_d r) = None) by reflexivity. rewrite E.
    cbn [last_close_call]. change (Ascii.eqb pct nl) with false. change (Ascii.eqb pct rpar) with false. cbn iota.
    exact (IH Hr best).
Qed.

Lemma subcall_call d : wf_d d = true -> subcall_match (s "call" ++ space :: sh_d d) = Some (sh_d d).
Proof.
  intros Hwf. unfold subcall_match. change (strip_label (s "call" ++ space :: sh_d d)) with (s "call" ++ space :: sh_d d).
  unfold subcall_core.
  assert (E : starts_ci (s "if") (s "call" ++ space :: sh_d d) = false) by reflexivity. rewrite E.
  now apply call_kw_d.
Qed.

Lemma lcc_rpar y best :
  last_close_call (rpar :: y) best =
  match call_kw (lstrip_s y) with Some ch => last_close_call y (Some ch) | None => last_close_call y best end.
Proof. reflexivity. Qed.

Lemma subcall_ifcall sp d : wf_d d = true ->
  subcall_match (s "if" ++ kw_sp sp ++ par2 ++ space :: s "call" ++ space :: sh_d d) = Some (sh_d d).
Proof.
  intros Hwf. unfold subcall_match.
  change (strip_label (s "if" ++ kw_sp sp ++ par2 ++ space :: s "call" ++ space :: sh_d d))
    with (s "if" ++ kw_sp sp ++ par2 ++ space :: s "call" ++ space :: sh_d d).
  unfold subcall_core.
  assert (E : starts_ci (s "if") (s "if" ++ kw_sp sp ++ par2 ++ space :: s "call" ++ space :: sh_d d) = true) by reflexivity.
  rewrite E.
  assert (E2 : snd (span is_space (skipn 2 (s "if" ++ kw_sp sp ++ par2 ++ space :: s "call" ++ space :: sh_d d)))
               = lpar :: rpar :: space :: s "call" ++ space :: sh_d d) by (destruct sp; reflexivity).
  rewrite E2. change (Ascii.eqb lpar lpar) with true. cbn iota.
  rewrite lcc_rpar.
  assert (E3 : lstrip_s (space :: s "call" ++ space :: sh_d d) = s "call" ++ space :: sh_d d) by reflexivity.
  rewrite E3, (call_kw_d d Hwf).
  assert (E4 : forall y b, last_close_call (space :: s "call" ++ space :: y) b = last_close_call y b) by reflexivity.
  rewrite E4. now rewrite (lcc_d d Hwf).
Qed.

Lemma norm_sh_d d : wf_d d = true -> norm_chain (sh_d d) = names_d d.
Proof.
  induction d as [x|x a|x r IH|x a r IH]; intros Hwf; pose proof (wf_d_name _ Hwf) as Hn; cbn [sh_d names_d].
  - unfold norm_chain. rewrite <- (app_nil_r x) at 1. rewrite (strip_cw_words x [] (proj1 (name_wordy x Hn))).
    cbn [strip_cw]. rewrite app_nil_r. now rewrite (split_on_word [] (lower x) (lower_words x (proj1 (name_wordy x Hn)))).
  - destruct Hn as [Hx _]. exact (norm_word_par x (proj1 (name_wordy x Hx))).
  - destruct Hn as [Hx Hr]. rewrite (norm_word_pct x _ (proj1 (name_wordy x Hx))), (IH Hr). reflexivity.
  - destruct Hn as (Hx & _ & Hr).
    change (x ++ lpar :: rpar :: pct :: sh_d r) with (x ++ par2 ++ pct :: sh_d r).
    rewrite (norm_word_par_pct x _ (proj1 (name_wordy x Hx))), (IH Hr). reflexivity.
Qed.

(* statements made of segments whose level-0 text SUBCALL_RE matches with the chain of d *)
Lemma raw_subcall gs d : forallb wf_seg gs = true -> gs <> [] -> wf_d d = true ->
  subcall_match (sh_segs gs) = Some (sh_d d) ->
  map norm_chain (chain_texts (render_segs gs)) =
  names_d d :: level_heads (flat_map subs_seg gs) (S (length (render_segs gs))).
Proof.
  intros Hall Hne Hd Hsub. pose proof (ok_tree_segs gs Hall) as Hok.
  unfold chain_texts. rewrite <- (tree_segs_flat gs).
  rewrite (strip_levels _ 0 Hok). cbn [level_slices]. rewrite tree_segs_shallow.
  destruct gs as [|g gs]; [contradiction|].
  assert (Hg : wf_seg g = true) by (cbn [forallb] in Hall; now apply andb_true_iff in Hall as [Hg _]).
  assert (Esh : exists c0 x0, sh_segs (g :: gs) = c0 :: x0).
  { destruct (sh_segs (g :: gs)) as [|c0 x0] eqn:E; [exfalso; exact (sh_segs_nonempty g gs Hg E)|eauto]. }
  destruct Esh as (c0 & x0 & Esh). rewrite Esh. rewrite <- Esh. rewrite Hsub.
  rewrite (collect_levels_tree _ Hok). cbn [map]. rewrite (norm_sh_d d Hd). f_equal.
  apply deep_levels_norm; [apply (tree_segs_groups (g :: gs))|exact (wf_segs_subs (g :: gs) Hall)].
Qed.
