(* Sem/CallsMask.v — C08_literals_inert: the QUOTES_RE masking loop replaces every character literal
   of a statement by its number between double quotes, whatever the literal contains; the text
   the call scanners see does not depend on the bodies of the literals. *)
From Coq Require Import Lia.
From Ford Require Import Base.Str Base.StrFacts Lex.Quote Lex.ReaderSpec Sem.Calls.

Definition quote_free (t : str) : bool := forallb (fun c => negb (is_quote c)) t.

Lemma is_quote_calls c : (Ascii.eqb c dquote || Ascii.eqb c squote) = is_quote c.
Proof. unfold is_quote, dquote, squote, sq, dq. apply orb_comm. Qed.

Lemma quote_body_lit q body rest : forall n lp,
  match rest with d :: _ => Ascii.eqb d q = false | [] => True end ->
  quote_body q (escape_body q body ++ q :: rest) n lp = Some (n + length (escape_body q body) + 1).
Proof.
  induction body as [|c body IH]; intros n lp Hr.
  - cbn [escape_body flat_map app quote_body length]. rewrite Ascii.eqb_refl.
    destruct rest as [|d rest]; [f_equal; lia|]. rewrite Hr. f_equal. lia.
  - cbn [escape_body flat_map]. fold (escape_body q body). destruct (Ascii.eqb c q) eqn:E.
    + apply Ascii.eqb_eq in E. subst c. cbn [app quote_body]. rewrite Ascii.eqb_refl. cbn [quote_body].
      rewrite Ascii.eqb_refl. rewrite (IH _ _ Hr). cbn [length]. f_equal. lia.
    + cbn [app quote_body]. rewrite E. rewrite (IH _ _ Hr). cbn [length]. f_equal. lia.
Qed.

Lemma quotes_search_free t : forall pre y, quote_free t = true -> quotes_search pre (t ++ y) = quotes_search (pre ++ t) y.
Proof.
  induction t as [|c t IH]; intros pre y H; [now rewrite app_nil_r|].
  cbn [quote_free forallb] in H. apply andb_true_iff in H as [Hc H]. apply negb_true_iff in Hc.
  cbn [app quotes_search]. rewrite is_quote_calls, Hc. rewrite (IH _ _ H). now rewrite <- app_assoc.
Qed.

Lemma quotes_search_none t pre : quote_free t = true -> quotes_search pre t = None.
Proof.
  revert pre. induction t as [|c t IH]; intros pre H; [reflexivity|].
  cbn [quote_free forallb] in H. apply andb_true_iff in H as [Hc H]. apply negb_true_iff in Hc.
  cbn [quotes_search]. rewrite is_quote_calls, Hc. now apply IH.
Qed.

Lemma firstn_app_len {A} (a b : list A) : firstn (length a) (a ++ b) = a.
Proof. induction a as [|x a IH]; [reflexivity|]. cbn. now rewrite IH. Qed.
Lemma skipn_app_len' {A} (a b : list A) : skipn (length a) (a ++ b) = b.
Proof. induction a as [|x a IH]; [reflexivity|exact IH]. Qed.

Lemma quotes_search_lit pre q body rest : is_quote q = true ->
  match rest with d :: _ => Ascii.eqb d q = false | [] => True end ->
  quotes_search pre (q :: escape_body q body ++ q :: rest) = Some (pre, q :: escape_body q body ++ [q], rest).
Proof.
  intros Hq Hr. cbn [quotes_search]. rewrite is_quote_calls, Hq.
  rewrite (quote_body_lit q body rest 0 None Hr). cbn [plus].
  replace (length (escape_body q body) + 1) with (length (escape_body q body ++ [q])) by (rewrite app_length; reflexivity).
  change (escape_body q body ++ q :: rest) with (escape_body q body ++ [q] ++ rest). rewrite app_assoc.
  now rewrite firstn_app_len, skipn_app_len'.
Qed.

(* digits are no quotes *)
Lemma digit_not_quote m : m < 10 -> is_quote (ascii_of_nat (48 + m)) = false.
Proof. intros H. do 10 (destruct m as [|m]; [reflexivity|]). lia. Qed.

Lemma digits_fuel_free fuel : forall n acc, quote_free acc = true -> quote_free (digits_fuel fuel n acc) = true.
Proof.
  induction fuel as [|fuel IH]; intros n acc H; [exact H|]. cbn [digits_fuel].
  assert (Hd : quote_free (ascii_of_nat (48 + n mod 10) :: acc) = true).
  { cbn [quote_free forallb]. rewrite (digit_not_quote (n mod 10)) by (apply Nat.mod_upper_bound; lia). exact H. }
  destruct (n <? 10); [exact Hd|]. now apply IH.
Qed.
Lemma str_of_nat_free k : quote_free (str_of_nat k) = true.
Proof. unfold str_of_nat. now apply digits_fuel_free. Qed.

Lemma escape_free q t : quote_free t = true -> escape_body q t = t.
Proof.
  induction t as [|c t IH]; intros H; [reflexivity|]. cbn [quote_free forallb] in H. apply andb_true_iff in H as [Hc H].
  cbn [escape_body flat_map]. fold (escape_body q t). rewrite (IH H).
  destruct (Ascii.eqb c q) eqn:E; [|reflexivity]. apply Ascii.eqb_eq in E. subst c.
  apply negb_true_iff in Hc. unfold is_quote in Hc. apply orb_false_iff in Hc as [H1 H2].
  destruct (is_quote_cases_local q) as [->|->].
Abort.
