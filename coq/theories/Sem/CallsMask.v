(* Sem/CallsMask.v — C08_literals_inert: the QUOTES_RE masking loop replaces every character literal
   of a statement by its number between double quotes, whatever the literal contains; the text
   the call scanners see does not depend on the bodies of the literals. *)
From Coq Require Import Lia.
From Ford Require Import Base.Str Base.StrFacts Lex.Quote Lex.ReaderSpec Sem.Calls.

Definition quote_free (t : str) : bool := forallb (fun c => negb (is_quote c)) t.

Lemma is_quote_calls c : (Ascii.eqb c dquote || Ascii.eqb c squote) = is_quote c.
Proof. unfold is_quote, dquote, squote, sq, dq. apply orb_comm. Qed.

Lemma quote_body_lit q body rest : forall n lp,
  match rest with d :: _ => Ascii.eqb d q = false | [] => True end ->
  quote_body q (escape_body q body ++ q :: rest) n lp = Some (n + length (escape_body q body) + 1).
Proof.
  induction body as [|c body IH]; intros n lp Hr.
  - cbn [escape_body flat_map app quote_body length]. rewrite Ascii.eqb_refl.
    destruct rest as [|d rest]; [f_equal; lia|]. rewrite Hr. f_equal. lia.
  - cbn [escape_body flat_map]. fold (escape_body q body). destruct (Ascii.eqb c q) eqn:E.
    + apply Ascii.eqb_eq in E. subst c. cbn [app quote_body]. rewrite !Ascii.eqb_refl. cbn [quote_body].
      rewrite ?Ascii.eqb_refl. rewrite (IH _ _ Hr). cbn [length]. f_equal. lia.
    + cbn [app quote_body]. rewrite E. rewrite (IH _ _ Hr). cbn [length]. f_equal. lia.
Qed.

Lemma quotes_search_free t : forall pre y, quote_free t = true -> quotes_search pre (t ++ y) = quotes_search (pre ++ t) y.
Proof.
  induction t as [|c t IH]; intros pre y H; [now rewrite app_nil_r|].
  cbn [quote_free forallb] in H. apply andb_true_iff in H as [Hc H]. apply negb_true_iff in Hc.
  cbn [app quotes_search]. rewrite is_quote_calls, Hc. rewrite (IH _ _ H). now rewrite <- app_assoc.
Qed.

Lemma quotes_search_none t pre : quote_free t = true -> quotes_search pre t = None.
Proof.
  revert pre. induction t as [|c t IH]; intros pre H; [reflexivity|].
  cbn [quote_free forallb] in H. apply andb_true_iff in H as [Hc H]. apply negb_true_iff in Hc.
  cbn [quotes_search]. rewrite is_quote_calls, Hc. now apply IH.
Qed.

Lemma firstn_app_len {A} (a b : list A) : firstn (length a) (a ++ b) = a.
Proof. induction a as [|x a IH]; [reflexivity|]. cbn. now rewrite IH. Qed.
Lemma skipn_app_len' {A} (a b : list A) : skipn (length a) (a ++ b) = b.
Proof. induction a as [|x a IH]; [reflexivity|exact IH]. Qed.

Lemma quotes_search_lit pre q body rest : is_quote q = true ->
  match rest with d :: _ => Ascii.eqb d q = false | [] => True end ->
  quotes_search pre (q :: escape_body q body ++ q :: rest) = Some (pre, q :: escape_body q body ++ [q], rest).
Proof.
  intros Hq Hr. cbn [quotes_search]. rewrite is_quote_calls, Hq.
  rewrite (quote_body_lit q body rest 0 None Hr). cbn [plus].
  replace (length (escape_body q body) + 1) with (length (escape_body q body ++ [q])) by (rewrite app_length; reflexivity).
  change (escape_body q body ++ q :: rest) with (escape_body q body ++ [q] ++ rest). rewrite app_assoc.
  now rewrite firstn_app_len, skipn_app_len'.
Qed.

(* digits are no quotes *)
Lemma digit_not_quote m : m < 10 -> is_quote (ascii_of_nat (48 + m)) = false.
Proof. intros H. do 10 (destruct m as [|m]; [reflexivity|]). lia. Qed.

Lemma digits_fuel_free fuel : forall n acc, quote_free acc = true -> quote_free (digits_fuel fuel n acc) = true.
Proof.
  induction fuel as [|fuel IH]; intros n acc H; [exact H|]. cbn [digits_fuel].
  assert (Hd : quote_free (ascii_of_nat (48 + n mod 10) :: acc) = true).
  { cbn [quote_free forallb]. rewrite (digit_not_quote (n mod 10)) by (apply Nat.mod_upper_bound; lia). exact H. }
  destruct (n <? 10); [exact Hd|]. now apply IH.
Qed.
Lemma str_of_nat_free k : quote_free (str_of_nat k) = true.
Proof. unfold str_of_nat. now apply digits_fuel_free. Qed.

Lemma escape_free q t : is_quote q = true -> quote_free t = true -> escape_body q t = t.
Proof.
  intros Hq. induction t as [|c t IH]; intros H; [reflexivity|]. cbn [quote_free forallb] in H. apply andb_true_iff in H as [Hc H].
  cbn [escape_body flat_map]. fold (escape_body q t). rewrite (IH H).
  destruct (Ascii.eqb c q) eqn:E; [|reflexivity]. apply Ascii.eqb_eq in E. subst c.
  apply negb_true_iff in Hc. congruence.
Qed.

(* the k-th literal as the scanners see it *)
Definition masked_lit (k : nat) : str := dquote :: str_of_nat k ++ [dquote].

Fixpoint render_masked (k : nat) (ps : list piece) : str :=
  match ps with
  | [] => []
  | PLit _ _ :: ps' => masked_lit k ++ render_masked (S k) ps'
  | p :: ps' => render_piece p ++ render_masked k ps'
  end.

Definition hd_no_quote (x : str) : bool := match x with c :: _ => negb (is_quote c) | [] => true end.

(* code without quote characters, literals delimited by quotes and not directly followed by a quote *)
Fixpoint pieces_ok (ps : list piece) : bool :=
  match ps with
  | [] => true
  | PCode t :: ps' => quote_free t && pieces_ok ps'
  | PLit q _ :: ps' => is_quote q && hd_no_quote (render_pieces ps') && pieces_ok ps'
  | _ :: ps' => pieces_ok ps'
  end.

Fixpoint nlits (ps : list piece) : nat :=
  match ps with [] => 0 | PLit _ _ :: ps' => S (nlits ps') | _ :: ps' => nlits ps' end.

Lemma spaces_free n : quote_free (spaces n) = true.
Proof. induction n; [reflexivity|exact IHn]. Qed.

Lemma quote_free_app a b : quote_free (a ++ b) = quote_free a && quote_free b.
Proof. unfold quote_free. apply forallb_app. Qed.

Lemma hd_no_quote_eqb x q : is_quote q = true -> hd_no_quote x = true ->
  match x with d :: _ => Ascii.eqb d q = false | [] => True end.
Proof.
  destruct x as [|d x]; [trivial|]. cbn. intros Hq H. apply negb_true_iff in H.
  destruct (Ascii.eqb d q) eqn:E; [|reflexivity]. apply Ascii.eqb_eq in E. congruence.
Qed.

Lemma dquote_is_quote : is_quote dquote = true.
Proof. reflexivity. Qed.

(* one turn of the loop on  done ++ pre ++ literal ++ rest  *)
Lemma mask_loop_step fuel k done pre q body rest :
  quote_free pre = true -> is_quote q = true -> hd_no_quote rest = true ->
  mask_loop (S fuel) k (done ++ pre ++ (q :: escape_body q body ++ [q]) ++ rest) (length done) =
  mask_loop fuel (S k) ((done ++ pre ++ masked_lit k) ++ rest) (length (done ++ pre ++ masked_lit k)).
Proof.
  intros Hpre Hq Hr.
  assert (El : (q :: escape_body q body ++ [q]) ++ rest = q :: escape_body q body ++ q :: rest)
    by (cbn [app]; rewrite <- app_assoc; reflexivity).
  rewrite El. cbn [mask_loop]. rewrite skipn_app_len'.
  rewrite (quotes_search_free pre [] _ Hpre). cbn [app].
  rewrite (quotes_search_lit pre q body rest Hq (hd_no_quote_eqb rest q Hq Hr)).
  rewrite firstn_app_len, skipn_app_len'.
  rewrite (quotes_search_free pre [] _ Hpre). cbn [app].
  pose proof (quotes_search_lit pre dquote (str_of_nat k) rest dquote_is_quote (hd_no_quote_eqb rest dquote dquote_is_quote Hr)) as Hs.
  rewrite (escape_free dquote _ dquote_is_quote (str_of_nat_free k)) in Hs. rewrite Hs.
  assert (E1 : done ++ pre ++ dquote :: str_of_nat k ++ dquote :: rest = (done ++ pre ++ masked_lit k) ++ rest).
  { unfold masked_lit. rewrite <- !app_assoc. cbn [app]. rewrite <- app_assoc. reflexivity. }
  assert (E2 : length done + length pre + length (dquote :: str_of_nat k ++ [dquote]) = length (done ++ pre ++ masked_lit k)).
  { unfold masked_lit. rewrite !app_length. lia. }
  now rewrite E1, E2.
Qed.

Lemma mask_loop_pieces ps : forall fuel k done pre,
  quote_free pre = true -> pieces_ok ps = true -> nlits ps < fuel ->
  mask_loop fuel k (done ++ pre ++ render_pieces ps) (length done) = done ++ pre ++ render_masked k ps.
Proof.
  unfold render_pieces. induction ps as [|p ps IH]; intros fuel k done pre Hpre Hok Hf.
  - cbn [flat_map render_masked]. rewrite app_nil_r. destruct fuel as [|fuel]; [reflexivity|].
    cbn [mask_loop]. rewrite skipn_app_len'. now rewrite (quotes_search_none pre [] Hpre).
  - destruct p as [t|q body|n|]; cbn [flat_map render_piece pieces_ok nlits render_masked] in *.
    + apply andb_true_iff in Hok as [Ht Hok].
      assert (E : forall X, done ++ pre ++ t ++ X = done ++ (pre ++ t) ++ X) by (intros; now rewrite <- app_assoc).
      rewrite !E. apply IH; [rewrite quote_free_app; now rewrite Hpre, Ht|exact Hok|exact Hf].
    + apply andb_true_iff in Hok as [Hok Hps]. apply andb_true_iff in Hok as [Hq Hh].
      destruct fuel as [|fuel]; [lia|].
      rewrite (mask_loop_step fuel k done pre q body (flat_map render_piece ps) Hpre Hq Hh).
      pose proof (IH fuel (S k) (done ++ pre ++ masked_lit k) [] eq_refl Hps) as IH'. cbn [app] in IH'.
      rewrite IH' by lia. rewrite <- !app_assoc. reflexivity.
    + assert (E : forall X, done ++ pre ++ spaces n ++ X = done ++ (pre ++ spaces n) ++ X) by (intros; now rewrite <- app_assoc).
      rewrite !E. apply IH; [rewrite quote_free_app; now rewrite Hpre, spaces_free|exact Hok|exact Hf].
    + assert (E : forall X, done ++ pre ++ [semi] ++ X = done ++ (pre ++ [semi]) ++ X) by (intros; now rewrite <- app_assoc).
      rewrite !E. apply IH; [rewrite quote_free_app; now rewrite Hpre|exact Hok|exact Hf].
Qed.

Lemma nlits_len ps : pieces_ok ps = true -> nlits ps <= length (render_pieces ps).
Proof.
  unfold render_pieces. induction ps as [|p ps IH]; intros H; [apply le_n|].
  destruct p; cbn [pieces_ok nlits flat_map render_piece] in *; rewrite app_length;
    repeat match goal with H : _ && _ = true |- _ => apply andb_true_iff in H as [? H] end;
    specialize (IH H); cbn [length]; lia.
Qed.

(* C08_literals_inert: literal k becomes the number k between double quotes; nothing else changes *)
Theorem mask_pieces ps : pieces_ok ps = true -> mask_quotes (render_pieces ps) = render_masked 0 ps.
Proof.
  intros Hok. unfold mask_quotes.
  pose proof (mask_loop_pieces ps (S (length (render_pieces ps))) 0 [] [] eq_refl Hok) as H. cbn [app length] in H.
  apply H. pose proof (nlits_len ps Hok). lia.
Qed.

(* two statements that differ in the bodies of their literals only *)
Fixpoint same_shape (a b : list piece) : bool :=
  match a, b with
  | [], [] => true
  | PCode t :: a', PCode t' :: b' => str_eqb t t' && same_shape a' b'
  | PLit _ _ :: a', PLit _ _ :: b' => same_shape a' b'
  | PSp n :: a', PSp m :: b' => Nat.eqb n m && same_shape a' b'
  | PSemi :: a', PSemi :: b' => same_shape a' b'
  | _, _ => false
  end.

Lemma same_shape_masked a : forall b k, same_shape a b = true -> render_masked k a = render_masked k b.
Proof.
  induction a as [|p a IH]; intros b k H.
  { destruct b; [reflexivity|discriminate]. }
  destruct b as [|p' b]; [destruct p; discriminate|].
  destruct p, p'; try discriminate; cbn [same_shape render_masked render_piece] in *.
  - apply andb_true_iff in H as [Ht H]. apply str_eqb_eq in Ht. subst. now rewrite (IH b k H).
  - now rewrite (IH b (S k) H).
  - apply andb_true_iff in H as [Hn H]. apply Nat.eqb_eq in Hn. subst. now rewrite (IH b k H).
  - now rewrite (IH b k H).
Qed.

(* whatever the literals contain — call-like text, parentheses, quotes of the other kind, doubled
   delimiters — the scanners see the same line *)
Theorem literals_any_body a b : pieces_ok a = true -> pieces_ok b = true -> same_shape a b = true ->
  mask_quotes (render_pieces a) = mask_quotes (render_pieces b).
Proof. intros Ha Hb Hs. rewrite (mask_pieces a Ha), (mask_pieces b Hb). now apply same_shape_masked. Qed.

Example literals_example :
  let a := [PCode (s "print"); PSp 1; PCode (s "*,"); PSp 1; PLit sq (s "call q(1)"); PCode (s ","); PSp 1; PCode (s "f(3)");
            PCode (s ","); PLit dq (s "it's g(2)")] in
  let b := [PCode (s "print"); PSp 1; PCode (s "*,"); PSp 1; PLit dq (s ""); PCode (s ","); PSp 1; PCode (s "f(3)");
            PCode (s ","); PLit sq (s "x = 'y'")] in
  pieces_ok a = true /\ pieces_ok b = true /\ same_shape a b = true /\
  render_pieces a = s "print *, 'call q(1)', f(3),""it's g(2)""" /\
  mask_quotes (render_pieces a) = s "print *, ""0"", f(3),""1""" /\
  raw_calls [] (mask_quotes (render_pieces a)) = [[s "f"]].
Proof. cbv zeta. repeat split; vm_compute; reflexivity. Qed.
