(* Sem/TreeTotal.v — the structural parser terminates: fuel = number of statements + 1 always
   suffices, and what a nested unit leaves over is a suffix no longer than its input (C20) *)
From Ford Require Import Base.Str Sem.Tree.
From Coq Require Import Lia.

Lemma take_docs_length l : length (snd (take_docs l)) <= length l.
Proof.
  induction l as [|s l IH]; simpl; [lia|].
  destruct s; simpl; try lia. destruct (take_docs l) as [d r]. simpl in *. lia.
Qed.

Definition good (r : pres) (n : nat) : Prop :=
  match r with
  | PErr EFuel => False
  | PErr _ => True
  | POk _ rest => length rest <= n
  end.

Lemma parse_total_gen : forall f k nm a g st l, length l < f -> good (parse_body f k nm a g st l) (length l).
Proof.
  induction f as [|f IH]; intros k nm a g st l Hf; [lia|].
  destruct l as [|s l']; cbn [parse_body].
  - destruct k; simpl; auto.
  - cbn [length] in Hf.
    assert (Hstep : forall st', good (parse_body f k nm a g st' l') (length (s :: l'))).
    { intros st'. specialize (IH k nm a g st' l' ltac:(lia)).
      destruct (parse_body f k nm a g st' l') as [[]|e r]; simpl in *; auto; lia. }
    destruct s as [t| | |e| |c cname|ab iname|lk names|cname].
    + apply Hstep.
    + apply Hstep.
    + apply Hstep.
    + destruct k; try exact I;
        (destruct e; try apply Hstep; destruct (cs_block st), (cs_negblock st); try apply Hstep; simpl; lia).
    + destruct (cs_negblock st); apply Hstep.
    + match goal with |- good (if ?b then _ else _) _ => destruct b end; [apply Hstep|].
      pose proof (take_docs_length l') as Htd. destruct (take_docs l') as [d l1]. simpl in Htd.
      pose proof (IH c cname false false
                     {| cs_incontains := false; cs_block := 0; cs_negblock := 0; cs_docs := d; cs_children := [] |}
                     l1 ltac:(lia)) as Hn.
      destruct (parse_body f c cname false false _ l1) as [[]|child rest]; simpl in *; auto.
      match goal with |- good (parse_body f k nm a g ?S rest) _ =>
        pose proof (IH k nm a g S rest ltac:(lia)) as Hc; destruct (parse_body f k nm a g S rest) as [[]|e2 r2] end;
        simpl in *; auto; lia.
    + match goal with |- good (if ?b then _ else _) _ => destruct b end; [apply Hstep|].
      pose proof (take_docs_length l') as Htd. destruct (take_docs l') as [d l1]. simpl in Htd.
      match goal with |- good (match parse_body f KInterface iname ab ?G ?S l1 with _ => _ end) _ =>
        pose proof (IH KInterface iname ab G S l1 ltac:(lia)) as Hn;
        destruct (parse_body f KInterface iname ab G S l1) as [[]|child rest] end; simpl in *; auto.
      match goal with |- good (parse_body f k nm a g ?S rest) _ =>
        pose proof (IH k nm a g S rest ltac:(lia)) as Hc; destruct (parse_body f k nm a g S rest) as [[]|e2 r2] end;
        simpl in *; auto; lia.
    + match goal with |- good (if ?b then _ else _) _ => destruct b end; [apply Hstep|].
      pose proof (take_docs_length l') as Htd. destruct (take_docs l') as [d l1]. simpl in Htd.
      match goal with |- good (parse_body f k nm a g ?S l1) _ =>
        pose proof (IH k nm a g S l1 ltac:(lia)) as Hc; destruct (parse_body f k nm a g S l1) as [[]|e2 r2] end;
        simpl in *; auto; lia.
    + match goal with |- good (if ?b then _ else _) _ => destruct b end; [apply Hstep|].
      pose proof (take_docs_length l') as Htd. destruct (take_docs l') as [d l1]. simpl in Htd.
      pose proof (IH KModProcImpl cname false false
                     {| cs_incontains := false; cs_block := 0; cs_negblock := 0; cs_docs := d; cs_children := [] |}
                     l1 ltac:(lia)) as Hn.
      destruct (parse_body f KModProcImpl cname false false _ l1) as [[]|child rest]; simpl in *; auto.
      match goal with |- good (parse_body f k nm a g ?S rest) _ =>
        pose proof (IH k nm a g S rest ltac:(lia)) as Hc; destruct (parse_body f k nm a g S rest) as [[]|e2 r2] end;
        simpl in *; auto; lia.
Qed.

(* the parser terminates with a verdict on every statement sequence *)
Theorem parse_total fname l : parse_file fname l <> PErr EFuel.
Proof.
  unfold parse_file. intros E.
  pose proof (parse_total_gen (S (length l)) KFile fname false false
                {| cs_incontains := false; cs_block := 0; cs_negblock := 0; cs_docs := []; cs_children := [] |}
                l ltac:(lia)) as H.
  rewrite E in H. exact H.
Qed.
