(* Sem/CallsStrip.v — what utils.strip_paren computes on every string with balanced parentheses
   (C08_strip_levels), and the parenthesis trees of rendered expressions. *)
From Coq Require Import ZArith Lia.
From Ford Require Import Base.Str Base.StrFacts Gen.Intrinsics Sem.Calls Sem.CallsSpec Sem.CallsDefs.

Lemma sp_run_app ret st a b : sp_run ret (sp_run ret st a) b = sp_run ret st (a ++ b).
Proof. unfold sp_run. now rewrite fold_left_app. Qed.

Lemma sp_run_cons ret st c x : sp_run ret st (c :: x) = sp_run ret (sp_step ret st c) x.
Proof. reflexivity. Qed.

Lemma sp_step_plain ret l cur out c :
  Ascii.eqb c lpar = false -> Ascii.eqb c rpar = false ->
  sp_step ret (mk_spst l cur out) c =
  if Z.eqb l ret then mk_spst l (cur ++ [c]) out else mk_spst l cur out.
Proof. intros H1 H2. unfold sp_step. cbn [sp_lvl sp_cur sp_out]. now rewrite H1, H2. Qed.

Lemma sp_step_open ret l cur out :
  sp_step ret (mk_spst l cur out) lpar =
  mk_spst (l + 1) (if Z.eqb l ret || Z.eqb (l + 1) ret then cur ++ [lpar] else cur) out.
Proof. reflexivity. Qed.

Lemma sp_step_close ret l cur out :
  sp_step ret (mk_spst l cur out) rpar =
  let cur1 := if Z.eqb l ret || Z.eqb (l - 1) ret then cur ++ [rpar] else cur in
  if Z.eqb l ret then mk_spst (l - 1) [] (out ++ [cur1]) else mk_spst (l - 1) cur1 out.
Proof. reflexivity. Qed.

Lemma deep_grp k g t : deep (S k) (PGrp g t) = deep k g ++ deep (S k) t.
Proof. reflexivity. Qed.

(* the loop over [flat t] started at nesting level L, for the requested level d *)
Lemma sp_run_tree t : ptree_ok t = true ->
  forall (d L : nat) cur out, (L < d -> cur = []) ->
    sp_run (Z.of_nat d) (mk_spst (Z.of_nat L) cur out) (flat t) =
    if Nat.eqb L d then mk_spst (Z.of_nat L) (cur ++ shallow t) out
    else if Nat.ltb d L then mk_spst (Z.of_nat L) cur out
    else mk_spst (Z.of_nat L) [] (out ++ deep (d - L - 1) t).
Proof.
  induction t as [|c t IH|g IHg t IHt]; intros Hok d L cur out Hcur.
  - cbn [flat shallow]. unfold sp_run. cbn [fold_left].
    destruct (Nat.eqb L d) eqn:E; [now rewrite app_nil_r|]. destruct (Nat.ltb d L) eqn:E2; [reflexivity|].
    apply Nat.eqb_neq in E. apply Nat.ltb_ge in E2. rewrite Hcur by lia.
    destruct (d - L - 1); cbn; now rewrite app_nil_r.
  - cbn [ptree_ok] in Hok. apply andb_true_iff in Hok as [Hc Hok]. apply andb_true_iff in Hc as [H1 H2].
    apply negb_true_iff in H1, H2.
    cbn [flat shallow]. rewrite sp_run_cons, sp_step_plain by assumption.
    destruct (Nat.eqb L d) eqn:E.
    + apply Nat.eqb_eq in E. subst L. rewrite Z.eqb_refl. rewrite (IH Hok) by lia. rewrite Nat.eqb_refl.
      now rewrite <- app_assoc.
    + apply Nat.eqb_neq in E.
      assert (Hz : Z.eqb (Z.of_nat L) (Z.of_nat d) = false) by (apply Z.eqb_neq; lia). rewrite Hz.
      rewrite (IH Hok) by assumption. apply Nat.eqb_neq in E. rewrite E. destruct (Nat.ltb d L); [reflexivity|].
      destruct (d - L - 1); reflexivity.
  - cbn [ptree_ok] in Hok. apply andb_true_iff in Hok as [Hg Ht].
    cbn [flat shallow]. rewrite sp_run_cons, sp_step_open.
    change (flat g ++ rpar :: flat t) with (flat g ++ [rpar] ++ flat t).
    rewrite <- sp_run_app.
    replace (Z.of_nat L + 1)%Z with (Z.of_nat (S L)) by lia.
    destruct (Nat.eqb L d) eqn:E.
    + apply Nat.eqb_eq in E. subst L. rewrite Z.eqb_refl. cbn [orb].
      rewrite (IHg Hg) by lia.
      assert (E1 : Nat.eqb (S d) d = false) by (apply Nat.eqb_neq; lia). rewrite E1.
      assert (E2 : Nat.ltb d (S d) = true) by (apply Nat.ltb_lt; lia). rewrite E2.
      cbn [app]. rewrite sp_run_cons, sp_step_close. cbn zeta.
      assert (Z1 : Z.eqb (Z.of_nat (S d)) (Z.of_nat d) = false) by (apply Z.eqb_neq; lia).
      assert (Z2 : Z.eqb (Z.of_nat (S d) - 1) (Z.of_nat d) = true) by (apply Z.eqb_eq; lia).
      rewrite Z1, Z2. cbn [orb].
      replace (Z.of_nat (S d) - 1)%Z with (Z.of_nat d) by lia.
      rewrite (IHt Ht) by lia. rewrite Nat.eqb_refl. rewrite <- !app_assoc. reflexivity.
    + apply Nat.eqb_neq in E.
      assert (Hz : Z.eqb (Z.of_nat L) (Z.of_nat d) = false) by (apply Z.eqb_neq; lia). rewrite Hz. cbn [orb].
      destruct (Nat.ltb d L) eqn:Elt.
      * apply Nat.ltb_lt in Elt.
        assert (Z1 : Z.eqb (Z.of_nat (S L)) (Z.of_nat d) = false) by (apply Z.eqb_neq; lia). rewrite Z1.
        rewrite (IHg Hg) by lia.
        assert (E1 : Nat.eqb (S L) d = false) by (apply Nat.eqb_neq; lia). rewrite E1.
        assert (E2 : Nat.ltb d (S L) = true) by (apply Nat.ltb_lt; lia). rewrite E2.
        cbn [app]. rewrite sp_run_cons, sp_step_close. cbn zeta.
        assert (Z2 : Z.eqb (Z.of_nat (S L) - 1) (Z.of_nat d) = false) by (apply Z.eqb_neq; lia).
        rewrite Z1, Z2. cbn [orb].
        replace (Z.of_nat (S L) - 1)%Z with (Z.of_nat L) by lia.
        rewrite (IHt Ht) by lia. apply Nat.eqb_neq in E. rewrite E.
        assert (E3 : Nat.ltb d L = true) by (apply Nat.ltb_lt; lia). now rewrite E3.
      * apply Nat.ltb_ge in Elt. assert (Hlt : L < d) by lia.
        rewrite (Hcur Hlt).
        destruct (Nat.eqb (S L) d) eqn:E1.
        -- apply Nat.eqb_eq in E1. subst d.
           rewrite Z.eqb_refl. cbn [app].
           rewrite (IHg Hg) by lia. rewrite Nat.eqb_refl.
           rewrite sp_run_cons, sp_step_close. cbn zeta. rewrite Z.eqb_refl. cbn [orb].
           replace (Z.of_nat (S L) - 1)%Z with (Z.of_nat L) by lia.
           rewrite (IHt Ht) by reflexivity.
           assert (E2 : Nat.eqb L (S L) = false) by (apply Nat.eqb_neq; lia). rewrite E2.
           assert (E3 : Nat.ltb (S L) L = false) by (apply Nat.ltb_ge; lia). rewrite E3.
           replace (S L - L - 1) with 0 by lia. cbn [deep groups map].
           rewrite <- app_assoc. reflexivity.
        -- apply Nat.eqb_neq in E1.
           assert (Z1 : Z.eqb (Z.of_nat (S L)) (Z.of_nat d) = false) by (apply Z.eqb_neq; lia). rewrite Z1.
           rewrite (IHg Hg) by reflexivity.
           assert (E2 : Nat.eqb (S L) d = false) by (apply Nat.eqb_neq; lia). rewrite E2.
           assert (E3 : Nat.ltb d (S L) = false) by (apply Nat.ltb_ge; lia). rewrite E3.
           cbn [app]. rewrite sp_run_cons, sp_step_close. cbn zeta.
           assert (Z2 : Z.eqb (Z.of_nat (S L) - 1) (Z.of_nat d) = false) by (apply Z.eqb_neq; lia).
           rewrite Z1, Z2. cbn [orb].
           replace (Z.of_nat (S L) - 1)%Z with (Z.of_nat L) by lia.
           rewrite (IHt Ht) by reflexivity.
           assert (E4 : Nat.eqb L d = false) by (apply Nat.eqb_neq; lia). rewrite E4.
           assert (E5 : Nat.ltb d L = false) by (apply Nat.ltb_ge; lia). rewrite E5.
           replace (d - L - 1) with (S (d - S L - 1)) by lia.
           rewrite deep_grp, <- app_assoc. reflexivity.
Qed.

(* C08_strip_levels: for every string with balanced parentheses, level 0 is the text with every
   group emptied, and level d+1 consists of one slice "(...)" per group at that depth, in order,
   its own sub-groups emptied — nothing else *)
Theorem strip_levels t d : ptree_ok t = true -> strip_paren (flat t) d = level_slices d t.
Proof.
  intros Hok. unfold strip_paren.
  change 0%Z with (Z.of_nat 0). rewrite (sp_run_tree t Hok d 0 [] []) by reflexivity.
  destruct d as [|d].
  - cbn [Nat.eqb app level_slices]. unfold sp_finish. cbn [sp_cur sp_out]. destruct (shallow t); reflexivity.
  - cbn [Nat.eqb Nat.ltb Nat.leb level_slices]. unfold sp_finish. cbn [sp_cur sp_out app].
    now replace (S d - 0 - 1) with d by lia.
Qed.

Example strip_levels_example :
  let t := PCh "f"%char (PGrp (PCh "g"%char (PGrp (PCh "x"%char PNil) (PCh "+"%char (PCh "1"%char PNil))))
           (PCh "*"%char (PCh "h"%char (PGrp PNil PNil)))) in
  ptree_ok t = true /\ flat t = s "f(g(x)+1)*h()" /\
  strip_paren (flat t) 0 = [s "f()*h()"] /\ strip_paren (flat t) 1 = [s "(g()+1)"; s "()"] /\
  strip_paren (flat t) 2 = [s "(x)"] /\ strip_paren (flat t) 3 = [].
Proof. cbv zeta. repeat split; vm_compute; reflexivity. Qed.

(* ------------------------------------------------------------------ trees of rendered text *)
Fixpoint pt_app (a b : ptree) : ptree :=
  match a with
  | PNil => b
  | PCh c a' => PCh c (pt_app a' b)
  | PGrp g a' => PGrp g (pt_app a' b)
  end.

Fixpoint pt_str (x : str) : ptree :=
  match x with [] => PNil | c :: x' => PCh c (pt_str x') end.

Lemma flat_app a b : flat (pt_app a b) = flat a ++ flat b.
Proof.
  induction a as [|c a IH|g _ a IH]; cbn [pt_app flat app]; [reflexivity|now rewrite IH|].
  rewrite IH. rewrite <- app_assoc. reflexivity.
Qed.
Lemma shallow_app a b : shallow (pt_app a b) = shallow a ++ shallow b.
Proof. induction a as [|c a IH|g _ a IH]; cbn [pt_app shallow app]; [reflexivity| |]; now rewrite IH. Qed.
Lemma groups_app a b : groups (pt_app a b) = groups a ++ groups b.
Proof. induction a as [|c a IH|g _ a IH]; cbn [pt_app groups app]; [reflexivity| |]; now rewrite IH. Qed.
Lemma ok_app a b : ptree_ok (pt_app a b) = ptree_ok a && ptree_ok b.
Proof.
  induction a as [|c a IH|g _ a IH]; cbn [pt_app ptree_ok]; [reflexivity| |]; rewrite IH; now rewrite andb_assoc.
Qed.
Lemma flat_str x : flat (pt_str x) = x.
Proof. induction x as [|c x IH]; cbn [pt_str flat]; [reflexivity|now rewrite IH]. Qed.
Lemma shallow_str x : shallow (pt_str x) = x.
Proof. induction x as [|c x IH]; cbn [pt_str shallow]; [reflexivity|now rewrite IH]. Qed.
Lemma groups_str x : groups (pt_str x) = [].
Proof. induction x as [|c x IH]; cbn [pt_str groups]; [reflexivity|exact IH]. Qed.

Definition no_paren (x : str) : bool :=
  forallb (fun c => negb (Ascii.eqb c lpar) && negb (Ascii.eqb c rpar)) x.
Lemma ok_str x : ptree_ok (pt_str x) = no_paren x.
Proof. induction x as [|c x IH]; cbn [pt_str ptree_ok no_paren forallb]; [reflexivity|now rewrite IH]. Qed.

Fixpoint tree_e (e : expr) : ptree :=
  match e with
  | ELit t => pt_str t
  | EDes d => tree_d d
  | EPar e' => PGrp (tree_e e') PNil
  | EUn op e' => pt_app (pt_str op) (tree_e e')
  | EBin a op b => pt_app (tree_e a) (pt_app (pt_str op) (tree_e b))
  end
with tree_d (d : desig) : ptree :=
  match d with
  | DLast0 x => pt_str x
  | DLastA x a => pt_app (pt_str x) (PGrp (tree_e a) PNil)
  | DPart0 x r => pt_app (pt_str x) (PCh pct (tree_d r))
  | DPartA x a r => pt_app (pt_str x) (PGrp (tree_e a) (PCh pct (tree_d r)))
  end.



Scheme expr_mut := Induction for expr Sort Prop
  with desig_mut := Induction for desig Sort Prop.
Combined Scheme expr_desig_ind from expr_mut, desig_mut.

Lemma tree_flat :
  (forall e, flat (tree_e e) = render_e e) /\ (forall d, flat (tree_d d) = render_d d).
Proof.
  apply expr_desig_ind; intros; cbn [tree_e tree_d render_e render_d flat];
    rewrite ?flat_app, ?flat_str; cbn [flat]; rewrite ?flat_app, ?flat_str; cbn [flat];
    repeat match goal with H : flat _ = _ |- _ => rewrite H; clear H end;
    rewrite ?app_nil_r; try reflexivity; try now rewrite <- ?app_assoc.
Qed.

Lemma tree_shallow :
  (forall e, shallow (tree_e e) = sh_e e) /\ (forall d, shallow (tree_d d) = sh_d d).
Proof.
  apply expr_desig_ind; intros; cbn [tree_e tree_d sh_e sh_d shallow];
    rewrite ?shallow_app, ?shallow_str; cbn [shallow]; rewrite ?shallow_app, ?shallow_str; cbn [shallow];
    repeat match goal with H : shallow _ = _ |- _ => rewrite H; clear H end; try reflexivity.
Qed.

Lemma tree_groups :
  (forall e, groups (tree_e e) = map tree_e (subs_e e)) /\ (forall d, groups (tree_d d) = map tree_e (subs_d d)).
Proof.
  apply expr_desig_ind; intros; cbn [tree_e tree_d subs_e subs_d groups map];
    rewrite ?groups_app, ?groups_str; cbn [groups app]; rewrite ?groups_app, ?groups_str; cbn [groups app];
    repeat match goal with H : groups _ = _ |- _ => rewrite H; clear H end;
    rewrite ?map_app; try reflexivity.
Qed.

(* ---- no parenthesis inside the leaves of a well-formed expression ---- *)
Lemma word_not_paren c : is_word c = true -> Ascii.eqb c lpar = false /\ Ascii.eqb c rpar = false.
Proof.
  intros W. split.
  - destruct (Ascii.eqb c lpar) eqn:E1; [apply Ascii.eqb_eq in E1; subst c; discriminate|reflexivity].
  - destruct (Ascii.eqb c rpar) eqn:E2; [apply Ascii.eqb_eq in E2; subst c; discriminate|reflexivity].
Qed.

Lemma no_paren_cons c t : no_paren (c :: t) = negb (Ascii.eqb c lpar) && negb (Ascii.eqb c rpar) && no_paren t.
Proof. reflexivity. Qed.

Lemma inert_from_no_paren b t : inert_from b t = true -> no_paren t = true.
Proof.
  revert b. induction t as [|c t IH]; intros b H; [reflexivity|].
  cbn [inert_from] in H. rewrite no_paren_cons.
  destruct (is_word c) eqn:W.
  - rewrite (IH _ H), andb_true_r. destruct (word_not_paren c W) as [E1 E2]. now rewrite E1, E2.
  - destruct (bad_char c) eqn:B; [discriminate|].
    unfold bad_char in B. apply orb_false_iff in B as [B _]. apply orb_false_iff in B as [B _].
    apply orb_false_iff in B as [B1 B2]. rewrite B1, B2. cbn [negb andb].
    destruct (b && is_space c); [discriminate|]. exact (IH _ H).
Qed.

Lemma word_no_paren x : forallb is_word x = true -> no_paren x = true.
Proof.
  induction x as [|c x IH]; intros H; [reflexivity|]. cbn [forallb] in H. apply andb_true_iff in H as [W H].
  rewrite no_paren_cons, (IH H), andb_true_r. destruct (word_not_paren c W) as [E1 E2]. now rewrite E1, E2.
Qed.

Lemma name_ok_word x : name_ok x = true -> forallb is_word x = true /\ x <> [].
Proof.
  unfold name_ok. destruct x as [|c x]; [discriminate|]. intros H. apply andb_true_iff in H as [_ H]. split; [exact H|discriminate].
Qed.

Lemma lit_ok_inert t : lit_ok t = true -> inert t = true.
Proof. unfold lit_ok. intros H. now apply andb_true_iff in H as [H _]. Qed.
Lemma op_ok_inert t : op_ok t = true -> inert t = true.
Proof. unfold op_ok. intros H. repeat (apply andb_true_iff in H as [H _]). exact H. Qed.
Lemma unop_ok_inert t : unop_ok t = true -> inert t = true.
Proof. unfold unop_ok. intros H. repeat (apply andb_true_iff in H as [H _]). exact H. Qed.

Lemma tree_ok :
  (forall e, wf_e e = true -> ptree_ok (tree_e e) = true) /\ (forall d, wf_d d = true -> ptree_ok (tree_d d) = true).
Proof.
  apply expr_desig_ind; intros; cbn [tree_e tree_d wf_e wf_d ptree_ok] in *;
    repeat match goal with H : _ && _ = true |- _ => apply andb_true_iff in H as [? ?] end;
    rewrite ?ok_app, ?ok_str; cbn [ptree_ok]; rewrite ?ok_app, ?ok_str; cbn [ptree_ok];
    repeat match goal with
           | H : lit_ok _ = true |- _ => apply lit_ok_inert, inert_from_no_paren in H
           | H : op_ok _ = true |- _ => apply op_ok_inert, inert_from_no_paren in H
           | H : unop_ok _ = true |- _ => apply unop_ok_inert, inert_from_no_paren in H
           | H : name_ok _ = true |- _ => apply name_ok_word in H as [H _]; apply word_no_paren in H
           end;
    repeat match goal with H : ?a = true -> _, H' : ?a = true |- _ => specialize (H H') end;
    repeat match goal with H : _ = true |- _ => rewrite H; clear H end; reflexivity.
Qed.
