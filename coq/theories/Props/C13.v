(* Props/C13.v — property C13: every graph shows exactly the relation it is documented to show.
   Statements only; proofs are in Out/GraphProofs.v and Out/GraphExamples.v (witnesses, non-vacuity
   examples named ex_...).  Model: Out/Graph.v (ford/graphs.py), Spec: Out/GraphSpec.v.
   All theorems are unbounded: any world (relation), any sequence of node requests, any depth /
   node limit.  "States" are the registries reachable from the empty one by GraphData.get_node /
   register calls: fold_left (get_node w) xs r_empty. *)
From Coq Require Import NArith.
From Ford Require Import Base.Str Out.Graph Out.GraphSpec Out.GraphProofs Out.GraphExamples.

(* --- the registry ------------------------------------------------------------------------- *)

(* uses/used_by, ancestor/children, comp_types/comp_of, calls/called_by, interfaces/interfaced_by,
   efferent/afferent are inverse to each other (with equal labels) after any sequence of lazy
   node creations, for every relation l and all nodes a, b. *)
Theorem C13_inverse : forall w xs a l b lab,
  In (b, lab) (fwd_of (fold_left (get_node w) xs r_empty) l a) <->
  In (a, lab) (inv_of (fold_left (get_node w) xs r_empty) l b).
Proof. exact registry_inverse. Qed.
Print Assumptions C13_inverse.

(* the fuelled recursions of the model (get_call_nodes, node creation) never run dry *)
Theorem C13_registry_fuel : forall w xs calls,
  r_err (fold_left (get_node w) xs r_empty) = false /\ snd (get_call_nodes w calls) = false.
Proof. intros. split; [apply states_no_error | apply get_call_nodes_no_error]. Qed.
Print Assumptions C13_registry_fuel.

(* get_call_nodes only returns procedures that are drawn (visible, not a simple binding) *)
Theorem C13_call_nodes_sound : forall w calls c,
  In c (fst (get_call_nodes w calls)) -> is_call_node w c = true.
Proof. exact get_call_nodes_sound. Qed.
Print Assumptions C13_call_nodes_sound.

(* --- every graph, every limit --------------------------------------------------------------- *)

(* no dangling edge: all twelve graph classes, any registry state, any roots / depth / node limit *)
Theorem C13_no_dangling : forall w st q,
  no_dangling (g_nodes (graph_of w st q)) (g_edges (graph_of w st q)).
Proof. exact graph_no_dangling. Qed.
Print Assumptions C13_no_dangling.

(* hop-by-hop expansion = reachability: if the D-hop neighbourhood fits into max_nodes, the graph has
   exactly the nodes within D = max 1 graph_maxdepth hops (1 hop for project-wide graphs) and exactly
   the edges of the nodes closer than D hops *)
Theorem C13_bfs_exact : forall succ nested depth maxn roots U,
  covers (rel_of succ) roots (shown_depth nested depth) U -> (N.of_nat (length U) <= maxn)%N ->
  (forall x, In x (g_nodes (bfs nested true succ depth maxn roots)) <->
             reach_le (rel_of succ) roots (shown_depth nested depth) x) /\
  (forall e, In e (g_edges (bfs nested true succ depth maxn roots)) <->
             exists x, reach_lt (rel_of succ) roots (shown_depth nested depth) x /\ edges_from succ x e) /\
  NoDup (g_nodes (bfs nested true succ depth maxn roots)).
Proof. exact bfs_exact. Qed.
Print Assumptions C13_bfs_exact.

(* node limit, in general: the graph is the h-hop neighbourhood for some h <= D, and if h < D then
   either everything reachable is already drawn and expanded, or no list covering the (h+1)-hop
   neighbourhood fits into max_nodes (all-or-nothing per hop) *)
Theorem C13_node_limit : forall succ nested depth maxn roots,
  exists h, h <= shown_depth nested depth /\
    NoDup (g_nodes (bfs nested true succ depth maxn roots)) /\
    (forall x, In x (g_nodes (bfs nested true succ depth maxn roots)) <-> reach_le (rel_of succ) roots h x) /\
    (forall e, In e (g_edges (bfs nested true succ depth maxn roots)) <->
               exists x, reach_lt (rel_of succ) roots h x /\ edges_from succ x e) /\
    (h < shown_depth nested depth ->
       (forall x, reach_le (rel_of succ) roots h x -> reach_lt (rel_of succ) roots h x) \/
       (forall U, covers (rel_of succ) roots (S h) U -> (maxn < N.of_nat (length U))%N)).
Proof. exact bfs_post. Qed.
Print Assumptions C13_node_limit.

(* --- inverse graphs ------------------------------------------------------------------------- *)

(* a is a direct neighbour in the "used by / inherited by / called by / afferent" graph of b iff b is
   a direct neighbour in the "uses / inherits / calls / efferent" graph of a, and the arrow a -> b is
   the same in both *)
Theorem C13_inverse_graph : forall w xs c x y,
  has_inverse c = true ->
  (rel_of (class_succ w (fold_left (get_node w) xs r_empty) (inverse_of c)) x y <->
   rel_of (class_succ w (fold_left (get_node w) xs r_empty) c) y x) /\
  ((exists e, In (y, e) (class_succ w (fold_left (get_node w) xs r_empty) (inverse_of c) x) /\
              e_tail e = y /\ e_head e = x) <->
   (exists e, In (x, e) (class_succ w (fold_left (get_node w) xs r_empty) c y) /\
              e_tail e = y /\ e_head e = x)).
Proof. exact inverse_graph_rel. Qed.
Print Assumptions C13_inverse_graph.

(* the inverse graph is the breadth-first neighbourhood in the transposed relation of its counterpart,
   every arrow it draws is an arrow of the counterpart's relation, and nothing dangles *)
Theorem C13_calledby_is_inverse : forall w xs c depth maxn roots U,
  has_inverse c = true ->
  let st := fold_left (get_node w) xs r_empty in
  let R := rel_of (class_succ w st c) in
  let D := shown_depth true depth in
  covers (inverse R) roots D U -> (N.of_nat (length U) <= maxn)%N ->
  let g := bfs true true (class_succ w st (inverse_of c)) depth maxn roots in
  (forall x, In x (g_nodes g) <-> reach_le (inverse R) roots D x) /\
  (forall e, In e (g_edges g) -> R (e_tail e) (e_head e)) /\
  no_dangling (g_nodes g) (g_edges g).
Proof. exact inverse_graph_is_bfs_of_inverse. Qed.
Print Assumptions C13_calledby_is_inverse.

(* --- against the relation declared in the source --------------------------------------------- *)

(* forward graphs (uses, inherits, calls, efferent; module / type / file graph): with room for the
   D-hop neighbourhood, exactly the entities within D hops along the declared relation *)
Theorem C13_forward_declared : forall w xs c depth maxn roots U,
  class_inverse c = false -> class_skip c = true ->
  let st := fold_left (get_node w) xs r_empty in
  incl roots (r_nodes st) ->
  let D := shown_depth (class_nested c) depth in
  covers (declared_c w c) roots D U -> (N.of_nat (length U) <= maxn)%N ->
  let g := bfs (class_nested c) true (class_succ w st c) depth maxn roots in
  (forall x, In x (g_nodes g) <-> reach_le (declared_c w c) roots D x) /\
  (forall e, In e (g_edges g) <->
     exists x, reach_lt (declared_c w c) roots D x /\ edges_from (class_succ w st c) x e) /\
  no_dangling (g_nodes g) (g_edges g).
Proof.
  intros w xs c depth maxn roots U Hc Hs st Hr D HU Hl.
  exact (forward_graph_declared w st c depth maxn roots U (states_quiescent' w xs) Hc Hs Hr HU Hl).
Qed.
Print Assumptions C13_forward_declared.

(* inverse graphs: exactly the entities within D hops along the transposed declared relation,
   restricted to the entities whose node exists when the graph is built ("created before") *)
Theorem C13_inverse_declared : forall w xs c depth maxn roots U,
  class_inverse c = true ->
  let st := fold_left (get_node w) xs r_empty in
  let Rinv := fun x y => In y (r_nodes st) /\ declared_c w c y x in
  let D := shown_depth (class_nested c) depth in
  covers Rinv roots D U -> (N.of_nat (length U) <= maxn)%N ->
  let g := bfs (class_nested c) true (class_succ w st c) depth maxn roots in
  (forall x, In x (g_nodes g) <-> reach_le Rinv roots D x) /\
  no_dangling (g_nodes g) (g_edges g).
Proof.
  intros w xs c depth maxn roots U Hc st Rinv D HU Hl.
  exact (inverse_graph_declared w st c depth maxn roots U (states_quiescent' w xs) Hc HU Hl).
Qed.
Print Assumptions C13_inverse_declared.

(* Full statement without "created before": every declared predecessor that ever gets a node is in
   the inverse graph.  FALSE of the code (lazy node creation): refuted. *)
Definition C13_lazy_inverse_statement : Prop :=
  forall w regs later b lims a,
    let st1 := registry w regs in
    let st2 := fold_left (get_node w) later st1 in
    In b regs -> In a (r_nodes st2) -> declared_c w GCalledBy a b ->
    (N.of_nat (length (r_nodes st2)) <= max_nodes lims)%N ->
    In a (g_nodes (graph_of w st1 (mkQ GCalledBy [b] lims))).
Theorem C13_lazy_inverse_refuted : ~ C13_lazy_inverse_statement.
Proof. exact lazy_inverse_refuted. Qed.
Print Assumptions C13_lazy_inverse_refuted.

(* --- graph: false ---------------------------------------------------------------------------- *)
(* Full statement: an entity that is not registered (graph: false) is in no project-wide graph.  FALSE. *)
Definition C13_graph_false_statement : Prop :=
  forall w regs c roots lims x,
    class_nested c = false -> incl roots regs -> ~ In x regs ->
    ~ In x (g_nodes (graph_of w (registry w regs) (mkQ c roots lims))).
Theorem C13_graph_false_partial : forall w regs c roots lims x,
  class_nested c = false -> incl roots regs -> ~ In x regs ->
  (forall r, In r roots -> ~ declared_c w c r x) ->
  ~ In x (g_nodes (graph_of w (registry w regs) (mkQ c roots lims))).
Proof. exact graph_false_partial. Qed.
Print Assumptions C13_graph_false_partial.
Theorem C13_graph_false_refuted : ~ C13_graph_false_statement.
Proof. exact graph_false_refuted. Qed.
Print Assumptions C13_graph_false_refuted.

(* --- file graph direction ------------------------------------------------------------------- *)
(* Full statement (legend: "arrows point from a file to a file which it depends on").  FALSE. *)
Definition C13_filegraph_direction_statement : Prop :=
  forall w regs roots lims e,
    In e (g_edges (graph_of w (registry w regs) (mkQ GFile roots lims))) ->
    declared_c w GFile (e_tail e) (e_head e).
Theorem C13_filegraph_direction_partial : forall w regs roots lims e,
  In e (g_edges (graph_of w (registry w regs) (mkQ GFile roots lims))) ->
  declared_c w GFile (e_head e) (e_tail e).
Proof. exact filegraph_direction_partial. Qed.
Print Assumptions C13_filegraph_direction_partial.
Theorem C13_filegraph_direction_refuted : ~ C13_filegraph_direction_statement.
Proof. exact filegraph_direction_refuted. Qed.
Print Assumptions C13_filegraph_direction_refuted.

(* --- project-wide call graph and graph_maxnodes ------------------------------------------------ *)
(* Full statement: if roots and callees fit into max_nodes, every call edge of a root is drawn.  FALSE
   (callees that are roots are counted twice). *)
Definition C13_callgraph_limit_statement : Prop :=
  forall w regs roots lims U,
    let st := registry w regs in
    let succ := class_succ w st GCall in
    covers (rel_of succ) roots 1 U -> (N.of_nat (length U) <= max_nodes lims)%N ->
    forall x e, In x roots -> edges_from succ x e -> In e (g_edges (graph_of w st (mkQ GCall roots lims))).
Theorem C13_callgraph_limit_partial : forall w st roots lims,
  let succ := class_succ w st GCall in
  (N.of_nat (length (hop_nodes false succ (nd roots) roots) + length (nd roots)) <= max_nodes lims)%N ->
  let g := graph_of w st (mkQ GCall roots lims) in
  (forall x, In x (g_nodes g) <-> reach_le (rel_of succ) roots 1 x) /\
  (forall e, In e (g_edges g) <-> exists x, In x roots /\ edges_from succ x e) /\
  g_trunc g = None.
Proof. exact callgraph_limit_partial. Qed.
Print Assumptions C13_callgraph_limit_partial.
Theorem C13_callgraph_limit_refuted : ~ C13_callgraph_limit_statement.
Proof. exact callgraph_limit_refuted. Qed.
Print Assumptions C13_callgraph_limit_refuted.
