(* Props/C02.v — placeholder while the proofs are being written *)
From Ford Require Import Base.Str Lex.Quote Lex.Reader Lex.ReaderSpec.
