(* Props/C02.v — property C02: statement extraction depends only on Fortran's lexical rules.
   Statements only; proofs in Lex/QuoteProofs.v and Lex/ReaderProofs.v. *)
From Ford Require Import Base.Str Lex.Quote Lex.Reader Lex.ReaderSpec Lex.QuoteProofs Lex.ReaderProofs.

(* Characters inside literals are never syntax: the literal-state scanner, the comment scanner
   and the ';' splitter, against the token-level specification (all token lists, all bodies). *)
Theorem C02_unterminated_tokens : forall ps,
  Forall wf_piece ps -> unterminated (render_pieces ps) = false.
Proof. exact unterminated_tokens. Qed.
Print Assumptions C02_unterminated_tokens.

Theorem C02_unterminated_open_literal : forall ps q body,
  Forall wf_piece ps -> is_quote q = true ->
  unterminated (render_pieces ps ++ q :: escape_body q body) = true.
Proof. exact unterminated_open_literal. Qed.
Print Assumptions C02_unterminated_open_literal.

Theorem C02_comment_found : forall ps rest,
  Forall wf_piece ps ->
  first_bang (render_pieces ps ++ bang :: rest) = Some (length (render_pieces ps)).
Proof. exact comment_found. Qed.
Print Assumptions C02_comment_found.

Theorem C02_no_comment_in_literal : forall ps,
  Forall wf_piece ps -> first_bang (render_pieces ps) = None.
Proof. exact no_comment_in_literal. Qed.
Print Assumptions C02_no_comment_in_literal.

Theorem C02_semicolon_split : forall ps,
  wf_seq ps -> quote_split semi (render_pieces ps) = map render_pieces (split_semi ps []).
Proof. exact semicolon_split. Qed.
Print Assumptions C02_semicolon_split.

(* Every layout of a file — cuts with '&'...'&' continuation anywhere (inside tokens and literals)
   or with a bare trailing '&' between tokens, any indentation, blanks after '&', trailing
   comments, blank and comment lines between continued lines and between statements — yields
   exactly the ';'-separated, trimmed parts of the logical lines' character streams [joined]:
   literal text verbatim, a continued literal re-joined exactly; with '&'-led continuation the
   stream is the plain concatenation of the segments, so the cuts are invisible. *)
Theorem C02_file_statements : forall f,
  Forall item_ok f ->
  read_all default_cfg (render_file f) = ROk (flat_map stmts_of (file_texts f)).
Proof. exact file_statements. Qed.
Print Assumptions C02_file_statements.

Theorem C02_layout_invariance : forall f1 f2,
  Forall item_ok f1 -> Forall item_ok f2 -> file_texts f1 = file_texts f2 ->
  read_all default_cfg (render_file f1) = read_all default_cfg (render_file f2).
Proof. exact layout_invariance. Qed.
Print Assumptions C02_layout_invariance.

Theorem C02_joined_all_amp : forall sg segs,
  Forall (fun x => sg_amp x = true) segs -> joined (sg :: segs) = " "%char :: ll_text (sg :: segs).
Proof. exact joined_all_amp. Qed.
Print Assumptions C02_joined_all_amp.

(* The full statement (commentary wherever Fortran allows it) is FALSE of the code as it is:
   it holds outside two decidable regions and is refuted inside each. *)
Definition C02_statement : Prop := statement_C02.

Theorem C02_partial : forall f,
  Forall item_okF f -> Forall (fun it => item_region it = false) f ->
  read_all default_cfg (render_file f) = ROk (flat_map stmts_of (file_texts f)).
Proof. exact partial_C02. Qed.
Print Assumptions C02_partial.

Theorem C02_partial_refuted_comment_after_literal : ~ C02_statement.
Proof. exact refuted_comment_after_literal. Qed.
Print Assumptions C02_partial_refuted_comment_after_literal.

Theorem C02_partial_refuted_comment_in_literal : ~ C02_statement.
Proof. exact refuted_comment_in_literal. Qed.
Print Assumptions C02_partial_refuted_comment_in_literal.
