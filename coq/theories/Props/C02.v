(* Props/C02.v — property C02: statement extraction depends only on Fortran's lexical rules.
   Statements only; proofs in Lex/QuoteProofs.v and Lex/ReaderProofs.v. *)
From Ford Require Import Base.Str Lex.Mask Lex.MaskProofs.
From Ford Require Import Lex.Quote Lex.Reader Lex.ReaderSpec Lex.QuoteProofs Lex.ReaderProofs
  Lex.QuoteLower Lex.QuoteLowerProofs.

(* Characters inside literals are never syntax: the literal-state scanner, the comment scanner
   and the ';' splitter, against the token-level specification (all token lists, all bodies). *)
Theorem C02_unterminated_tokens : forall ps,
  Forall wf_piece ps -> unterminated (render_pieces ps) = false.
Proof. exact unterminated_tokens. Qed.
Print Assumptions C02_unterminated_tokens.

Theorem C02_unterminated_open_literal : forall ps q body,
  Forall wf_piece ps -> is_quote q = true ->
  unterminated (render_pieces ps ++ q :: escape_body q body) = true.
Proof. exact unterminated_open_literal. Qed.
Print Assumptions C02_unterminated_open_literal.

Theorem C02_comment_found : forall ps rest,
  Forall wf_piece ps ->
  first_bang (render_pieces ps ++ bang :: rest) = Some (length (render_pieces ps)).
Proof. exact comment_found. Qed.
Print Assumptions C02_comment_found.

Theorem C02_no_comment_in_literal : forall ps,
  Forall wf_piece ps -> first_bang (render_pieces ps) = None.
Proof. exact no_comment_in_literal. Qed.
Print Assumptions C02_no_comment_in_literal.

(* ... also on a line that starts inside a literal continued from the previous line: a '!' after
   the closing delimiter is a comment, a '!' in the rest of the body is not; and a comment line
   between the lines of a continued literal is a comment line *)
Theorem C02_comment_found_after_open_literal : forall q body ps rest,
  is_quote q = true -> Forall wf_piece ps ->
  let line := escape_body q body ++ q :: render_pieces ps ++ bang :: rest in
  bang_first line = false ->
  match_com line (Some q) = Some (length (escape_body q body) + 1 + length (render_pieces ps)).
Proof. exact comment_found_after_open_literal. Qed.
Print Assumptions C02_comment_found_after_open_literal.

Theorem C02_comment_line_in_open_literal : forall q i t,
  match_com (spaces i ++ bang :: t) (Some q) = Some i.
Proof. exact comment_line_in_open_literal. Qed.
Print Assumptions C02_comment_line_in_open_literal.

Theorem C02_semicolon_split : forall ps,
  wf_seq ps -> quote_split semi (render_pieces ps) = map render_pieces (split_semi ps []).
Proof. exact semicolon_split. Qed.
Print Assumptions C02_semicolon_split.

(* Every layout of a file — cuts with '&'...'&' continuation anywhere (inside tokens and literals)
   or with a bare trailing '&' between tokens, any indentation, blanks after '&', a trailing
   comment on every line that ends outside a literal (also when the line started inside one),
   blank and comment lines between continued lines (also between the lines of a continued literal)
   and between statements — yields exactly the ';'-separated, trimmed parts of the logical lines'
   character streams [joined]: literal text verbatim, a continued literal re-joined exactly; with
   '&'-led continuation the stream is the plain concatenation of the segments, so the cuts are
   invisible.  This is the full statement ([item_okF] places commentary wherever Fortran allows
   it); until the reader recognised commentary after / inside a continued literal it was refuted
   on two regions. *)
Theorem C02_file_statements : forall f,
  Forall item_okF f ->
  read_all default_cfg (render_file f) = ROk (flat_map stmts_of (file_texts f)).
Proof. exact file_statementsF. Qed.
Print Assumptions C02_file_statements.

Theorem C02_layout_invariance : forall f1 f2,
  Forall item_okF f1 -> Forall item_okF f2 -> file_texts f1 = file_texts f2 ->
  read_all default_cfg (render_file f1) = read_all default_cfg (render_file f2).
Proof. exact layout_invarianceF. Qed.
Print Assumptions C02_layout_invariance.

Theorem C02_joined_all_amp : forall sg segs,
  Forall (fun x => sg_amp x = true) segs -> joined (sg :: segs) = " "%char :: ll_text (sg :: segs).
Proof. exact joined_all_amp. Qed.
Print Assumptions C02_joined_all_amp.

(* The two layouts on which the full statement used to be refuted now yield the statement of the
   specification. *)
Theorem C02_repaired_comment_after_literal :
  render_file witness1 = [s "x = 'abc&"; s "  &def' ! comment"] /\
  flat_map stmts_of (file_texts witness1) = [s "x = 'abcdef'"] /\
  read_all default_cfg (render_file witness1) = ROk [s "x = 'abcdef'"].
Proof. exact repaired_comment_after_literal. Qed.
Print Assumptions C02_repaired_comment_after_literal.

Theorem C02_repaired_comment_in_literal :
  render_file witness2 = [s "x = 'abc&"; s "! note"; s "  &def'"] /\
  flat_map stmts_of (file_texts witness2) = [s "x = 'abcdef'"] /\
  read_all default_cfg (render_file witness2) = ROk [s "x = 'abcdef'"].
Proof. exact repaired_comment_in_literal. Qed.
Print Assumptions C02_repaired_comment_in_literal.

(* The parser's second literal pass (FortranContainer.__init__: literals cut out of the statement,
   the option `lower` applied to what is left, literals put back — model Lex/Mask.v, tied to the
   code by the checks of C18 and by the parser-level part of this check): for every statement made
   of quote-free code and literals (any bodies, both delimiters, doubled delimiters, any number),
   masking succeeds, and lower-casing the masked statement and unmasking it gives the statement
   with its code lower-cased and every literal verbatim ([lower_outside], Lex/QuoteLower.v). *)
Theorem C02_mask_lower_unmask : forall segs tail,
  wf_line segs tail = true ->
  mask (render segs tail) = Some (render_masked 0 segs tail, lits segs) /\
  unmask_in (fun x => x) (lits segs) (lower (render_masked 0 segs tail))
  = Some (lower_outside (render segs tail)).
Proof. exact mask_lower_unmask. Qed.
Print Assumptions C02_mask_lower_unmask.
