(* Props/C01types.v -- property C01, declaration layer: a declared variable is reported with its
   declared type, kind / length parameters, attributes, intent and initial value, independently of
   keyword letter case and of equivalent spellings of the declaration.
   Statements only; proofs are in Sem/TypeSpecProofs.v.  Model: Sem/TypeSpec.v (parse_type,
   line_to_variables, attribute statements, typed prefixes, argument matching); Spec: Sem/DeclSpec.v
   (abstract declarations, their spellings, what must be reported). *)
From Coq Require Import ZArith.
From Ford Require Import Base.Str Base.StrX Sem.TypeSpec Sem.DeclSpec Sem.TypeSpecProofs.

(* Every intrinsic or derived type T with kind / length expressions k, l (not empty, no white space,
   quote or "=", parentheses balanced; a star form only with a literal), written in ANY spelling sp
   -- letter case of every keyword, real*8 | real(8) | real(kind=8), character*10 | (10) | (len=10) |
   (len=.., kind=..) | (kind=.., len=..) | (.., kind=..), "double precision" with any positive number of
   blanks, blanks inside the parentheses, around "=" and before "(" -- and followed by n blanks and
   any text t that starts with an attribute list, "::" or a name: parse_type returns exactly the
   declared type, kind and length, and t as the rest.  Hypothesis [type_region sp T = 0] excludes
   the four recorded defects. *)
Theorem C01_type_spellings : forall sp T n t,
  type_ok sp T = true -> type_region sp T = 0 -> tail_ok n t = true ->
  parse_type (render_type sp T ++ blanks n ++ t) = Ok (spec_parsed T t).
Proof. exact type_spellings. Qed.
Print Assumptions C01_type_spellings.

(* the character len / kind lemma: all orders of len= / kind=, positional forms, the star forms *)
Theorem C01_character_spellings : forall sp l k n t,
  type_ok sp (AChar l k) = true -> type_region sp (AChar l k) = 0 -> tail_ok n t = true ->
  parse_type (render_type sp (AChar l k) ++ blanks n ++ t)
  = Ok (mkpt (s "character") t k (Some (match l with Some x => x | None => s "1" end)) None).
Proof. exact type_spellings_char. Qed.
Print Assumptions C01_character_spellings.

(* the full statement (no region hypothesis) is FALSE of the code; one witness per defect *)
Definition C01_type_spellings_statement : Prop := type_spellings_statement.
Theorem C01_type_spellings_refuted : ~ C01_type_spellings_statement.
Proof. exact type_spellings_refuted. Qed.
Print Assumptions C01_type_spellings_refuted.
Theorem C01_type_spellings_refuted_double :
  exists sp T n t, type_ok sp T = true /\ tail_ok n t = true /\ type_region sp T = 1 /\
    parse_type (render_type sp T ++ blanks n ++ t) = Ok (mkpt (s "doubleprecision") t None None None).
Proof. exact type_spellings_refuted_double. Qed.
Print Assumptions C01_type_spellings_refuted_double.
Theorem C01_type_spellings_refuted_star :
  exists sp T n t, type_ok sp T = true /\ tail_ok n t = true /\ type_region sp T = 2 /\
    parse_type (render_type sp T ++ blanks n ++ t) = Err (s "ValueError").
Proof. exact type_spellings_refuted_star. Qed.
Print Assumptions C01_type_spellings_refuted_star.
Theorem C01_character_spellings_refuted_len :
  exists sp T n t, type_ok sp T = true /\ tail_ok n t = true /\ type_region sp T = 3 /\
    parse_type (render_type sp T ++ blanks n ++ t) = Ok (mkpt (s "character") t None (Some (s "n")) None) /\
    spec_parsed T t = mkpt (s "character") t None (Some (s "n+1")) None.
Proof. exact character_spellings_refuted_len. Qed.
Print Assumptions C01_character_spellings_refuted_len.
Theorem C01_type_spellings_refuted_kind_comma :
  exists sp T n t, type_ok sp T = true /\ tail_ok n t = true /\ type_region sp T = 4 /\
    parse_type (render_type sp T ++ blanks n ++ t) = Ok (mkpt (s "real") t (Some (s "selected_real_kind(6")) None None).
Proof. exact type_spellings_refuted_kind_comma. Qed.
Print Assumptions C01_type_spellings_refuted_kind_comma.

(* Independence of letter case and of the chosen equivalent spelling: any two admissible
   spellings of the same type give the same result. *)
Theorem C01_case_invariance : forall sp sp' T n t,
  type_ok sp T = true -> type_region sp T = 0 -> type_ok sp' T = true -> type_region sp' T = 0 ->
  tail_ok n t = true ->
  parse_type (render_type sp T ++ blanks n ++ t) = parse_type (render_type sp' T ++ blanks n ++ t).
Proof. exact case_invariance. Qed.
Print Assumptions C01_case_invariance.
(* ... but attributes that are kept as text keep the letter case they were written with *)
Definition C01_case_invariance_statement_attributes : Prop := attr_case_statement.
Theorem C01_case_invariance_refuted_attribute : ~ C01_case_invariance_statement_attributes.
Proof. exact case_invariance_refuted_attribute. Qed.
Print Assumptions C01_case_invariance_refuted_attribute.

(* Attribute on the declaration vs separate attribute statement, per attribute kind.  For
   allocatable, pointer, target, save, volatile, asynchronous, value (and any variable whose name
   is an identifier): recording the statement and merging it at the end of the unit gives the
   variable that the declaration carrying the (lower-case) attribute gives. *)
Theorem C01_attr_stmt_equiv : forall a v acc,
  In a text_attrs -> forallb is_word (v_name v) = true ->
  (exists st, record_attribute (mkas [] []) a (v_name v) = Ok st /\
              process_attribs st [v] = Ok [set_attribs v (v_attribs v ++ [a])])
  /\ classify acc a = mkacc (a_attribs acc ++ [a]) (a_intent acc) (a_optional acc) (a_permission acc) (a_parameter acc).
Proof. exact attr_stmt_equiv. Qed.
Print Assumptions C01_attr_stmt_equiv.
(* refuted for OPTIONAL, PARAMETER, DIMENSION (statement and attribute vs array spec),
   INTENT(IN OUT) and for statements naming the result variable of a function *)
Theorem C01_attr_stmt_equiv_refuted_optional :
  both (sub1 (s "b")) [s "integer b"; s "optional b"] [s "integer, optional :: b"]
       (fun v v' => negb (v_optional v) && attribs_are v [s "optional"] && v_optional v' && attribs_are v' []) = true.
Proof. exact attr_stmt_equiv_refuted_optional. Qed.
Print Assumptions C01_attr_stmt_equiv_refuted_optional.
Theorem C01_attr_stmt_equiv_refuted_parameter :
  both (sub1 []) [s "character(len=5) str"; s "parameter (str = 'a  b')"]
       [s "character(len=5), parameter :: str = 'a  b'"]
       (fun v v' => negb (v_parameter v) && attribs_are v [s "parameter"] && initial_is v (s " ""0""")
                    && v_parameter v' && attribs_are v' [] && initial_is v' (s "'a" ++ [nbsp; nbsp] ++ s "b'")) = true.
Proof. exact attr_stmt_equiv_refuted_parameter. Qed.
Print Assumptions C01_attr_stmt_equiv_refuted_parameter.
Theorem C01_attr_stmt_equiv_refuted_dimension :
  both (sub1 []) [s "real a"; s "dimension a(3)"] [s "real :: a(3)"]
       (fun v v' => seqb (v_dimension v) [] && attribs_are v [s "dimension(3)"]
                    && seqb (v_dimension v') (s "(3)") && attribs_are v' []) = true /\
  both (sub1 []) [s "real, dimension(3) :: a"] [s "real :: a(3)"]
       (fun v v' => seqb (v_dimension v) [] && attribs_are v [s "dimension(3)"]
                    && seqb (v_dimension v') (s "(3)") && attribs_are v' []) = true.
Proof. exact attr_stmt_equiv_refuted_dimension. Qed.
Print Assumptions C01_attr_stmt_equiv_refuted_dimension.
Theorem C01_attr_stmt_equiv_refuted_intent_in_out :
  both (sub1 (s "d")) [s "real d"; s "intent(in out) d"] [s "real, intent(in out) :: d"]
       (fun v v' => seqb (v_intent v) [] && seqb (v_intent v') (s "inout")) = true.
Proof. exact attr_stmt_equiv_refuted_intent_in_out. Qed.
Print Assumptions C01_attr_stmt_equiv_refuted_intent_in_out.
Theorem C01_attr_stmt_equiv_refuted_result :
  both (mkhdr UFunction None (s "f") (Some (s "()")) (Some (s "r")))
       [s "real r"; s "dimension r(3)"; s "save r"] [s "real, dimension(3), save :: r"]
       (fun v v' => attribs_are v [] && attribs_are v' [s "dimension(3)"; s "save"]) = true.
Proof. exact attr_stmt_equiv_refuted_result. Qed.
Print Assumptions C01_attr_stmt_equiv_refuted_result.

(* Typed function prefixes are lower-cased and searched for prefix keywords before parse_type sees
   them. *)
Theorem C01_prefix_refuted_case :
  retvar_test (fun0 (Some (s "real(WP)")) (s "f")) [] (fun r => opt_eqb seqb (v_kind r) (Some (s "wp"))) = true /\
  retvar_test (fun0 None (s "f")) [s "real(WP) :: f"] (fun r => opt_eqb seqb (v_kind r) (Some (s "WP"))) = true.
Proof. exact prefix_refuted_case. Qed.
Print Assumptions C01_prefix_refuted_case.
Theorem C01_prefix_refuted_keyword :
  retvar_test (fun0 (Some (s "type(module_t)")) (s "f3")) []
              (fun r => opt_eqb (pair_eqb seqb seqb) (v_proto r) (Some (s "_t", []))) = true /\
  attribs_of (fun0 (Some (s "type(module_t)")) (s "f3")) [] = [s "module"] /\
  retvar_test (fun0 None (s "f3")) [s "type(module_t) :: f3"]
              (fun r => opt_eqb (pair_eqb seqb seqb) (v_proto r) (Some (s "module_t", []))) = true.
Proof. exact prefix_refuted_keyword. Qed.
Print Assumptions C01_prefix_refuted_keyword.

(* Ordered argument list: the dummy arguments are reported in the order of the argument list; each
   is the variable declared under that name (up to letter case) or an implicitly typed one. *)
Theorem C01_argument_order : forall args vars,
  Forall2 (fun a v => seqb (lower a) (lower (v_name v)) = true \/ v = implicit_var a)
          args (fst (match_args args vars))
  /\ length (fst (match_args args vars)) = length args
  /\ length (snd (match_args args vars)) <= length vars.
Proof. exact match_args_order. Qed.
Print Assumptions C01_argument_order.
