(* Props/C01types.v -- property C01, declaration layer: a declared variable is reported with its
   declared type, kind / length parameters, attributes, intent and initial value, independently of
   keyword letter case and of equivalent spellings of the declaration.
   Statements only; proofs are in Sem/TypeSpecProofs.v.  Model: Sem/TypeSpec.v (parse_type,
   line_to_variables, attribute statements, typed prefixes, argument matching); Spec: Sem/DeclSpec.v
   (abstract declarations, their spellings, what must be reported). *)
From Coq Require Import ZArith.
From Ford Require Import Base.Str Base.StrX Sem.TypeSpec Sem.DeclSpec Sem.TypeSpecProofs.

(* Every intrinsic or derived type T with kind / length expressions k, l (not empty, no white space,
   quote or "=", parentheses balanced; a star form only with a literal; no comma inside the
   parameters of character), written in ANY spelling sp -- letter case of every keyword,
   real*8 | real * 8 | real(8) | real(kind=8), character*10 | star with an asterisk in parentheses | (10) | (len=10) | (len=.., kind=..) |
   (kind=.., len=..) | (.., kind=..), "double precision" with any number of blanks including none,
   blanks inside the parentheses, around "=", after "*" and before "(" -- and followed by n blanks
   and any text t that starts with an attribute list, "::" or a name: parse_type returns exactly
   the declared type, kind and length, and t as the rest. *)
Theorem C01_type_spellings : forall sp T n t,
  type_ok sp T = true -> tail_ok n t = true ->
  parse_type (render_type sp T ++ blanks n ++ t) = Ok (spec_parsed T t).
Proof. exact type_spellings. Qed.
Print Assumptions C01_type_spellings.

(* the character len / kind lemma: all orders of len= / kind=, positional forms, the star forms;
   the length is the whole expression *)
Theorem C01_character_spellings : forall sp l k n t,
  type_ok sp (AChar l k) = true -> tail_ok n t = true ->
  parse_type (render_type sp (AChar l k) ++ blanks n ++ t)
  = Ok (mkpt (s "character") t k (Some (match l with Some x => x | None => s "1" end)) None).
Proof. exact type_spellings_char. Qed.
Print Assumptions C01_character_spellings.

(* Independence of letter case and of the chosen equivalent spelling: any two spellings of the
   same type give the same result. *)
Theorem C01_case_invariance : forall sp sp' T n t,
  type_ok sp T = true -> type_ok sp' T = true -> tail_ok n t = true ->
  parse_type (render_type sp T ++ blanks n ++ t) = parse_type (render_type sp' T ++ blanks n ++ t).
Proof. exact case_invariance. Qed.
Print Assumptions C01_case_invariance.
(* ... but attributes that are kept as text keep the letter case they were written with *)
Definition C01_case_invariance_statement_attributes : Prop := attr_case_statement.
Theorem C01_case_invariance_refuted_attribute : ~ C01_case_invariance_statement_attributes.
Proof. exact case_invariance_refuted_attribute. Qed.
Print Assumptions C01_case_invariance_refuted_attribute.

(* Attribute on the declaration vs separate attribute statement, per attribute kind.  For
   allocatable, pointer, target, save, volatile, asynchronous, value (and any variable whose name
   is an identifier): recording the statement and merging it at the end of the unit gives the
   variable that the declaration carrying the (lower-case) attribute gives. *)
Theorem C01_attr_stmt_equiv : forall a v acc,
  In a text_attrs -> forallb is_word (v_name v) = true ->
  (exists st, record_attribute (mkas [] []) [] a (v_name v) = Ok st /\
              process_attribs st [v] = Ok [set_attribs v (v_attribs v ++ [a])])
  /\ classify acc a = mkacc (a_attribs acc ++ [a]) (a_intent acc) (a_optional acc) (a_permission acc) (a_parameter acc).
Proof. exact attr_stmt_equiv. Qed.
Print Assumptions C01_attr_stmt_equiv.
(* OPTIONAL, INTENT(..) and PARAMETER set the same field in both forms *)
Theorem C01_attr_stmt_equiv_optional : forall params v acc,
  apply_attr params (Ok v) (s "optional") = Ok (with_optional v) /\
  classify acc (s "optional") = mkacc (a_attribs acc) (a_intent acc) true (a_permission acc) (a_parameter acc).
Proof. exact attr_stmt_equiv_optional. Qed.
Print Assumptions C01_attr_stmt_equiv_optional.
Theorem C01_attr_stmt_equiv_intent : forall params v acc i,
  In i [s "in"; s "out"; s "inout"] ->
  apply_attr params (Ok v) (s "intent(" ++ i ++ s ")") = Ok (with_intent v i) /\
  classify acc (s "intent(" ++ i ++ s ")")
  = mkacc (a_attribs acc) i (a_optional acc) (a_permission acc) (a_parameter acc).
Proof. exact attr_stmt_equiv_intent. Qed.
Print Assumptions C01_attr_stmt_equiv_intent.
Theorem C01_attr_stmt_equiv_parameter : forall params v init,
  pdict_get (lower (v_name v)) params = Some init ->
  apply_attr params (Ok v) (s "parameter") = Ok (with_parameter v init).
Proof. exact attr_stmt_equiv_parameter. Qed.
Print Assumptions C01_attr_stmt_equiv_parameter.
(* still refuted: DIMENSION (attribute or statement) against an array spec after the name *)
Theorem C01_attr_stmt_equiv_refuted_dimension :
  both (sub1 []) [s "real a"; s "dimension a(3)"] [s "real :: a(3)"]
       (fun v v' => seqb (v_dimension v) [] && attribs_are v [s "dimension(3)"]
                    && seqb (v_dimension v') (s "(3)") && attribs_are v' []) = true /\
  both (sub1 []) [s "real, dimension(3) :: a"] [s "real :: a(3)"]
       (fun v v' => seqb (v_dimension v) [] && attribs_are v [s "dimension(3)"]
                    && seqb (v_dimension v') (s "(3)") && attribs_are v' []) = true.
Proof. exact attr_stmt_equiv_refuted_dimension. Qed.
Print Assumptions C01_attr_stmt_equiv_refuted_dimension.

(* Ordered argument list: the dummy arguments are reported in the order of the argument list; each
   is the variable declared under that name (up to letter case) or an implicitly typed one. *)
Theorem C01_argument_order : forall args vars,
  Forall2 (fun a v => seqb (lower a) (lower (v_name v)) = true \/ v = implicit_var a)
          args (fst (match_args args vars))
  /\ length (fst (match_args args vars)) = length args
  /\ length (snd (match_args args vars)) <= length vars.
Proof. exact match_args_order. Qed.
Print Assumptions C01_argument_order.
