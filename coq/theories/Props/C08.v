(* Props/C08.v — property C08: recorded calls are exactly the user procedures a unit invokes.
   Statements only; proofs in Sem/CallsStrip.v, CallsScan.v, CallsStmt.v, CallsProofs.v,
   CallsExact.v, CallsMask.v, CallsWitness.v. *)
From Ford Require Import Base.Str Gen.Intrinsics Lex.ReaderSpec Sem.Calls Sem.CallsSpec Sem.CallsDefs Sem.CallsStrip Sem.CallsScan
  Sem.CallsStmt Sem.CallsProofs Sem.CallsBridge Sem.CallsGate Sem.CallsAssoc Sem.CallsExact Sem.CallsMask Sem.CallsWitness.

(* utils.strip_paren on EVERY string with balanced parentheses (t ranges over all parenthesis trees,
   d over all levels): level 0 is the text with each group emptied to "()", level d+1 is one slice
   "(...)" per group at that depth, in order, its own sub-groups emptied; nothing else. *)
Theorem C08_strip_levels : forall t d, ptree_ok t = true -> strip_paren (flat t) d = level_slices d t.
Proof. exact strip_levels. Qed.
Print Assumptions C08_strip_levels.

(* ... hence for every well-formed statement written as segments (all expressions, all nesting
   depths): each reference appears at the level of its own nesting depth as  name()  *)
Theorem C08_strip_levels_stmt : forall gs, wf_segs gs = true -> gs <> [] ->
  strip_paren (render_segs gs) 0 = [sh_segs gs] /\
  forall d, strip_paren (render_segs gs) (S d) = map (fun e => wrap (sh_e e)) (nth_level d (flat_map subs_seg gs)).
Proof. exact strip_levels_segs. Qed.
Print Assumptions C08_strip_levels_stmt.

(* every keyword the grammar writes in front of "(" — the complete finite table, and every keyword
   of every form — is in the list regenerated from ford/intrinsics.py *)
Theorem C08_keywords_filtered :
  (forall k, In k grammar_keywords -> str_in k INTRINSICS = true) /\
  (forall sp f kw, In kw (flat_map seg_kw (segs_of sp f)) -> str_in kw INTRINSICS = true) /\
  str_in (s "if") INTRINSICS = true /\ str_in (s "associate") INTRINSICS = true.
Proof. exact keywords_filtered. Qed.
Print Assumptions C08_keywords_filtered.

(* character literals: for every sequence of code pieces and literals (any delimiter, any body) the
   masking loop turns literal k into "k" and changes nothing else; two statements that differ in
   literal bodies only are the same line for the call scanners *)
Theorem C08_literals_inert : forall ps, pieces_ok ps = true -> mask_quotes (render_pieces ps) = render_masked 0 ps.
Proof. exact mask_pieces. Qed.
Print Assumptions C08_literals_inert.

Theorem C08_literals_any_body : forall a b, pieces_ok a = true -> pieces_ok b = true -> same_shape a b = true ->
  mask_quotes (render_pieces a) = mask_quotes (render_pieces b).
Proof. exact literals_any_body. Qed.
Print Assumptions C08_literals_any_body.

(* raw calls: for every well-formed statement of the grammar (every form, with or without label, CALL
   and IF...CALL with or without label and argument list, ASSOCIATE header; expressions of any depth),
   the chains _add_procedure_calls collects are the CALL target (when SUBCALL_RE applies) followed
   by the identifiers in front of "(" of every nesting level, in level order.  [plain_ok]: a form
   does not itself contain ") call". *)
Theorem C08_raw : forall st, seg_stmt st = true -> wf_stmt st = true -> plain_ok st = true ->
  map norm_chain (chain_texts (render_stmt st)) = stmt_chains st.
Proof. exact raw_stmt. Qed.
Print Assumptions C08_raw.

(* the same for any list of segments on which SUBCALL_RE does not match *)
Theorem C08_raw_segs : forall gs, wf_segs gs = true -> gs <> [] -> subcall_match (sh_segs gs) = None ->
  map norm_chain (chain_texts (render_segs gs)) =
  flat_map seg_heads0 gs ++ level_heads (flat_map subs_seg gs) (length (render_segs gs)).
Proof. exact raw_segs. Qed.
Print Assumptions C08_raw_segs.

(* each recorded once: for every list of statement texts whatsoever, no chain twice before
   correlate, no procedure twice after *)
Theorem C08_once : forall stmts,
  (forall calls, unit_raw_calls stmts = Some calls ->
     NoDup calls /\ forall ch, In ch calls -> str_in (last_of ch) INTRINSICS = false) /\
  (forall tb l, recorded tb stmts = Some l -> NoDup l).
Proof. exact once. Qed.
Print Assumptions C08_once.

(* a FORMAT statement records nothing, whatever its body, with or without a blank before "(" *)
Theorem C08_format_inert : forall lab sp body st, label_ok lab = true -> existsb (Ascii.eqb nl) (flat body) = false ->
  line_step st (render_stmt (SFormat lab sp body)) = Some st.
Proof. exact format_inert. Qed.
Print Assumptions C08_format_inert.

(* the gate of the cascade, derived from the grammar: for every well-formed statement written as
   segments (every form, CALL, IF...CALL, ASSOCIATE header; labelled or not) the rendered text passes
   `CALL_RE.search(line) or SUBCALL_RE.search(line)` whenever there is a chain to collect from it *)
Theorem C08_gate : forall st, seg_stmt st = true -> wf_stmt st = true ->
  call_gate (render_stmt st) = true \/ stmt_chains st = [].
Proof. exact gate_stmt. Qed.
Print Assumptions C08_gate.

(* ... and for CALL / IF ... CALL it is SUBCALL_RE that matches, whatever the target and its arguments *)
Theorem C08_gate_call : forall st, wf_stmt st = true ->
  match st with SCall _ _ | SIfCall _ _ _ _ => subcall_match (render_stmt st) <> None | _ => True end.
Proof. exact gate_call. Qed.
Print Assumptions C08_gate_call.

(* the ASSOCIATE statement, for every association list (any number of pairs, selectors that are
   designators with component chains and argument lists, or expressions), under any associations [a]
   already in force: ASSOCIATE_RE matches, the selectors' references are collected under [a], and the
   batch added binds every name to its selector's chain (a leading name of an enclosing construct
   replaced) or to None for an expression *)
Theorem C08_assoc_step : forall a calls sp pairs,
  wf_stmt (SAssoc sp pairs) = true -> forallb (fun p => sel_ok (snd p)) pairs = true ->
  line_step (a, calls) (render_stmt (SAssoc sp pairs)) =
  Some (a ++ [new_batch a pairs], add_calls a calls (render_stmt (SAssoc sp pairs))).
Proof. exact assoc_step. Qed.
Print Assumptions C08_assoc_step.

(* raw calls under ASSOCIATE: with associations [a] in force the chains collected from a statement are
   those of C08_raw with a leading associate name replaced by its selector's chain, the rest appended;
   chains headed by the name of an expression value are not recorded *)
Theorem C08_raw_assoc : forall (a : assocs) st, seg_stmt st = true -> wf_stmt st = true -> plain_ok st = true ->
  raw_calls a (render_stmt st) = subst_chains a (stmt_chains st).
Proof. exact raw_assoc. Qed.
Print Assumptions C08_raw_assoc.

(* a whole executable part, ASSOCIATE constructs nested to any depth, names bound again in inner
   constructs, END ASSOCIATE popping the last batch: the associations in force behind every statement
   are the Spec's, the calls collected are those of the statements under them *)
Theorem C08_unit_run : forall ss (a : assocs) calls,
  forallb wf_stmt ss = true -> forallb plain_ok ss = true -> forallb step_ok ss = true -> nest_ok (length a) ss = true ->
  run_lines (a, calls) (map render_stmt ss) = Some (fold_left env_after ss a, append_calls calls (model_chains a ss)).
Proof. exact run_unit. Qed.
Print Assumptions C08_unit_run.

(* exactness (partial): for every unit — ASSOCIATE constructs included — whose statements fall
   through the cascade branches in front of the gate (FORMAT_RE, END ASSOCIATE, ASSOCIATE_RE, GO TO:
   evaluated on the text; the gate itself is C08_gate), with properly closed ASSOCIATE constructs,
   correct name tables, no visible procedure spelled like a statement keyword (region 3) and inner
   designator parts that are variables: unit.calls is duplicate-free and is, as a set, what the unit
   invokes *)
Theorem C08_exact : forall tb ss srcs,
  map mask_quotes srcs = map render_stmt ss -> resolvable tb ss = true ->
  exists l, recorded tb srcs = Some l /\ NoDup l /\ forall p, In p l <-> In p (calls_of tb ss).
Proof. exact exact. Qed.
Print Assumptions C08_exact.

(* the full statement is still FALSE of the code: refuted inside the two open regions *)
Definition C08_full_statement : Prop := C08_statement.

Theorem C08_refuted_unresolved_array :
  let ss := [SForm None true (FAssign (ref1 "w" (num "1")) (ref1 "z" (num "2")))] in
  let tb_ford := tb0 [] in
  let tb_true := tb0 [(s "w", EVar (s "real") true false); (s "z", EVar (s "real") true false)] in
  forallb wf_stmt ss = true /\ map render_stmt ss = [s "w(1) = z(2)"] /\
  region_unresolved tb_ford tb_true ss = true /\
  recorded tb_ford (map render_stmt ss) = Some [s "w"; s "z"] /\ calls_of tb_true ss = [].
Proof. exact refuted_unresolved_array. Qed.
Print Assumptions C08_refuted_unresolved_array.

Theorem C08_refuted_keyword_named : ~ C08_full_statement.
Proof. exact (refutes_statement _ _ (proj1 refuted_keyword_named)). Qed.
Print Assumptions C08_refuted_keyword_named.

(* repaired in FORD (same last component, labelled CALL, FORMAT without blank, ASSOCIATE with an
   expression or a not yet correlated function as selector, computed GO TO): the former witnesses
   of the refutations, now regression inputs on which model and Spec agree *)
Theorem C08_fixed_witnesses :
  agrees w_same_last_tb w_same_last /\ agrees w_labelled_tb w_labelled /\ agrees (tb0 []) w_format /\
  agrees w_assoc_expr_tb w_assoc_expr /\ agrees w_crash_tb w_crash /\ agrees w_goto_tb w_goto /\
  agrees w_intrinsic_tb w_intrinsic.
Proof.
  exact (conj (proj1 fixed_same_last) (conj (proj1 fixed_labelled_call) (conj (proj1 fixed_format_nospace)
        (conj (proj1 fixed_assoc_expr) (conj (proj1 fixed_assoc_function_selector) (conj (proj1 fixed_goto)
        (proj1 fixed_intrinsic_named))))))).
Qed.
Print Assumptions C08_fixed_witnesses.
