(* Props/C08.v — property C08: recorded calls are exactly the user procedures a unit invokes. *)
From Ford Require Import Base.Str Gen.Intrinsics Sem.Calls Sem.CallsSpec Sem.CallsProofs.

Theorem C08_keywords_filtered : forall k, In k grammar_keywords -> str_in k INTRINSICS = true.
Proof. exact keywords_filtered. Qed.
Print Assumptions C08_keywords_filtered.
