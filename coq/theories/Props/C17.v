(* Props/C17.v — property C17: static pages mirror the page directory, in the documented order.
   Statements only; proofs are in Out/PageTreeProofs.v.  Model: Out/PageTree.v
   (gpt = ford.pagetree.get_page_tree, writeout = PagetreePage.writeout over PageNode.__iter__);
   Spec: spec_pages / spec_order / spec_copied (same file, written from the user guide). *)
From Ford Require Import Base.Str Out.PageTree Out.PageTreeProofs.
From Coq Require Import Sorted Permutation.

(* ---- order ------------------------------------------------------------------------------- *)
Theorem C17_sort_sorted : forall l, Sorted str_le (PageTree.sort l).
Proof. exact sort_sorted. Qed.
Print Assumptions C17_sort_sorted.

Theorem C17_sort_permutation : forall l, Permutation (PageTree.sort l) l.
Proof. exact sort_perm. Qed.
Print Assumptions C17_sort_permutation.

(* the sub-pages of every node (any directory, any depth: pc and loc are arbitrary), by name, are
   the page-yielding entries of  nodup (ordered_subpage ++ sorted listing)  in that order *)
Theorem C17_order : forall proj pc loc d es nd,
  NoDup (map ename es) ->
  gpt proj pc loc (Dir d es) = RNode nd ->
  map n_name (n_subs nd)
  = filter (yields_page proj loc es (n_copy nd)) (dedup (n_ordered nd ++ listing es)).
Proof. exact order_model. Qed.
Print Assumptions C17_order.

(* and that list is the documented order: ordered_subpage entries first (once each, in the order
   given), then every other entry alphabetically *)
Theorem C17_order_documented : forall ord es,
  NoDup (map ename es) ->
  merged (ordered_of ord) (listing es) = filter not_idx (spec_order ord (map ename es)).
Proof. exact order_documented. Qed.
Print Assumptions C17_order_documented.

(* ---- mirror ------------------------------------------------------------------------------ *)
(* For every page directory that get_page_tree accepts (no ordered_subpage entry naming nothing),
   the pages (source file, output file), in navigation order, are those of the mirror function:
   every titled Markdown file under index-bearing directories, at the same relative path with
   ".html"; a directory named by copy_subdir of its own directory's index.md is only copied. *)
Theorem C17_mirror : forall proj es,
  wf_tree (Dir [] es) = true -> page_tree proj es <> RErr ->
  pages (page_tree proj es) = spec_pages only_copied proj [] (Dir [] es).
Proof. exact mirror_full. Qed.
Print Assumptions C17_mirror.

Theorem C17_pages_nodup : forall proj es,
  wf_tree (Dir [] es) = true -> page_tree proj es <> RErr ->
  NoDup (map snd (pages (page_tree proj es))).
Proof. exact pages_nodup. Qed.
Print Assumptions C17_pages_nodup.

(* ---- a page without a title --------------------------------------------------------------- *)
(* in its own directory (any position pc/loc, any siblings and sub-trees): the node tree is that of
   the same directory with the file titled, minus exactly the sub-page of that file *)
Theorem C17_bad_page_isolated : forall proj pc loc nm es1 es2 f o c o' c',
  f <> idx -> ~ In f (map ename es1) ->
  gpt proj pc loc (Dir nm (es1 ++ File f false o c :: es2))
  = res_map (remove_sub f) (gpt proj pc loc (Dir nm (es1 ++ File f true o' c' :: es2))).
Proof. exact bad_page_isolated_dir. Qed.
Print Assumptions C17_bad_page_isolated.

(* at any depth: [ctx] are the enclosing directories, outermost first *)
Theorem C17_bad_page_isolated_tree : forall proj ctx nm es1 es2 f o c o' c',
  f <> idx -> ~ In f (map ename es1) -> ctx_ok ctx nm = true ->
  forall pc loc,
    gpt proj pc loc (plug ctx (Dir nm (es1 ++ File f false o c :: es2)))
    = res_map (prune (ctx_path ctx nm) f)
              (gpt proj pc loc (plug ctx (Dir nm (es1 ++ File f true o' c' :: es2)))).
Proof. exact bad_page_isolated_tree. Qed.
Print Assumptions C17_bad_page_isolated_tree.

(* ---- files below <output>/page ------------------------------------------------------------ *)
Theorem C17_pages_written : forall root r n,
  In n (res_nodes r) ->
  exists o, file_at (out_path n) (f_files (writeout root r)) = Some o.
Proof. exact pages_written. Qed.
Print Assumptions C17_pages_written.

(* every other file of a page directory (Spec: spec_copied) is a file of some node, and every file
   of a node ends up beside the node's page, as a copy of itself (or under a page of that name) *)
Theorem C17_files_copied_beside : forall proj es p,
  wf_tree (Dir [] es) = true -> page_tree proj es <> RErr ->
  In p (spec_copied proj [] (Dir [] es)) ->
  exists o, file_at p (f_files (writeout es (page_tree proj es))) = Some o /\
            (o = Copy p \/ exists src, o = Page src).
Proof. exact files_copied_beside_spec. Qed.
Print Assumptions C17_files_copied_beside.

(* ---- copy_subdir -------------------------------------------------------------------------- *)
(* over a whole run: every directory that the copy_subdir list of a written index.md names is
   completely present beside that page at the end (whatever else was written or copied before:
   copytree refuses an existing destination, but then the content is there already) *)
Theorem C17_copy_subdir_copied : forall proj root nd n,
  wf_tree (Dir [] root) = true -> page_tree proj root = RNode nd ->
  In n (preorder nd) -> n_file n = idx ->
  forall item es sub, In item (n_copy n) -> dir_at (n_loc n) root = Some es ->
    find_entry item es = Some (Dir item sub) ->
    forall p, In p (all_files (Dir item sub)) -> has (n_loc n ++ p) (writeout root (RNode nd)).
Proof. exact copy_subdir_copied_run. Qed.
Print Assumptions C17_copy_subdir_copied.

(* the copy_subdir list of *every* written page (index or not): a named directory into which no
   page is written is completely present beside the page at the end (two pages of one directory
   may name the same directory: the second copytree is refused, the content is there) *)
Theorem C17_copy_subdir_every_page : forall root r n item es sub,
  In n (res_nodes r) -> In item (n_copy n) ->
  (forall m, In m (res_nodes r) -> n_loc m <> n_loc n ++ [item]) ->
  dir_at (n_loc n) root = Some es -> find_entry item es = Some (Dir item sub) ->
  forall p, In p (all_files (Dir item sub)) -> has (n_loc n ++ p) (writeout root r).
Proof. exact copy_subdir_every_page. Qed.
Print Assumptions C17_copy_subdir_every_page.

(* Model against Spec: everything spec_copydirs demands (copy_subdir of every index.md, and of
   every other page for directories without an index.md of their own; own metadata, else the
   project list) is below <output>/page at the end *)
Theorem C17_copy_subdirs_spec : forall proj es p,
  wf_tree (Dir [] es) = true -> page_tree proj es <> RErr ->
  In p (spec_copydirs proj [] (Dir [] es)) ->
  exists o, file_at p (f_files (writeout es (page_tree proj es))) = Some o /\
            (o = Copy p \/ exists src, o = Page src).
Proof. exact files_copydirs_spec. Qed.
Print Assumptions C17_copy_subdirs_spec.

(* which sub-directories become sub-trees: those that the index.md of their own directory does
   not name in copy_subdir (own metadata, else the project list) and that have a usable index.md *)
Theorem C17_copy_subdir_skip : forall proj pc loc d es nd n des,
  NoDup (map ename es) ->
  gpt proj pc loc (Dir d es) = RNode nd ->
  find_entry n es = Some (Dir n des) -> visible n = true -> n <> idx ->
  (In n (map n_name (n_subs nd)) <->
   str_in n (n_copy nd) = false /\
   exists x, gpt proj (Some (n_copy nd)) (loc ++ [n]) (Dir n des) = RNode x).
Proof. exact copy_subdir_skip. Qed.
Print Assumptions C17_copy_subdir_skip.

(* ... and nothing else: every byte copy below <output>/page is one that the Spec accounts for
   (an other file of a page directory, or a file of a directory named by the list that governs a
   written page: its own copy_subdir metadata when the key is present, even empty, else the
   project's) *)
Theorem C17_nothing_else_copied : forall proj es p q,
  wf_tree (Dir [] es) = true ->
  In (p, Copy q) (f_files (writeout es (page_tree proj es))) ->
  p = q /\ In p (spec_may_copy proj [] (Dir [] es)).
Proof. exact nothing_else_copied. Qed.
Print Assumptions C17_nothing_else_copied.
