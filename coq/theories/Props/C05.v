(* Props/C05.v — property C05: the site documents exactly the entities selected by the display options.
   Statements only; the model and the Spec are in Sem/Display.v, the proofs in Sem/DisplayProofs.v.

   run c t        (id, kept, visible) for every entity of the source-file tree t after Project.correlate():
                  kept = still in the entity lists the pages are rendered from, visible = may be linked
   selected c t   ids the property selects (Spec: container selected, accessibility in the display inherited
                  from the project / enclosing metadata — the file's included —, documented if hide_undoc,
                  procedure shows internals; namelists are exempt from proc_internals, common blocks and
                  final procedures have no accessibility, dummy arguments and common-block variables belong
                  to their procedure / block)
   pages c t      ids in the project's page lists;  spec_pages c t  selected entities of a kind with a page
   regular t      every node sits in a list that FORD's objects of its parent's kind have, and
                  entity.permission is the accessibility Fortran defines (property C04)
   The six defects of the first version (enums, common blocks, namelists, final procedures never filtered;
   a file's `display` not inherited; hide_undoc looking at the wrong comment of an interface block) are
   repaired; their witnesses are kept as C05_fixed_* and replayed on the implementation by the harness. *)
From Ford Require Import Base.Str Sem.Access Sem.Display Sem.DisplayProofs.

(* The full statement: all configurations, all regular trees of any size and depth — after pruning exactly
   the selected entities are left, in the same order. *)
Definition C05_statement : Prop :=
  forall c t, cfg_ok c = true -> is_file t = true -> well_kinded t = true -> regular t = true ->
              kept_ids c t = selected c t.

Theorem C05_prune_exact : C05_statement.
Proof. exact prune_exact. Qed.
Print Assumptions C05_prune_exact.

(* `__str__` and graph nodes link an entity only when its visible flag is set: never an unselected one *)
Theorem C05_visible_sound : forall c t i,
  cfg_ok c = true -> is_file t = true -> well_kinded t = true -> regular t = true ->
  In i (visible_ids c t) -> In i (selected c t).
Proof. exact visible_sound. Qed.
Print Assumptions C05_visible_sound.

(* the entities that get a page are the selected ones of a kind that has a page *)
Theorem C05_pages : forall c t,
  cfg_ok c = true -> is_file t = true -> well_kinded t = true -> regular t = true ->
  pages c t = spec_pages c t.
Proof. exact pages_exact. Qed.
Print Assumptions C05_pages.

(* a `display` entry in an entity's metadata overrides what it inherited, for the entity's contents:
   `none` hides everything below (ignored on a source file), recognised words replace, anything else
   leaves the inherited set *)
Theorem C05_display_inherit : forall f pd meta p,
  none_alone pd ->
  has_word (word_of_perm p) (disp_of f pd meta) = dset_has (spec_display f (dset_of pd) meta) p.
Proof. exact display_inherit. Qed.
Print Assumptions C05_display_inherit.

(* the hypothesis on permissions matters: a constructor interface that kept `public` beside its private type
   is documented although it is not selected *)
Theorem C05_constructor_permission_matters :
  regular w_constructor = false /\
  kept_ids (cfg_of [WPublic] true false) w_constructor = [1; 2; 4] /\
  selected (cfg_of [WPublic] true false) w_constructor = [1; 2].
Proof. exact constructor_permission_matters. Qed.
Print Assumptions C05_constructor_permission_matters.

(* former witnesses of repaired defects *)
Theorem C05_fixed_enum :
  agrees (cfg_of [WPublic] true false) w_enum /\ kept_ids (cfg_of [WPublic] true false) w_enum = [1; 2].
Proof. exact fixed_enum. Qed.
Print Assumptions C05_fixed_enum.

Theorem C05_fixed_internals_enum :
  agrees (cfg_of [WPublic] false false) w_internals /\ kept_ids (cfg_of [WPublic] false false) w_internals = [1; 2; 3].
Proof. exact fixed_internals_enum. Qed.
Print Assumptions C05_fixed_internals_enum.

Theorem C05_fixed_common :
  agrees (cfg_of [WPublic; WProtected] true false) w_common /\
  kept_ids (cfg_of [WPublic; WProtected] true false) w_common = [1; 2].
Proof. exact fixed_common. Qed.
Print Assumptions C05_fixed_common.

Theorem C05_fixed_namelist :
  agrees (cfg_of [WPublic] true false) w_namelist_module /\ agrees (cfg_of [WPublic] true false) w_namelist /\
  pages (cfg_of [WPublic] true false) w_namelist = [2] /\ visible_ids (cfg_of [WPublic] true false) w_namelist = [1; 2].
Proof. exact fixed_namelist. Qed.
Print Assumptions C05_fixed_namelist.

Theorem C05_fixed_final :
  agrees (cfg_of [WPublic] true true) w_final /\ kept_ids (cfg_of [WPublic] true true) w_final = [1; 2; 3].
Proof. exact fixed_final. Qed.
Print Assumptions C05_fixed_final.

Theorem C05_fixed_file_display :
  agrees (cfg_of [WPublic] true false) w_file /\ kept_ids (cfg_of [WPublic] true false) w_file = [1; 2; 3].
Proof. exact fixed_file_display. Qed.
Print Assumptions C05_fixed_file_display.

Theorem C05_fixed_doc_place :
  agrees (cfg_of [WPublic] true true) w_docplace /\ kept_ids (cfg_of [WPublic] true true) w_docplace = [1; 2; 3].
Proof. exact fixed_doc_place. Qed.
Print Assumptions C05_fixed_doc_place.

Theorem C05_fixed_module_modprocedure :
  agrees (cfg_of [WPublic] true false) w_modproc /\ kept_ids (cfg_of [WPublic] true false) w_modproc = [1; 2] /\
  pages (cfg_of [WPublic] true false) w_modproc = [2].
Proof. exact fixed_module_modprocedure. Qed.
Print Assumptions C05_fixed_module_modprocedure.
