(* Props/C06.v — property C06: USE association imports exactly the accessible names.
   Statements only; proofs are in Sem/UseAssocProofs.v.

   Model (Sem/UseAssoc.v): [correlate_all c g order] = the pub_<c>/all_<c> dictionaries of every
   module after Project.correlate processed the modules in [order]; c ranges over FORD's four
   dictionaries (procedures, abstract interfaces, types, variables).
   Spec: [accessible c g M] (what M exports) and [scope c g M] (what M can reference), by recursion
   on the USE graph following Fortran 2018 14.2.2.
   [tables_ok c g st M]: the two dictionaries of M denote exactly these two sets. *)
From Ford Require Import Base.Str Sem.UseAssoc Sem.UseAssocProofs.

(* Full statement: for every legal program (wf_graph: distinct module names, unambiguous
   identifiers, ...) on an acyclic USE graph, processed in any topological order, the tables of
   every module are the Spec's.  Graphs, chains, ONLY lists are unbounded.  It is FALSE of the
   code (five witnesses below). *)
Definition C06_statement : Prop :=
  forall g o, wf_graph g = true -> topo_b g o = true ->
  forall c M, In M g -> tables_ok c g (correlate_all c g o) M.

(* Partial: the same, for programs outside the four decidable regions (rename together with a
   USE without ONLY; PRIVATE statement for an imported name in a default-public module; empty
   ONLY list; ONLY list naming an entity twice). *)
Theorem C06_partial : forall g o,
  wf_graph g = true -> no_region g = true -> topo_b g o = true ->
  forall c M, In M g -> tables_ok c g (correlate_all c g o) M.
Proof. exact partial_correct. Qed.
Print Assumptions C06_partial.

(* Witnesses: legal program, topological order, exactly the named region, a module whose tables
   are not the Spec's.  [refuted_in g (r1, r2, r3, r4)] lists the four region predicates. *)
Theorem C06_refuted_rename : refuted_in w_rename (true, false, false, false).
Proof. exact refuted_rename. Qed.
Print Assumptions C06_refuted_rename.

Theorem C06_refuted_rename_across_statements : refuted_in w_across (true, false, false, false).
Proof. exact refuted_across. Qed.
Print Assumptions C06_refuted_rename_across_statements.

Theorem C06_refuted_private_reexport : refuted_in w_private (false, true, false, false).
Proof. exact refuted_private. Qed.
Print Assumptions C06_refuted_private_reexport.

Theorem C06_refuted_only_empty : refuted_in w_only_empty (false, false, true, false).
Proof. exact refuted_only_empty. Qed.
Print Assumptions C06_refuted_only_empty.

Theorem C06_refuted_only_dup : refuted_in w_only_dup (false, false, false, true).
Proof. exact refuted_only_dup. Qed.
Print Assumptions C06_refuted_only_dup.

Theorem C06_statement_refuted : ~ C06_statement.
Proof.
  intros H. destruct refuted_rename as (o & c & M & Hwf & Ht & HM & _ & N). exact (N (H _ o Hwf Ht c M HM)).
Qed.
Print Assumptions C06_statement_refuted.

(* "regardless of the order in which source files are read": any two topological orders of the
   modules leave every module with literally the same dictionaries (no region hypothesis; the
   graph is arbitrary apart from distinct names and no module using itself). *)
Theorem C06_order_independent : forall c g o1 o2,
  topo_b g o1 = true -> topo_b g o2 = true -> no_self_use g = true ->
  forall M, In M g -> st_tabs (correlate_all c g o1) M = st_tabs (correlate_all c g o2) M.
Proof. exact order_independent. Qed.
Print Assumptions C06_order_independent.

(* the order FORD uses (model of toposort_flatten over the module dependencies) is topological *)
Theorem C06_toposort_is_topo : forall g o,
  NoDup (names g) -> toposort g = Some o -> topo_b g o = true.
Proof. exact toposort_is_topo. Qed.
Print Assumptions C06_toposort_is_topo.

(* Full: whatever the graph (even cyclic or illegal) and the processing order, an entity found in
   a module's exported dictionary, or in its scope dictionary but defined elsewhere, is a
   declaration of class c of some module of the project whose accessibility is not PRIVATE. *)
Theorem C06_private_never_imported : forall c g order M n e,
  In M g ->
  (assoc_get n (fst (st_tabs (correlate_all c g order) M)) = Some e -> exported_decl c g e) /\
  (assoc_get n (snd (st_tabs (correlate_all c g order) M)) = Some e ->
   fst e <> m_name M -> exported_decl c g e).
Proof. exact private_never_imported. Qed.
Print Assumptions C06_private_never_imported.

(* the Spec has the same property at every fuel *)
Theorem C06_spec_private_never_accessible : forall f c g M n e,
  In M g -> In (n, e) (accessible_n f c g M) -> exported_decl c g e.
Proof. exact spec_private_never_accessible. Qed.
Print Assumptions C06_spec_private_never_accessible.

(* the Spec's fuel (number of modules) is enough: any larger fuel gives the same sets *)
Theorem C06_fuel_enough : forall c g o,
  topo_b g o = true -> no_self_use g = true ->
  forall M, In M g -> forall f, length g <= f -> accessible_n f c g M = accessible c g M.
Proof. exact accessible_fuel_enough. Qed.
Print Assumptions C06_fuel_enough.

(* ---- scopes nested in a module (module procedures, internal procedures, interface bodies of every
   kind) with USE statements of their own.  [nested_imports_model c g o M S]: the entries the USE
   statements of the nested scope S add to its dictionaries, S being correlated inside
   M.correlate, i.e. when exactly the modules before M in the order o have merged their imports;
   the order is constrained by [deps], the model of get_deps (USE statements of routines and of
   the procedure bodies of all interface blocks, recursively).  [nested_imports c g M S]: the
   Spec's set for the same statements. *)
Definition C06_nested_statement : Prop :=
  forall g o, wf_graph g = true -> topo_b g o = true ->
  forall c M S, In M g -> In S (m_nested M) ->
  denotes (nested_imports_model c g o M S) (nested_imports c g M S).

(* Partial: outside the regions 1-4 (the recorded defects of USE-statement processing, which are
   the same wherever the statement stands); every nested scope, at any nesting depth, any kind
   (also the bodies of abstract and generic interface blocks, since the repair of
   find_used_modules / get_deps), for any topological order. *)
Theorem C06_nested_partial : forall c g o,
  wf_graph g = true -> no_region g = true -> topo_b g o = true ->
  forall M S, In M g -> In S (m_nested M) ->
  denotes (nested_imports_model c g o M S) (nested_imports c g M S).
Proof. exact nested_correct. Qed.
Print Assumptions C06_nested_partial.

(* Witness that the region hypothesis is needed here too: `use za, tb => ta` in a module procedure. *)
Theorem C06_nested_refuted_rename : nested_refuted_in w_nested_rename.
Proof. exact refuted_nested_rename. Qed.
Print Assumptions C06_nested_refuted_rename.

Theorem C06_nested_statement_refuted : ~ C06_nested_statement.
Proof.
  intros H. destruct refuted_nested_rename as (o & c & M & S & Hwf & Ht & _ & HM & HS & _ & N).
  exact (N (H _ o Hwf Ht c M S HM HS)).
Qed.
Print Assumptions C06_nested_statement_refuted.

(* The witnesses of the two repaired defects (USE in an abstract interface body ignored; USE in a
   body inside a generic interface block not a dependency) now get the used module's entities. *)
Theorem C06_nested_fixed_absbody :
  wf_graph w_absbody = true /\ no_region w_absbody = true /\ toposort w_absbody = Some [s "za"; s "mm"] /\
  assoc_get (s "ta") (nested_imports_model CType w_absbody [s "za"; s "mm"] (nth 0 w_absbody w_za)
                        (mkS ["cb"%string] [NAbsBody] [] [mkU "za" None []])) = Some (s "za", s "ta").
Proof. exact fixed_absbody. Qed.
Print Assumptions C06_nested_fixed_absbody.

Theorem C06_nested_fixed_genbody :
  wf_graph w_genbody = true /\ no_region w_genbody = true /\
  toposort w_genbody = Some [s "za"; s "zf"; s "mm"] /\
  assoc_get (s "ta") (nested_imports_model CType w_genbody [s "za"; s "zf"; s "mm"] (nth 0 w_genbody w_za)
                        (mkS ["ext"%string] [NGenBody] [] [mkU "zf" None []])) = Some (s "za", s "ta").
Proof. exact fixed_genbody. Qed.
Print Assumptions C06_nested_fixed_genbody.

(* non-vacuity for the nested theorem: module "me" whose only USE statements sit in a module
   procedure, in an internal procedure, in an interface body and in an abstract interface body of
   that procedure; its dependencies exist only through get_deps' recursion *)
Theorem C06_nested_example : 
  wf_graph ex_gn = true /\ no_region ex_gn = true /\ topo_b ex_gn ex_on = true /\
  toposort ex_gn = Some ex_on /\
  deps ex_gn (nth 4 ex_gn w_ma) = [s "md"; s "mc"; s "mb"; s "ma"].
Proof. destruct ex_nested_hypotheses as (H1 & H2 & H3 & H4 & H5 & _). repeat split; assumption. Qed.
Print Assumptions C06_nested_example.

(* non-vacuity: a diamond of re-export with ONLY, renames, a default-private module with an
   explicit PUBLIC and an unknown (intrinsic) module satisfies every hypothesis above, has two
   different topological orders, and its tables are not trivial *)
Theorem C06_example_hypotheses :
  wf_graph ex_g = true /\ no_region ex_g = true /\ no_self_use ex_g = true /\
  topo_b ex_g ex_o1 = true /\ topo_b ex_g ex_o2 = true /\ ex_o1 <> ex_o2 /\
  toposort ex_g = Some ex_o1 /\ NoDup (names ex_g).
Proof. exact ex_hypotheses. Qed.
Print Assumptions C06_example_hypotheses.
