(* Props/C06.v — property C06: USE association imports exactly the accessible names.
   Statements only; proofs are in Sem/UseAssocProofs.v.

   Model (Sem/UseAssoc.v): [correlate_all c g order] = the pub_<c>/all_<c> dictionaries of every
   module after Project.correlate processed the modules in [order]; c ranges over FORD's four
   dictionaries (procedures, abstract interfaces, types, variables).
   Spec: [accessible c g M] (what M exports) and [scope c g M] (what M can reference), by recursion
   on the USE graph following Fortran 2018 14.2.2.
   [tables_ok c g st M]: the two dictionaries of M denote exactly these two sets. *)
From Ford Require Import Base.Str Sem.UseAssoc Sem.UseAssocProofs.

(* Full statement: for every legal program (wf_graph: distinct module names, unambiguous
   identifiers, no scope that references an intrinsic and a nonintrinsic module of one name, ...)
   on an acyclic USE graph, processed in any topological order, the tables of every module are
   the Spec's.  Graphs, chains, ONLY lists, rename lists are unbounded; no region is excluded.
   The Spec honours the module nature: USE, INTRINSIC :: t designates the intrinsic module t even
   if the project has a module t of its own; otherwise the project's module t is the one accessed
   (Fortran 2018 14.2.2). *)
Definition C06_statement : Prop :=
  forall g o, wf_graph g = true -> topo_b g o = true ->
  forall c M, In M g -> tables_ok c g (correlate_all c g o) M.

Theorem C06_full : C06_statement.
Proof. exact full_correct. Qed.
Print Assumptions C06_full.

(* Former witness of intrinsic-nature-ignored: module iso_fortran_env of the project declares foo;
   mb: use, intrinsic :: iso_fortran_env gets nothing of it and does not depend on it;
   mc: use iso_fortran_env gets the project's foo. *)
Theorem C06_fixed_intrinsic_nature :
  wf_graph w_nature = true /\ toposort w_nature = Some [s "iso_fortran_env"; s "mb"; s "mc"] /\
  deps w_nature (nth 1 w_nature w_ma) = [] /\
  snd (tab_of w_nature [s "iso_fortran_env"; s "mb"; s "mc"] 1 CVar) = [] /\
  assoc_get (s "foo") (snd (tab_of w_nature [s "iso_fortran_env"; s "mb"; s "mc"] 2 CVar)) = Some (s "iso_fortran_env", s "foo").
Proof. exact fixed_nature. Qed.
Print Assumptions C06_fixed_intrinsic_nature.

(* "USE resolves to the project's module": find_used_modules takes the first candidate of the
   name in chain(modules, external_modules) ([find_used g ext]: ext = the names of the link
   objects: settings.INTRINSIC_MODS and the extra_mods option).  Whatever ext holds, a project
   module of the name is the one found; a link object only if no project module has the name.
   (For a name the scope uses with INTRINSIC only the link objects are candidates:
   [find_used_in g ext true].) *)
Theorem C06_project_module_first : forall g ext n,
  find_used g ext n = match find_module g n with
                      | Some M => Some (CMod M)
                      | None => if str_in n ext then Some (CExt n) else None
                      end.
Proof. exact find_used_spec. Qed.
Print Assumptions C06_project_module_first.

Theorem C06_intrinsic_never_project : forall g ext n,
  find_used_in g ext true n = (if str_in n ext then Some (CExt n) else None)
  /\ find_used_in g ext false n = find_used g ext n.
Proof. exact find_used_in_spec. Qed.
Print Assumptions C06_intrinsic_never_project.

(* non-vacuity: project modules named mpi (an INTRINSIC_MODS entry) and extlib (an extra_mods
   entry), used without module nature, re-exported through mb, next to use, intrinsic ::
   iso_c_binding: hypotheses of C06_full hold, the project's modules are found, their entities
   reach mc *)
Theorem C06_example_special :
  wf_graph ex_special = true /\  toposort ex_special = Some [s "mpi"; s "extlib"; s "mb"; s "mc"] /\
  find_used ex_special ex_ext (s "mpi") = Some (CMod (nth 0 ex_special w_ma)) /\
  find_used ex_special ex_ext (s "extlib") = Some (CMod (nth 1 ex_special w_ma)) /\
  find_used ex_special ex_ext (s "iso_c_binding") = Some (CExt (s "iso_c_binding")) /\
  find_used ex_special ex_ext (s "nosuch") = None /\
  assoc_get (s "comm") (snd (tab_of ex_special [s "mpi"; s "extlib"; s "mb"; s "mc"] 3 CVar)) = Some (s "mpi", s "comm") /\
  assoc_get (s "mpi_send") (snd (tab_of ex_special [s "mpi"; s "extlib"; s "mb"; s "mc"] 3 CProc)) = Some (s "mpi", s "mpi_send") /\
  assoc_get (s "tl") (snd (tab_of ex_special [s "mpi"; s "extlib"; s "mb"; s "mc"] 3 CType)) = Some (s "extlib", s "thing").
Proof. exact ex_special_facts. Qed.
Print Assumptions C06_example_special.

(* The former witnesses (legal program, FORD's processing order) with the entries the repaired
   code gives the importing module; [tab_of g o i c] = the (pub, all) dictionaries of class c of
   the i-th module of g after processing in order o. *)
(* use ma, bar => foo: foo is accessible as bar and only as bar, and bar is re-exported *)
Theorem C06_fixed_rename :
  wf_graph w_rename = true /\ toposort w_rename = Some [s "ma"; s "mb"] /\
  assoc_get (s "bar") (snd (tab_of w_rename [s "ma"; s "mb"] 1 CVar)) = Some (s "ma", s "foo") /\
  assoc_get (s "foo") (snd (tab_of w_rename [s "ma"; s "mb"] 1 CVar)) = None /\
  assoc_get (s "bar") (fst (tab_of w_rename [s "ma"; s "mb"] 1 CVar)) = Some (s "ma", s "foo").
Proof. exact fixed_rename. Qed.
Print Assumptions C06_fixed_rename.

(* use ma / use ma, only: bar => foo: the rename in the second statement hides foo in the first *)
Theorem C06_fixed_rename_across_statements :
  wf_graph w_across = true /\ toposort w_across = Some [s "ma"; s "mb"] /\
  assoc_get (s "bar") (snd (tab_of w_across [s "ma"; s "mb"] 1 CVar)) = Some (s "ma", s "foo") /\
  assoc_get (s "foo") (snd (tab_of w_across [s "ma"; s "mb"] 1 CVar)) = None /\
  assoc_get (s "wa1") (snd (tab_of w_across [s "ma"; s "mb"] 1 CVar)) = Some (s "ma", s "wa1").
Proof. exact fixed_across. Qed.
Print Assumptions C06_fixed_rename_across_statements.

(* module mb: use ma; private :: foo   module mc: use mb — mb sees foo, mc does not *)
Theorem C06_fixed_private_reexport :
  wf_graph w_private = true /\ toposort w_private = Some [s "ma"; s "mb"; s "mc"] /\
  assoc_get (s "foo") (snd (tab_of w_private [s "ma"; s "mb"; s "mc"] 1 CVar)) = Some (s "ma", s "foo") /\
  assoc_get (s "foo") (fst (tab_of w_private [s "ma"; s "mb"; s "mc"] 1 CVar)) = None /\
  assoc_get (s "foo") (snd (tab_of w_private [s "ma"; s "mb"; s "mc"] 2 CVar)) = None /\
  assoc_get (s "wa1") (snd (tab_of w_private [s "ma"; s "mb"; s "mc"] 2 CVar)) = Some (s "ma", s "wa1").
Proof. exact fixed_private. Qed.
Print Assumptions C06_fixed_private_reexport.

(* use ma, only: — nothing is imported *)
Theorem C06_fixed_only_empty :
  wf_graph w_only_empty = true /\ toposort w_only_empty = Some [s "ma"; s "mb"] /\
  snd (tab_of w_only_empty [s "ma"; s "mb"] 1 CType) = [] /\
  snd (tab_of w_only_empty [s "ma"; s "mb"] 1 CVar) = [] /\
  snd (tab_of w_only_empty [s "ma"; s "mb"] 1 CProc) = [] /\
  snd (tab_of w_only_empty [s "ma"; s "mb"] 1 CAbs) = [].
Proof. exact fixed_only_empty. Qed.
Print Assumptions C06_fixed_only_empty.

(* use ma, only: foo, bar => foo — both local names denote ma's foo *)
Theorem C06_fixed_only_dup :
  wf_graph w_only_dup = true /\ toposort w_only_dup = Some [s "ma"; s "mb"] /\
  assoc_get (s "foo") (snd (tab_of w_only_dup [s "ma"; s "mb"] 1 CVar)) = Some (s "ma", s "foo") /\
  assoc_get (s "bar") (snd (tab_of w_only_dup [s "ma"; s "mb"] 1 CVar)) = Some (s "ma", s "foo").
Proof. exact fixed_only_dup. Qed.
Print Assumptions C06_fixed_only_dup.

(* "regardless of the order in which source files are read": any two topological orders of the
   modules leave every module with literally the same dictionaries (the graph is arbitrary apart
   from distinct names and no module using itself). *)
Theorem C06_order_independent : forall c g o1 o2,
  topo_b g o1 = true -> topo_b g o2 = true -> no_self_use g = true ->
  forall M, In M g -> st_tabs (correlate_all c g o1) M = st_tabs (correlate_all c g o2) M.
Proof. exact order_independent. Qed.
Print Assumptions C06_order_independent.

(* the order FORD uses (model of toposort_flatten over the module dependencies) is topological *)
Theorem C06_toposort_is_topo : forall g o,
  NoDup (names g) -> toposort g = Some o -> topo_b g o = true.
Proof. exact toposort_is_topo. Qed.
Print Assumptions C06_toposort_is_topo.

(* Full: whatever the graph (even cyclic or illegal) and the processing order, an entity found in
   a module's exported dictionary, or in its scope dictionary but defined elsewhere, is a
   declaration of class c of some module of the project whose accessibility is not PRIVATE. *)
Theorem C06_private_never_imported : forall c g order M n e,
  In M g ->
  (assoc_get n (fst (st_tabs (correlate_all c g order) M)) = Some e -> exported_decl c g e) /\
  (assoc_get n (snd (st_tabs (correlate_all c g order) M)) = Some e ->
   fst e <> m_name M -> exported_decl c g e).
Proof. exact private_never_imported. Qed.
Print Assumptions C06_private_never_imported.

(* the Spec has the same property at every fuel *)
Theorem C06_spec_private_never_accessible : forall f c g M n e,
  In M g -> In (n, e) (accessible_n f c g M) -> exported_decl c g e.
Proof. exact spec_private_never_accessible. Qed.
Print Assumptions C06_spec_private_never_accessible.

(* the Spec's fuel (number of modules) is enough: any larger fuel gives the same sets *)
Theorem C06_fuel_enough : forall c g o,
  topo_b g o = true -> no_self_use g = true -> nature_legal g = true ->
  forall M, In M g -> forall f, length g <= f -> accessible_n f c g M = accessible c g M.
Proof. exact accessible_fuel_enough. Qed.
Print Assumptions C06_fuel_enough.

(* ---- scopes nested in a module (module procedures, internal procedures, interface bodies of every
   kind) with USE statements of their own.  [nested_imports_model c g o M S]: the entries the USE
   statements of the nested scope S add to its dictionaries, S being correlated inside
   M.correlate, i.e. when exactly the modules before M in the order o have merged their imports;
   the order is constrained by [deps], the model of get_deps (USE statements of routines and of
   the procedure bodies of all interface blocks, recursively).  [nested_imports c g M S]: the
   Spec's set for the same statements. *)
Definition C06_nested_statement : Prop :=
  forall g o, wf_graph g = true -> topo_b g o = true ->
  forall c M S, In M g -> In S (m_nested M) ->
  denotes (nested_imports_model c g o M S) (nested_imports c g M S).

(* Full: every legal program, every nested scope at any nesting depth and of any kind (also the
   bodies of abstract and generic interface blocks), any topological order. *)
Theorem C06_nested_full : forall c g o,
  wf_graph g = true -> topo_b g o = true ->
  forall M S, In M g -> In S (m_nested M) ->
  denotes (nested_imports_model c g o M S) (nested_imports c g M S).
Proof. exact nested_correct. Qed.
Print Assumptions C06_nested_full.

(* The former nested witness `use za, tb => ta` in a module procedure: exactly tb is imported. *)
Theorem C06_nested_fixed_rename :
  wf_graph w_nested_rename = true /\ toposort w_nested_rename = Some [s "za"; s "mm"] /\
  nested_imports_model CType w_nested_rename [s "za"; s "mm"] (nth 0 w_nested_rename w_za)
     (mkS ["p"%string] [NRoutine] [] [mkU "za" None [(s "tb", s "ta")]]) = [(s "tb", (s "za", s "ta"))].
Proof. exact fixed_nested_rename. Qed.
Print Assumptions C06_nested_fixed_rename.

(* The witnesses of the two defects repaired earlier (USE in an abstract interface body ignored;
   USE in a body inside a generic interface block not a dependency) get the used module's entities. *)
Theorem C06_nested_fixed_absbody :
  wf_graph w_absbody = true /\ toposort w_absbody = Some [s "za"; s "mm"] /\
  assoc_get (s "ta") (nested_imports_model CType w_absbody [s "za"; s "mm"] (nth 0 w_absbody w_za)
                        (mkS ["cb"%string] [NAbsBody] [] [mkU "za" None []])) = Some (s "za", s "ta").
Proof. exact fixed_absbody. Qed.
Print Assumptions C06_nested_fixed_absbody.

Theorem C06_nested_fixed_genbody :
  wf_graph w_genbody = true /\
  toposort w_genbody = Some [s "za"; s "zf"; s "mm"] /\
  assoc_get (s "ta") (nested_imports_model CType w_genbody [s "za"; s "zf"; s "mm"] (nth 0 w_genbody w_za)
                        (mkS ["ext"%string] [NGenBody] [] [mkU "zf" None []])) = Some (s "za", s "ta").
Proof. exact fixed_genbody. Qed.
Print Assumptions C06_nested_fixed_genbody.

(* non-vacuity for the nested theorem: module "me" whose only USE statements sit in a module
   procedure, in an internal procedure, in an interface body and in an abstract interface body of
   that procedure; its dependencies exist only through get_deps' recursion *)
Theorem C06_nested_example :
  wf_graph ex_gn = true /\ topo_b ex_gn ex_on = true /\
  toposort ex_gn = Some ex_on /\
  deps ex_gn (nth 4 ex_gn w_ma) = [s "md"; s "mc"; s "mb"; s "ma"].
Proof. exact ex_nested_example. Qed.
Print Assumptions C06_nested_example.

(* non-vacuity: a diamond of re-export with ONLY, renames, a default-private module with an
   explicit PUBLIC and an unknown (intrinsic) module satisfies every hypothesis above, has two
   different topological orders, and its tables are not trivial *)
Theorem C06_example_hypotheses :
  wf_graph ex_g = true /\ no_self_use ex_g = true /\
  topo_b ex_g ex_o1 = true /\ topo_b ex_g ex_o2 = true /\ ex_o1 <> ex_o2 /\
  toposort ex_g = Some ex_o1 /\ NoDup (names ex_g).
Proof. exact ex_hypotheses. Qed.
Print Assumptions C06_example_hypotheses.
