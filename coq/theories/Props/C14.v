(* Props/C14.v — property C14: fixed-form sources document the same as their free-form equivalent.
   Statements only; proofs in Lex/FixedProofs.v (and Lex/ReaderProofs.v for the reader). *)
From Ford Require Import Base.Str Lex.Quote Lex.Reader Lex.ReaderSpec Lex.ReaderProofs Lex.Fixed
  Lex.FixedSpec Lex.FixedProofs.

(* The converter turns every fixed-form file of the modelled layout — labels in columns 1-5, '0' or
   blank in column 6 of an initial line, any other non-blank character in column 6 of continuation
   lines, an inline '!' comment (ordinary or documentation) after the statement text of any line,
   continued ones included, '!' inside character literals, a '!' in column 6 as continuation mark,
   C/c/*/! comment lines, comment lines whose first non-blank character is a '!' in any other
   column than column 6, and whitespace-only lines of any width anywhere (also between a line and its continuation line, several in a row),
   any number of statements and continuation lines, every line within 72 columns, line breaks
   outside character literals — line for line into the free-form file [free_of f], whatever the
   length-limit setting. *)
Theorem C14_fixed_as_free : forall ll f,
  Forall wf_item f -> Forall closed_item f ->
  map chomp (convert_to_free ll (render_fixed f)) = render_file (free_of f).
Proof. exact fixed_as_free. Qed.
Print Assumptions C14_fixed_as_free.

(* ... hence the statements read from it are those of that free-form file: the ';'-separated
   parts of the joined statement texts (composition with C02_file_statements). *)
Theorem C14_fixed_statements : forall ll f,
  Forall wf_item f -> Forall closed_item f -> Forall item_ok (free_of f) ->
  read_all default_cfg (map chomp (convert_to_free ll (render_fixed f)))
  = ROk (flat_map stmts_of (file_texts (free_of f))).
Proof. exact fixed_statements. Qed.
Print Assumptions C14_fixed_statements.

(* [free_of f] is the free-form equivalent by the standard's rules ([std_free_of]: a literal that
   runs over a line break is joined exactly, column 72 to column 7) when no literal does. *)
Theorem C14_std_equivalent : forall f,
  Forall closed_item f -> std_free_of f = free_of f.
Proof. exact std_free_closed. Qed.
Print Assumptions C14_std_equivalent.

(* Full statement over all modelled layouts, character literals continued across lines included:
   FALSE of the code as it is. *)
Definition C14_statement : Prop := statement_C14.

(* It holds wherever every line break falls outside character literals. *)
Theorem C14_partial : forall ll f,
  Forall wf_item f -> Forall closed_item f ->
  read_all default_cfg (map chomp (convert_to_free ll (render_fixed f)))
  = read_all default_cfg (render_file (std_free_of f)).
Proof. exact partial_C14. Qed.
Print Assumptions C14_partial.

(* A character literal continued across lines gains a blank at the break and loses its blanks up
   to column 72 (witness: "      s = 'ab" / "     &cd'"). *)
Theorem C14_refuted_literal_split : ~ C14_statement.
Proof. exact refuted_literal_split. Qed.
Print Assumptions C14_refuted_literal_split.
