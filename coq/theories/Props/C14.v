(* Props/C14.v — property C14: fixed-form sources document the same as their free-form equivalent.
   Statements only; proofs in Lex/FixedProofs.v (and Lex/ReaderProofs.v for the reader). *)
From Ford Require Import Base.Str Lex.Quote Lex.Reader Lex.ReaderSpec Lex.ReaderProofs Lex.Fixed
  Lex.FixedSpec Lex.FixedProofs.

(* The converter turns every fixed-form file of the modelled layout — labels in columns 1-5, '0' or
   blank in column 6 of an initial line, any other non-blank character in column 6 of continuation
   lines, C/c/*/! comment lines and short blank lines anywhere (also between continuation lines),
   any number of statements and continuation lines — line for line into the free-form file
   [free_of f], whatever the length-limit setting. *)
Theorem C14_fixed_as_free : forall ll f,
  Forall wf_item f ->
  map chomp (convert_to_free ll (render_fixed f)) = render_file (free_of f).
Proof. exact fixed_as_free. Qed.
Print Assumptions C14_fixed_as_free.

(* ... hence the statements read from it are those of that free-form file: the ';'-separated
   parts of the joined statement texts (composition with C02_file_statements). *)
Theorem C14_fixed_statements : forall ll f,
  Forall wf_item f -> Forall item_ok (free_of f) ->
  read_all default_cfg (map chomp (convert_to_free ll (render_fixed f)))
  = ROk (flat_map stmts_of (file_texts (free_of f))).
Proof. exact fixed_statements. Qed.
Print Assumptions C14_fixed_statements.

(* Full statement over the general layout (inline '!' comments on statement lines, blank lines of
   any width inside a statement): FALSE of the code as it is. *)
Definition C14_statement : Prop := statement_C14.

Theorem C14_partial : forall ll f,
  Forall wf_item f ->
  read_all default_cfg (map chomp (convert_to_free ll (render_fixedG (to_G f))))
  = read_all default_cfg (render_file (free_ofG (to_G f))).
Proof. exact partial_C14. Qed.
Print Assumptions C14_partial.

Theorem C14_refuted_inline_comment : ~ C14_statement.
Proof. exact refuted_inline_comment. Qed.
Print Assumptions C14_refuted_inline_comment.

Theorem C14_refuted_blank6 : ~ C14_statement.
Proof. exact refuted_blank6. Qed.
Print Assumptions C14_refuted_blank6.

Theorem C14_refuted_literal_split :
  read_all default_cfg (map chomp (convert_to_free true
     [s "      s = 'ab" ++ [nl]; s "     &cd'" ++ [nl]]))
  = ROk [s "s = 'ab cd'"]
  /\ s "s = 'ab cd'" <> s "s = 'ab" ++ spaces 58 ++ s "cd'".
Proof. exact refuted_literal_split. Qed.
Print Assumptions C14_refuted_literal_split.
