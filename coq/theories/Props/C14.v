(* Props/C14.v — property C14: fixed-form sources document the same as their free-form equivalent.
   Statements only; proofs in Lex/FixedProofs.v (and Lex/ReaderProofs.v for the reader). *)
From Ford Require Import Base.Str Lex.Quote Lex.Reader Lex.ReaderSpec Lex.ReaderProofs Lex.Fixed
  Lex.FixedSpec Lex.FixedProofs.

(* The converter turns every fixed-form file of the modelled layout — labels in columns 1-5, '0' or
   blank in column 6 of an initial line, any other non-blank character in column 6 of continuation
   lines ('!' included), an inline '!' comment (ordinary or documentation) after the statement text
   of any line, continued ones included, '!' inside character literals, C/c/*/! comment lines,
   comment lines whose first non-blank character is a '!' in any other column than column 6, and
   whitespace-only lines of any width anywhere (also between a line and its continuation line,
   several in a row), any number of statements and continuation lines, line breaks outside
   character literals; line width ([wf_item ll], ll = the length-limit setting): with the limit on,
   every line within 72 columns, or filled up to column 72 and followed by any text in columns 73+
   (sequence numbers, the rest of an inline comment that runs over column 72); with the limit
   off, lines of any width — line for line into the free-form file [free_of f], in which the text
   of columns 73+ stands as an ordinary comment "! ..." from column 73 on where the line has no
   inline comment, and is left out where it has one (so it never becomes part of a documentation
   comment, and a documentation comment that runs over column 72 is kept up to column 72). *)
Theorem C14_fixed_as_free : forall ll f,
  Forall (wf_item ll) f -> Forall closed_item f ->
  map chomp (convert_to_free ll (render_fixed f)) = render_file (free_of f).
Proof. exact fixed_as_free. Qed.
Print Assumptions C14_fixed_as_free.

(* ... hence the statements read from it are those of that free-form file: the ';'-separated
   parts of the joined statement texts (composition with C02_file_statements) ... *)
Theorem C14_fixed_statements : forall ll f,
  Forall (wf_item ll) f -> Forall closed_item f -> Forall item_ok (free_of f) ->
  read_all default_cfg (map chomp (convert_to_free ll (render_fixed f)))
  = ROk (flat_map stmts_of (file_texts (free_of f))).
Proof. exact fixed_statements. Qed.
Print Assumptions C14_fixed_statements.

(* ... which are the statements of the file cut at column 72: the text of columns 73+ does not
   reach any statement. *)
Theorem C14_seq_not_in_statements : forall ll f,
  Forall (wf_item ll) f -> Forall closed_item f -> Forall item_ok (free_of f) ->
  read_all default_cfg (map chomp (convert_to_free ll (render_fixed f)))
  = ROk (flat_map stmts_of (file_texts (free_of (cut_file f)))).
Proof. exact fixed_statements_cut. Qed.
Print Assumptions C14_seq_not_in_statements.

(* The free-form equivalent by the standard's rules ([std_free_of]: with the line length limited,
   columns 73+ are no part of the file; a literal that runs over a line break is joined exactly,
   column 72 to column 7) is [free_of] of the file cut at column 72 when no literal does. *)
Theorem C14_std_equivalent : forall f,
  Forall closed_item f -> std_free_of f = free_of (cut_file f).
Proof. exact std_free_closed. Qed.
Print Assumptions C14_std_equivalent.

(* Full statement over all modelled layouts, character literals continued across lines and text
   in columns 73+ included (readings compared up to blanks at the end of a line): FALSE of the
   code as it is. *)
Definition C14_statement : Prop := statement_C14.

(* It holds - with equal readings, blanks included - wherever every line break falls outside
   character literals and no line has text in columns 73+ (with the limit off: lines of any
   width) ... *)
Theorem C14_partial : forall ll f,
  Forall (wf_item ll) f -> Forall closed_item f -> Forall no_seq_item f ->
  read_all default_cfg (map chomp (convert_to_free ll (render_fixed f)))
  = read_all default_cfg (render_file (std_free_of f)).
Proof. exact partial_C14. Qed.
Print Assumptions C14_partial.

(* ... and with text in columns 73+, in the class of the reader theorem C02 ([item_ok] of both
   layouts: ordinary comments only; for documentation comments on such lines C14_fixed_as_free
   gives the converted lines). *)
Theorem C14_partial_seq : forall ll f,
  Forall (wf_item ll) f -> Forall closed_item f ->
  Forall item_ok (free_of f) -> Forall item_ok (free_of (cut_file f)) ->
  read_all default_cfg (map chomp (convert_to_free ll (render_fixed f)))
  = read_all default_cfg (render_file (std_free_of f)).
Proof. exact partial_C14_seq. Qed.
Print Assumptions C14_partial_seq.

(* A character literal continued across lines gains a blank at the break and loses its blanks up
   to column 72 (witness: "      s = 'ab" / "     &cd'"). *)
Theorem C14_refuted_literal_split : ~ C14_statement.
Proof. exact refuted_literal_split. Qed.
Print Assumptions C14_refuted_literal_split.
