(* Props/C19.v — property C19: a run touches nothing outside its output directory.
   Statements only; proofs are in Out/FsModelProofs.v.

   ford_ops b pkg c p cands  is the sequence of mutating file-system operations of a whole run
   (empty when parse_arguments refuses); c is the configuration after normalise_paths,
   roots c = [output_dir; graph_dir]; cands are the candidate pages with their names as written
   (directory entries and ordered_subpage entries: any text, "..", "a/../../b.md", ...) and their
   copy_subdir entries as written (relative with "..", or absolute).  clean (out c) is
   discharged by C19_out_clean for every configuration that normalise_cfg produces.

   The model describes the repaired code: get_page_tree skips entries that are not plain names
   of the directory, PagetreePage.writeout skips copy_subdir entries whose destination leaves
   <output_dir>/page.  Before these two repairs the full statement was refuted (a page's
   copy_subdir: ../../shared and ordered_subpage: sub/../../../note.md escaped); the former
   counterexamples are kept as regression inputs (theorems C19_former_witness_copy_subdir and C19_former_witness_ordered_subpage). *)
From Ford Require Import Base.Str Out.FsModel Out.FsModelProofs.

(* Full statement: every target of every operation lies under output_dir or graph_dir, for all
   out_is_file flags, package dirs, configurations, projects (any number of entity pages, source
   files, graphs) and candidate pages — no restriction on the page tree any more. *)
Theorem C19_targets_confined : forall b pkg c p cands,
  clean (out c) = true ->
  Forall (op_confined (roots c)) (ford_ops b pkg c p cands).
Proof. exact ford_ops_confined. Qed.
Print Assumptions C19_targets_confined.

(* what makes it true: whatever the names of the candidates, every page that is built has a
   location that never climbs above <out>/page *)
Theorem C19_page_locations_inside : forall cands pg, In pg (pages_of cands) -> loc_ok pg = true.
Proof. exact pages_of_loc_ok. Qed.
Print Assumptions C19_page_locations_inside.

(* the former counterexamples: the escaping entries now contribute no operation *)
Theorem C19_former_witness_copy_subdir :
  ford_ops false [s "<ford>"] w_cfg w_proj [w_cand_copy]
    = ford_ops false [s "<ford>"] w_cfg w_proj [mkcand [] true "index" [] []] /\
  run (ford_ops false [s "<ford>"] w_cfg w_proj [w_cand_copy]) w_fs [s "proj"; s "shared"; s "f"] = None.
Proof. exact former_witness_copy_subdir. Qed.
Print Assumptions C19_former_witness_copy_subdir.

Theorem C19_former_witness_ordered_subpage :
  ford_ops false [s "<ford>"] w_cfg w_proj [w_cand_loc] = ford_ops false [s "<ford>"] w_cfg w_proj [] /\
  ford_ops false [s "<ford>"] w_cfg w_proj [w_cand_dotdot] = ford_ops false [s "<ford>"] w_cfg w_proj [].
Proof. exact former_witness_ordered_subpage. Qed.
Print Assumptions C19_former_witness_ordered_subpage.

(* every crash point = every prefix (firstn k) of the operation sequence, on every file system f:
   everything outside the roots is unchanged, except that a missing ancestor directory of a root
   may have been created as a directory (mkdir(parents=True)) *)
Theorem C19_prefix_safe : forall b pkg c p cands,
  clean (out c) = true ->
  forall (f : fs) k, agree_outside (roots c) f (run (firstn k (ford_ops b pkg c p cands)) f).
Proof. exact prefix_safe. Qed.
Print Assumptions C19_prefix_safe.

(* the same as an equation, when the ancestors of the roots already exist *)
Theorem C19_prefix_safe_eq : forall b pkg c p cands,
  clean (out c) = true ->
  forall (f : fs) k, ancestors_exist (roots c) f ->
  forall q, outside (roots c) (run (firstn k (ford_ops b pkg c p cands)) f) q = outside (roots c) f q.
Proof. exact prefix_safe_eq. Qed.
Print Assumptions C19_prefix_safe_eq.

(* one operation changes only paths under its targets (or creates missing ancestors of one) *)
Theorem C19_op_local : forall o f q,
  run_op o f q = f q
  \/ (exists t, In t (targets o) /\ under t q)
  \/ (exists t, In t (targets o) /\ under q t /\ f q = None /\ run_op o f q = Some Dir).
Proof. exact run_op_local. Qed.
Print Assumptions C19_op_local.

(* symbolic links in what is copied (media_dir, copy_subdir directories): copytree copies what a
   link leads to, so nothing below the destination is a link and every touch of a copy acts on
   the copy itself, never on a link's target outside *)
Theorem C19_copies_are_not_links : forall a b f suf n,
  deref f (a ++ suf) = Some n ->
  leads_to_dir f a && is_none (deref f b) && is_none (f b) = true -> is_dir (mkdirs f b) b = true ->
  run_op (CopyTree a b) f (b ++ suf) = Some n /\
  touch_acts_on (run_op (CopyTree a b) f) (b ++ suf) = b ++ suf.
Proof. exact copies_are_not_links. Qed.
Print Assumptions C19_copies_are_not_links.

(* output_dir equal to or above a source directory: no operation at all *)
Theorem C19_refusal : forall b pkg c p cands src,
  In src (srcs c) -> under (out c) src -> ford_ops b pkg c p cands = [].
Proof. exact refusal. Qed.
Print Assumptions C19_refusal.

Theorem C19_refusal_exact : forall c,
  refuse c = true <-> exists src, In src (srcs c) /\ under (out c) src.
Proof. exact refuse_iff. Qed.
Print Assumptions C19_refusal_exact.

(* a run that is not refused never changes a source directory or one of its ancestors
   (x ranges over both), at any crash point *)
Theorem C19_no_source_deleted : forall b pkg c p cands,
  clean (out c) = true -> refuse c = false ->
  forall src x, In src (srcs c) -> under x src ->
  (forall g, graph_dir c = Some g -> ~ under g x) ->
  forall (f : fs) k n, f x = Some n -> run (firstn k (ford_ops b pkg c p cands)) f x = Some n.
Proof. exact no_source_deleted. Qed.
Print Assumptions C19_no_source_deleted.

(* nor any file that source discovery keeps (output_dir is among the excluded directories) *)
Theorem C19_discovered_sources_kept : forall b pkg c p cands,
  clean (out c) = true ->
  In (out c) (excl c) ->
  forall x, discovered c x = true -> x <> out c ->
  (forall g, graph_dir c = Some g -> ~ under g x) ->
  forall (f : fs) k n, f x = Some n -> run (firstn k (ford_ops b pkg c p cands)) f x = Some n.
Proof. exact discovered_sources_kept. Qed.
Print Assumptions C19_discovered_sources_kept.

(* for every combination of project-file and command-line values the effective exclude_dir
   contains the effective output directory, so the hypothesis above always holds for a
   configuration that parse_arguments produces: the output directory is never searched *)
Theorem C19_out_excluded : forall ln dir pkg r,
  In (out (normalise_cfg ln dir pkg r)) (excl (normalise_cfg ln dir pkg r)).
Proof. exact out_excluded. Qed.
Print Assumptions C19_out_excluded.

Theorem C19_discovered_sources_kept_cfg : forall ln dir pkg r b p cands,
  links_clean ln -> let c := normalise_cfg ln dir pkg r in
  forall x, discovered c x = true -> x <> out c ->
  (forall g, graph_dir c = Some g -> ~ under g x) ->
  forall (f : fs) k n, f x = Some n -> run (firstn k (ford_ops b pkg c p cands)) f x = Some n.
Proof. exact discovered_sources_kept_cfg. Qed.
Print Assumptions C19_discovered_sources_kept_cfg.

(* normalise_paths yields an output directory without "." / ".." components *)
Theorem C19_out_clean : forall ln dir pkg r,
  links_clean ln -> clean (out (normalise_cfg ln dir pkg r)) = true.
Proof. exact normalise_cfg_out_clean. Qed.
Print Assumptions C19_out_clean.
