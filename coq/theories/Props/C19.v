(* Props/C19.v — property C19: a run touches nothing outside its output directory.
   Statements only; proofs are in Out/FsModelProofs.v.

   ford_ops b pkg c p pages  is the sequence of mutating file-system operations of a whole run
   (empty when parse_arguments refuses); c is the configuration after normalise_paths,
   roots c = [output_dir; graph_dir].  clean (out c) is discharged by C19_out_clean for every
   configuration that normalise_cfg produces. *)
From Ford Require Import Base.Str Out.FsModel Out.FsModelProofs.

(* Full statement: every target of every operation lies under output_dir or graph_dir, for all
   configurations, projects and page trees.  FALSE of the code: a page may point above the
   output directory (copy_subdir: ../../x, or a location with ".." reached through
   ordered_subpage) — partial theorem + refutations. *)
Definition C19_statement : Prop :=
  forall b pkg c p pages, clean (out c) = true ->
    Forall (op_confined (roots c)) (ford_ops b pkg c p pages).

(* all out_is_file flags, package dirs, configurations, projects (any number of entity pages,
   source files, graphs) and page trees whose pages stay below <out> (decidable region) *)
Theorem C19_targets_confined : forall b pkg c p pages,
  clean (out c) = true -> pages_confined pages = true ->
  Forall (op_confined (roots c)) (ford_ops b pkg c p pages).
Proof. exact ford_ops_confined. Qed.
Print Assumptions C19_targets_confined.

Theorem C19_refuted : ~ C19_statement.
Proof. exact statement_refuted. Qed.
Print Assumptions C19_refuted.

(* even with every page location inside, a copy_subdir entry escapes ... *)
Theorem C19_refuted_copy_subdir :
  ~ (forall b pkg c p pages, clean (out c) = true -> pages_loc_ok pages = true ->
       Forall (op_confined (roots c)) (ford_ops b pkg c p pages)).
Proof. exact statement_refuted_copy_subdir. Qed.
Print Assumptions C19_refuted_copy_subdir.

(* ... and with every copy_subdir entry inside, a page location escapes *)
Theorem C19_refuted_page_location :
  ~ (forall b pkg c p pages, clean (out c) = true -> pages_copy_ok pages = true ->
       Forall (op_confined (roots c)) (ford_ops b pkg c p pages)).
Proof. exact statement_refuted_page_location. Qed.
Print Assumptions C19_refuted_page_location.

(* every crash point = every prefix (firstn k) of the operation sequence, on every file system f:
   everything outside the roots is unchanged, except that a missing ancestor directory of a root
   may have been created as a directory (mkdir(parents=True)) *)
Theorem C19_prefix_safe : forall b pkg c p pages,
  clean (out c) = true -> pages_safe pages = true ->
  forall (f : fs) k, agree_outside (roots c) f (run (firstn k (ford_ops b pkg c p pages)) f).
Proof. exact prefix_safe. Qed.
Print Assumptions C19_prefix_safe.

(* pages_safe is the wider decidable class: page locations stay below <out>, copy_subdir entries
   stay below <out> or are absolute (copytree(x, x), a no-op); it contains pages_confined *)
Theorem C19_confined_is_safe : forall pages, pages_confined pages = true -> pages_safe pages = true.
Proof. exact pages_confined_safe. Qed.
Print Assumptions C19_confined_is_safe.

(* without the restriction the crash-safety statement is false as well: the witness run creates
   /proj/shared/f outside /proj/doc and /proj/graphs *)
Theorem C19_prefix_safe_refuted :
  ~ (forall b pkg c p pages, clean (out c) = true -> pages_loc_ok pages = true ->
       forall (f : fs) k, agree_outside (roots c) f (run (firstn k (ford_ops b pkg c p pages)) f)).
Proof. exact prefix_safe_refuted. Qed.
Print Assumptions C19_prefix_safe_refuted.

(* the same as an equation, when the ancestors of the roots already exist *)
Theorem C19_prefix_safe_eq : forall b pkg c p pages,
  clean (out c) = true -> pages_safe pages = true ->
  forall (f : fs) k, ancestors_exist (roots c) f ->
  forall q, outside (roots c) (run (firstn k (ford_ops b pkg c p pages)) f) q = outside (roots c) f q.
Proof. exact prefix_safe_eq. Qed.
Print Assumptions C19_prefix_safe_eq.

(* one operation changes only paths under its targets (or creates missing ancestors of one) *)
Theorem C19_op_local : forall o f q,
  run_op o f q = f q
  \/ (exists t, In t (targets o) /\ under t q)
  \/ (exists t, In t (targets o) /\ under q t /\ f q = None /\ run_op o f q = Some Dir).
Proof. exact run_op_local. Qed.
Print Assumptions C19_op_local.

(* output_dir equal to or above a source directory: no operation at all *)
Theorem C19_refusal : forall b pkg c p pages src,
  In src (srcs c) -> under (out c) src -> ford_ops b pkg c p pages = [].
Proof. exact refusal. Qed.
Print Assumptions C19_refusal.

Theorem C19_refusal_exact : forall c,
  refuse c = true <-> exists src, In src (srcs c) /\ under (out c) src.
Proof. exact refuse_iff. Qed.
Print Assumptions C19_refusal_exact.

(* a run that is not refused never changes a source directory or one of its ancestors
   (x ranges over both), at any crash point *)
Theorem C19_no_source_deleted : forall b pkg c p pages,
  clean (out c) = true -> pages_safe pages = true -> refuse c = false ->
  forall src x, In src (srcs c) -> under x src ->
  (forall g, graph_dir c = Some g -> ~ under g x) ->
  forall (f : fs) k n, f x = Some n -> run (firstn k (ford_ops b pkg c p pages)) f x = Some n.
Proof. exact no_source_deleted. Qed.
Print Assumptions C19_no_source_deleted.

(* nor any file that source discovery keeps (output_dir is among the excluded directories) *)
Theorem C19_discovered_sources_kept : forall b pkg c p pages,
  clean (out c) = true -> pages_safe pages = true ->
  In (out c) (excl c) ->
  forall x, discovered c x = true -> x <> out c ->
  (forall g, graph_dir c = Some g -> ~ under g x) ->
  forall (f : fs) k n, f x = Some n -> run (firstn k (ford_ops b pkg c p pages)) f x = Some n.
Proof. exact discovered_sources_kept. Qed.
Print Assumptions C19_discovered_sources_kept.

(* normalise_paths yields an output directory without "." / ".." components *)
Theorem C19_out_clean : forall ln dir pkg r,
  links_clean ln -> clean (out (normalise_cfg ln dir pkg r)) = true.
Proof. exact normalise_cfg_out_clean. Qed.
Print Assumptions C19_out_clean.
