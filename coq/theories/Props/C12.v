(* Props/C12.v — property C12: the output is a deterministic function of the inputs.
   Statements only; proofs are in Out/ProjectProofs.v (model: Out/Project.v, Out/Names.v).
   The model is the pipeline after the repairs 80d6c91 (source files parsed in sorted order) and
   c3c7c8e (InheritedByGraph walks sorted(children)). *)
From Coq Require Import Permutation.
From Ford Require Import Base.Str Base.Order Out.Names Out.Project Out.ProjectProofs.

(* Full statement: the identifiers (hence page names, anchors and URLs) depend neither on the
   iteration order of the set of source files (pi) nor on the iteration order of the sets of
   objects walked while correlating (sigma).  It is still FALSE of the code, because of sigma. *)
Definition C12_statement : Prop :=
  forall P pi1 pi2 sigma1 sigma2,
    is_perm pi1 (length (p_files P)) -> is_perm pi2 (length (p_files P)) ->
    perms_ok (p_sets P) sigma1 -> perms_ok (p_sets P) sigma2 ->
    idents P pi1 sigma1 = idents P pi2 sigma2.

(* By-file phases, full: the order in which the set of source files is iterated never matters —
   any number of files, competing names or not. *)
Theorem C12_file_order_irrelevant : forall P pi1 pi2 sigma,
  NoDup (map f_path (p_files P)) ->
  is_perm pi1 (length (p_files P)) -> is_perm pi2 (length (p_files P)) ->
  idents P pi1 sigma = idents P pi2 sigma.
Proof. exact file_order_irrelevant. Qed.
Print Assumptions C12_file_order_irrelevant.

Theorem C12_sorted_is_canonical_any_order : forall (leb : pfile -> pfile -> bool) P pi1 pi2 sets,
  total leb -> transitive leb -> antisym_on leb (p_files P) ->
  is_perm pi1 (length (p_files P)) -> is_perm pi2 (length (p_files P)) ->
  idents_enum P (isort leb (enumerate (p_files P) pi1)) sets
  = idents_enum P (isort leb (enumerate (p_files P) pi2)) sets.
Proof. exact sorted_is_canonical_gen. Qed.
Print Assumptions C12_sorted_is_canonical_any_order.

(* ... nor does the place where the project lives (all source files below one root) *)
Theorem C12_location_irrelevant : forall root P pi sigma,
  idents (relocate root P) pi sigma = idents P pi sigma.
Proof. exact location_irrelevant. Qed.
Print Assumptions C12_location_irrelevant.

(* the former refutation witness (two files, a variable x in each): file order no longer matters;
   a.f90 owns "variable-x", b.f90 gets "variable-x~2" *)
Theorem C12_former_clash_witness_repaired :
  idents clash_project [0; 1] [] = idents clash_project [1; 0] [] /\
  idents clash_project [1; 0] [] =
    [(1, Some (s "a.f90")); (2, Some (s "ma")); (3, Some (s "x"));
     (4, Some (s "b.f90")); (5, Some (s "mb")); (6, Some (s "x~2"))].
Proof. exact clash_project_sorted. Qed.
Print Assumptions C12_former_clash_witness_repaired.

(* what 80d6c91 repaired: the pipeline that iterates the set as it comes *)
Definition C12_unsorted_statement : Prop :=
  forall P pi1 pi2 sigma,
    is_perm pi1 (length (p_files P)) -> is_perm pi2 (length (p_files P)) ->
    idents_unsorted P pi1 sigma = idents_unsorted P pi2 sigma.
Theorem C12_unsorted_refuted : ~ C12_unsorted_statement.
Proof. exact unsorted_statement_refuted. Qed.
Print Assumptions C12_unsorted_refuted.

(* Set-ordered phases, partial: their order does not matter when no entity requested there competes
   with another entity for a NameSelector counter (region: sets_isolatedb) *)
Theorem C12_set_order_irrelevant : forall P pi sigma1 sigma2,
  consistentb P = true -> sets_isolatedb P = true ->
  is_perm pi (length (p_files P)) ->
  perms_ok (p_sets P) sigma1 -> perms_ok (p_sets P) sigma2 ->
  idents P pi sigma1 = idents P pi sigma2.
Proof. exact set_order_irrelevant. Qed.
Print Assumptions C12_set_order_irrelevant.

(* PARTIAL theorem for the full statement: all orders at once *)
Theorem C12_partial : forall P pi1 pi2 sigma1 sigma2,
  consistentb P = true -> sets_isolatedb P = true -> NoDup (map f_path (p_files P)) ->
  is_perm pi1 (length (p_files P)) -> is_perm pi2 (length (p_files P)) ->
  perms_ok (p_sets P) sigma1 -> perms_ok (p_sets P) sigma2 ->
  idents P pi1 sigma1 = idents P pi2 sigma2.
Proof. exact deterministic_partial. Qed.
Print Assumptions C12_partial.

(* REFUTATION: two equally named modules in one level of the toposort are numbered in the iteration
   order of a set of objects hashed by id *)
Theorem C12_refuted_witness :
  is_perm [0; 1] (length (p_files modclash_project)) /\
  perms_ok (p_sets modclash_project) [[0; 1]] /\ perms_ok (p_sets modclash_project) [[1; 0]] /\
  sets_isolatedb modclash_project = false /\ consistentb modclash_project = true /\
  idents modclash_project [0; 1] [[0; 1]] = [(1, Some (s "m")); (2, Some (s "m~2"))] /\
  idents modclash_project [0; 1] [[1; 0]] = [(1, Some (s "m~2")); (2, Some (s "m"))].
Proof. exact modclash_differs. Qed.
Print Assumptions C12_refuted_witness.

Theorem C12_refuted : ~ C12_statement.
Proof. exact statement_refuted. Qed.
Print Assumptions C12_refuted.

(* clash-free projects: any order of anything (the NameSelector-level reason and its corollary) *)
Theorem C12_noclash_order_irrelevant : forall rs1 rs2,
  no_clash_list rs1 = true -> (forall r, In r rs1 <-> In r rs2) ->
  forall id, ident_in (fst (run init rs1)) id = ident_in (fst (run init rs2)) id.
Proof. exact noclash_order_irrelevant_b. Qed.
Print Assumptions C12_noclash_order_irrelevant.

Theorem C12_perm_invariant_noclash : forall P pi1 pi2 sigma1 sigma2,
  no_clashb P = true ->
  is_perm pi1 (length (p_files P)) -> is_perm pi2 (length (p_files P)) ->
  perms_ok (p_sets P) sigma1 -> perms_ok (p_sets P) sigma2 ->
  idents P pi1 sigma1 = idents P pi2 sigma2.
Proof. exact perm_invariant_noclash. Qed.
Print Assumptions C12_perm_invariant_noclash.

(* "Uses" lists: self.uses is a set of module objects; the page shows it in iteration order *)
Definition C12_uses_statement : Prop :=
  forall uses pi1 pi2, is_perm pi1 (length uses) -> is_perm pi2 (length uses) ->
    shown_uses uses pi1 = shown_uses uses pi2.
Theorem C12_uses_partial : forall uses pi1 pi2,
  length uses <= 1 -> is_perm pi1 (length uses) -> is_perm pi2 (length uses) ->
  shown_uses uses pi1 = shown_uses uses pi2.
Proof. exact uses_partial. Qed.
Print Assumptions C12_uses_partial.
Theorem C12_uses_refuted : ~ C12_uses_statement.
Proof. exact uses_statement_refuted. Qed.
Print Assumptions C12_uses_refuted.

(* graphs: nodes and (since c3c7c8e) the child edges of InheritedByGraph are emitted as a function
   of the set *)
Theorem C12_graph_emission_sorted : forall nodes pi1 pi2,
  is_perm pi1 (length nodes) -> is_perm pi2 (length nodes) ->
  emit_nodes nodes pi1 = emit_nodes nodes pi2.
Proof. exact graph_emission_sorted. Qed.
Print Assumptions C12_graph_emission_sorted.

Theorem C12_child_edges_sorted : forall parent children pi1 pi2,
  is_perm pi1 (length children) -> is_perm pi2 (length children) ->
  emit_child_edges parent children pi1 = emit_child_edges parent children pi2.
Proof. exact child_edges_sorted. Qed.
Print Assumptions C12_child_edges_sorted.

Definition C12_child_edges_unsorted_statement : Prop :=
  forall parent children pi1 pi2, is_perm pi1 (length children) -> is_perm pi2 (length children) ->
    emit_child_edges_unsorted parent children pi1 = emit_child_edges_unsorted parent children pi2.
Theorem C12_child_edges_unsorted_refuted : ~ C12_child_edges_unsorted_statement.
Proof. exact child_edges_unsorted_refuted. Qed.
Print Assumptions C12_child_edges_unsorted_refuted.

(* what an earlier run left in the output directory does not matter *)
Theorem C12_stale_output_irrelevant : forall out pages fs1 fs2,
  restrict out (writeout out pages fs1) = restrict out (writeout out pages fs2).
Proof. exact stale_output_irrelevant. Qed.
Print Assumptions C12_stale_output_irrelevant.

(* ... because the directory is removed first: merging into it would not have the property *)
Theorem C12_merge_refuted :
  exists out pages fs1 fs2,
    restrict out (writeout_merge out pages fs1) <> restrict out (writeout_merge out pages fs2).
Proof. exact merge_refuted. Qed.
Print Assumptions C12_merge_refuted.

(* non-vacuity of C12_partial: names compete in the by-file phases, the toposort set is non-trivial,
   and every hypothesis holds *)
Theorem C12_nonvacuous :
  no_clashb partial_project = false /\
  consistentb partial_project = true /\ sets_isolatedb partial_project = true /\
  is_perm [1; 0] (length (p_files partial_project)) /\
  perms_ok (p_sets partial_project) [[1; 0]] /\
  NoDup (map f_path (p_files partial_project)) /\
  idents partial_project [1; 0] [[1; 0]] =
    [(1, Some (s "a.f90")); (4, Some (s "b.f90")); (6, Some (s "x~2")); (3, Some (s "x"));
     (2, Some (s "ma")); (5, Some (s "mb"))].
Proof. exact partial_project_ok. Qed.
Print Assumptions C12_nonvacuous.
