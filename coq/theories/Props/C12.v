(* Props/C12.v — property C12: the output is a deterministic function of the inputs.
   Statements only; proofs are in Out/ProjectProofs.v (model: Out/Project.v, Out/Names.v). *)
From Coq Require Import Permutation.
From Ford Require Import Base.Str Base.Order Out.Names Out.Project Out.ProjectProofs.

(* Full statement: the identifiers (hence page names, anchors and URLs) do not depend on the order
   in which the file system / the hash seed enumerates the source files (pi) nor on the iteration
   order of the sets of objects walked while correlating (sigma).  It is FALSE of the code. *)
Definition C12_statement : Prop :=
  forall P pi1 pi2 sigma1 sigma2,
    is_perm pi1 (length (p_files P)) -> is_perm pi2 (length (p_files P)) ->
    perms_ok (p_sets P) sigma1 -> perms_ok (p_sets P) sigma2 ->
    idents P pi1 sigma1 = idents P pi2 sigma2.

(* Partial: projects in which no two entities compete for one NameSelector counter (same output
   directory / anchor namespace and same normalised name).  Any number of files, any permutations. *)
Theorem C12_perm_invariant_noclash : forall P pi1 pi2 sigma1 sigma2,
  no_clashb P = true ->
  is_perm pi1 (length (p_files P)) -> is_perm pi2 (length (p_files P)) ->
  perms_ok (p_sets P) sigma1 -> perms_ok (p_sets P) sigma2 ->
  idents P pi1 sigma1 = idents P pi2 sigma2.
Proof. exact perm_invariant_noclash. Qed.
Print Assumptions C12_perm_invariant_noclash.

(* The reason, at the level of the NameSelector: in a clash-free run the identifier of every entity
   depends only on the set of requests, not on their order or multiplicity. *)
Theorem C12_noclash_order_irrelevant : forall rs1 rs2,
  no_clash_list rs1 = true -> (forall r, In r rs1 <-> In r rs2) ->
  forall id, ident_in (fst (run init rs1)) id = ident_in (fst (run init rs2)) id.
Proof. exact noclash_order_irrelevant_b. Qed.
Print Assumptions C12_noclash_order_irrelevant.

(* Refutation: two files, each with a variable x.  Whichever file comes first owns "variable-x",
   the other one gets "variable-x~2". *)
Theorem C12_refuted_clash_witness :
  idents clash_project [0; 1] [] =
    [(1, Some (s "a.f90")); (2, Some (s "ma")); (3, Some (s "x"));
     (4, Some (s "b.f90")); (5, Some (s "mb")); (6, Some (s "x~2"))] /\
  idents clash_project [1; 0] [] =
    [(1, Some (s "a.f90")); (2, Some (s "ma")); (3, Some (s "x~2"));
     (4, Some (s "b.f90")); (5, Some (s "mb")); (6, Some (s "x"))].
Proof. exact clash_project_idents. Qed.
Print Assumptions C12_refuted_clash_witness.

Theorem C12_refuted_clash : ~ C12_statement.
Proof. exact statement_refuted. Qed.
Print Assumptions C12_refuted_clash.

(* The candidate repair "for filename in sorted(find_all_files(settings))": with the enumeration
   sorted first the result no longer depends on pi — clashes or not. *)
Theorem C12_sorted_is_canonical : forall P pi1 pi2 sigma,
  NoDup (map f_path (p_files P)) ->
  is_perm pi1 (length (p_files P)) -> is_perm pi2 (length (p_files P)) ->
  idents_sorted P pi1 sigma = idents_sorted P pi2 sigma.
Proof. exact sorted_is_canonical. Qed.
Print Assumptions C12_sorted_is_canonical.

Theorem C12_sorted_is_canonical_any_order : forall (leb : pfile -> pfile -> bool) P pi1 pi2 sets,
  total leb -> transitive leb -> antisym_on leb (p_files P) ->
  is_perm pi1 (length (p_files P)) -> is_perm pi2 (length (p_files P)) ->
  idents_enum P (isort leb (enumerate (p_files P) pi1)) sets
  = idents_enum P (isort leb (enumerate (p_files P) pi2)) sets.
Proof. exact sorted_is_canonical_gen. Qed.
Print Assumptions C12_sorted_is_canonical_any_order.

(* ... but it does not remove the dependence on sets of objects hashed by id: two equally named
   modules in one level of the toposort *)
Theorem C12_sorted_not_enough :
  perms_ok (p_sets modclash_project) [[0; 1]] /\ perms_ok (p_sets modclash_project) [[1; 0]] /\
  idents_sorted modclash_project [0; 1] [[0; 1]] = [(1, Some (s "m")); (2, Some (s "m~2"))] /\
  idents_sorted modclash_project [0; 1] [[1; 0]] = [(1, Some (s "m~2")); (2, Some (s "m"))].
Proof. exact modclash_sorted_differs. Qed.
Print Assumptions C12_sorted_not_enough.

(* "Uses" lists: self.uses is a set of module objects; the page shows it in iteration order *)
Definition C12_uses_statement : Prop :=
  forall uses pi1 pi2, is_perm pi1 (length uses) -> is_perm pi2 (length uses) ->
    shown_uses uses pi1 = shown_uses uses pi2.
Theorem C12_uses_partial : forall uses pi1 pi2,
  length uses <= 1 -> is_perm pi1 (length uses) -> is_perm pi2 (length uses) ->
  shown_uses uses pi1 = shown_uses uses pi2.
Proof. exact uses_partial. Qed.
Print Assumptions C12_uses_partial.
Theorem C12_uses_refuted : ~ C12_uses_statement.
Proof. exact uses_statement_refuted. Qed.
Print Assumptions C12_uses_refuted.

(* graph nodes are emitted sorted by identifier: the emission order is a function of the set *)
Theorem C12_graph_emission_sorted : forall nodes pi1 pi2,
  is_perm pi1 (length nodes) -> is_perm pi2 (length nodes) ->
  emit_nodes nodes pi1 = emit_nodes nodes pi2.
Proof. exact graph_emission_sorted. Qed.
Print Assumptions C12_graph_emission_sorted.

(* ... the edges "child -> parent" of InheritedByGraph are not *)
Definition C12_child_edges_statement : Prop :=
  forall parent children pi1 pi2, is_perm pi1 (length children) -> is_perm pi2 (length children) ->
    emit_child_edges parent children pi1 = emit_child_edges parent children pi2.
Theorem C12_child_edges_refuted : ~ C12_child_edges_statement.
Proof. exact child_edges_statement_refuted. Qed.
Print Assumptions C12_child_edges_refuted.

(* what an earlier run left in the output directory does not matter *)
Theorem C12_stale_output_irrelevant : forall out pages fs1 fs2,
  restrict out (writeout out pages fs1) = restrict out (writeout out pages fs2).
Proof. exact stale_output_irrelevant. Qed.
Print Assumptions C12_stale_output_irrelevant.

(* ... because the directory is removed first: merging into it would not have the property *)
Theorem C12_merge_refuted :
  exists out pages fs1 fs2,
    restrict out (writeout_merge out pages fs1) <> restrict out (writeout_merge out pages fs2).
Proof. exact merge_refuted. Qed.
Print Assumptions C12_merge_refuted.

(* non-vacuity of the hypotheses: a clash-free two-file project with a non-trivial toposort set *)
Theorem C12_nonvacuous :
  no_clashb noclash_project = true /\
  is_perm [1; 0] (length (p_files noclash_project)) /\
  perms_ok (p_sets noclash_project) [[1; 0]] /\
  NoDup (map f_path (p_files noclash_project)) /\
  idents noclash_project [1; 0] [[1; 0]] =
    [(1, Some (s "a.f90")); (4, Some (s "b.f90")); (6, Some (s "y")); (3, Some (s "x"));
     (2, Some (s "ma")); (5, Some (s "mb"))].
Proof. exact noclash_project_ok. Qed.
Print Assumptions C12_nonvacuous.
