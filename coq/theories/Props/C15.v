(* Props/C15.v -- property C15: options mean the same in every configuration format, with
   command line precedence.  Statements only; proofs are in Out/SettingsProofs.v.
   Model: Out/Settings.v over the schema regenerated into Gen/Schema.v. *)
From Coq Require Import ZArith.
From Ford Require Import Base.Str Out.SettingsTypes Gen.Schema Out.Settings Out.SettingsProofs.

(* Table facts over the complete regenerated schema: every option name is a metadata key that the
   markdown syntax can carry (and is its own lower-case form), names are distinct, the type table
   agrees with the schema, every Dict[str,str] option has a one-character non-blank separator, and
   the defaults pass __post_init__. *)
Theorem C15_schema_sound : schema_ok = true.
Proof. exact schema_ok_true. Qed.
Print Assumptions C15_schema_sound.

(* int(str(z)) = z for every integer: the markdown and the TOML form of an int option agree. *)
Theorem C15_int_roundtrip : forall z, py_int (str_of_Z z) = Some z.
Proof. exact py_int_str_of_Z. Qed.
Print Assumptions C15_int_roundtrip.

(* Project-file metadata and fpm.toml agree on the whole effective configuration (or on the
   exception), for EVERY set of distinct options of the schema and all well-typed values (flags,
   numbers, strings incl. multi-line, lists, key/value tables), any command line, any directory. *)
Theorem C15_md_toml_agree : forall i kvs,
  wt_options kvs = true -> forallb (fun kv => simple_value (snd kv)) kvs = true ->
  effective_md i kvs = effective_toml i kvs.
Proof. exact md_toml_agree_simple. Qed.
Print Assumptions C15_md_toml_agree.

(* fpm.toml and --config agree for EVERY set of distinct options and all values: the --config
   options join the options of the settings file before the settings object is built. *)
Theorem C15_toml_config_agree : forall i kvs,
  wt_options kvs = true -> effective_toml i kvs = effective_config i kvs.
Proof. exact toml_config_agree. Qed.
Print Assumptions C15_toml_config_agree.

(* The three formats agree for every option of the schema and every well-typed value, including a
   list written as a bare scalar and extra file types (strings in markdown, tables in TOML). *)
Theorem C15_formats_agree : forall i k v,
  wt_option (k, v) = true ->
  effective_md i [(k, v)] = effective_toml i [(k, v)] /\
  effective_toml i [(k, v)] = effective_config i [(k, v)].
Proof. exact formats_agree. Qed.
Print Assumptions C15_formats_agree.

(* Command line over --config over the file value, field by field: the --config value replaces the
   file value among the keyword arguments of the settings object and leaves the others alone; a
   command line value replaces the field; an absent --config / command line changes nothing.
   (This is the step convert_types_from_commandarguments; the one field derived afterwards,
   exclude_dir, is characterised by C15_exclude_dir_derived below.) *)
Theorem C15_precedence : forall st file k t v v' c,
  field_ty k = Some t -> convert_setting t k v = Ok v' -> aget k st <> None ->
  aget k (kw_update file [(k, c)]) = Some c
  /\ (forall k', k' <> k -> aget k' (kw_update file [(k, c)]) = aget k' file)
  /\ kw_update file [] = file
  /\ (exists st', apply_cli st [(k, v)] = Ok st' /\ sget k st' = v'
                  /\ forall k', k' <> k -> sget k' st' = sget k' st)
  /\ apply_cli st [] = Ok st.
Proof. exact precedence. Qed.
Print Assumptions C15_precedence.

(* One option is derived after the command line has been applied (parse_arguments, right after
   normalise_paths): exclude_dir is the winning value -- from the file, --config or the command
   line -- followed by the effective output_dir unless that is already in the list; no other field
   changes.  (relative = (project_url == "") is the other derived field; it is computed when the
   settings object is built and cannot be given.) *)
Theorem C15_exclude_dir_derived : forall st l,
  sget (s "exclude_dir") st = PList l ->
  exists st', exclude_output st = Ok st' /\
              sget (s "exclude_dir") st' = PList (with_output (sget (s "output_dir") st) l) /\
              forall k, k <> s "exclude_dir" -> sget k st' = sget k st.
Proof. exact exclude_output_spec. Qed.
Print Assumptions C15_exclude_dir_derived.

(* Whatever the format and the command line: a run whose settings are accepted excludes its
   effective output directory from the source search. *)
Theorem C15_output_dir_excluded : forall i st w, effective i = Ok (st, w) ->
  exists l, sget (s "exclude_dir") st = PList l /\ existsb (py_eq (sget (s "output_dir") st)) l = true.
Proof. exact output_dir_excluded. Qed.
Print Assumptions C15_output_dir_excluded.

(* File value over default, for every option of the schema. *)
Theorem C15_file_over_default : forall k x,
  sin k schema_names = true -> sget k (overlay defaults [(k, x)]) = x.
Proof. exact file_over_default. Qed.
Print Assumptions C15_file_over_default.

(* An unknown key is reported (warned list) and dropped, and nothing else changes -- in the project
   file, in fpm.toml and in --config alike. *)
Theorem C15_unknown_key_dropped : forall lines lines' extra u vs st w,
  field_ty u = None -> meta_preprocessor lines' = meta_preprocessor lines ++ [(u, vs)] ->
  run_markdown lines extra = Ok (st, w) -> run_markdown lines' extra = Ok (st, w ++ [u]).
Proof. exact unknown_key_dropped. Qed.
Print Assumptions C15_unknown_key_dropped.
Theorem C15_unknown_key_dropped_toml : forall kv1 kv2 extra u X,
  field_ty u = None ->
  run_toml (kv1 ++ (u, X) :: kv2) extra =
  do r <- run_toml (kv1 ++ kv2) extra;
  Ok (fst r, snd (drop_unknown kv1) ++ u :: snd (drop_unknown kv2)).
Proof. exact unknown_key_toml. Qed.
Print Assumptions C15_unknown_key_dropped_toml.
Theorem C15_unknown_key_dropped_config : forall i c1 c2 u X st w,
  field_ty u = None -> i_cfg i = Some (c1 ++ (u, X) :: c2) ->
  effective (mkinput (i_lines i) (i_toml i) (Some (c1 ++ c2)) (i_cli i) (i_cwd i) (i_dir i) (i_ford i)) = Ok (st, w) ->
  exists w', effective i = Ok (st, w') /\ In u w'.
Proof. exact unknown_key_config. Qed.
Print Assumptions C15_unknown_key_dropped_config.

(* Ill-typed values.  Project file: a bool option that is not a single true/false, an int option
   that int() rejects, and a key/value option without its separator are rejected with a message
   naming the option (list, path and string options accept every text). *)
Theorem C15_ill_typed_md_bool_named : forall key (vals : list str),
  (match vals with
   | [x] => negb (seqb (lower x) (s "true")) && negb (seqb (lower x) (s "false"))
   | [] => false
   | _ => true
   end) = true ->
  convert_setting TBool key (PList (map PStr vals)) = Err (s "ValueError") key true.
Proof. exact ill_typed_md_bool. Qed.
Print Assumptions C15_ill_typed_md_bool_named.
Theorem C15_ill_typed_md_int_named : forall key x, py_int x = None ->
  convert_setting TInt key (PList [PStr x]) = Err (s "ValueError") key true.
Proof. exact ill_typed_md_int. Qed.
Print Assumptions C15_ill_typed_md_int_named.
Theorem C15_ill_typed_md_dict_named : forall key sep x,
  aget key option_separators = Some [sep] -> x <> [] -> existsb (Ascii.eqb sep) x = false ->
  convert_setting TDictStr key (PList [PStr x]) = Err (s "RuntimeError") key true.
Proof. exact ill_typed_md_dict. Qed.
Print Assumptions C15_ill_typed_md_dict_named.

(* fpm.toml and --config: a bool / int / str option (Optional included) given a value that is
   neither of the declared type nor a text that converts is rejected with a ValueError whose message
   names the option -- by the loop of ProjectSettings.__post_init__, whatever the command line and
   the directory.  [scalar_rejects]: a text that is not true/false for a flag, a text that int()
   rejects for a number, any non-text value of another type (graph = 3, max_frontpage_items = true,
   project = 5, author = ["a"], a float, a date). *)
Theorem C15_ill_typed_toml_named : forall i k t X,
  field_ty k = Some t -> settable k = true -> is_scalar_ty t = true -> scalar_rejects t X = true ->
  effective (with_toml i [(k, X)]) = Err (s "ValueError") k true.
Proof. exact ill_typed_toml_scalar. Qed.
Print Assumptions C15_ill_typed_toml_named.
Theorem C15_ill_typed_config_named : forall i k t X,
  field_ty k = Some t -> settable k = true -> is_scalar_ty t = true -> scalar_rejects t X = true ->
  effective (with_config i [(k, X)]) = Err (s "ValueError") k true.
Proof. exact ill_typed_config_scalar. Qed.
Print Assumptions C15_ill_typed_config_named.

(* A flag or number written as the same text in the three formats ("graph: TRUE", graph = "TRUE",
   --config "graph = 'TRUE'"; max_frontpage_items = "4") gives the same effective configuration --
   or the same rejection naming the option when the text does not convert: fpm.toml and --config
   convert it exactly as the project file does. *)
Theorem C15_text_values_agree : forall i k t x,
  field_ty k = Some t -> settable k = true -> is_conv_ty t = true -> piece x = true ->
  effective (with_md i (md_block k [x])) = effective (with_toml i [(k, PStr x)]) /\
  effective (with_toml i [(k, PStr x)]) = effective (with_config i [(k, PStr x)]).
Proof. exact text_values_agree. Qed.
Print Assumptions C15_text_values_agree.

(* fpm.toml and --config agree on every table of raw values of distinct options, well typed or not. *)
Theorem C15_toml_config_agree_raw : forall i kv,
  forallb (fun p => match field_ty (fst p) with Some _ => true | None => false end) kv = true ->
  nodup_strs (map fst kv) = true ->
  effective (with_toml i kv) = effective (with_config i kv).
Proof. exact toml_config_agree_raw. Qed.
Print Assumptions C15_toml_config_agree_raw.

(* The full demand -- whatever the option, a value that is not acceptable for its declared type
   (not of the type as TOML writes it, not a flag / number text that converts) is rejected with a
   message naming the option -- HOLDS for every bool / int / str option ... *)
Definition C15_ill_typed_statement : Prop := ill_typed_statement.
Theorem C15_ill_typed_scalar_full : forall i k t X,
  field_ty k = Some t -> settable k = true -> is_scalar_ty t = true -> X <> PNone -> acceptable t X = false ->
  effective (with_toml i [(k, X)]) = Err (s "ValueError") k true /\
  effective (with_config i [(k, X)]) = Err (s "ValueError") k true.
Proof. exact ill_typed_scalar_full. Qed.
Print Assumptions C15_ill_typed_scalar_full.
(* ... and is FALSE for the list, key/value-table, file-type and path options, which the loop does
   not look at (open finding nonscalar-values-unchecked): exclude = 5 becomes the list [5]. *)
Theorem C15_ill_typed_refuted_nonscalar : ~ C15_ill_typed_statement.
Proof. exact ill_typed_refuted_nonscalar. Qed.
Print Assumptions C15_ill_typed_refuted_nonscalar.

(* The witnesses of the two repaired findings (toml-values-unchecked, config-values-unchecked):
   max_frontpage_items = "4" gives the integer 4, as "max_frontpage_items: 4" does in the project
   file; graph = "maybe" is rejected and the message names graph, as for "graph: maybe". *)
Theorem C15_ill_typed_toml_fixed :
  field_is (effective (with_toml demo_input [(s "max_frontpage_items", PStr (s "4"))])) (s "max_frontpage_items") (PInt 4) = true /\
  field_is (effective (with_md demo_input [s "max_frontpage_items: 4"])) (s "max_frontpage_items") (PInt 4) = true /\
  effective (with_toml demo_input [(s "graph", PStr (s "maybe"))]) = Err (s "ValueError") (s "graph") true.
Proof. exact ill_typed_toml_fixed. Qed.
Print Assumptions C15_ill_typed_toml_fixed.
Theorem C15_ill_typed_config_fixed :
  effective (with_config demo_input [(s "graph", PStr (s "maybe"))]) = Err (s "ValueError") (s "graph") true /\
  effective (with_md demo_input [s "graph: maybe"]) = Err (s "ValueError") (s "graph") true /\
  field_is (effective (with_config demo_input [(s "max_frontpage_items", PStr (s "4"))])) (s "max_frontpage_items") (PInt 4) = true.
Proof. exact ill_typed_config_fixed. Qed.
Print Assumptions C15_ill_typed_config_fixed.

(* Paths: the working directory enters only through the project directory it designates ... *)
Theorem C15_paths_relative_to_project : forall i i',
  i_lines i = i_lines i' -> i_toml i = i_toml i' -> i_cfg i = i_cfg i' -> i_cli i = i_cli i' ->
  i_ford i = i_ford i' -> project_dir i = project_dir i' -> effective i = effective i'.
Proof. exact paths_relative_to_project. Qed.
Print Assumptions C15_paths_relative_to_project.
(* ... and a relative path without ".." stays below the normalised project directory. *)
Theorem C15_paths_anchored : forall base p c r,
  p = c :: r -> Ascii.eqb c slash = false ->
  existsb (fun x => seqb x (s "..")) (split_ch slash p) = false ->
  exists tail, norm_path base p = render_path (norm_comps (split_ch slash base) [] ++ tail).
Proof. exact paths_anchored. Qed.
Print Assumptions C15_paths_anchored.
