(* Props/C15.v -- property C15: options mean the same in every configuration format, with
   command line precedence.  Statements only; proofs are in Out/SettingsProofs.v.
   Model: Out/Settings.v over the schema regenerated into Gen/Schema.v. *)
From Coq Require Import ZArith.
From Ford Require Import Base.Str Out.SettingsTypes Gen.Schema Out.Settings Out.SettingsProofs.

(* Table facts over the complete regenerated schema: every option name is a metadata key that the
   markdown syntax can carry (and is its own lower-case form), names are distinct, the type table
   agrees with the schema, every Dict[str,str] option has a one-character non-blank separator,
   config_sensitive names only options, and the defaults pass __post_init__. *)
Theorem C15_schema_sound : schema_ok = true.
Proof. exact schema_ok_true. Qed.
Print Assumptions C15_schema_sound.

(* int(str(z)) = z for every integer: the markdown and the TOML form of an int option agree. *)
Theorem C15_int_roundtrip : forall z, py_int (str_of_Z z) = Some z.
Proof. exact py_int_str_of_Z. Qed.
Print Assumptions C15_int_roundtrip.

(* Project-file metadata and fpm.toml agree on the whole effective configuration (or on the
   exception), for EVERY set of distinct options of the schema and all well-typed values (flags,
   numbers, strings incl. multi-line, lists, key/value tables), any command line, any directory. *)
Theorem C15_md_toml_agree : forall i kvs,
  wt_options kvs = true -> forallb (fun kv => simple_value (snd kv)) kvs = true ->
  effective_md i kvs = effective_toml i kvs.
Proof. exact md_toml_agree_simple. Qed.
Print Assumptions C15_md_toml_agree.

(* ... and for every single option also for the two remaining value forms: a list written as a
   bare scalar, and extra file types (strings in markdown, tables in TOML). *)
Theorem C15_md_toml_agree_every_option : forall i k v,
  wt_option (k, v) = true -> effective_md i [(k, v)] = effective_toml i [(k, v)].
Proof. exact md_toml_agree_single. Qed.
Print Assumptions C15_md_toml_agree_every_option.

(* The full statement for the three formats is FALSE of the code (--config values are attached
   after __post_init__): partial theorem outside the recorded region + refutation. *)
Definition C15_formats_agree_statement : Prop :=
  forall i k v, wt_option (k, v) = true ->
    effective_md i [(k, v)] = effective_toml i [(k, v)] /\
    effective_toml i [(k, v)] = effective_config i [(k, v)].
Theorem C15_formats_agree_partial : forall i k v,
  wt_option (k, v) = true -> config_safe [(k, v)] = true ->
  effective_md i [(k, v)] = effective_toml i [(k, v)] /\
  effective_toml i [(k, v)] = effective_config i [(k, v)].
Proof. exact formats_agree_partial. Qed.
Print Assumptions C15_formats_agree_partial.
Theorem C15_formats_agree_refuted : ~ C15_formats_agree_statement.
Proof. exact formats_agree_refuted. Qed.
Print Assumptions C15_formats_agree_refuted.

(* --config "src_dir = './s1'": one path per character, where fpm.toml gives [<project>/s1]. *)
Theorem C15_config_scalar_list_refuted :
  exists i k v, wt_option (k, v) = true /\
    field_is (effective_toml i [(k, v)]) k (PList [PPath (s "/work/proj/s1")]) = true /\
    field_is (effective_config i [(k, v)]) k
             (PList [PPath (s "/work/proj"); PPath (s "/"); PPath (s "/work/proj/s"); PPath (s "/work/proj/1")]) = true.
Proof. exact config_scalar_list_refuted. Qed.
Print Assumptions C15_config_scalar_list_refuted.

(* Command line over --config over the file value, field by field; other fields untouched;
   an absent command line / --config changes nothing. *)
Theorem C15_precedence : forall st k t v v' c,
  field_ty k = Some t -> convert_setting t k v = Ok v' -> aget k st <> None ->
  (exists st', apply_cli (apply_config st [(k, c)]) [(k, v)] = Ok st' /\ sget k st' = v'
               /\ forall k', k' <> k -> sget k' st' = sget k' st)
  /\ apply_cli st [] = Ok st
  /\ sget k (apply_config st [(k, c)]) = c
  /\ apply_config st [] = st.
Proof. exact precedence. Qed.
Print Assumptions C15_precedence.

(* File value over default, for every option of the schema. *)
Theorem C15_file_over_default : forall k x,
  sin k schema_names = true -> sget k (overlay defaults [(k, x)]) = x.
Proof. exact file_over_default. Qed.
Print Assumptions C15_file_over_default.

(* Project file: an unknown key is reported (warned list) and dropped; nothing else changes. *)
Theorem C15_unknown_key_dropped : forall lines lines' u vs st w,
  field_ty u = None -> meta_preprocessor lines' = meta_preprocessor lines ++ [(u, vs)] ->
  run_markdown lines = Ok (st, w) -> run_markdown lines' = Ok (st, w ++ [u]).
Proof. exact unknown_key_dropped. Qed.
Print Assumptions C15_unknown_key_dropped.

(* "unknown keys are reported without aborting" fails for the two other formats. *)
Definition C15_unknown_key_statement_toml : Prop :=
  forall u X, find_field project_schema u = None -> exists st w, run_toml [(u, X)] = Ok (st, w) /\ In u w.
Theorem C15_unknown_key_refuted_toml : forall u X,
  find_field project_schema u = None -> run_toml [(u, X)] = Err (s "TypeError") u true.
Proof. exact unknown_key_toml. Qed.
Print Assumptions C15_unknown_key_refuted_toml.
Theorem C15_unknown_key_refuted_config : forall i u X,
  aget u post_defaults = None -> i_lines i = [] -> i_toml i = None -> i_cfg i = Some [(u, X)] ->
  effective i = effective (mkinput [] None (Some []) (i_cli i) (i_cwd i) (i_dir i) (i_ford i)).
Proof. exact unknown_key_config. Qed.
Print Assumptions C15_unknown_key_refuted_config.

(* Ill-typed values.  Project file: a bool option that is not a single true/false, and a
   key/value option without its separator, are rejected with a message naming the option. *)
Theorem C15_ill_typed_md_bool_named : forall key (vals : list str),
  (match vals with
   | [x] => negb (seqb (lower x) (s "true")) && negb (seqb (lower x) (s "false"))
   | [] => false
   | _ => true
   end) = true ->
  convert_setting TBool key (PList (map PStr vals)) = Err (s "ValueError") key true.
Proof. exact ill_typed_md_bool. Qed.
Print Assumptions C15_ill_typed_md_bool_named.
Theorem C15_ill_typed_md_dict_named : forall key sep x,
  aget key option_separators = Some [sep] -> x <> [] -> existsb (Ascii.eqb sep) x = false ->
  convert_setting TDictStr key (PList [PStr x]) = Err (s "RuntimeError") key true.
Proof. exact ill_typed_md_dict. Qed.
Print Assumptions C15_ill_typed_md_dict_named.

(* The full demand "rejected with a message naming the option" is FALSE for fpm.toml, for
   --config, and for int options of the project file. *)
Definition C15_ill_typed_statement_toml : Prop := ill_typed_toml_statement.
Definition C15_ill_typed_statement_config : Prop := ill_typed_config_statement.
Definition C15_ill_typed_statement_md : Prop := ill_typed_md_statement.
Theorem C15_ill_typed_refuted_toml : ~ C15_ill_typed_statement_toml.
Proof. exact ill_typed_refuted_toml. Qed.
Print Assumptions C15_ill_typed_refuted_toml.
Theorem C15_ill_typed_refuted_config : ~ C15_ill_typed_statement_config.
Proof. exact ill_typed_refuted_config. Qed.
Print Assumptions C15_ill_typed_refuted_config.
Theorem C15_ill_typed_refuted_md_int : ~ C15_ill_typed_statement_md.
Proof. exact ill_typed_refuted_md_int. Qed.
Print Assumptions C15_ill_typed_refuted_md_int.
(* in general: whatever int() rejects yields an error that does not name the option *)
Theorem C15_md_int_error_unnamed : forall key x, py_int x = None ->
  convert_setting TInt key (PList [PStr x]) = Err (s "ValueError") key false.
Proof. exact md_int_error_unnamed. Qed.
Print Assumptions C15_md_int_error_unnamed.

(* Paths: the working directory enters only through the project directory it designates ... *)
Theorem C15_paths_relative_to_project : forall i i',
  i_lines i = i_lines i' -> i_toml i = i_toml i' -> i_cfg i = i_cfg i' -> i_cli i = i_cli i' ->
  i_ford i = i_ford i' -> project_dir i = project_dir i' -> effective i = effective i'.
Proof. exact paths_relative_to_project. Qed.
Print Assumptions C15_paths_relative_to_project.
(* ... and a relative path without ".." stays below the normalised project directory. *)
Theorem C15_paths_anchored : forall base p c r,
  p = c :: r -> Ascii.eqb c slash = false ->
  existsb (fun x => seqb x (s "..")) (split_ch slash p) = false ->
  exists tail, norm_path base p = render_path (norm_comps (split_ch slash base) [] ++ tail).
Proof. exact paths_anchored. Qed.
Print Assumptions C15_paths_anchored.
