(* Props/C20.v — property C20: an unparseable file is skipped without disturbing the rest.
   Statements only; proofs in Sem/TreeTrunc.v, Sem/TreeTotal.v, Out/ProjectFoldProofs.v. *)
From Ford Require Import Base.Str Sem.Tree Sem.TreeSpec Sem.TreeProofs Sem.TreeTrunc Sem.TreeTotal
  Out.Names Out.ProjectFold Out.ProjectFoldProofs.

(* A well-formed file cut anywhere strictly inside one of its program units — at any nesting
   depth: inside a documentation block, a declaration, an internal procedure, right before the
   END — is rejected ("File ended while still nested"). *)
Theorem C20_truncation_rejected : forall fname before d after p q,
  forallb (wf_decl KFile false) (before ++ d :: after) = true ->
  is_container d = true ->
  flatten d = p ++ q -> p <> [] -> q <> [] ->
  parse_file fname (file_stmts before ++ p) = PErr ENested.
Proof. exact truncation_rejected. Qed.
Print Assumptions C20_truncation_rejected.

(* an END with nothing open (unbalanced END) is rejected *)
Theorem C20_stray_end_rejected : forall fname units e rest,
  forallb (wf_decl KFile false) units = true ->
  parse_file fname (file_stmts units ++ SEnd e :: rest) = PErr EEndAtFile.
Proof. exact stray_end_rejected. Qed.
Print Assumptions C20_stray_end_rejected.

(* a rejected file changes neither the documented entities nor the global name table of the
   project, wherever it stands in the enumeration order, and it is reported *)
Theorem C20_isolation : forall fs1 f fs2 e,
  parse_file (fst f) (snd f) = PErr e ->
  p_files (build (fs1 ++ f :: fs2)) = p_files (build (fs1 ++ fs2)) /\
  p_names (build (fs1 ++ f :: fs2)) = p_names (build (fs1 ++ fs2)) /\
  In (fst f) (p_skipped (build (fs1 ++ f :: fs2))).
Proof. exact isolation. Qed.
Print Assumptions C20_isolation.

(* the parsing algorithm terminates with a verdict on every statement sequence: fuel equal to
   the number of statements plus one is never exhausted *)
Theorem C20_parse_total : forall fname l, parse_file fname l <> PErr EFuel.
Proof. exact parse_total. Qed.
Print Assumptions C20_parse_total.
