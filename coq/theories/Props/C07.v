(* Props/C07.v — property C07: cross-references resolve to the entity Fortran scoping designates.
   Statements only; proofs are in Sem/ScopeProofs.v.

   Model (Sem/Scope.v): [correlate evs] = every reference slot of one program unit (variable and
   component types / interfaces, extends, binding targets and prototypes, finals, constructors,
   module procedures of generic interfaces) with the entity FORD's correlate() puts there; evs is
   the unit as the event sequence of FORD's traversal; every scope has dictionaries of its own,
   copied from its host's when it is entered; an abstract interface of the scope (declared or
   use-associated) removes the host's procedure of the same name from the copy.
   A submodule is a unit whose host is its parent submodule or ancestor module (the units it
   depends on come first in evs).
   Spec: [spec evs] = the same slots resolved by Fortran's rules (innermost enclosing scope that
   declares the name or obtains it by use association; nothing from sibling or contained scopes;
   the host of a submodule is its parent submodule or ancestor module; the names of procedures
   and abstract interfaces are identifiers of one kind, so the innermost scope that has the name
   in either role decides which of the two it is).
   [scopes_legal]: in one scope a use-associated name is not declared again and not obtained twice
   for different entities (a legality condition of Fortran, decidable). *)
From Ford Require Import Base.Str Sem.Scope Sem.ScopeProofs.

(* Full statement: for every well-formed, legal unit (any nesting depth, any number of scopes and
   slots, names reused freely across scopes, chains of submodules) the model's slots are exactly
   the Spec's.  No region is excluded: the four defects that made this false of the code are
   repaired (their witnesses are the fixed examples below). *)
Definition C07_statement : Prop :=
  forall evs, wf_events evs = true -> scopes_legal evs = true ->
  forall r, In r (correlate evs) <-> In r (spec evs).

Theorem C07_full : C07_statement.
Proof. exact full_correct. Qed.
Print Assumptions C07_full.

(* Former witness: module m; subroutine x; subroutine a with an abstract interface x of its own and
   procedure(x), pointer :: p.  The slot of p holds a's abstract interface (it held the module
   procedure). *)
Theorem C07_fixed_abs_over_proc :
  wf_events w_absproc = true /\ scopes_legal w_absproc = true /\
  In {| r_scope := map s ["m"; "a"]%string; r_slot := SVar (s "p"); r_look := LProcAbs;
        r_name := s "x"; r_ent := Some (map s ["m"; "a"; "x"]%string) |} (correlate w_absproc).
Proof. exact fixed_abs_over_proc. Qed.
Print Assumptions C07_fixed_abs_over_proc.

(* Former witness: module m with type t; submodule (m) s1 with a type t of its own and type(t) :: v.
   The slot of v holds s1's t (it held the module's). *)
Theorem C07_fixed_sub_shadow :
  wf_events w_subshadow = true /\ scopes_legal w_subshadow = true /\
  In {| r_scope := map s ["s1"]%string; r_slot := SVar (s "v"); r_look := LType;
        r_name := s "t"; r_ent := Some (map s ["s1"; "t"]%string) |} (correlate w_subshadow).
Proof. exact fixed_sub_shadow. Qed.
Print Assumptions C07_fixed_sub_shadow.

(* The witnesses of the two defects repaired first (a contained procedure did not shadow a host
   procedure; a type local to one procedure was visible in its sibling and in the host). *)
Theorem C07_fixed_proc_shadow :
  wf_events w_shadow = true /\ scopes_legal w_shadow = true /\
  In {| r_scope := map s ["m"; "a"]%string; r_slot := SVar (s "p"); r_look := LProcAbs;
        r_name := s "helper"; r_ent := Some (map s ["m"; "a"; "helper"]%string) |} (correlate w_shadow).
Proof. exact fixed_proc_shadow. Qed.
Print Assumptions C07_fixed_proc_shadow.

Theorem C07_fixed_sibling_leak :
  wf_events w_leak = true /\ scopes_legal w_leak = true /\
  In {| r_scope := map s ["m"; "b"]%string; r_slot := SVar (s "y"); r_look := LType;
        r_name := s "t"; r_ent := None |} (correlate w_leak) /\
  In {| r_scope := map s ["m"]%string; r_slot := SVar (s "z"); r_look := LType;
        r_name := s "t"; r_ent := None |} (correlate w_leak) /\
  In {| r_scope := map s ["m"; "a"]%string; r_slot := SVar (s "x"); r_look := LType;
        r_name := s "t"; r_ent := Some (map s ["m"; "a"; "t"]%string) |} (correlate w_leak).
Proof. exact fixed_sibling_leak. Qed.
Print Assumptions C07_fixed_sibling_leak.

(* Full, for every event sequence (well-formed or not): a slot is only ever resolved under a name
   that some scope of the unit declares or obtains by use association; a name declared nowhere
   stays a string. *)
Theorem C07_unresolved_stays_text : forall evs r,
  In r (correlate evs) -> mentioned evs (r_name r) = false -> r_ent r = None.
Proof. exact unresolved_stays_text. Qed.
Print Assumptions C07_unresolved_stays_text.

(* non-vacuity: a unit with every kind of slot, three nesting levels, interface bodies, a
   use-associated name and undeclared names satisfies the hypotheses of C07_full; 24 slots,
   some resolved, some not, some of them procedure(n) references *)
Theorem C07_example_hypotheses :
  wf_events ex_unit = true /\ scopes_legal ex_unit = true /\
  length (correlate ex_unit) = 24 /\
  existsb (fun r => match r_ent r with Some _ => true | None => false end) (correlate ex_unit) = true /\
  existsb (fun r => match r_ent r with Some _ => false | None => true end) (correlate ex_unit) = true /\
  existsb (fun r => match r_look r with LProcAbs => true | _ => false end) (correlate ex_unit) = true.
Proof. exact ex_unit_hypotheses. Qed.
Print Assumptions C07_example_hypotheses.

(* non-vacuity for submodules: module m, submodule (m) s1 with a USE of its own, submodule (m:s1)
   s2: all hypotheses hold; s2 sees the module's t, lib's u through s1's USE (which hides the
   module's u), s1's procedure, and leaves an undeclared name as text *)
Theorem C07_example_submodules :
  wf_events ex_subs = true /\ scopes_legal ex_subs = true /\
  In {| r_scope := map s ["s2"]%string; r_slot := SVar (s "x1"); r_look := LType; r_name := s "t";
        r_ent := Some (map s ["m"; "t"]%string) |} (correlate ex_subs) /\
  In {| r_scope := map s ["s2"]%string; r_slot := SVar (s "x2"); r_look := LType; r_name := s "u";
        r_ent := Some (map s ["lib"; "u"]%string) |} (correlate ex_subs) /\
  In {| r_scope := map s ["s2"]%string; r_slot := SVar (s "x4"); r_look := LProcAbs; r_name := s "local1";
        r_ent := Some (map s ["s1"; "local1"]%string) |} (correlate ex_subs) /\
  In {| r_scope := map s ["s2"]%string; r_slot := SVar (s "x5"); r_look := LType; r_name := s "nosuch_t";
        r_ent := None |} (correlate ex_subs).
Proof. exact ex_subs_hypotheses. Qed.
Print Assumptions C07_example_submodules.

(* non-vacuity for the single kind of procedure identifiers: in subroutine a of module m an
   abstract interface x obtained by use association and an own abstract interface y hide the
   module procedures x and y (procedure(x), procedure(y) resolve to the abstract interfaces, a
   binding target x stays a string), the module procedure z stays visible, and the module itself
   still sees its procedure x; [ent_of evs path slot] = the entity in that slot of [correlate evs] *)
Theorem C07_example_hiding :
  wf_events ex_hiding = true /\ scopes_legal ex_hiding = true /\
  ent_of ex_hiding ["m"; "a"]%string (SVar (s "p")) = Some (Some (map s ["lib"; "x"]%string)) /\
  ent_of ex_hiding ["m"; "a"]%string (SVar (s "q")) = Some (Some (map s ["m"; "a"; "y"]%string)) /\
  ent_of ex_hiding ["m"; "a"]%string (SVar (s "r")) = Some (Some (map s ["m"; "z"]%string)) /\
  ent_of ex_hiding ["m"; "a"]%string (SBindTarget (s "t") (s "b") 0) = Some None /\
  ent_of ex_hiding ["m"; "a"]%string (SBindTarget (s "t") (s "c") 0) = Some (Some (map s ["m"; "z"]%string)) /\
  ent_of ex_hiding ["m"]%string (SModproc (s "gg") 0) = Some (Some (map s ["m"; "x"]%string)).
Proof. exact ex_hiding_facts. Qed.
Print Assumptions C07_example_hiding.
