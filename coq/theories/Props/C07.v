(* Props/C07.v — property C07: cross-references resolve to the entity Fortran scoping designates.
   Statements only; proofs are in Sem/ScopeProofs.v.

   Model (Sem/Scope.v): [correlate evs] = every reference slot of one program unit (variable and
   component types / interfaces, extends, binding targets and prototypes, finals, constructors,
   module procedures of generic interfaces) with the entity FORD's correlate() puts there; evs is
   the unit as the event sequence of FORD's traversal; every scope has dictionaries of its own,
   copied from its host's when it is entered (FortranCodeUnit.correlate after the repair of the two
   defects this property found).
   A submodule is a unit whose dictionaries are updated with those of its parent submodule or
   ancestor module (the units it depends on come first in evs).
   Spec: [spec evs] = the same slots resolved by Fortran's rules (innermost enclosing scope that
   declares the name or obtains it by use association; nothing from sibling or contained scopes;
   the host of a submodule is its parent submodule or ancestor module).
   [scopes_legal]: in one scope a use-associated name is not declared again and not obtained twice
   for different entities (a legality condition of Fortran, decidable). *)
From Ford Require Import Base.Str Sem.Scope Sem.ScopeProofs.

(* Full statement: for every well-formed, legal unit (any nesting depth, any number of scopes and
   slots, names reused freely across scopes, chains of submodules) the model's slots are exactly
   the Spec's.  Two defects remain, so it is still FALSE of the code (C07_refuted_abs_over_proc,
   C07_refuted_sub_shadow). *)
Definition C07_statement : Prop :=
  forall evs, wf_events evs = true -> scopes_legal evs = true ->
  forall r, In r (correlate evs) <-> In r (spec evs).

(* [sub_shadow_free]: no own declaration of a submodule bears a name visible in its host unit
   (decidable; trivially true of units that are not submodules).
   For every slot that is not a procedure(n) reference (types of variables and components,
   extends, binding targets, finals, constructors, module procedures): no further region. *)
Theorem C07_types_and_procedures : forall evs,
  wf_events evs = true -> scopes_legal evs = true -> sub_shadow_free evs = true ->
  forall r, r_look r <> LProcAbs -> (In r (correlate evs) <-> In r (spec evs)).
Proof. exact types_and_procs_correct. Qed.
Print Assumptions C07_types_and_procedures.

(* Partial: all slots, when no procedure(n) reference sits where an abstract interface n of an
   inner scope hides a procedure n of an outer scope (decidable, pins the remaining finding). *)
Theorem C07_partial : forall evs,
  wf_events evs = true -> scopes_legal evs = true -> sub_shadow_free evs = true -> procabs_consistent evs = true ->
  forall r, In r (correlate evs) <-> In r (spec evs).
Proof. exact partial_correct. Qed.
Print Assumptions C07_partial.

(* What the code does in every legal unit, region included: the Spec with procedure(n) read as
   "a visible procedure n, else a visible abstract interface n". *)
Theorem C07_model_characterised : forall evs,
  wf_events evs = true -> scopes_legal evs = true -> sub_shadow_free evs = true ->
  forall r, In r (correlate evs) <-> In r (spec_procs_first evs).
Proof. exact model_is_spec_procs_first. Qed.
Print Assumptions C07_model_characterised.

(* Witness: module m; subroutine x; subroutine a with an abstract interface x of its own and
   procedure(x), pointer :: p.  The slot of p holds the module procedure, Fortran designates a's
   abstract interface. *)
Theorem C07_refuted_abs_over_proc :
  refuted_by w_absproc {| r_scope := map s ["m"; "a"]%string; r_slot := SVar (s "p"); r_look := LProcAbs;
                          r_name := s "x"; r_ent := Some (map s ["m"; "x"]%string) |}
  /\ procabs_consistent w_absproc = false /\ sub_shadow_free w_absproc = true.
Proof. exact refuted_abs_over_proc. Qed.
Print Assumptions C07_refuted_abs_over_proc.

(* Witness: module m with type t; submodule (m) s1 with a type t of its own and type(t) :: v.
   The slot of v holds the module's t, Fortran designates s1's. *)
Theorem C07_refuted_sub_shadow :
  refuted_by w_subshadow {| r_scope := map s ["s1"]%string; r_slot := SVar (s "v"); r_look := LType;
                            r_name := s "t"; r_ent := Some (map s ["m"; "t"]%string) |}
  /\ sub_shadow_free w_subshadow = false /\ procabs_consistent w_subshadow = true.
Proof. exact refuted_sub_shadow. Qed.
Print Assumptions C07_refuted_sub_shadow.

Theorem C07_statement_refuted : ~ C07_statement.
Proof.
  intros H. destruct refuted_abs_over_proc as [(Hwf & Hl & Hin & Hn) _]. apply Hn. now apply (H _ Hwf Hl).
Qed.
Print Assumptions C07_statement_refuted.

(* The witnesses of the two repaired defects (a contained procedure did not shadow a host
   procedure; a type local to one procedure was visible in its sibling and in the host) now get
   Fortran's answer in the model. *)
Theorem C07_fixed_proc_shadow :
  wf_events w_shadow = true /\ scopes_legal w_shadow = true /\ sub_shadow_free w_shadow = true /\
  procabs_consistent w_shadow = true /\
  In {| r_scope := map s ["m"; "a"]%string; r_slot := SVar (s "p"); r_look := LProcAbs;
        r_name := s "helper"; r_ent := Some (map s ["m"; "a"; "helper"]%string) |} (correlate w_shadow).
Proof. exact fixed_proc_shadow. Qed.
Print Assumptions C07_fixed_proc_shadow.

Theorem C07_fixed_sibling_leak :
  wf_events w_leak = true /\ scopes_legal w_leak = true /\ sub_shadow_free w_leak = true /\
  procabs_consistent w_leak = true /\
  In {| r_scope := map s ["m"; "b"]%string; r_slot := SVar (s "y"); r_look := LType;
        r_name := s "t"; r_ent := None |} (correlate w_leak) /\
  In {| r_scope := map s ["m"]%string; r_slot := SVar (s "z"); r_look := LType;
        r_name := s "t"; r_ent := None |} (correlate w_leak) /\
  In {| r_scope := map s ["m"; "a"]%string; r_slot := SVar (s "x"); r_look := LType;
        r_name := s "t"; r_ent := Some (map s ["m"; "a"; "t"]%string) |} (correlate w_leak).
Proof. exact fixed_sibling_leak. Qed.
Print Assumptions C07_fixed_sibling_leak.

(* Full, for every event sequence (well-formed or not): a slot is only ever resolved under a name
   that some scope of the unit declares or obtains by use association; a name declared nowhere
   stays a string. *)
Theorem C07_unresolved_stays_text : forall evs r,
  In r (correlate evs) -> mentioned evs (r_name r) = false -> r_ent r = None.
Proof. exact unresolved_stays_text. Qed.
Print Assumptions C07_unresolved_stays_text.

(* non-vacuity: a unit with every kind of slot, three nesting levels, interface bodies, a
   use-associated name and undeclared names satisfies the hypotheses of C07_partial; 24 slots,
   some resolved, some not, some of them procedure(n) references *)
Theorem C07_example_hypotheses :
  wf_events ex_unit = true /\ scopes_legal ex_unit = true /\ sub_shadow_free ex_unit = true /\
  procabs_consistent ex_unit = true /\
  length (correlate ex_unit) = 24 /\
  existsb (fun r => match r_ent r with Some _ => true | None => false end) (correlate ex_unit) = true /\
  existsb (fun r => match r_ent r with Some _ => false | None => true end) (correlate ex_unit) = true /\
  existsb (fun r => match r_look r with LProcAbs => true | _ => false end) (correlate ex_unit) = true.
Proof. exact ex_unit_hypotheses. Qed.
Print Assumptions C07_example_hypotheses.

(* non-vacuity for submodules: module m, submodule (m) s1 with a USE of its own, submodule (m:s1)
   s2: all hypotheses hold; s2 sees the module's t, lib's u through s1's USE (which hides the
   module's u), s1's procedure, and leaves an undeclared name as text *)
Theorem C07_example_submodules :
  wf_events ex_subs = true /\ scopes_legal ex_subs = true /\ sub_shadow_free ex_subs = true /\
  procabs_consistent ex_subs = true /\
  In {| r_scope := map s ["s2"]%string; r_slot := SVar (s "x1"); r_look := LType; r_name := s "t";
        r_ent := Some (map s ["m"; "t"]%string) |} (correlate ex_subs) /\
  In {| r_scope := map s ["s2"]%string; r_slot := SVar (s "x2"); r_look := LType; r_name := s "u";
        r_ent := Some (map s ["lib"; "u"]%string) |} (correlate ex_subs) /\
  In {| r_scope := map s ["s2"]%string; r_slot := SVar (s "x4"); r_look := LProcAbs; r_name := s "local1";
        r_ent := Some (map s ["s1"; "local1"]%string) |} (correlate ex_subs) /\
  In {| r_scope := map s ["s2"]%string; r_slot := SVar (s "x5"); r_look := LType; r_name := s "nosuch_t";
        r_ent := None |} (correlate ex_subs).
Proof. exact ex_subs_hypotheses. Qed.
Print Assumptions C07_example_submodules.
