(* Props/C07.v — property C07: cross-references resolve to the entity Fortran scoping designates.
   Statements only; proofs are in Sem/ScopeProofs.v.

   Model (Sem/Scope.v): [correlate evs] = every reference slot of one program unit (variable and
   component types / interfaces, extends, binding targets and prototypes, finals, constructors,
   module procedures of generic interfaces) with the entity FORD's correlate() puts there; evs is
   the unit as the event sequence of FORD's traversal, dictionaries are tables in a store so that
   the sharing of all_types / all_absinterfaces between a scope and its host is explicit.
   Spec: [spec evs] = the same slots resolved by Fortran's rules (innermost enclosing scope that
   declares the name or obtains it by use association; nothing from sibling or contained scopes). *)
From Ford Require Import Base.Str Sem.Scope Sem.ScopeProofs.

(* Full statement: for every well-formed unit (any nesting depth, any number of scopes and slots)
   the model's slots are exactly the Spec's.  It is FALSE of the code. *)
Definition C07_statement : Prop :=
  forall evs, wf_events evs = true -> forall r, In r (correlate evs) <-> In r (spec evs).

(* Partial: holds when an identifier denotes one entity in the whole unit (as a type; as a
   procedure or abstract interface) AND every referenced name is either visible from where it is
   referenced or declared nowhere in the unit.  (Uniqueness alone is not enough: see
   C07_refuted_sibling_leak, whose witness has unique names.) *)
Theorem C07_partial : forall evs,
  wf_events evs = true -> names_unique_per_root evs = true -> refs_visible_or_undeclared evs = true ->
  forall r, In r (correlate evs) <-> In r (spec evs).
Proof. exact partial_correct. Qed.
Print Assumptions C07_partial.

(* Witness 1: module m; subroutine helper; subroutine a with an internal helper of its own and
   procedure(helper), pointer :: p.  The slot of p holds m's helper, Fortran designates a's. *)
Theorem C07_refuted_proc_shadow :
  refuted_by w_shadow {| r_scope := map s ["m"; "a"]%string; r_slot := SVar (s "p"); r_look := LProcAbs;
                         r_name := s "helper"; r_ent := Some (map s ["m"; "helper"]%string) |}
  /\ names_unique_per_root w_shadow = false.
Proof. exact refuted_proc_shadow. Qed.
Print Assumptions C07_refuted_proc_shadow.

(* Witness 2: type t is declared inside subroutine a only; the sibling b declares type(t) :: y.
   The slot of y holds a's t, Fortran designates nothing (the name must stay text). *)
Theorem C07_refuted_sibling_leak :
  refuted_by w_leak {| r_scope := map s ["m"; "b"]%string; r_slot := SVar (s "y"); r_look := LType;
                       r_name := s "t"; r_ent := Some (map s ["m"; "a"; "t"]%string) |}
  /\ names_unique_per_root w_leak = true /\ refs_visible_or_undeclared w_leak = false.
Proof. exact refuted_sibling_leak. Qed.
Print Assumptions C07_refuted_sibling_leak.

Theorem C07_statement_refuted : ~ C07_statement.
Proof.
  intros H. destruct refuted_proc_shadow as [(Hwf & Hin & Hn) _]. apply Hn. now apply (H _ Hwf).
Qed.
Print Assumptions C07_statement_refuted.

(* Full, for every event sequence (well-formed or not): a slot is only ever resolved under a name
   that some scope of the unit declares or obtains by use association; a name declared nowhere
   stays a string. *)
Theorem C07_unresolved_stays_text : forall evs r,
  In r (correlate evs) -> mentioned evs (r_name r) = false -> r_ent r = None.
Proof. exact unresolved_stays_text. Qed.
Print Assumptions C07_unresolved_stays_text.

(* non-vacuity: a unit with every kind of slot, three nesting levels, interface bodies, a
   use-associated name and undeclared names satisfies the hypotheses of C07_partial; 24 slots,
   some resolved, some not *)
Theorem C07_example_hypotheses :
  wf_events ex_unit = true /\ names_unique_per_root ex_unit = true /\ refs_visible_or_undeclared ex_unit = true /\
  length (correlate ex_unit) = 24 /\
  existsb (fun r => match r_ent r with Some _ => true | None => false end) (correlate ex_unit) = true /\
  existsb (fun r => match r_ent r with Some _ => false | None => true end) (correlate ex_unit) = true.
Proof. exact ex_unit_hypotheses. Qed.
Print Assumptions C07_example_hypotheses.
