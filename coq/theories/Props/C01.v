(* Props/C01.v — property C01: the documented entity tree equals the declared program structure.
   Statements only; proofs in Sem/TreeProofs.v.  The theorems speak about the structural layer of
   the parser (statement kinds -> tree); the classification of statement text into kinds (the
   regular-expression cascade, all spellings) is validated end-to-end by the check, not proved. *)
From Ford Require Import Base.Str Sem.Tree Sem.TreeSpec Sem.TreeProofs.

(* Every well-formed file (any number and nesting of modules, submodules, programs, procedures with
   internal procedures, block data, types with components / bindings / finals, generic, abstract
   and explicit interfaces, enums, common blocks, namelists, variables, use statements, with
   documentation and statements that declare nothing in between) is parsed without error into
   exactly the declared tree: each entity once, under the unit that declares it, with its
   documentation; nothing undeclared; nothing left over. *)
Theorem C01_tree_roundtrip : forall fname units,
  forallb (wf_decl KFile false) units = true ->
  parse_file fname (file_stmts units) = POk (file_tree fname units) [].
Proof. exact tree_roundtrip. Qed.
Print Assumptions C01_tree_roundtrip.

(* In any scope and parser state, one declaration adds exactly its own entities (with their
   documentation) to the open unit and leaves the parser ready for the next statement. *)
Theorem C01_decl_consumed : forall d, consumed d.
Proof. exact every_decl_consumed. Qed.
Print Assumptions C01_decl_consumed.
