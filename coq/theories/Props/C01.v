(* Props/C01.v — placeholder while the proofs are being written *)
From Ford Require Import Base.Str Sem.Tree.
