(* Props/C01cascade.v -- property C01, statement classification: which statement of a Fortran
   program a logical line is.  Statements only; proofs in Sem/CascadeProofs.v (general facts:
   Sem/CascadeFacts.v, declarations: Sem/CascadeDecl.v).
   Model: Sem/Cascade.v -- FortranContainer.__init__'s if/elif chain, interpreted from the table
   Gen/Cascade.v that translate/t_c01_cascade.py regenerates from ford/sourceform.py (branch order,
   guards, pattern texts), with one hand-written recogniser per regular expression.
   Spec: Sem/CascadeSpec.v -- the statements as text in all their spellings (sline, render), the
   statement of Sem/Tree.v each is (stmt_of), where it may stand (place_ok). *)
From Ford Require Import Base.Str Sem.Tree Sem.TreeSpec Sem.TypeSpec Sem.DeclSpec Sem.Cascade Sem.CascadeSpec Sem.CascadeProofs
     Sem.CascadeTree Sem.CascadeText Sem.CascadeTextProofs.

(* The model was written from these tables: a change of the branch order, of a guard, of a body's
   hasattr / isinstance / constructor calls, or of a pattern text makes these equalities fail. *)
Theorem C01_cascade_tables :
  Gen.Cascade.cascade = modelled_cascade /\ Gen.Cascade.patterns = modelled_patterns /\
  Gen.Cascade.prologue = modelled_prologue /\ Gen.Cascade.after_loop = modelled_after_loop.
Proof.
  split; [exact Sem.CascadeFacts.cascade_as_modelled|]. split; [exact Sem.CascadeFacts.patterns_as_modelled|].
  exact Sem.CascadeFacts.prologue_as_modelled.
Qed.
Print Assumptions C01_cascade_tables.

(* Dispatch correctness.  For every statement kind and every spelling of it -- any letter case of
   every keyword, any number of blanks wherever blanks may stand (none where the language allows
   it: TYPE::t, endmodule, blockdata), END with or without unit word and name, procedure prefixes
   (pure, elemental, recursive, impure, module) in any number and order, type attributes, "::" or not,
   argument lists, RESULT clauses, construct names, every spelling of a type spec -- in every parser
   state in which the statement may stand (kind of the open container, before / after CONTAINS,
   inside / outside BLOCK constructs), the chain classifies the rendered line as that statement with
   the declared names: no earlier branch takes it, a branch does.
   Side conditions (line_ok): identifiers are Fortran names that do not contain the words "function"
   or "subroutine" (what the two unanchored patterns look for); a construct name does not begin
   with a statement keyword; the name of a function result does not contain "bind"; lists are not
   empty; a statement label is a non-empty run of digits.  There is no spelling left outside: the
   three that were (FINAL without "::", "end blockdata", an END statement with a label) are ordinary
   cases since FORD was repaired, see the examples below. *)
Theorem C01_dispatch : forall k incontains level0 l,
  line_ok l = true -> place_ok k incontains level0 l = true ->
  exists branch, classify (mkctx k incontains level0) (render l) = Fired branch (stmt_of l).
Proof. exact dispatch_correct. Qed.
Print Assumptions C01_dispatch.

(* non-vacuity: lines of several kinds in unusual spellings satisfy the side conditions *)
Theorem C01_dispatch_examples :
  forallb (fun p => line_ok (snd p) && place_ok (fst (fst (fst p))) (snd (fst (fst p))) (snd (fst p)) (snd p))
    [(KFile, false, true, XModule [true] 2 (s "Mesh_Tools"));
     (KModule, false, true, XType [true; true; true; true] (TAttrs 0 1 1 0 [(TAbstract, []); (TExtends (s "base"), [true])]) (s "shape"));
     (KModule, true, true, XFunction [(PPure, [], 0); (PElemental, [true], 1)] [] 0 (s "area") 1 0 [s "x"; s "y"]
                                      (Some (0, [true], 1, s "r")));
     (KType, true, true, XBound [] [true] 1 0 1 1 1 [(s "draw", s "draw_impl"); (s "scale", s "scale_impl")]);
     (KSubroutine, false, true, XDecl (mkts [true] [] 1 1 1 1 0 0) (ANum BReal (Some (s "dp"))) (Some 0) 1 [s "a"; s "b"]);
     (KSubroutine, false, true, XEndUnit None [true; true; true] [] 0 1 ESubroutine (Some (1, s "solve")));
     (KProgram, false, false, XBlock (Some (s "outer", 0, 1)) [true]);
     (KType, true, true, w_final); (KBlockData, false, true, w_end_blockdata); (KSubroutine, false, true, w_labelled_end);
     (KModule, false, true, XProgram [] (Some (0, s "p")))] = true.
Proof. exact dispatch_examples. Qed.
Print Assumptions C01_dispatch_examples.

(* Regression witnesses of repaired defects: the lines on which the chain went wrong.
   A FINAL statement without "::" (the finalizer was silently dropped), *)
Theorem C01_dispatch_fixed_final :
  render w_final = s "final f1" /\ line_ok w_final = true /\ place_ok KType true true w_final = true /\
  classify (mkctx KType true true) (render w_final) = Fired (s "FINAL_RE") (SLeaf LFinal [s "f1"]).
Proof. exact final_fixed. Qed.
Print Assumptions C01_dispatch_fixed_final.
(* ... END BLOCK DATA written "end blockdata" (the unit was never closed), *)
Theorem C01_dispatch_fixed_end_blockdata :
  render w_end_blockdata = s "end blockdata bd" /\ line_ok w_end_blockdata = true /\
  classify (mkctx KBlockData false true) (render w_end_blockdata) = Fired (s "END_RE") (SEnd EndPlain).
Proof. exact end_blockdata_fixed. Qed.
Print Assumptions C01_dispatch_fixed_end_blockdata.
(* ... an END statement with a statement label (was taken for the first line of a new subroutine), *)
Theorem C01_dispatch_fixed_labelled_end :
  render w_labelled_end = s "99 end subroutine sub" /\ line_ok w_labelled_end = true /\
  classify (mkctx KSubroutine false true) (render w_labelled_end) = Fired (s "END_RE") (SEnd EndPlain).
Proof. exact labelled_end_fixed. Qed.
Print Assumptions C01_dispatch_fixed_labelled_end.
(* ... an assignment to a variable named `interface` (opened an interface block: INTERFACE_RE
   accepted any text behind the keyword), *)
Theorem C01_assignment_fixed_interface :
  classify (mkctx KSubroutine false true) (s "interface" ++ s " = " ++ s "n") = Fired (s "tail") SNoop.
Proof. exact interface_assignment_fixed. Qed.
Print Assumptions C01_assignment_fixed_interface.
(* ... a PROGRAM statement inside another unit (AttributeError in the PROGRAM branch: the model had
   no outcome for it; now the branch reports the statement and the chain goes on). *)
Theorem C01_dispatch_fixed_program_inside_unit :
  classify (mkctx KModule false true) (s "program p") = Fired (s "PROGRAM_RE") (SUnit KProgram (s "p")).
Proof. exact program_inside_unit_fixed. Qed.
Print Assumptions C01_dispatch_fixed_program_inside_unit.

(* From text to tree, in one theorem (C01_dispatch composed with the induction of C01_tree_roundtrip).
   A spelled program (Sem/CascadeText.v) is a declaration tree of Sem/TreeSpec.v in which every
   statement is written out in one of its spellings (first lines of units, leaf declarations,
   statements that declare nothing, CONTAINS, END lines), documentation lines "!!..." behind the
   declarations.  If the declared structure is well formed (wf_decl: what may be declared where) and
   every line satisfies the side conditions of C01_dispatch at the place the structure gives it
   (lines_ok: line_ok, and place_ok for the kind of the enclosing unit, before / after its CONTAINS,
   outside BLOCK constructs), then the statement loop run on the LINES -- Sem/CascadeTree.parse_text:
   every line classified by the chain (Sem/Cascade.classify) in the state the parser is in at that
   moment, the structural parser of Sem/Tree.v acting on the result -- returns exactly the declared
   tree: each entity once, under its declaring unit, with its kind, names and documentation; no line
   is outside the model, none is left over. *)
Theorem C01_text_roundtrip : forall fname units,
  forallb (wf_decl KFile false) (map erase units) = true ->
  forallb (lines_ok KFile false) units = true ->
  parse_text fname (file_text units) = TOk (file_tree fname (map erase units)) [].
Proof. exact text_roundtrip. Qed.
Print Assumptions C01_text_roundtrip.

(* non-vacuity: a spelled file with a module (abstract type with bindings and a FINAL without "::",
   generic interface, contained function ended by a labelled END), a block data unit closed by
   "end blockdata" and a program satisfies both hypotheses *)
Theorem C01_text_roundtrip_example :
  forallb (wf_decl KFile false) (map erase example_text_units) = true /\
  forallb (lines_ok KFile false) example_text_units = true /\
  parse_text (s "t.f90") (file_text example_text_units) = TOk (file_tree (s "t.f90") (map erase example_text_units)) [].
Proof. exact text_roundtrip_example. Qed.
Print Assumptions C01_text_roundtrip_example.
