(* Props/C09.v -- property C09: every internal link in the output resolves, and the output is
   relocatable.  Statements only; proofs are in Out/UrlsProofs.v and Out/NavProofs.v. *)
From Ford Require Import Base.Str Base.Path Out.Names Out.Urls Out.UrlsProofs
                         Gen.NavConds Out.Nav Out.NavProofs.

(* os.path.relpath is right at every depth: following the relative reference from the directory
   it was computed for arrives at the target -- for ALL pairs of absolute paths (unbounded depth) *)
Theorem C09_relpath_resolves_any : forall a d, resolve d (relpath a d) = normalise a.
Proof. exact relpath_resolves_gen. Qed.
Print Assumptions C09_relpath_resolves_any.

Theorem C09_relpath_resolves : forall a d, clean a = true -> resolve d (relpath a d) = a.
Proof. exact relpath_resolves. Qed.
Print Assumptions C09_relpath_resolves.

(* every kind of URL FORD writes in relative mode (per-page project_url prefix, relurl filter,
   docstring links, static-page links, graph nodes in SVG, graph nodes in graphs drawn as HTML
   tables, search index), read from the page it is written on, resolves to <output dir>/<target>:
   at every page depth for the per-page prefix, relurl, static-page and search URLs; for docstring
   links and both kinds of graph node when the page is at depth 1 *)
Theorem C09_site_resolves : forall out st,
  clean out = true -> clean_site st = true -> site_depth_ok st = true ->
  resolve (out ++ parent (site_view st)) (site_rel out st) = out ++ site_target st.
Proof. exact site_resolves. Qed.
Print Assumptions C09_site_resolves.

(* entity URLs always have the shape <dir>/<file>[#fragment]: entity pages are at depth 1 *)
Theorem C09_url_depth1 : forall e u, url_of e = Some u -> exists d f, u_path u = [d; f].
Proof. exact url_shape. Qed.
Print Assumptions C09_url_depth1.

(* entities that own no page get a URL only as "<parent page>#<anchor>", only for the anchored kinds,
   and only when the parent has a URL: a derived type declared inside a procedure has none, and neither
   have its components and bindings (their anchors are written on full type pages only) *)
Theorem C09_url_unanchored_kind : forall e,
  get_dir e = None -> anchored_kind (e_kind e) = false -> url_of e = None.
Proof. exact url_unanchored_kind. Qed.
Print Assumptions C09_url_unanchored_kind.

Theorem C09_url_none_inherited : forall k obj ident named ifp p,
  get_dir (Ent k obj ident named ifp (Some p)) = None -> url_of p = None ->
  url_of (Ent k obj ident named ifp (Some p)) = None.
Proof. exact url_none_inherited. Qed.
Print Assumptions C09_url_none_inherited.

(* the link computed once, from a non-existent sibling directory, is right from EVERY depth-1 page *)
Theorem C09_sibling_trick : forall base ctx d f d',
  clean base = true -> clean [d; f] = true -> clean_comp d' = true ->
  length ctx <= 2 -> d <> ghost ->
  resolve (base ++ [d']) (doc_link base ctx [d; f]) = base ++ [d; f].
Proof. exact sibling_trick. Qed.
Print Assumptions C09_sibling_trick.

(* ... and from no other depth (front page, nested static pages) *)
Theorem C09_sibling_trick_only_depth1 : forall base ctx d f view_dir,
  base <> [] -> clean base = true -> clean [d; f] = true -> clean view_dir = true ->
  length ctx <= 2 -> d <> ghost ->
  (resolve (base ++ view_dir) (doc_link base ctx [d; f]) = base ++ [d; f] <-> length view_dir = 1).
Proof. exact sibling_trick_only_depth1. Qed.
Print Assumptions C09_sibling_trick_only_depth1.

(* navigation: a link of base.html / index.html (list pages and single-entity links) is emitted only
   if its target page is written -- every link of the regenerated list, all collection sizes/flags *)
Theorem C09_nav_pages : forall l c,
  In l nav_links -> wf_counts c = true -> nav_link_ok l c = true.
Proof. exact nav_pages. Qed.
Print Assumptions C09_nav_pages.

(* relocatable: with project_url empty no generated URL is absolute *)
Theorem C09_relative : forall setting out st,
  clean out = true -> clean_site st = true -> site_target st <> [] ->
  url_is_relative (site_url true setting out st) = true.
Proof. exact urls_relative. Qed.
Print Assumptions C09_relative.
