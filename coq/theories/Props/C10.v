(* Props/C10.v — property C10: distinct entities never share a page, anchor or copied file.
   Statements only; proofs are in Out/NamesProofs.v. *)
From Ford Require Import Base.Str Out.Names Out.NamesProofs Corr.C10 Out.NamesSpecProofs.

(* Two different entities registered for the same output directory never receive the same
   identifier, whatever the sequence of (repeated) requests; names may differ only in case,
   be empty, or contain operator symbols.  Hypothesis: no (normalised) name contains '~'. *)
Theorem C10_idents_distinct : forall rs i j ri rj ni nj,
  consistent rs ->
  Forall (fun r => no_tilde (final_name (r_name r))) rs ->
  nth_error rs i = Some ri -> nth_error rs j = Some rj ->
  nth_error (run_idents rs) i = Some ni -> nth_error (run_idents rs) j = Some nj ->
  r_id ri <> r_id rj -> r_dir ri = r_dir rj -> ni <> nj.
Proof. exact idents_distinct. Qed.
Print Assumptions C10_idents_distinct.

Theorem C10_idents_idempotent : forall rs i j ri rj,
  nth_error rs i = Some ri -> nth_error rs j = Some rj -> r_id ri = r_id rj ->
  nth_error (run_idents rs) i = nth_error (run_idents rs) j.
Proof. exact idents_idempotent. Qed.
Print Assumptions C10_idents_idempotent.

Theorem C10_reachable_inv : forall rs, Inv (fst (run init rs)).
Proof. intros rs. apply (run_spec rs init [] inv_init). intros it []. Qed.
Print Assumptions C10_reachable_inv.

Theorem C10_outfiles_distinct : forall st it1 it2,
  Inv st -> In it1 (items st) -> In it2 (items st) ->
  no_tilde (i_base it1) -> no_tilde (i_base it2) ->
  i_dir it1 = i_dir it2 -> outfile it1 = outfile it2 -> it1 = it2.
Proof. exact outfiles_distinct. Qed.
Print Assumptions C10_outfiles_distinct.

Theorem C10_anchors_distinct : forall st obj1 obj2 it1 it2,
  Inv st -> In it1 (items st) -> In it2 (items st) ->
  no_tilde (i_base it1) -> no_tilde (i_base it2) -> no_dash obj1 -> no_dash obj2 ->
  i_dir it1 = i_dir it2 -> anchor obj1 it1 = anchor obj2 it2 -> obj1 = obj2 /\ it1 = it2.
Proof. exact anchors_distinct. Qed.
Print Assumptions C10_anchors_distinct.

(* Full statement for copied sources: distinct source files get distinct copies.  It is FALSE
   of the code (the copy target is the bare file name): partial theorem + refutation. *)
Definition C10_src_copy_statement : Prop :=
  forall p1 p2 : list str, p1 <> p2 -> src_target p1 <> src_target p2.
Theorem C10_src_copy_partial : forall p1 p2 : list str,
  last p1 [] <> last p2 [] -> src_target p1 <> src_target p2.
Proof. exact src_targets_distinct. Qed.
Print Assumptions C10_src_copy_partial.
Theorem C10_src_copy_refuted : ~ C10_src_copy_statement.
Proof. intros H. destruct src_target_refuted as (p1 & p2 & N & E). exact (H p1 p2 N E). Qed.
Print Assumptions C10_src_copy_refuted.

(* The executable predicate that the check evaluates on the implementation's outputs (same entity:
   same identifier; different entities sharing an output directory, or — without a page — a kind
   word: different identifiers) holds of the model's outputs for every request sequence. *)
Theorem C10_model_meets_spec : forall ros : list (req * str),
  consistent (map fst ros) ->
  Forall (fun r => no_tilde (final_name (r_name r))) (map fst ros) ->
  spec_ok ros (run_idents (map fst ros)) = true.
Proof. exact model_meets_spec. Qed.
Print Assumptions C10_model_meets_spec.
