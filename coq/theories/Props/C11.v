(* Props/C11.v — property C11: [[name(kind):item(kind)]] references link to the entity the
   documented rules select.  Statements only; proofs are in Out/LinksProofs.v.
   Model: Out/Links.v (convert_link over the abstract project; tables regenerated in
   Gen/LinkTypes.v); Spec: levels / comp_cands / spec_accepts (same file, from the user guide). *)
From Ford Require Import Base.Str Gen.LinkTypes Out.Links Out.LinksProofs.

(* ---- the kind tables (finite, complete, over the regenerated LINK_TYPES / SUBLINK_TYPES) --- *)
Theorem C11_kind_tables_component : forall k c,
  In (k, c) (doc_comp_kinds ++ doc_ext_kinds) -> assoc_get k link_types = Some c.
Proof. exact kind_tables_component. Qed.
Print Assumptions C11_kind_tables_component.

Theorem C11_kind_tables_item : forall k a,
  In (k, a) doc_item_kinds -> assoc_get k sublink_types = Some a.
Proof. exact kind_tables_item. Qed.
Print Assumptions C11_kind_tables_item.

Theorem C11_kind_tables_complete :
  (forall kc, In kc link_types -> In kc (doc_comp_kinds ++ doc_ext_kinds)) /\
  (forall kc, In kc sublink_types -> In kc doc_item_kinds).
Proof. exact kind_tables_complete. Qed.
Print Assumptions C11_kind_tables_complete.

(* ---- lookup order ------------------------------------------------------------------------- *)
(* Full statement: every reference is rendered as the Spec accepts.  FALSE of the code in the two
   regions refuted below; C11_lookup_order is the part outside them for references without item
   part, for all projects and contexts. *)
Definition C11_statement : Prop :=
  forall p ctx r, ctx_ok p ctx -> urls_ok p = true -> ids_ok p = true ->
                  spec_accepts p ctx r (convert_link p ctx r) = true.

Theorem C11_lookup_order : forall p ctx r,
  r_child r = None -> r_ckind r = None -> kind_documented (r_kind r) = true ->
  region_kind_scope ctx r = false ->
  ctx_ok p ctx -> urls_ok p = true -> ids_ok p = true ->
  spec_accepts p ctx r (convert_link p ctx r) = true.
Proof. exact lookup_order. Qed.
Print Assumptions C11_lookup_order.

(* without a context: the first match in the project collections, in table order *)
Theorem C11_lookup_first_match : forall p r ids,
  r_child r = None -> project_ids p (r_kind r) = Some ids ->
  convert_link p None r =
  match find_in p (r_name r) ids with
  | Some i => finish p (Found i)
  | None => RPlain
  end.
Proof. exact lookup_first_match. Qed.
Print Assumptions C11_lookup_first_match.

Theorem C11_absent_plain : forall p ctx r,
  (forall j, name_eqb (r_name r) (name_of p j) = false) ->
  ctx_shapes p ctx -> kind_known (r_kind r) ->
  convert_link p ctx r = RPlain.
Proof. exact absent_plain. Qed.
Print Assumptions C11_absent_plain.

Theorem C11_case_insensitive : forall p ctx r r',
  ref_equiv r r' -> convert_link p ctx r = convert_link p ctx r'.
Proof. exact case_insensitive. Qed.
Print Assumptions C11_case_insensitive.

(* ---- the item part ------------------------------------------------------------------------ *)
Theorem C11_child_kind_error : forall p ctx r cn ck,
  r_child r = Some cn -> r_ckind r = Some ck ->
  assoc_get (lower ck) sublink_types = None ->
  forall j, convert_link p ctx r <> RLink j.
Proof. exact child_kind_error. Qed.
Print Assumptions C11_child_kind_error.

(* a link always leads to something called like the item, or (fall-back) like the component *)
Theorem C11_child_sound : forall p ctx r j,
  convert_link p ctx r = RLink j ->
  match r_child r with
  | Some cn => name_eqb cn (name_of p j) = true \/ name_eqb (r_name r) (name_of p j) = true
  | None => name_eqb (r_name r) (name_of p j) = true
  end.
Proof. exact child_sound. Qed.
Print Assumptions C11_child_sound.

(* ---- refutations (known findings) --------------------------------------------------------- *)
(* a kind word on the component makes the code skip the context and its parent *)
Theorem C11_lookup_order_refuted :
  exists p ctx r, r_child r = None /\ r_ckind r = None /\ kind_documented (r_kind r) = true /\
    ctx_ok p ctx /\ urls_ok p = true /\ ids_ok p = true /\
    region_kind_scope ctx r = true /\
    convert_link p ctx r = RLink 2 /\ comp_cands p ctx r = [1] /\
    spec_accepts p ctx r (convert_link p ctx r) = false /\
    convert_link p ctx {| r_name := s "reset"; r_kind := None; r_child := None; r_ckind := None |}
    = RLink 1.
Proof. exact lookup_order_refuted. Qed.
Print Assumptions C11_lookup_order_refuted.

(* an item kind that the component cannot have raises instead of "warning, no link" *)
Theorem C11_child_kind_refuted :
  exists p ctx r, kind_documented (r_kind r) = true /\ ckind_documented (r_ckind r) = true /\
    convert_link p ctx r = RErr /\ spec_accepts p ctx r RErr = false /\
    spec_accepts p ctx r RPlain = true.
Proof. exact child_kind_refuted. Qed.
Print Assumptions C11_child_kind_refuted.
