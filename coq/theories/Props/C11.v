(* Props/C11.v — property C11: [[name(kind):item(kind)]] references link to the entity the
   documented rules select.  Statements only; proofs are in Out/LinksProofs.v.
   Model: Out/Links.v (convert_link over the abstract project; tables regenerated in
   Gen/LinkTypes.v); Spec: levels / comp_cands / spec_accepts (same file, from the user guide). *)
From Ford Require Import Base.Str Gen.LinkTypes Out.Links Out.LinksProofs.

(* ---- the kind tables (finite, complete, over the regenerated LINK_TYPES / SUBLINK_TYPES) --- *)
Theorem C11_kind_tables_component : forall k c,
  In (k, c) (doc_comp_kinds ++ doc_ext_kinds) -> assoc_get k link_types = Some c.
Proof. exact kind_tables_component. Qed.
Print Assumptions C11_kind_tables_component.

Theorem C11_kind_tables_item : forall k a,
  In (k, a) doc_item_kinds -> assoc_get k sublink_types = Some a.
Proof. exact kind_tables_item. Qed.
Print Assumptions C11_kind_tables_item.

Theorem C11_kind_tables_complete :
  (forall kc, In kc link_types -> In kc (doc_comp_kinds ++ doc_ext_kinds)) /\
  (forall kc, In kc sublink_types -> In kc doc_item_kinds).
Proof. exact kind_tables_complete. Qed.
Print Assumptions C11_kind_tables_complete.

(* the regenerated SCOPE_LINK_TYPES (what find_in_scope searches for a component kind word) is the
   Spec's reading of the word inside a scope; words without an entry ("file", "ext...") designate
   nothing inside a scope and are no item kinds either *)
Theorem C11_kind_tables_scope : forall x c,
  In (x, c) (doc_comp_kinds ++ doc_ext_kinds) ->
  match assoc_get x scope_link_types with
  | Some attrs => attrs = scope_attrs x c
  | None => scope_attrs x c = [] /\ assoc_get x sublink_types = None
  end.
Proof. exact scope_table. Qed.
Print Assumptions C11_kind_tables_scope.

Theorem C11_kind_tables_scope_complete :
  forall kc, In kc scope_link_types -> exists c, In (fst kc, c) doc_comp_kinds.
Proof. exact kind_tables_scope_complete. Qed.
Print Assumptions C11_kind_tables_scope_complete.

(* ---- lookup order ------------------------------------------------------------------------- *)
(* [render] is what FordLinkProcessor.handleMatch produces.  For every project, context and
   reference without item part (any documented kind word), it is what the Spec accepts: a link
   into the first of the three levels that has a match, plain text if none has. *)
Theorem C11_lookup_order : forall p ctx r,
  r_child r = None -> r_ckind r = None -> kind_documented (r_kind r) = true ->
  ctx_ok p ctx -> urls_ok p = true -> ids_ok p = true ->
  spec_accepts p ctx r (render p ctx r) = true.
Proof. exact lookup_order. Qed.
Print Assumptions C11_lookup_order.

(* without a context: the first match in the project collections, in table order *)
Theorem C11_lookup_first_match : forall p r ids,
  r_child r = None -> project_ids p (r_kind r) = Some ids ->
  render p None r =
  match find_in p (r_name r) ids with
  | Some i => settle (finish p (Found i))
  | None => RPlain
  end.
Proof. exact lookup_first_match. Qed.
Print Assumptions C11_lookup_first_match.

Theorem C11_absent_plain : forall p ctx r,
  (forall j, name_eqb (r_name r) (name_of p j) = false) ->
  ctx_shapes p ctx ->
  render p ctx r = RPlain.
Proof. exact absent_plain. Qed.
Print Assumptions C11_absent_plain.

Theorem C11_case_insensitive : forall p ctx r r',
  ref_equiv r r' -> convert_link p ctx r = convert_link p ctx r'.
Proof. exact case_insensitive. Qed.
Print Assumptions C11_case_insensitive.

(* whatever the reference says (unknown or impossible kind words, items without a page), the
   conversion does not abort: the result is a link or plain text *)
Theorem C11_no_abort : forall p ctx r,
  all_shapes p -> render p ctx r = RPlain \/ exists j, render p ctx r = RLink j.
Proof. exact no_abort. Qed.
Print Assumptions C11_no_abort.

(* ---- the item part ------------------------------------------------------------------------ *)
Theorem C11_child_kind_error : forall p ctx r cn ck,
  r_child r = Some cn -> r_ckind r = Some ck ->
  assoc_get (lower ck) sublink_types = None ->
  forall j, render p ctx r <> RLink j.
Proof. exact child_kind_error. Qed.
Print Assumptions C11_child_kind_error.

(* a link always leads to something called like the item, or (fall-back) like the component *)
Theorem C11_child_sound : forall p ctx r j,
  render p ctx r = RLink j ->
  match r_child r with
  | Some cn => name_eqb cn (name_of p j) = true \/ name_eqb (r_name r) (name_of p j) = true
  | None => name_eqb (r_name r) (name_of p j) = true
  end.
Proof. exact child_sound. Qed.
Print Assumptions C11_child_sound.

(* ---- the project level -------------------------------------------------------------------- *)
(* an unqualified search goes through exactly the documented collections, each once, those of the
   project itself before those of external projects *)
Theorem C11_project_order :
  (forall c, In c all_doc_collections <-> In c project_order) /\
  exists own ext, project_order = own ++ ext /\
    forallb (fun n => negb (is_ext n)) own = true /\ forallb is_ext ext = true /\
    NoDup project_order.
Proof. exact (conj in_all_doc_collections project_order_shape). Qed.
Print Assumptions C11_project_order.

(* ---- an item kind word on the first part --------------------------------------------------- *)
(* [[area(bound)]]: "bound", "variable", "final", "common", "constructor", "modproc" are no
   component kinds; among the contents of the documented entity, then of its parent, they select
   the items of that kind (the project-wide search knows no such word): if one of the two levels
   has such an item of that name, the reference is a link to it *)
Theorem C11_lookup_item_kind_word : forall p ctx r k a,
  r_child r = None -> r_kind r = Some k ->
  comp_kind k = None -> assoc_get (lower k) doc_item_kinds = Some a ->
  match ctx with
  | None => True
  | Some c => exists e, get_ent p c = Some e /\
                        match e_parent e with Some par => exists e', get_ent p par = Some e' | None => True end
  end ->
  urls_ok p = true -> ids_ok p = true ->
  spec_accepts p ctx r (render p ctx r) = true.
Proof. exact lookup_item_kind_word. Qed.
Print Assumptions C11_lookup_item_kind_word.

(* ---- only documented entities are linked --------------------------------------------------- *)
(* [documented]: the entities whose page shows the target are displayed (Spec); a link is only
   ever emitted to such an entity -- no reference leads to a page that is not written *)
Theorem C11_link_only_documented : forall p ctx r j,
  render p ctx r = RLink j -> documented p j = true.
Proof. exact link_only_documented. Qed.
Print Assumptions C11_link_only_documented.

(* the test coded in convert_link / FortranBase.page_is_written is that notion *)
Theorem C11_displayed_is_documented : forall p i, displayed p i = documented p i.
Proof. exact displayed_documented. Qed.
Print Assumptions C11_displayed_is_documented.

(* ---- the state of the Markdown instance ---------------------------------------------------- *)
(* a sequence of conversions on one MetaMarkdown instance, from any state: each text is rendered in
   the context given for it -- none for the project file, its summary and author_description and
   the static pages, whatever entity was converted just before *)
Theorem C11_context_not_inherited : forall p calls st,
  md_run p st calls = map (fun c => render p (fst c) (snd c)) calls.
Proof. exact context_not_inherited. Qed.
Print Assumptions C11_context_not_inherited.
