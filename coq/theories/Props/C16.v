(* Props/C16.v — property C16: links into an externalised project hit the right pages of that
   project.  Statements only; proofs are in Out/ExternalProofs.v.
   Model Out/External.v (obj2dict, dump_modules, dict2obj, load_external_modules, External* classes,
   find_used_modules, Project.find), Spec Out/ExternalSpec.v. *)
From Ford Require Import Base.Str Base.Path Out.Names Out.NamesProofs Out.External Out.ExternalSpec
     Out.ExternalProofs Gen.C16Tables Out.ExternalTablesProofs.

(* ---------------------------------------------------------------- round trip *)

(* For every project A (any number of modules, entities, nesting, any names — equal names in
   different modules included — any `display`, any NameSelector history a_pre), every base (a local
   directory, or a URL with a path ending in "/"), every module m of A and every entity e of m that
   a USE can import: loading what A exported succeeds; B's `use m` finds A's m (none of B's own
   modules has that name) and links it to base/url_of_A(m); `only: e` yields an object named e whose
   URL is base/url_of_A(e).  Only hypothesis on A: it is as Fortran allows (wf_A: its units are
   modules without nested modules, module names are distinct, and the accessible names of one
   class in a module are distinct, all case-insensitively).  Names are arbitrary 7-bit strings
   (operators included): the NameSelector model never puts a '/' into an ident (ident_of_noslash). *)
Theorem C16_roundtrip : forall A b v locals m e w,
  wf_A A -> base_ok b ->
  In m (a_modules A) -> In e (e_kids m) -> accessible e = true -> pub_class (e_kind e) = Some w ->
  lower_in (e_name m) locals = false ->
  exists tops xm x u mu,
    load_json b (export A v) = Ok tops /\
    find_used_module locals tops (e_name m) = Ok (Some (HExt xm)) /\
    module_url (ident_of A) m = Some mu /\ x_url xm = JStr (spec_join b mu) /\
    used_lookup xm w (e_name e) = Ok (Some x) /\
    x_name x = JStr (e_name e) /\
    kid_url (ident_of A) m e = Some u /\ x_url x = JStr (spec_join b u).
Proof. exact roundtrip_all. Qed.
Print Assumptions C16_roundtrip.

(* the whole imported structure: every exported entity, nested ones included, becomes the
   External* object of its class with its URL re-based (for every entity tree and every fuel that
   covers the JSON) *)
Theorem C16_import_export : forall idf cfg b e n pk purl kept,
  jsize (export_ent idf cfg pk purl kept e) <= n ->
  import_fuel n b (export_ent idf cfg pk purl kept e) = Ok (xlate idf cfg b pk purl kept e).
Proof. intros idf cfg b e. exact (import_export_ent idf cfg b e). Qed.
Print Assumptions C16_import_export.

(* the link goes to the entity's own page: two different page-owning entities of A's modules never
   have the same URL, whatever their names and whatever the order in which idents were handed out
   (uses the C10 theorem about the NameSelector) *)
Theorem C16_target_unique : forall A m1 e1 m2 e2 d1 d2,
  consistent (all_reqs A) ->
  Forall (fun r => no_tilde (final_name (r_name r))) (all_reqs A) ->
  In m1 (a_modules A) -> In m2 (a_modules A) -> e_kind m1 = KModule -> e_kind m2 = KModule ->
  In e1 (e_kids m1) -> In e2 (e_kids m2) ->
  dir_of (Some KModule) (e_kind e1) = Some d1 -> dir_of (Some KModule) (e_kind e2) = Some d2 ->
  e_id e1 <> e_id e2 ->
  kid_url (ident_of A) m1 e1 <> kid_url (ident_of A) m2 e2.
Proof. exact target_unique. Qed.
Print Assumptions C16_target_unique.

(* "and that page is written by A": FALSE in general (A's display may hide public entities) *)
Definition C16_target_written_statement : Prop :=
  forall A m e u,
    In m (a_modules A) -> e_kind m = KModule -> In e (e_kids m) -> importable e = true ->
    kid_url (ident_of A) m e = Some u -> In (page_of u) (pages_written A).
Theorem C16_target_written_partial : forall A m e u,
  In m (a_modules A) -> e_kind m = KModule -> In e (e_kids m) ->
  shown (c_display (a_cfg A)) e = true ->
  no_hash (ident_of A (e_id m)) = true -> no_hash (ident_of A (e_id e)) = true ->
  kid_url (ident_of A) m e = Some u ->
  In (page_of u) (pages_written A).
Proof. exact target_written. Qed.
Print Assumptions C16_target_written_partial.
Theorem C16_target_written_refuted : ~ C16_target_written_statement.
Proof.
  intros H. destruct target_written_refuted as (m & e & u & A1 & A2 & A3 & A4 & A5 & A6).
  exact (A6 (H A_private_only m e u A1 A2 A3 A4 A5)).
Qed.
Print Assumptions C16_target_written_refuted.

(* ---------------------------------------------------------------- the exported description *)

Definition C16_export_exact_statement : Prop :=
  forall A v, Forall (fun m => e_kind m = KModule) (a_modules A) ->
              exact_on (a_modules A) (export A v) = true.
Theorem C16_export_exact_partial : forall A v,
  Forall (fun m => e_kind m = KModule) (a_modules A) ->
  display_default (c_display (a_cfg A)) = true ->
  exact_on (a_modules A) (export A v) = true.
Proof. exact export_exact_partial. Qed.
Print Assumptions C16_export_exact_partial.
Theorem C16_export_exact_refuted_private_listed : ~ C16_export_exact_statement.
Proof.
  intros H. destruct export_exact_refuted_private_listed as (K & _ & E).
  rewrite (H A_private_listed [] K) in E. discriminate.
Qed.
Print Assumptions C16_export_exact_refuted_private_listed.
Theorem C16_export_exact_refuted_public_unlisted :
  exists A, display_default (c_display (a_cfg A)) = false /\
            Forall (fun m => e_kind m = KModule) (a_modules A) /\
            exact_on (a_modules A) (export A []) = false.
Proof.
  exists A_private_only. split; [reflexivity|]. split; [repeat constructor|].
  exact export_exact_refuted_public_unlisted.
Qed.
Print Assumptions C16_export_exact_refuted_public_unlisted.

(* ---------------------------------------------------------------- B's own entities win *)

(* USE resolution: whenever B has a module of that name the look-up yields B's module, whatever
   was imported *)
Theorem C16_local_first : forall locals tops n,
  lower_in n locals = true ->
  exists j x, find_used_module locals tops n = Ok (Some (HLocal CModules j))
              /\ nth_error locals j = Some x /\ lower n = lower x.
Proof. exact use_local_first. Qed.
Print Assumptions C16_local_first.

(* [[name]] without a class (Project.find): for every B, every set of imported objects, every name
   and optional child, a name that B defines in any of its collections resolves to B's entity - the
   imported collections are searched only after all of B's own.  (Full statement: the search-order
   defect recorded earlier is repaired; the former counterexample is local_first_find_regression.) *)
Theorem C16_local_first_find : forall B tops n child,
  local_first_ok B n (project_find B tops n None child) = true.
Proof. exact find_local_first_ok. Qed.
Print Assumptions C16_local_first_find.

(* ---------------------------------------------------------------- load errors *)

(* For every state of the description - the file is missing, unreadable, not UTF-8, not JSON, or
   JSON of ANY shape (every JSON value, not only the shapes a generator thinks of); a local path
   (relative or absolute) or a URL that cannot be opened - loading does not end the run, and where
   there is no description the project lists stay as they were.  (Full statement: the four load
   defects recorded earlier are repaired; the model's own fuel never runs out, load_json_total.) *)
Theorem C16_load_errors_contained : forall src,
  survives (load src) = true /\ (has_description src = false -> only_links_lost (load src) = true).
Proof. exact load_errors_contained. Qed.
Print Assumptions C16_load_errors_contained.

(* a description is loaded entirely or not at all *)
Theorem C16_load_all_or_nothing : forall src,
  match load src with OLoaded _ | OContained => True | ORaised _ => False end.
Proof. exact load_all_or_nothing. Qed.
Print Assumptions C16_load_all_or_nothing.

(* ---------------------------------------------------------------- non-vacuity *)

(* a concrete A (two modules, `init` in both, a type with components, a protected variable, a
   private function) satisfies every hypothesis of C16_roundtrip for mb's `Init` *)
Example C16_roundtrip_nonvacuous :
  wf_A A_ex /\ base_ok (BRemote (s "https://docs.example.org/a/")) /\ base_ok (BLocal (s "/srv/a/doc")) /\
  (exists m e, In m (a_modules A_ex) /\ In e (e_kids m) /\ e_name e = s "Init" /\ accessible e = true /\
               pub_class (e_kind e) = Some (s "pub_procs") /\ lower_in (e_name m) [s "bm"] = false /\
               no_slash (ident_of A_ex (e_id m)) = true /\ no_slash (ident_of A_ex (e_id e)) = true /\
               kid_url (ident_of A_ex) m e = Some (s "proc/init~2.html")) /\
  consistent (all_reqs A_ex) /\
  Forall (fun r => no_tilde (final_name (r_name r))) (all_reqs A_ex) /\
  display_default (c_display (a_cfg A_ex)) = true.
Proof. exact roundtrip_nonvacuous. Qed.

(* ---------------------------------------------------------------- the tables of the working tree *)

(* ATTRIBUTES, ENTITIES and the `_project_list`s, METADATA_NAME, the caught exceptions, SUBLINK_TYPES,
   LINK_TYPES (order included), the order of FortranBase.children and of chain(modules, external_modules),
   the two-phase search of Project.find (own collections, then the external ones),
   regenerated from the source on every check, are the ones the model uses *)
Theorem C16_tables_fingerprint :
  ATTRIBUTES_src = ATTRIBUTES /\
  ENTITIES_src = map (fun kc => (fst kc, xcls_name (snd kc))) ENTITIES /\
  ENTITY_LISTS_src = map (fun kc => (fst kc, plist_name (project_list (snd kc)))) ENTITIES /\
  METADATA_NAME_src = METADATA_NAME /\
  CAUGHT_src = CAUGHT /\
  SUBLINK_TYPES_src = SUBLINK_TYPES /\
  LINK_TYPES_src = map (fun kc => (fst kc, coll_name (snd kc))) LINK_TYPES /\
  filter (fun k => str_in k ATTRIBUTES) CHILDREN_src = CHILD_ORDER /\
  USE_CHAIN_src = [s "modules"; s "external_modules"] /\
  FIND_LOCAL_FIRST_src = true.
Proof. exact tables_fingerprint. Qed.
Print Assumptions C16_tables_fingerprint.
