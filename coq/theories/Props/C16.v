(* Props/C16.v — property C16: links into an externalised project hit the right pages of that
   project.  Statements only; proofs are in Out/ExternalProofs.v.
   Model Out/External.v (obj2dict, dump_modules, dict2obj, load_external_modules, External* classes,
   find_used_modules, Project.find), Spec Out/ExternalSpec.v. *)
From Ford Require Import Base.Str Base.Path Out.Names Out.NamesProofs Out.External Out.ExternalSpec
     Out.ExternalProofs Gen.C16Tables Out.ExternalTablesProofs.

(* ---------------------------------------------------------------- round trip *)

(* For every project A (any number of modules, entities, nesting, any names — equal names in
   different modules included — any `display`, any NameSelector history a_pre), every base (a local
   directory, or a URL with a path ending in "/"), every module m of A and every entity e of m that
   a USE can import and A displays (others are not exported, C16_undisplayed_not_exported): loading what A exported succeeds; B's `use m` finds A's m (none of B's own
   modules has that name) and links it to base/url_of_A(m); `only: e` yields an object named e whose
   URL is base/url_of_A(e).  Only hypothesis on A: it is as Fortran allows (wf_A: its units are
   modules without nested modules, module names are distinct, and the accessible names of one
   class in a module are distinct, all case-insensitively).  Names are arbitrary 7-bit strings
   (operators included): the NameSelector model never puts a '/' into an ident (ident_of_noslash). *)
Theorem C16_roundtrip : forall A b v locals m e w,
  wf_A A -> base_ok b ->
  In m (a_modules A) -> In e (e_kids m) -> accessible e = true ->
  shown (c_display (a_cfg A)) e = true -> pub_class (e_kind e) = Some w ->
  lower_in (e_name m) locals = false ->
  exists tops xm x u mu,
    load_json b (export A v) = Ok tops /\
    find_used_module locals tops (e_name m) = Ok (Some (HExt xm)) /\
    module_url (ident_of A) m = Some mu /\ x_url xm = JStr (spec_join b mu) /\
    used_lookup xm w (e_name e) = Ok (Some x) /\
    x_name x = JStr (e_name e) /\
    kid_url (ident_of A) m e = Some u /\ x_url x = JStr (spec_join b u).
Proof. exact roundtrip_all. Qed.
Print Assumptions C16_roundtrip.

(* Path by path (the Spec predicate path_ok of Out/ExternalSpec.v, the one the judge evaluates on
   FORD's own objects): for every A whose entities have, in each list of each entity, distinct names
   (tree_names_ok - two types may well have equally named components and bindings), and every base:
   loading what A exported gives, for every module and at EVERY path of A's entity tree below it, an
   object that carries base/url_of_A of the entity at that path - not of a same-named entity elsewhere.
   Names are arbitrary: the URL-shape lemma own_url_shaped holds at any depth. *)
Theorem C16_roundtrip_paths : forall A b v,
  base_ok b -> Forall tree_names_ok (a_modules A) ->
  exists tops, load_json b (export A v) = Ok tops /\
    Forall2 (fun m x => path_ok (ident_of A) b None None m x = true) (a_modules A) tops.
Proof. exact roundtrip_paths. Qed.
Print Assumptions C16_roundtrip_paths.

(* ... and the same below every object that a USE of B imports from the tables of public names *)
Theorem C16_roundtrip_paths_use : forall A b v locals m e w,
  wf_A A -> base_ok b -> tree_names_ok m ->
  In m (a_modules A) -> In e (e_kids m) -> accessible e = true ->
  shown (c_display (a_cfg A)) e = true -> pub_class (e_kind e) = Some w ->
  lower_in (e_name m) locals = false ->
  exists tops xm x,
    load_json b (export A v) = Ok tops /\
    find_used_module locals tops (e_name m) = Ok (Some (HExt xm)) /\
    used_lookup xm w (e_name e) = Ok (Some x) /\
    path_ok (ident_of A) b (Some KModule) (module_url (ident_of A) m) e x = true.
Proof. exact roundtrip_paths_use. Qed.
Print Assumptions C16_roundtrip_paths_use.

(* non-vacuity: circle_t and square_t of one module both have a component `size` and a binding `area`;
   square_t's members, reached through the imported square_t, carry square_t's own anchors *)
Example C16_roundtrip_paths_nonvacuous :
  Forall tree_names_ok (a_modules A_twin) /\ wf_A A_twin /\ base_ok (BLocal (s "/srv/a/doc")) /\
  (exists tops xm xt,
     load_json (BLocal (s "/srv/a/doc")) (export A_twin []) = Ok tops /\
     find_used_module [] tops (s "shapes") = Ok (Some (HExt xm)) /\
     used_lookup xm (s "pub_types") (s "square_t") = Ok (Some xt) /\
     option_map x_url (slot_child xt (s "variables") (s "size"))
       = Some (JStr (s "/srv/a/doc/type/square_t.html#variable-size~2")) /\
     option_map x_url (slot_child xt (s "boundprocs") (s "area"))
       = Some (JStr (s "/srv/a/doc/type/square_t.html#boundprocedure-area~2")) /\
     forallb (fun mx => path_ok (ident_of A_twin) (BLocal (s "/srv/a/doc")) None None (fst mx) (snd mx))
             (combine (a_modules A_twin) tops) = true).
Proof. exact roundtrip_paths_ex. Qed.

(* Re-exports with renames.  Module m of A makes entity t of module ms accessible again under the name
   [local] (alias node a of m; `use ms, only: local => t` in a module whose default accessibility is
   public).  The description keeps [local] as the key and t - own name, own URLs - as the value
   (C16_pub_table), the import keeps the key, and B's `use m, only: local` gets the object of t: its own
   name, base/url_of_A(t) on ms's side, and the right URL at every path below it.  For all A, bases, m,
   ms, t - in particular when another entity reachable through m has the same own name as t. *)
Theorem C16_roundtrip_reexport : forall A b v locals m ms mid local pa t r w,
  let a := Ent mid KAlias local pa (t :: r) in
  wf_A A -> base_ok b ->
  In m (a_modules A) -> In a (e_kids m) -> accessible a = true ->
  shown (c_display (a_cfg A)) t = true -> pub_class (e_kind t) = Some w ->
  lower_in (e_name m) locals = false ->
  In ms (a_modules A) -> e_id ms = mid -> In t (e_kids ms) -> tree_names_ok t ->
  exists tops xm x u,
    load_json b (export A v) = Ok tops /\
    find_used_module locals tops (e_name m) = Ok (Some (HExt xm)) /\
    used_lookup xm w local = Ok (Some x) /\
    x_name x = JStr (e_name t) /\
    kid_url (ident_of A) ms t = Some u /\ x_url x = JStr (spec_join b u) /\
    path_ok (ident_of A) b (Some KModule) (module_url (ident_of A) ms) t x = true.
Proof. exact roundtrip_reexport. Qed.
Print Assumptions C16_roundtrip_reexport.

(* non-vacuity and the scenario itself: v1_mod and v2_mod both have a type grid_t; api_mod makes v2_mod's
   accessible as grid_t, v1_mod's as grid_legacy_t, v2_mod's make_grid as new_grid *)
Example C16_roundtrip_reexport_nonvacuous :
  wf_A A_facade /\ Forall (fun m => aliases_legal m) (a_modules A_facade) /\
  jkeys (jget (s "pub_types") (nth 2 (jlist (jget (s "modules") (export A_facade []))) JNull))
    = [s "grid_t"; s "grid_legacy_t"] /\
  (exists tops xm xa xb xc,
     load_json (BLocal (s "/srv/a/doc")) (export A_facade []) = Ok tops /\
     find_used_module [] tops (s "api_mod") = Ok (Some (HExt xm)) /\
     used_lookup xm (s "pub_types") (s "grid_t") = Ok (Some xa) /\
     used_lookup xm (s "pub_types") (s "grid_legacy_t") = Ok (Some xb) /\
     used_lookup xm (s "pub_procs") (s "new_grid") = Ok (Some xc) /\
     x_name xb = JStr (s "grid_t") /\ x_name xc = JStr (s "make_grid") /\
     x_url xa = JStr (s "/srv/a/doc/type/grid_t~2.html") /\
     x_url xb = JStr (s "/srv/a/doc/type/grid_t.html") /\
     x_url xc = JStr (s "/srv/a/doc/proc/make_grid.html") /\
     used_lookup xm (s "pub_procs") (s "make_grid") = Ok None).
Proof. exact reexport_ex. Qed.

(* the whole imported structure: every exported entity, nested ones included, becomes the
   External* object of its class with its URL re-based (for every entity tree and every fuel that
   covers the JSON) *)
Theorem C16_import_export : forall idf cfg b e n pk purl kept,
  jsize (export_ent idf cfg pk purl kept e) <= n ->
  import_fuel n b (export_ent idf cfg pk purl kept e) = Ok (xlate idf cfg b pk purl kept e).
Proof. intros idf cfg b e. exact (import_export_ent idf cfg b e). Qed.
Print Assumptions C16_import_export.

(* the link goes to the entity's own page: two different page-owning entities of A's modules never
   have the same URL, whatever their names and whatever the order in which idents were handed out
   (uses the C10 theorem about the NameSelector) *)
Theorem C16_target_unique : forall A m1 e1 m2 e2 d1 d2,
  consistent (all_reqs A) ->
  Forall (fun r => no_tilde (final_name (r_name r))) (all_reqs A) ->
  In m1 (a_modules A) -> In m2 (a_modules A) -> e_kind m1 = KModule -> e_kind m2 = KModule ->
  In e1 (e_kids m1) -> In e2 (e_kids m2) ->
  dir_of (Some KModule) (e_kind e1) = Some d1 -> dir_of (Some KModule) (e_kind e2) = Some d2 ->
  e_id e1 <> e_id e2 ->
  kid_url (ident_of A) m1 e1 <> kid_url (ident_of A) m2 e2.
Proof. exact target_unique. Qed.
Print Assumptions C16_target_unique.

(* "and that page is written by A" (full statement; the dead-link half of the former finding
   export-follows-display is repaired): for every A and every module m, whatever one of m's tables of
   public names holds in the description - [class_members] is exactly the content of that table,
   C16_pub_table - has its page among the pages A writes: m's own entities e ... *)
Theorem C16_exported_target_written : forall A m e w u,
  In m (a_modules A) -> e_kind m = KModule -> alias_target e = None -> In e (class_members (a_cfg A) m w) ->
  no_hash (ident_of A (e_id m)) = true -> no_hash (ident_of A (e_id e)) = true ->
  kid_url (ident_of A) m e = Some u ->
  In (page_of u) (pages_written A).
Proof. exact exported_target_written. Qed.
Print Assumptions C16_exported_target_written.

(* ... and the entities t of other modules ms that m makes accessible again (alias node a).
   Hypothesis: no '#' in the two idents (Fortran names have none). *)
Theorem C16_reexported_target_written : forall A m a t ms w u,
  alias_target a = Some t -> In a (class_members (a_cfg A) m w) ->
  In ms (a_modules A) -> e_kind ms = KModule -> In t (e_kids ms) ->
  no_hash (ident_of A (e_id ms)) = true -> no_hash (ident_of A (e_id t)) = true ->
  kid_url (ident_of A) ms t = Some u ->
  In (page_of u) (pages_written A).
Proof. exact reexported_target_written. Qed.
Print Assumptions C16_reexported_target_written.

Theorem C16_pub_table : forall idf cfg id name p kids w,
  jkeys (jget w (export_ent idf cfg None None true (Ent id KModule name p kids)))
  = (if str_in w PUB_DICTS then map (fun c => lower (e_name c)) (class_members cfg (Ent id KModule name p kids) w)
     else jkeys (jget w (export_ent idf cfg None None true (Ent id KModule name p kids)))).
Proof. exact pub_table_is_class_members. Qed.
Print Assumptions C16_pub_table.

(* a name that no documented accessible entity of the table carries - own or re-exported: in particular
   the own name of an entity that the module re-exports under another name, and the name of an entity A
   does not display - is not in what B holds for module m (xlate m, C16_import_export): B shows the name
   without a link *)
Theorem C16_undisplayed_not_exported : forall idf cfg b id name p kids w n,
  (forall c, In c (class_members cfg (Ent id KModule name p kids) w) -> lower (e_name c) <> lower n) ->
  In w PUB_DICTS ->
  used_lookup (xlate idf cfg b None None true (Ent id KModule name p kids)) w n = Ok None.
Proof. exact used_lookup_undisplayed. Qed.
Print Assumptions C16_undisplayed_not_exported.

(* ---------------------------------------------------------------- the exported description *)

(* aliases_legal: the entity behind a re-exported name is accessible in its own module *)
Definition C16_export_exact_statement : Prop :=
  forall A v, Forall (fun m => e_kind m = KModule /\ aliases_legal m) (a_modules A) ->
              exact_on (a_modules A) (export A v) = true.
Theorem C16_export_exact_partial : forall A v,
  Forall (fun m => e_kind m = KModule /\ aliases_legal m) (a_modules A) ->
  display_default (c_display (a_cfg A)) = true ->
  exact_on (a_modules A) (export A v) = true.
Proof. exact export_exact_partial. Qed.
Print Assumptions C16_export_exact_partial.
Theorem C16_export_exact_refuted_private_listed : ~ C16_export_exact_statement.
Proof.
  intros H. destruct export_exact_refuted_private_listed as (_ & _ & E).
  rewrite (H A_private_listed [] (proj1 witnesses_legal)) in E. discriminate.
Qed.
Print Assumptions C16_export_exact_refuted_private_listed.
Theorem C16_export_exact_refuted_public_unlisted :
  exists A, display_default (c_display (a_cfg A)) = false /\
            Forall (fun m => e_kind m = KModule /\ aliases_legal m) (a_modules A) /\
            exact_on (a_modules A) (export A []) = false.
Proof.
  exists A_private_only. split; [reflexivity|]. split; [exact (proj2 witnesses_legal)|].
  exact export_exact_refuted_public_unlisted.
Qed.
Print Assumptions C16_export_exact_refuted_public_unlisted.

(* ---------------------------------------------------------------- B's own entities win *)

(* USE resolution: whenever B has a module of that name the look-up yields B's module, whatever
   was imported *)
Theorem C16_local_first : forall locals tops n,
  lower_in n locals = true ->
  exists j x, find_used_module locals tops n = Ok (Some (HLocal CModules j))
              /\ nth_error locals j = Some x /\ lower n = lower x.
Proof. exact use_local_first. Qed.
Print Assumptions C16_local_first.

(* [[name]] without a class (Project.find): for every B, every set of imported objects, every name
   and optional child, a name that B defines in any of its collections resolves to B's entity - the
   imported collections are searched only after all of B's own.  (Full statement: the search-order
   defect recorded earlier is repaired; the former counterexample is local_first_find_regression.) *)
Theorem C16_local_first_find : forall B tops n child,
  local_first_ok B n (project_find B tops n None child) = true.
Proof. exact find_local_first_ok. Qed.
Print Assumptions C16_local_first_find.

(* ---------------------------------------------------------------- load errors *)

(* For every state of the description - the file is missing, unreadable, not UTF-8, not JSON, or
   JSON of ANY shape (every JSON value, not only the shapes a generator thinks of); a local path
   (relative or absolute) or a URL that cannot be opened - loading does not end the run, and where
   there is no description the project lists stay as they were.  (Full statement: the four load
   defects recorded earlier are repaired; the model's own fuel never runs out, load_json_total.) *)
Theorem C16_load_errors_contained : forall src,
  survives (load src) = true /\ (has_description src = false -> only_links_lost (load src) = true).
Proof. exact load_errors_contained. Qed.
Print Assumptions C16_load_errors_contained.

(* a description is loaded entirely or not at all *)
Theorem C16_load_all_or_nothing : forall src,
  match load src with OLoaded _ | OContained => True | ORaised _ => False end.
Proof. exact load_all_or_nothing. Qed.
Print Assumptions C16_load_all_or_nothing.

(* ---------------------------------------------------------------- non-vacuity *)

(* a concrete A (two modules, `init` in both, a type with components, a protected variable, a
   private function) satisfies every hypothesis of C16_roundtrip for mb's `Init` *)
Example C16_roundtrip_nonvacuous :
  wf_A A_ex /\ base_ok (BRemote (s "https://docs.example.org/a/")) /\ base_ok (BLocal (s "/srv/a/doc")) /\
  (exists m e, In m (a_modules A_ex) /\ In e (e_kids m) /\ e_name e = s "Init" /\ accessible e = true /\
               pub_class (e_kind e) = Some (s "pub_procs") /\ lower_in (e_name m) [s "bm"] = false /\
               no_slash (ident_of A_ex (e_id m)) = true /\ no_slash (ident_of A_ex (e_id e)) = true /\
               kid_url (ident_of A_ex) m e = Some (s "proc/init~2.html")) /\
  consistent (all_reqs A_ex) /\
  Forall (fun r => no_tilde (final_name (r_name r))) (all_reqs A_ex) /\
  display_default (c_display (a_cfg A_ex)) = true.
Proof. exact roundtrip_nonvacuous. Qed.

(* ---------------------------------------------------------------- the tables of the working tree *)

(* ATTRIBUTES, ENTITIES and the `_project_list`s, METADATA_NAME, the caught exceptions, SUBLINK_TYPES,
   LINK_TYPES (order included), the order of FortranBase.children and of chain(modules, external_modules),
   the two-phase search of Project.find (own collections, then the external ones),
   regenerated from the source on every check, are the ones the model uses *)
Theorem C16_tables_fingerprint :
  ATTRIBUTES_src = ATTRIBUTES /\
  ENTITIES_src = map (fun kc => (fst kc, xcls_name (snd kc))) ENTITIES /\
  ENTITY_LISTS_src = map (fun kc => (fst kc, plist_name (project_list (snd kc)))) ENTITIES /\
  METADATA_NAME_src = METADATA_NAME /\
  CAUGHT_src = CAUGHT /\
  SUBLINK_TYPES_src = SUBLINK_TYPES /\
  LINK_TYPES_src = map (fun kc => (fst kc, coll_name (snd kc))) LINK_TYPES /\
  filter (fun k => str_in k ATTRIBUTES) CHILDREN_src = CHILD_ORDER /\
  USE_CHAIN_src = [s "modules"; s "external_modules"] /\
  FIND_LOCAL_FIRST_src = true.
Proof. exact tables_fingerprint. Qed.
Print Assumptions C16_tables_fingerprint.
