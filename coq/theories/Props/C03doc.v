(* Props/C03doc.v — placeholder, filled in below *)
From Ford Require Import Base.Str Doc.Meta Doc.Admon.
