(* Props/C03doc.v — property C03, documentation-text half: the rendered documentation contains every
   word of the comment once and in order (admonition pre-processor), leading metadata lines are
   split off and nothing else is.  Statements only; proofs in Doc/MetaProofs.v, Doc/AdmonProofs.v. *)
From Ford Require Import Base.Str Doc.Meta Doc.Admon Doc.MetaProofs Doc.AdmonProofs.

(* ------------------------------------------------------------------ metadata *)
(* the body is a suffix of the comment; every consumed line is a keyword line, a continuation
   line or a delimiter (blank, ---, ...) of the documented header syntax *)
Theorem C03_meta_split : forall l m b,
  meta_preprocessor l = (m, b) -> exists h, l = h ++ b /\ Forall meta_or_delim h.
Proof. exact meta_split. Qed.
Print Assumptions C03_meta_split.

(* more precisely: at most one opening fence, then entry lines, then at most one closing delimiter *)
Theorem C03_meta_shape : forall l m b,
  meta_preprocessor l = (m, b) ->
  exists bg ms tm, l = bg ++ ms ++ tm ++ b /\ header_shape bg ms tm.
Proof. exact meta_shape. Qed.
Print Assumptions C03_meta_shape.

(* a comment that does not start with a fence, a keyword line or a blank line has no header *)
Theorem C03_meta_no_header : forall x r,
  m_begin x = false -> Meta.is_blank x || m_end x = false -> m_meta x = None ->
  meta_preprocessor (x :: r) = ([], x :: r).
Proof. exact meta_no_header. Qed.
Print Assumptions C03_meta_no_header.

(* completeness: a documented header closed by an empty line (or fenced by ---) is consumed
   entirely, keys lower-cased, values stripped, continuation lines appended; the body is untouched *)
Theorem C03_meta_header : forall H body,
  wf_header None H -> H <> [] ->
  meta_preprocessor (map render_h H ++ [] :: body) = (spec_meta None [] H, body).
Proof. exact meta_header. Qed.
Print Assumptions C03_meta_header.

Theorem C03_meta_header_fenced : forall H body,
  wf_header None H ->
  meta_preprocessor (s "---" :: map render_h H ++ s "---" :: body) = (spec_meta None [] H, body).
Proof. exact meta_header_fenced. Qed.
Print Assumptions C03_meta_header_fenced.

(* read_metadata (with its one-line special case) *)
Theorem C03_read_metadata_split : forall fields l m b,
  read_metadata fields l = (m, b) -> exists h, l = h ++ b /\ Forall meta_or_delim h.
Proof. exact read_metadata_split. Qed.
Print Assumptions C03_read_metadata_split.

Theorem C03_read_metadata_oneline : forall fields x rest p,
  before_colon x = Some p -> str_in (lower (strip p)) fields = false ->
  forallb Meta.is_blank rest = true ->
  read_metadata fields (x :: rest) = ([], x :: rest).
Proof. exact read_metadata_oneline. Qed.
Print Assumptions C03_read_metadata_oneline.

(* the former witness of doc-oneline-colon-alt-block (a one-line `!*` block closed by a blank line) *)
Theorem C03_oneline_alt_block_fixed :
  read_metadata [s "author"; s "display"] [s " Note: alt one line"; []]
  = ([], [s " Note: alt one line"; []]).
Proof. exact oneline_alt_block_fixed. Qed.
Print Assumptions C03_oneline_alt_block_fixed.

(* a comment shared by the variables of one declaration must be scanned on a copy per variable:
   scanning the body again is not the identity (FORD's scan pops the lines of its argument) *)
Theorem C03_meta_rescan_not_identity :
  exists l m b, meta_preprocessor l = (m, b) /\ m <> [] /\ meta_preprocessor b <> ([], b).
Proof. exact meta_rescan_not_identity. Qed.
Print Assumptions C03_meta_rescan_not_identity.

(* ------------------------------------------------------------------ admonitions: words *)
(* no word dropped, duplicated or reordered: every "@type" word becomes the two words
   "@note" "Type", every "@endtype" word disappears, everything else stays, in order.
   Full statement since the repair of doc-text-before-note-dropped: text may precede a start
   marker on its line ([admon_ok] asks only that markers are whole words, at most one start and
   one end marker per piece of a line). *)
Theorem C03_admon_words : forall l out,
  admon_ok l = true -> run l = Ok out -> words out = note_titles (strip_markers (words l)).
Proof. exact admon_words. Qed.
Print Assumptions C03_admon_words.

(* when the first pass accepts a clean text, the second pass cannot raise *)
Theorem C03_admon_total : forall l adms,
  admon_ok l = true -> find_admonitions (split_leading_text l) = Ok adms ->
  exists out, run l = Ok out /\ words out = spec_words l.
Proof. exact admon_total. Qed.
Print Assumptions C03_admon_total.

(* putting a start marker that follows other text on a line of its own changes no word, for
   every text *)
Theorem C03_admon_split_words : forall l, spec_words (split_leading_text l) = spec_words l.
Proof. exact split_words. Qed.
Print Assumptions C03_admon_split_words.

(* the former refutation witnesses of doc-text-before-note-dropped, now inside the theorem's domain *)
Theorem C03_pretext_fixed :
  admon_ok pretext_witness = true /\
  run pretext_witness = Ok [s "alpha beta"; s "@note Note"; s "     gamma"] /\
  words [s "alpha beta"; s "@note Note"; s "     gamma"] = spec_words pretext_witness /\
  spec_words pretext_witness = [s "alpha"; s "beta"; s "@note"; s "Note"; s "gamma"].
Proof. exact pretext_fixed. Qed.
Print Assumptions C03_pretext_fixed.

Theorem C03_inside_word_fixed :
  admon_ok [s "mail joe@notebook.org now"] = true /\
  run [s "mail joe@notebook.org now"] = Ok [s "mail joe@notebook.org now"].
Proof. exact inside_word_fixed. Qed.
Print Assumptions C03_inside_word_fixed.

(* ------------------------------------------------------------------ admonitions: errors *)
Theorem C03_admon_errors : forall l e,
  admon_ok l = true -> run l = Err e -> e = EEndNoStart \/ e = ETypeMismatch.
Proof. exact admon_errors. Qed.
Print Assumptions C03_admon_errors.

Theorem C03_admon_end_without_start : forall P x R,
  Forall plain P -> adm_search x = None -> end_search x <> None ->
  run (P ++ x :: R) = Err EEndNoStart.
Proof. exact end_without_start. Qed.
Print Assumptions C03_admon_end_without_start.

Theorem C03_admon_end_type_mismatch : forall P st M x R ind ty post pre ety epost,
  Forall plain P -> adm_search st = Some ([], ind, ty, post) -> end_search st = None ->
  Forall plain M -> adm_search x = None -> end_search x = Some (pre, ety, epost) ->
  lower ety <> lower ty ->
  run (P ++ st :: M ++ x :: R) = Err ETypeMismatch.
Proof. exact end_type_mismatch. Qed.
Print Assumptions C03_admon_end_type_mismatch.

(* ------------------------------------------------------------------ admonitions: indentation *)
(* one iteration of the second pass, box anywhere in the text: every line strictly between the
   start line and the first line after the box gets four more blanks (empty lines stay empty) *)
Theorem C03_admon_indent_step : forall ty a1 ls m rest p ind ty' post out,
  adm_search ls = Some (p, ind, ty', post) ->
  step (ty, length a1, length (a1 ++ ls :: m)) (a1 ++ ls :: m ++ rest) = Ok out ->
  exists tail, out = a1 ++ title_block ind ty post ++ map indent1 m ++ tail.
Proof. exact step_indents. Qed.
Print Assumptions C03_admon_indent_step.

(* ... and when the box is not closed by an end marker the text after it is left alone *)
Theorem C03_admon_rest_untouched : forall ty a1 ls m rest p ind ty' post,
  adm_search ls = Some (p, ind, ty', post) -> no_end_at rest ->
  step (ty, length a1, length (a1 ++ ls :: m)) (a1 ++ ls :: m ++ rest)
  = Ok (a1 ++ title_block ind ty post ++ map indent1 m ++ rest).
Proof. exact step_rest_untouched. Qed.
Print Assumptions C03_admon_rest_untouched.

(* the whole pre-processor on a box closed by its end marker *)
Theorem C03_admon_indent : forall P st M x Q ind ty post pre ety epost out,
  box_hyps P st M x Q ind ty post pre ety epost ->
  run (P ++ st :: M ++ x :: Q) = Ok out ->
  exists T,
    out = P ++ title_block ind ty post ++ map indent1 M ++ map indent1 (end_keep pre) ++ T
    /\ words T = words_line epost ++ spec_words Q.
Proof. exact box_indent. Qed.
Print Assumptions C03_admon_indent.

(* the line after the box keeps its indentation: full statement since the repair of
   doc-line-after-box-indented *)
Theorem C03_admon_indent_exact : forall P st M x q Q ind ty post pre ety epost out,
  box_hyps P st M x (q :: Q) ind ty post pre ety epost -> plain q ->
  run (P ++ st :: M ++ x :: q :: Q) = Ok out ->
  exists T', out = P ++ title_block ind ty post ++ map indent1 M ++ map indent1 (end_keep pre)
                     ++ end_extra epost ++ q :: T'.
Proof. exact box_exact. Qed.
Print Assumptions C03_admon_indent_exact.

(* the former refutation witnesses: the line after the box stays outside, consecutive boxes are
   siblings *)
Theorem C03_pullin_fixed :
  run pullin_witness = Ok [s "@note Note"; s "    a"; s "b"] /\
  run [s "@note a"; s "@warning b"] = Ok [s "@note Note"; s "     a"; s "@note Warning"; s "     b"].
Proof. exact pullin_fixed. Qed.
Print Assumptions C03_pullin_fixed.
