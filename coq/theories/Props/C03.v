(* Props/C03.v — property C03: each doc comment lands on its entity, complete, once and in order
   (reader and attachment half; the documentation-text half is in Props/C03doc.v).
   Statements only; proofs in Lex/ReaderDocProofs.v and Sem/TreeProofs.v. *)
From Ford Require Import Base.Str Lex.Quote Lex.Reader Lex.ReaderSpec Lex.ReaderProofs Lex.ReaderDocSpec
  Lex.ReaderDocProofs Lex.ReaderDoc4Spec Lex.ReaderDoc4Proofs Sem.Tree Sem.TreeSpec Sem.TreeProofs.

(* The reader: every statement is followed by exactly the documentation written for it — the "!>"
   lines before it, in order, then its inline "!!" text; documentation lines on their own pass
   through in order; ordinary comments (trailing or on their own line) never become
   documentation; any indentation, trailing blanks, blank and comment lines in between.
   [doc_out] also states FORD's paragraph-break rule (an empty documentation line for each blank
   or comment line that directly follows documentation). *)
Theorem C03_reader_docs : forall f,
  Forall ditem_ok f ->
  read_all default_cfg (render_doc_file f) = ROk (doc_out false f).
Proof. exact reader_docs. Qed.
Print Assumptions C03_reader_docs.

(* The reader, all FOUR marker styles and their mixtures over a file ([xitem], Lex/ReaderDoc4Spec.v):
   before a statement any sequence of "!>" blocks (first line "!>t", then "!!" lines, ordinary
   comments and blank lines) and "!|" blocks (first line "!|t", then comment lines "!t" and blank
   lines; every comment line up to the statement belongs to the block); after it inline "!!" text,
   "!!" lines and "!*" blocks (the line "!*t" and the comment lines immediately after it; a blank
   line, a statement or any marked line ends the block).
   [doc_out4]: a statement is followed by exactly its documentation — its preceding blocks in
   order, then its inline text — rewritten to the plain marker, complete, once; lines of "!*"
   blocks and "!!" lines follow in order; ordinary comments never appear. *)
Theorem C03_reader_docs4 : forall f,
  Forall xitem_ok f ->
  read_all default_cfg (render_xfile f) = ROk (doc_out4 false false f).
Proof. exact reader_docs4. Qed.
Print Assumptions C03_reader_docs4.

(* The parser: the documentation lines that follow a declaration statement are attached to the
   entities that statement declares (for a container: to the container), and to nothing else —
   in any scope, at any nesting depth. *)
Theorem C03_attach : forall d parent nm a g st f rest,
  wf_decl parent (cs_incontains st) d = true -> level0 st -> no_doc_head rest ->
  length (flatten d ++ rest) < f ->
  exists f', length rest < f' /\
    parse_body f parent nm a g st (flatten d ++ rest)
    = parse_body f' parent nm a g (add_children (tree_of d) st) rest.
Proof. exact docs_attach. Qed.
Print Assumptions C03_attach.

(* ... and over whole files: every entity of a well-formed file carries exactly its declared
   documentation lines (the tree returned is the declared tree, documentation included) *)
Theorem C03_file_docs : forall fname units,
  forallb (wf_decl KFile false) units = true ->
  parse_file fname (file_stmts units) = POk (file_tree fname units) [].
Proof. exact tree_roundtrip. Qed.
Print Assumptions C03_file_docs.
