(* Props/C03.v — placeholder while the proofs are being written *)
From Ford Require Import Base.Str Lex.Reader.
