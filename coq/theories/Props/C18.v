(* Props/C18.v -- property C18: rendered declarations say what the source says, and stay inert text.
   Statements only; proofs are in Lex/MaskProofs.v and Out/EscapeProofs.v. *)
From Ford Require Import Base.Str Out.Names Lex.Mask Lex.MaskProofs Gen.EscapeSites Out.Escape Out.EscapeProofs.

(* the masking loop on any statement made of quote-free code and literals (any bodies, any number) *)
Theorem C18_mask_spec : forall segs tail, wf_line segs tail = true ->
  mask (render segs tail) = Some (render_masked 0 segs tail, lits segs).
Proof. exact mask_spec. Qed.
Print Assumptions C18_mask_spec.

(* every literal is put back verbatim (bind names), or verbatim up to the NBSP substitution (initial
   values), which reading NBSP as a blank undoes: all literal bodies, all numbers of literals per line *)
Theorem C18_mask_roundtrip : forall nbsp segs tail,
  is_quote nbsp = false -> wf_line segs tail = true ->
  exists m strs,
    mask (render segs tail) = Some (m, strs) /\
    unmask_in (fun x => x) strs m = Some (render segs tail) /\
    unmask_in (nbsp_sub nbsp) strs m = Some (render_with (nbsp_sub nbsp) segs tail) /\
    (ch_eqb nbsp space = false -> ~ In nbsp (render segs tail) ->
     un_nbsp nbsp (render_with (nbsp_sub nbsp) segs tail) = render segs tail).
Proof. exact mask_roundtrip. Qed.
Print Assumptions C18_mask_roundtrip.

(* the literals go back into any text carrying the same placeholders (FORD removes blanks and spaces
   commas in the initial value first) *)
Theorem C18_unmask_any_code : forall prep segs segs' tail',
  keeps_literals prep -> lits segs' = lits segs -> wf_line segs' tail' = true ->
  unmask_in prep (lits segs) (render_masked 0 segs' tail') = Some (render_with prep segs' tail').
Proof. exact unmask_any_code. Qed.
Print Assumptions C18_unmask_any_code.

(* the project option `lower` lower-cases the statement after its literals have been cut out: the
   literals are put back exactly as written, only the code around them is lower-cased *)
Theorem C18_lower_keeps_literals : forall prep segs tail,
  keeps_literals prep -> wf_line segs tail = true ->
  unmask_in prep (lits segs) (lower (render_masked 0 segs tail))
  = Some (render_with prep (lower_segs segs) (lower tail)).
Proof. exact lower_keeps_literals. Qed.
Print Assumptions C18_lower_keeps_literals.

(* escaped text is inert in element content and in attribute values, decodes to the original, and an
   HTML reader sees exactly the original text and no element *)
Theorem C18_escape_inert : forall x,
  no_markup (html_escape x) = true /\ unescape (html_escape x) = x /\ render_text (html_escape x) = (x, 0).
Proof. exact escape_inert. Qed.
Print Assumptions C18_escape_inert.

(* the complete regenerated list of printing sites: every field is classified ... *)
Theorem C18_sites_classified : forall st, In st sites -> classified st = true.
Proof. exact sites_classified. Qed.
Print Assumptions C18_sites_classified.

(* ... and every site that prints declaration text escapes it: by the `e` filter, or -- in element
   content -- because the printed property (FortranVariable.full_type / full_declaration) escapes the
   source text it is built from; all sites, no exception *)
Theorem C18_sites_escaped : forall st,
  In st sites -> reads_source_text st = true -> escaped st = true.
Proof. exact sites_escaped. Qed.
Print Assumptions C18_sites_escaped.

(* the text-level escape of those properties is inert in element content *)
Theorem C18_escape_text_inert : forall x, render_text (escape_text x) = (x, 0).
Proof. exact render_escape_text. Qed.
Print Assumptions C18_escape_text_inert.
