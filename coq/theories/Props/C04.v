(* Props/C04.v — property C04: accessibility of every entity follows Fortran's PUBLIC/PRIVATE rules.
   Statements only; the model and the Spec are in Sem/Access.v, the proofs in Sem/AccessProofs.v.

   ford_perms sk body   = Some (entities with the permission FORD gives them) | None (parser raised)
   fortran_perm sk body k n = what Fortran defines for identifier n of kind k (Spec)
   valid_for            = the Fortran constraints the Spec presupposes (one list-less access statement,
                          PUBLIC and PRIVATE not both given, PROTECTED only on variables; no access
                          syntax in a submodule)
   region body k n      = 2 (recorded finding): PROTECTED given together with PUBLIC/PRIVATE or under the
                          PRIVATE default — FORD keeps one keyword per entity;
                          4 (no finding, outside C04_partial): another variable / type declaration carries
                          the identifier — the constructor interface of a type (C04_constructor) and
                          programs that declare a name twice.
   Repaired since the first version (former regions late-default, repeated-identifier, blank-in-identifier):
   the witnesses are kept as C04_fixed_* and replayed on the implementation by the harness. *)
From Ford Require Import Base.Str Sem.Access Sem.AccessProofs.

(* The full statement: every module-level entity gets the accessibility Fortran defines.
   It is FALSE of the code (two witnesses below, both about PROTECTED): partial theorem + refutations. *)
Definition C04_statement : Prop :=
  forall sk body out e,
    ford_perms sk body = Some out -> In e out -> top_level e = true ->
    valid_for sk body (e_kind e) (e_name e) = true ->
    e_perm e = fortran_perm sk body (e_kind e) (e_name e).

Theorem C04_statement_refuted : ~ C04_statement.
Proof. exact statement_refuted. Qed.
Print Assumptions C04_statement_refuted.

(* All statement lists, all entities (variables, parameters, types, procedures, generic / operator /
   abstract / nameless interfaces and their procedures), modules and submodules, the list-less access
   statement at any place, any number of generic blocks of one name, any spelling of blanks and case:
   outside the two regions FORD's permission is Fortran's. *)
Theorem C04_partial : forall sk body out e,
  ford_perms sk body = Some out -> In e out -> top_level e = true ->
  valid_for sk body (e_kind e) (e_name e) = true ->
  region body (e_kind e) (e_name e) = 0 ->
  e_perm e = fortran_perm sk body (e_kind e) (e_name e).
Proof. exact partial. Qed.
Print Assumptions C04_partial.

(* region 2: `private` + `integer, protected :: y`: y is reported (and exported) as protected *)
Theorem C04_refuted_protected_private : refutes w_prot_private (mk_ent KVar [] (s "y") Protected) 2.
Proof. exact refuted_protected_private. Qed.
Print Assumptions C04_refuted_protected_private.

(* region 2: `integer, protected :: w` + `public :: w`: PROTECTED is forgotten *)
Theorem C04_refuted_protected_lost : refutes w_prot_lost (mk_ent KVar [] (s "w") Public) 2.
Proof. exact refuted_protected_lost. Qed.
Print Assumptions C04_refuted_protected_lost.

(* `protected` is recorded: a variable whose only keyword is PROTECTED is reported as protected, which
   is Fortran's answer when the module default is public *)
Theorem C04_protected_recorded : forall body out e,
  ford_perms ScModule body = Some out -> In e out -> e_kind e = KVar ->
  attr_twin KVar (e_name e) body = false ->
  protected_given (e_name e) body = true ->
  has Public (explicit_specs (e_name e) body) = false ->
  has Private (explicit_specs (e_name e) body) = false ->
  e_perm e = Protected /\
  (default_access body = Public -> e_perm e = fortran_perm ScModule body (e_kind e) (e_name e)).
Proof. exact protected_recorded. Qed.
Print Assumptions C04_protected_recorded.

(* region 4, the constructor interface: in FORD's output the one procedure / interface named after a
   (single) derived type has the type's permission — which C04_partial ties to the Spec for the type, and
   the Spec gives one answer per identifier (C04_same_identifier) *)
Theorem C04_constructor : forall sk body out g t,
  ford_perms sk body = Some out -> In g out -> In t out -> e_kind t = KType ->
  proc_named (pkey (e_name t)) g = true ->
  cnt (proc_named (pkey (e_name t))) out = 1 -> cnt (type_named (pkey (e_name t))) out = 1 ->
  e_perm g = e_perm t.
Proof. exact constructor_follows_type. Qed.
Print Assumptions C04_constructor.

Theorem C04_same_identifier : forall sk body k1 k2 n1 n2,
  key n1 = key n2 -> is_variable k1 = is_variable k2 ->
  fortran_perm sk body k1 n1 = fortran_perm sk body k2 n2.
Proof. exact fortran_perm_same_id. Qed.
Print Assumptions C04_same_identifier.

(* former witnesses of repaired defects: FORD's answer is now Fortran's *)
Theorem C04_fixed_late_default :
  agrees w_late (mk_ent KVar [] (s "x") Private) /\ agrees w_late (mk_ent KType [] (s "t") Private).
Proof. exact fixed_late_default. Qed.
Print Assumptions C04_fixed_late_default.

Theorem C04_fixed_repeated_generic :
  exists out, ford_perms ScModule w_repeated = Some out /\
    filter (fun e => ekind_eqb (e_kind e) KGeneric) out
    = [mk_ent KGeneric [] (s "gen") Public; mk_ent KGeneric [] (s "gen") Public] /\
    region w_repeated KGeneric (s "gen") = 0 /\ fortran_perm ScModule w_repeated KGeneric (s "gen") = Public.
Proof. exact fixed_repeated_generic. Qed.
Print Assumptions C04_fixed_repeated_generic.

Theorem C04_fixed_operator_spelling : agrees w_spelling (mk_ent KOperator [] (s "operator (+)") Public).
Proof. exact fixed_operator_spelling. Qed.
Print Assumptions C04_fixed_operator_spelling.

(* components and bindings: full, for every type body the Fortran grammar allows *)
Theorem C04_types : forall owner tb, twf 0 tb = true -> tchildren owner tb = fortran_tperms owner tb.
Proof. exact types. Qed.
Print Assumptions C04_types.

Theorem C04_types_in_scope : forall sk body out e,
  ford_perms sk body = Some out -> In e out -> top_level e = false ->
  exists n ats tb, In (SType n ats tb) body /\ In e (tchildren n tb) /\
                   (twf 0 tb = true -> In e (fortran_tperms n tb)).
Proof. exact types_in_scope. Qed.
Print Assumptions C04_types_in_scope.

(* everything declared in a submodule is private *)
Theorem C04_submodule_private : forall body out e,
  ford_perms ScSubmodule body = Some out -> no_access_syntax body = true ->
  In e out -> top_level e = true ->
  e_perm e = Private /\ e_perm e = fortran_perm ScSubmodule body (e_kind e) (e_name e).
Proof. exact submodule_private. Qed.
Print Assumptions C04_submodule_private.

(* the procedure of an abstract / nameless interface block reports its interface entity's permission *)
Theorem C04_interface_procs : forall sk body out,
  ford_perms sk body = Some out ->
  (forall e, In e out -> e_kind e = KIfProc ->
     exists i, In i out /\ (e_kind i = KExplicit \/ e_kind i = KAbstract) /\
               e_name i = e_name e /\ e_perm i = e_perm e) /\
  (forall i, In i out -> e_kind i = KExplicit \/ e_kind i = KAbstract ->
     In (mk_ent KIfProc [] (e_name i) (e_perm i)) out).
Proof. exact interface_procs. Qed.
Print Assumptions C04_interface_procs.

Theorem C04_raises_iff_misplaced : forall sk body,
  ford_perms sk body = None <-> struct_ok false body = false.
Proof. exact raises_iff_misplaced. Qed.
Print Assumptions C04_raises_iff_misplaced.
