(* Lex/Mask.v -- model of FORD's string masking (property C18).
     ford/sourceform.py  QUOTES_RE = Q([^Q]|QQ)*Q for Q the double or the single quote (search semantics,
                           with backtracking)
                         FortranContainer.__init__: the loop that cuts every literal out of a statement
                           and leaves the double-quoted index in its place (self.strings)
                         line_to_variables: COMMA_RE, the loop that re-inserts literals into an initial
                           value (NBSP_RE substitution, backslash doubling for the re.sub template)
                         _parse_bind_C / ATTRIB statements: re-insertion without NBSP substitution
   Executable definitions only; lemmas in Lex/MaskProofs.v. *)
From Ford Require Import Base.Str Out.Names.
From Coq Require Import DecimalString DecimalNat.

Definition sq : ascii := "'"%char.
Definition dq : ascii := """"%char.
Definition space : ascii := " "%char.
Definition comma : ascii := ","%char.
Definition is_quote (c : ascii) : bool := ch_eqb c sq || ch_eqb c dq.

(* q([^q]|qq)*q, matched from just after the opening quote: number of characters consumed including
   the closing quote.  Regex backtracking: at a doubled quote the pair is tried first; when the rest
   cannot be completed the first quote of the pair closes the literal. *)
Fixpoint scan (q : ascii) (x : str) : option nat :=
  match x with
  | [] => None
  | c :: x' =>
    if ch_eqb c q then
      match x' with
      | d :: x'' =>
        if ch_eqb d q then
          match scan q x'' with Some n => Some (2 + n) | None => Some 1 end
        else Some 1
      | [] => Some 1
      end
    else option_map S (scan q x')
  end.

(* QUOTES_RE.search(x): (start, length) of the leftmost match *)
Fixpoint find_lit (x : str) : option (nat * nat) :=
  match x with
  | [] => None
  | c :: x' =>
    let later := match find_lit x' with Some (st, len) => Some (S st, len) | None => None end in
    if is_quote c then
      match scan c x' with Some n => Some (0, S n) | None => later end
    else later
  end.

Definition placeholder (k : nat) : str := dq :: dec k ++ [dq].

(* the masking loop; None = the Python code would raise (or fuel exhausted) *)
Fixpoint mask_loop (fuel : nat) (strs : list str) (line : str) (from : nat) : option (str * list str) :=
  match fuel with
  | 0 => None
  | S f =>
    match find_lit (skipn from line) with
    | None => Some (line, strs)
    | Some (st, len) =>
      let lit := firstn len (skipn (from + st) line) in
      let line' := firstn (from + st) line ++ placeholder (length strs) ++ skipn (from + st + len) line in
      match find_lit (skipn from line') with
      | Some (st2, len2) => mask_loop f (strs ++ [lit]) line' (from + st2 + len2)
      | None => None
      end
    end
  end.
Definition mask (line : str) : option (str * list str) := mask_loop (S (length line)) [] line 0.

(* int(text) for the text of a placeholder: decimal digits only, not empty *)
Definition parse_nat (x : str) : option nat :=
  match x with
  | [] => None
  | _ => option_map Nat.of_uint (NilEmpty.uint_of_string (string_of_list_ascii x))
  end.

(* NBSP_RE (blank followed by blank, or blank preceded by blank) substituted by [nbsp]:
   every blank that has a blank neighbour *)
Fixpoint nbsp_from (nbsp : ascii) (prev_space : bool) (x : str) : str :=
  match x with
  | [] => []
  | c :: x' =>
    if ch_eqb c space then
      let next_space := match x' with d :: _ => ch_eqb d space | [] => false end in
      (if prev_space || next_space then nbsp else c) :: nbsp_from nbsp true x'
    else c :: nbsp_from nbsp false x'
  end.
Definition nbsp_sub (nbsp : ascii) (x : str) : str := nbsp_from nbsp false x.
Definition un_nbsp (nbsp : ascii) (x : str) : str := map (fun c => if ch_eqb c nbsp then space else c) x.

(* the re-insertion loop.  [prep] is applied to the stored literal before it is put back
   (nbsp_sub for initial values; the identity for bind names).  The Python code doubles the
   backslashes because re.sub expands its replacement template; the two cancel. *)
Fixpoint unmask_loop (fuel : nat) (prep : str -> str) (strs : list str) (text : str) (from : nat) : option str :=
  match fuel with
  | 0 => None
  | S f =>
    match find_lit (skipn from text) with
    | None => Some text
    | Some (st, len) =>
      let body := firstn (len - 2) (skipn (from + st + 1) text) in
      match parse_nat body with
      | None => None
      | Some num =>
        match nth_error strs num with
        | None => None
        | Some lit =>
          let text' := firstn (from + st) text ++ prep lit ++ skipn (from + st + len) text in
          match find_lit (skipn from text') with
          | Some (st2, len2) => unmask_loop f prep strs text' (from + st2 + len2)
          | None => None
          end
        end
      end
    end
  end.
Definition unmask_in (prep : str -> str) (strs : list str) (text : str) : option str :=
  unmask_loop (S (length text)) prep strs text 0.

(* COMMA_RE (a comma not followed by white space) substituted by comma blank *)
Fixpoint comma_sub (x : str) : str :=
  match x with
  | [] => []
  | c :: x' =>
    if ch_eqb c comma then
      match x' with
      | d :: _ => if is_space d then c :: comma_sub x' else c :: space :: comma_sub x'
      | [] => [c; space]
      end
    else c :: comma_sub x'
  end.

Definition remove_spaces (x : str) : str := filter (fun c => negb (ch_eqb c space)) x.

(* the initial value of a declarator, from the text after the equals sign of the masked statement *)
Definition initial_of (nbsp : ascii) (strs : list str) (masked_expr : str) : option str :=
  unmask_in (nbsp_sub nbsp) strs (comma_sub (remove_spaces masked_expr)).

(* ---------- statements as alternating code / literal segments (for the theorems) ---------- *)

Fixpoint escape_body (q : ascii) (body : str) : str :=
  match body with
  | [] => []
  | c :: b => if ch_eqb c q then q :: q :: escape_body q b else c :: escape_body q b
  end.
Definition render_lit (q : ascii) (body : str) : str := q :: escape_body q body ++ [q].

(* (code before the literal, quote, body) ... ; trailing code *)
Definition seg := (str * ascii * str)%type.
Fixpoint render (segs : list seg) (tail : str) : str :=
  match segs with
  | [] => tail
  | (c, q, b) :: r => c ++ render_lit q b ++ render r tail
  end.
Fixpoint render_masked (k : nat) (segs : list seg) (tail : str) : str :=
  match segs with
  | [] => tail
  | (c, q, b) :: r => c ++ placeholder k ++ render_masked (S k) r tail
  end.
Definition lits (segs : list seg) : list str := map (fun sg => match sg with (_, q, b) => render_lit q b end) segs.
Fixpoint render_with (prep : str -> str) (segs : list seg) (tail : str) : str :=
  match segs with
  | [] => tail
  | (c, q, b) :: r => c ++ prep (render_lit q b) ++ render_with prep r tail
  end.

Definition no_quote (x : str) : bool := forallb (fun c => negb (is_quote c)) x.
(* every literal is followed by at least one code character or by the end of the statement, so that
   two literals never touch (adjacent quotes would read as a doubled quote) *)
Fixpoint wf_segs (first : bool) (segs : list seg) : bool :=
  match segs with
  | [] => true
  | (c, q, _) :: r =>
    no_quote c && is_quote q && (first || negb (match c with [] => true | _ => false end)) && wf_segs false r
  end.
Definition wf_line (segs : list seg) (tail : str) : bool := wf_segs true segs && no_quote tail.
