(* Lex/ReaderDoc4Spec.v — documented statement sequences in all four marker styles (default
   markers): "!!" after a statement (inline or on lines of their own), "!>" before it, the block
   form "!*" after it (first line "!*text", then ordinary-looking comment lines "!text") and the
   block form "!|" before it (same shape) — and what the reader must deliver for them.
   Written from the user guide (writing_documentation.rst, project_file_options.rst), not from
   the code.  Definitions only. *)
From Ford Require Import Base.Str Lex.Quote Lex.ReaderSpec Lex.ReaderDocSpec.

(* lines that may follow the first line "!>t" of a block of preceding documentation *)
Inductive preline :=
| PLDoc (i : nat) (t : str)        (* "!!t": the pre-marker is only needed on the first line *)
| PLBlank (n : nat)                (* blank line *)
| PLComment (i : nat) (t : str).   (* ordinary comment *)

(* lines that may follow the first line "!|t" of an alternate block of preceding documentation *)
Inductive altline :=
| ALComment (i : nat) (t : str)    (* "!t": a comment line *)
| ALBlank (n : nat).               (* blank line *)

Inductive preblock :=
| PBPre (i : nat) (t : str) (rest : list preline)
| PBAlt (i : nat) (t : str) (rest : list altline).

(* a one-line statement with the blocks of documentation written before it *)
Record xstmt := { xs_pre : list preblock; xs_ind : nat; xs_text : str; xs_trail : nat; xs_tail : tail }.

Inductive xitem :=
| XBlank (n : nat)                 (* blank line *)
| XComment (i : nat) (t : str)     (* comment line "!t" *)
| XDoc (i : nat) (t : str)         (* documentation line "!!t" on its own line *)
| XAlt (i : nat) (t : str)         (* first line "!*t" of an alternate block of documentation *)
| XStmt (d : xstmt).

Definition cline (i : nat) (t : str) : str := spaces i ++ bang :: t.

Definition render_preline (p : preline) : str :=
  match p with
  | PLDoc i t => cline i (bang :: t)
  | PLBlank n => spaces n
  | PLComment i t => cline i t
  end.
Definition render_altline (a : altline) : str :=
  match a with ALComment i t => cline i t | ALBlank n => spaces n end.
Definition render_preblock (b : preblock) : list str :=
  match b with
  | PBPre i t rest => cline i (">"%char :: t) :: map render_preline rest
  | PBAlt i t rest => cline i ("|"%char :: t) :: map render_altline rest
  end.

Definition render_xitem (it : xitem) : list str :=
  match it with
  | XBlank n => [spaces n]
  | XComment i t => [cline i t]
  | XDoc i t => [cline i (bang :: t)]
  | XAlt i t => [cline i ("*"%char :: t)]
  | XStmt d =>
    flat_map render_preblock (xs_pre d)
    ++ [spaces (xs_ind d) ++ xs_text d ++ spaces (xs_trail d) ++ render_tail (xs_tail d)]
  end.
Definition render_xfile (f : list xitem) : list str := flat_map render_xitem f.

(* ---- what each block documents ----
   "!>" block: its first line and the "!!" lines that follow; ordinary comments and blank lines in
   between are not documentation.
   "!|" block: its first line and every comment line up to the statement ("the start of a block of
   documentation preceding the code ... all further comments within this block will be treated as
   documentation"): blank lines inside the block do not end it. *)
Definition preline_docs (p : preline) : list str :=
  match p with PLDoc _ t => [docl t] | _ => [] end.

Fixpoint alt_docs (l : list altline) : list str :=
  match l with
  | ALComment _ t :: r => docl t :: alt_docs r
  | ALBlank _ :: r => alt_docs r
  | [] => []
  end.

Definition block_docs (b : preblock) : list str :=
  match b with
  | PBPre _ t rest => docl t :: flat_map preline_docs rest
  | PBAlt _ t rest => docl t :: alt_docs rest
  end.

Definition stmt_docs (d : xstmt) : list str :=
  flat_map block_docs (xs_pre d) ++ tail_docs (xs_tail d).

(* after documentation with text t has been yielded: "the last line yielded was documentation
   with some text" *)
Definition pd_after (pd : bool) (t : str) : bool := match t with [] => pd | _ => true end.

(* What the reader yields.  [pd] as in ReaderDocSpec.doc_out (a blank or ordinary comment line
   right after documentation yields an empty documentation line); [alt] = "inside a "!*" block":
   every immediately following comment line is documentation; a blank line, a statement or any
   marked line ends the block.  A statement is followed by exactly the documentation written for
   it: its preceding blocks in order, then its inline documentation; everything rewritten to the
   plain marker. *)
Fixpoint doc_out4 (pd alt : bool) (l : list xitem) : list str :=
  match l with
  | [] => []
  | XBlank _ :: r => (if pd then [docl []] else []) ++ doc_out4 pd false r
  | XComment _ t :: r =>
    if alt then docl t :: doc_out4 (pd_after pd t) true r
    else (if pd then [docl []] else []) ++ doc_out4 pd false r
  | XDoc _ t :: r => docl t :: doc_out4 (pd_after pd t) false r
  | XAlt _ t :: r => docl t :: doc_out4 (pd_after pd t) true r
  | XStmt d :: r =>
    let docs := stmt_docs d in
    stmts_of (" "%char :: xs_text d) ++ docs ++ doc_out4 (match docs with [] => false | _ => true end) false r
  end.

(* every layout of the two-style class of ReaderDocSpec is one of these *)
Definition embed_stmt (d : dstmt) : xstmt :=
  {| xs_pre := map (fun p => PBPre (fst p) (snd p) []) (ds_pre d);
     xs_ind := ds_ind d; xs_text := ds_text d; xs_trail := ds_trail d; xs_tail := ds_tail d |}.
Definition embed (it : ditem) : xitem :=
  match it with
  | DBlank n => XBlank n
  | DComment i t => XComment i t
  | DDoc i t => XDoc i t
  | DStmt d => XStmt (embed_stmt d)
  end.
