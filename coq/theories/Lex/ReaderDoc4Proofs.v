(* Lex/ReaderDoc4Proofs.v — documentation in all four marker styles is delivered after its
   statement, in order, complete, with the marker substituted (C03, reader) *)
From Ford Require Import Base.Str Base.StrFacts Lex.Quote Lex.Reader Lex.ReaderSpec Lex.QuoteProofs
  Lex.ReaderProofs Lex.ReaderDocSpec Lex.ReaderDocProofs Lex.ReaderDoc4Spec.
From Coq Require Import Lia.

(* states: [ra] = reading_alt (0, or >= 2 inside a "!*" block), [rp] = reading_predoc,
   [rpa] = reading_predoc_alt (0, or >= 2 inside a "!|" block) *)
Definition mk_ga (db : list str) (pd : bool) (ra : nat) : gstate :=
  {| docbuffer := db; prevdoc := pd; reading_alt := ra |}.
Definition pre_st (rp : bool) (rpa : nat) : lstate :=
  {| continued := false; reading_predoc := rp; reading_predoc_alt := rpa; linebuffer := [] |}.

(* ---------- a line that is a comment from its first non-blank character on ---------- *)

Lemma cline_mark i u m :
  match_mark [m] (cline i u) None = if head_is m u then Some i else None.
Proof.
  unfold cline. rewrite match_mark_outside, first_bang_spaces, skipn_spaces.
  change (starts_with (bang :: [m]) (bang :: u)) with (Ascii.eqb bang bang && starts_with [m] u).
  rewrite Ascii.eqb_refl, starts_with_mark1. destruct u; reflexivity.
Qed.

Lemma cline_com i u : match_com (cline i u) None = Some i.
Proof. unfold cline. rewrite match_com_outside. apply first_bang_spaces. Qed.

Lemma spaces_com n : match_com (spaces n) None = None.
Proof. rewrite match_com_outside. apply first_bang_none; [exact I|apply bang_free_spaces]. Qed.

Lemma cline_hash i u : first_is hash (strip (cline i u)) = false.
Proof. apply strip_head_bang. Qed.

Lemma cline_firstn i u : firstn i (cline i u) = spaces i.
Proof. apply firstn_spaces. Qed.

Lemma cline_skipn i u : skipn i (cline i u) = bang :: u.
Proof. apply skipn_spaces. Qed.

Lemma cline_not_blank i u : is_blank (cline i u) = false.
Proof. unfold is_blank, cline. destruct (strip_head i bang u eq_refl) as [y' E]. now rewrite E. Qed.

Lemma cline_bang_first i u : first_is bang (strip (cline i u)) = true.
Proof. unfold cline. destruct (strip_head i bang u eq_refl) as [y' E]. rewrite E. reflexivity. Qed.

Lemma cline_remark i u (c : ascii) t : u = c :: t ->
  remark default_cfg (cline i u) i 1 = docl t.
Proof.
  intros ->. unfold remark, docl, cline. cbn [default_cfg docmark]. change (s "!") with ["!"%char].
  rewrite skipn_app, spaces_length.
  rewrite (skipn_all2 (spaces i)) by (rewrite spaces_length; lia).
  replace (i + 1 + 1 - i) with 2 by lia. reflexivity.
Qed.

Lemma cline_skip1 i u : skipn (i + 1) (cline i u) = u.
Proof.
  unfold cline. rewrite skipn_app, spaces_length.
  rewrite (skipn_all2 (spaces i)) by (rewrite spaces_length; lia).
  replace (i + 1 - i) with 1 by lia. reflexivity.
Qed.

Lemma plain_heads t : plain_comment t ->
  head_is ">"%char t = false /\ head_is "|"%char t = false /\ head_is "*"%char t = false /\ head_is "!"%char t = false.
Proof.
  destruct t as [|c t]; [repeat split; reflexivity|]. intros (H1 & H2 & H3 & H4). cbn [head_is].
  repeat split; apply Ascii.eqb_neq; congruence.
Qed.

Ltac open_step line0 :=
  unfold step;
  cbn [mk_ga pre_st linit docbuffer prevdoc reading_alt continued reading_predoc reading_predoc_alt linebuffer
       docmark predocmark docmark_alt predocmark_alt default_cfg];
  change (qstate []) with (@None ascii);
  change (s ">") with [">"%char]; change (s "|") with ["|"%char];
  change (s "*") with ["*"%char]; change (s "!") with ["!"%char];
  rewrite ?cline_hash, !cline_mark; cbn [length].

Ltac tidy4 := cbn [app orb andb negb first_is Nat.ltb Nat.leb Nat.eqb length];
              rewrite ?andb_false_r, ?andb_true_r, ?orb_true_r, ?orb_false_r;
              cbn [app orb andb negb first_is Nat.ltb Nat.leb Nat.eqb length].

Lemma snoc_nonempty {A} (db : list A) x : match db ++ [x] with [] => true | _ :: _ => false end = false.
Proof. destruct db; reflexivity. Qed.

Ltac fin4 := tidy4; rewrite ?snoc_nonempty; tidy4; rewrite ?snoc_nonempty; tidy4; reflexivity.

(* "!>t" *)
Lemma step4_pre db pd ra rp rpa i t :
  step default_cfg (mk_ga db pd ra) (pre_st rp rpa) (cline i (">"%char :: t))
  = SNext (mk_ga (db ++ [docl t]) pd 0) (pre_st true 0) false.
Proof.
  open_step (cline i (">"%char :: t)). cbn [head_is Ascii.eqb Bool.eqb]. cbv beta iota zeta.
  rewrite (cline_remark i _ ">"%char t eq_refl), cline_firstn, is_blank_spaces. cbn [negb]. cbv beta iota zeta.
  rewrite cline_not_blank, cline_bang_first, cline_com. cbv beta iota zeta.
  rewrite cline_firstn, is_blank_spaces, strip_spaces. fin4.
Qed.

(* "!|t" *)
Lemma step4_prealt db pd ra rp rpa i t :
  step default_cfg (mk_ga db pd ra) (pre_st rp rpa) (cline i ("|"%char :: t))
  = SNext (mk_ga (db ++ [docl t]) pd 0) (pre_st false 2) false.
Proof.
  open_step (cline i ("|"%char :: t)). cbn [head_is Ascii.eqb Bool.eqb]. cbv beta iota zeta.
  rewrite (cline_remark i _ "|"%char t eq_refl), cline_firstn, is_blank_spaces. cbn [negb]. cbv beta iota zeta.
  rewrite cline_not_blank, cline_bang_first, cline_com. cbv beta iota zeta.
  rewrite cline_firstn, is_blank_spaces, strip_spaces. fin4.
Qed.

(* "!*t", at the start of a run *)
Lemma step4_alt pd ra i t :
  step default_cfg (mk_ga [] pd ra) linit (cline i ("*"%char :: t))
  = SNext (mk_ga [docl t] pd 2) linit true.
Proof.
  open_step (cline i ("*"%char :: t)). cbn [head_is Ascii.eqb Bool.eqb]. cbv beta iota zeta.
  rewrite (cline_remark i _ "*"%char t eq_refl), cline_firstn, is_blank_spaces. cbn [negb]. cbv beta iota zeta.
  rewrite cline_not_blank, cline_bang_first, cline_com. cbv beta iota zeta.
  rewrite cline_firstn, is_blank_spaces, strip_spaces. tidy4. reflexivity.
Qed.

(* "!!t": at the start of a run it is yielded at once; inside a "!>" block it is collected *)
Lemma step4_doc db pd ra rp rpa i t :
  step default_cfg (mk_ga db pd ra) (pre_st rp rpa) (cline i (bang :: t))
  = SNext (mk_ga (db ++ [docl t]) pd 0) (pre_st rp 0) (negb rp).
Proof.
  open_step (cline i (bang :: t)).
  change (head_is ">"%char (bang :: t)) with false. change (head_is "|"%char (bang :: t)) with false.
  change (head_is "*"%char (bang :: t)) with false. change (head_is "!"%char (bang :: t)) with true.
  cbv beta iota zeta.
  rewrite cline_firstn, cline_skipn, is_blank_spaces, spaces_com, strip_spaces. fin4.
Qed.

(* a comment line inside a "!*" block *)
Lemma step4_alt_line pd ra i t :
  plain_comment t -> 2 <= ra ->
  step default_cfg (mk_ga [] pd ra) linit (cline i t) = SNext (mk_ga [docl t] pd (S ra)) linit true.
Proof.
  intros Hp Hra. destruct (plain_heads t Hp) as (H1 & H2 & H3 & H4).
  open_step (cline i t). rewrite H1, H2, H3, H4. cbv beta iota zeta.
  rewrite cline_not_blank, cline_bang_first, cline_com. cbv beta iota zeta.
  rewrite cline_firstn, is_blank_spaces, strip_spaces, cline_skip1.
  destruct ra as [|[|ra]]; [lia|lia|]. tidy4. reflexivity.
Qed.

(* a comment line inside a "!|" block *)
Lemma step4_prealt_line db pd k i t :
  plain_comment t -> 2 <= k -> db <> [] ->
  step default_cfg (mk_ga db pd 0) (pre_st false k) (cline i t)
  = SNext (mk_ga (db ++ [docl t]) pd 0) (pre_st false (S k)) false.
Proof.
  intros Hp Hk Hdb. destruct (plain_heads t Hp) as (H1 & H2 & H3 & H4).
  open_step (cline i t). rewrite H1, H2, H3, H4. cbv beta iota zeta.
  rewrite cline_not_blank, cline_bang_first, cline_com. cbv beta iota zeta.
  rewrite cline_firstn, is_blank_spaces, strip_spaces, cline_skip1.
  destruct k as [|[|k]]; [lia|lia|]. fin4.
Qed.

(* an ordinary comment line inside a "!>" block *)
Lemma step4_pre_comment db pd i t :
  plain_comment t -> db <> [] ->
  step default_cfg (mk_ga db pd 0) (pre_st true 0) (cline i t)
  = SNext (mk_ga db pd 0) (pre_st true 0) false.
Proof.
  intros Hp Hdb. destruct (plain_heads t Hp) as (H1 & H2 & H3 & H4).
  open_step (cline i t). rewrite H1, H2, H3, H4. cbv beta iota zeta.
  rewrite cline_not_blank, cline_bang_first, cline_com. cbv beta iota zeta.
  rewrite cline_firstn, strip_spaces. tidy4.
  destruct db; [congruence|]. tidy4. reflexivity.
Qed.

(* blank lines *)
Lemma blank_marks n m : match_mark m (spaces n) None = None.
Proof.
  destruct m; [reflexivity|]. rewrite match_mark_outside.
  assert (H : first_bang (spaces n) = None) by (apply first_bang_none; [exact I|apply bang_free_spaces]).
  now rewrite H.
Qed.

Ltac open_blank n :=
  unfold step;
  cbn [mk_ga pre_st linit docbuffer prevdoc reading_alt continued reading_predoc reading_predoc_alt linebuffer
       docmark predocmark docmark_alt predocmark_alt default_cfg];
  change (qstate []) with (@None ascii);
  rewrite strip_spaces; cbn [first_is]; rewrite !blank_marks; cbv beta iota zeta;
  rewrite ?is_blank_spaces, ?spaces_com, ?strip_spaces.

(* at the start of a run: ends a "!*" block; yields an empty documentation line after documentation *)
Lemma step4_blank_top pd ra n :
  step default_cfg (mk_ga [] pd ra) linit (spaces n)
  = SNext (mk_ga (if pd then [docl []] else []) pd 0) linit pd.
Proof. open_blank n. tidy4. destruct pd; reflexivity. Qed.

Lemma step4_pre_blank db pd n :
  db <> [] ->
  step default_cfg (mk_ga db pd 0) (pre_st true 0) (spaces n) = SNext (mk_ga db pd 0) (pre_st true 0) false.
Proof. intros Hdb. open_blank n. tidy4. destruct db; [congruence|]. tidy4. reflexivity. Qed.

(* a blank line does not end a "!|" block *)
Lemma step4_prealt_blank db pd k n :
  2 <= k -> db <> [] ->
  step default_cfg (mk_ga db pd 0) (pre_st false k) (spaces n)
  = SNext (mk_ga db pd 0) (pre_st false (S k)) false.
Proof.
  intros Hk Hdb. open_blank n. destruct k as [|[|k]]; [lia|lia|]. tidy4.
  destruct db; [congruence|]. tidy4. reflexivity.
Qed.

(* ---------- the statement line ---------- *)

Definition text_ok (text : str) (tl : tail) : Prop :=
  nsfirst text /\ nslast text /\
  head_is hash text = false /\ head_is amp text = false /\ head_is semi text = false /\
  bang_free None text = true /\ last_is amp text = false /\
  match tl with
  | TNone => True
  | TComment t => qrun None text = None /\ plain_comment t
  | TDoc _ => qrun None text = None
  end.

Ltac open_stmt line0 :=
  unfold step;
  cbn [mk_ga pre_st linit docbuffer prevdoc reading_alt continued reading_predoc reading_predoc_alt linebuffer
       docmark predocmark docmark_alt predocmark_alt default_cfg];
  fold line0;
  change (qstate []) with (@None ascii);
  change (s ">") with [">"%char]; change (s "|") with ["|"%char];
  change (s "*") with ["*"%char]; change (s "!") with ["!"%char].

(* after any documentation blocks, in any of the states they leave; with a trailing ordinary
   comment, an inline "!!" documentation, or nothing.  Ends a "!*" block. *)
Lemma step4_stmt db pd ra rp rpa a text b tl :
  text_ok text tl ->
  step default_cfg (mk_ga db pd ra) (pre_st rp rpa) (spaces a ++ text ++ spaces b ++ render_tail tl)
  = SNext (mk_ga (db ++ tail_docs tl) pd 0) (done_state (" "%char :: text)) true.
Proof.
  intros (Hf & Hl & Hh & Ha & _ & Hbf & Hla & Htl).
  destruct text as [|ch rest] eqn:Et; [destruct Hf|]. rewrite <- Et in *.
  set (line0 := spaces a ++ text ++ spaces b ++ render_tail tl).
  set (k := a + length text + b).
  assert (Hns : is_space ch = false) by (rewrite Et in Hf; exact Hf).
  assert (Hamp : Ascii.eqb ch amp = false).
  { rewrite Et in Ha. unfold head_is in Ha. now rewrite Ascii.eqb_sym. }
  assert (Hbang : Ascii.eqb bang ch = false).
  { rewrite Et in Hbf. cbn [bang_free] in Hbf. rewrite Ascii.eqb_sym. destruct (Ascii.eqb ch bang); [discriminate|reflexivity]. }
  assert (Hstrip0 : exists y', strip line0 = ch :: y').
  { unfold line0. rewrite Et. cbn [app]. apply (strip_head a ch (rest ++ spaces b ++ render_tail tl) Hns). }
  destruct Hstrip0 as (y0 & Hstrip0).
  assert (Hhash : first_is hash (strip line0) = false).
  { rewrite Hstrip0. rewrite Et in Hh. exact Hh. }
  assert (Hnb0 : is_blank line0 = false) by (unfold is_blank; now rewrite Hstrip0).
  assert (Hfb0 : first_is bang (strip line0) = false) by (rewrite Hstrip0; exact Hbang).
  assert (Hpre : forall x, first_bang ((spaces a ++ text ++ spaces b) ++ x)
                           = first_bang_from (qrun None text) k x).
  { intros x. unfold first_bang. rewrite <- !app_assoc.
    rewrite first_bang_skip; [|exact I|apply bang_free_spaces].
    rewrite (qrun_no_quote None (spaces a)) by apply spaces_no_quote.
    rewrite first_bang_skip; [|exact I|exact Hbf].
    rewrite first_bang_skip; [|apply qrun_ok; exact I|apply bang_free_spaces].
    rewrite (qrun_no_quote _ (spaces b)) by apply spaces_no_quote.
    f_equal. unfold k. rewrite !spaces_length. lia. }
  assert (Hcore : first_bang (spaces a ++ text ++ spaces b) = None).
  { rewrite <- (app_nil_r (spaces a ++ text ++ spaces b)), Hpre. reflexivity. }
  assert (Hsplit : line0 = (spaces a ++ text ++ spaces b) ++ render_tail tl) by (unfold line0; now rewrite <- !app_assoc).
  assert (Hfn : firstn k line0 = spaces a ++ text ++ spaces b).
  { rewrite Hsplit. unfold k. rewrite <- (len3 a text b), firstn_app, firstn_all, Nat.sub_diag. simpl. now rewrite app_nil_r. }
  assert (Hsk : skipn k line0 = render_tail tl).
  { rewrite Hsplit. unfold k. rewrite <- (len3 a text b), skipn_app, skipn_all, Nat.sub_diag. reflexivity. }
  assert (Hstrip : strip (spaces a ++ text ++ spaces b) = ch :: rest) by (rewrite <- Et; now apply strip_pad).
  assert (Hnb : is_blank (spaces a ++ text ++ spaces b) = false) by (unfold is_blank; now rewrite Hstrip).
  assert (Hla' : last_is amp (ch :: rest) = false) by (rewrite <- Et; exact Hla).
  destruct tl as [|t|t] eqn:Etl; cbn [render_tail tail_docs] in *.
  - (* nothing after the statement *)
    assert (Eline : line0 = spaces a ++ text ++ spaces b) by (unfold line0; now rewrite app_nil_r).
    assert (Hm : forall m, match_mark m line0 None = None).
    { intros m. destruct m; [reflexivity|]. now rewrite match_mark_outside, Eline, Hcore. }
    assert (Hcom : match_com line0 None = None) by (rewrite match_com_outside; now rewrite Eline).
    open_stmt line0. rewrite Hhash, !Hm. cbv beta iota zeta. rewrite Hnb0, Hfb0, Hcom.
    rewrite Eline, Hstrip. rewrite app_nil_r. rewrite Hamp, Hla'. change (strip []) with (@nil ascii).
    cbn [app s list_ascii_of_string]. tidy4. rewrite Et. reflexivity.
  - (* an ordinary comment after the statement *)
    destruct Htl as (Hq & Hp).
    assert (Hfb : first_bang line0 = Some k).
    { rewrite Hsplit, Hpre, Hq. reflexivity. }
    assert (Hm : forall m, In m ["!"%char; ">"%char; "*"%char; "|"%char] -> match_mark [m] line0 None = None).
    { intros m Hin. rewrite match_mark_outside, Hfb. now rewrite (plain_no_mark t k line0 Hp Hsk m Hin). }
    assert (Hcom : match_com line0 None = Some k) by exact Hfb.
    open_stmt line0. rewrite Hhash.
    rewrite (Hm ">"%char) by (simpl; tauto). rewrite (Hm "|"%char) by (simpl; tauto).
    rewrite (Hm "*"%char) by (simpl; tauto). rewrite (Hm "!"%char) by (simpl; tauto).
    cbv beta iota zeta. rewrite Hnb0, Hfb0, Hcom. tidy4. rewrite Hfn, Hstrip. rewrite app_nil_r.
    rewrite Hamp, Hla'. change (strip []) with (@nil ascii).
    cbn [app s list_ascii_of_string]. tidy4. rewrite Et. reflexivity.
  - (* inline documentation after the statement *)
    assert (Hfb : first_bang line0 = Some k).
    { rewrite Hsplit, Hpre, Htl. reflexivity. }
    assert (Hm1 : match_mark [">"%char] line0 None = None) by (rewrite match_mark_outside, Hfb, Hsk; reflexivity).
    assert (Hm2 : match_mark ["|"%char] line0 None = None) by (rewrite match_mark_outside, Hfb, Hsk; reflexivity).
    assert (Hm3 : match_mark ["*"%char] line0 None = None) by (rewrite match_mark_outside, Hfb, Hsk; reflexivity).
    assert (Hm4 : match_mark ["!"%char] line0 None = Some k) by (rewrite match_mark_outside, Hfb, Hsk; reflexivity).
    assert (Hcom : match_com (spaces a ++ text ++ spaces b) None = None) by exact Hcore.
    assert (Hfb1 : first_is bang (strip (spaces a ++ text ++ spaces b)) = false) by (rewrite Hstrip; exact Hbang).
    open_stmt line0. rewrite Hhash, Hm1, Hm2, Hm3, Hm4. cbv beta iota zeta.
    rewrite Hfn, Hsk, Hnb, Hfb1, Hcom, Hstrip.
    rewrite Hamp, Hla'. change (strip []) with (@nil ascii).
    cbn [app s list_ascii_of_string]. tidy4. rewrite Et. reflexivity.
Qed.

(* ---------- the layout class ---------- *)

Definition preline_ok (p : preline) : Prop :=
  match p with PLComment _ t => plain_comment t | _ => True end.
Definition altline_ok (a : altline) : Prop :=
  match a with ALComment _ t => plain_comment t | ALBlank _ => True end.
Definition block_ok (b : preblock) : Prop :=
  match b with
  | PBPre _ _ rest => Forall preline_ok rest
  | PBAlt _ _ rest => Forall altline_ok rest
  end.
Definition xstmt_ok (d : xstmt) : Prop :=
  text_ok (xs_text d) (xs_tail d) /\ Forall block_ok (xs_pre d).
Definition xitem_ok (it : xitem) : Prop :=
  match it with
  | XBlank _ => True
  | XComment _ t => plain_comment t
  | XDoc _ _ => True
  | XAlt _ _ => True
  | XStmt d => xstmt_ok d
  end.

(* ---------- the loop over the documentation blocks before a statement ---------- *)

Lemma app_nonempty {A} (a b : list A) : a <> [] -> a ++ b <> [].
Proof. destruct a; [congruence|discriminate]. Qed.

Lemma snoc_ne {A} (a : list A) x : a ++ [x] <> [].
Proof. destruct a; discriminate. Qed.

Lemma loop4_prelines pd rest : forall db rest',
  db <> [] -> Forall preline_ok rest ->
  loop default_cfg (mk_ga db pd 0) (pre_st true 0) (map render_preline rest ++ rest')
  = loop default_cfg (mk_ga (db ++ flat_map preline_docs rest) pd 0) (pre_st true 0) rest'.
Proof.
  induction rest as [|p rest IH]; intros db rest' Hdb Hok.
  - simpl. now rewrite app_nil_r.
  - inversion Hok as [|? ? Hp Hr]; subst. cbn [map app loop flat_map].
    destruct p as [i t|n|i t]; cbn [render_preline preline_docs].
    + rewrite step4_doc. cbn [negb]. rewrite IH; [|apply snoc_ne|exact Hr]. now rewrite <- app_assoc.
    + rewrite step4_pre_blank by exact Hdb. now rewrite IH.
    + rewrite step4_pre_comment by assumption. now rewrite IH.
Qed.

Lemma loop4_altlines pd rest : forall db k rest',
  db <> [] -> 2 <= k -> Forall altline_ok rest ->
  loop default_cfg (mk_ga db pd 0) (pre_st false k) (map render_altline rest ++ rest')
  = loop default_cfg (mk_ga (db ++ alt_docs rest) pd 0) (pre_st false (k + length rest)) rest'.
Proof.
  induction rest as [|a rest IH]; intros db k rest' Hdb Hk Hok.
  - simpl. now rewrite app_nil_r, Nat.add_0_r.
  - inversion Hok as [|? ? Ha Hr]; subst. cbn [map app loop length].
    destruct a as [i t|n]; cbn [render_altline alt_docs].
    + rewrite step4_prealt_line by assumption. rewrite IH; [|apply snoc_ne|lia|exact Hr].
      rewrite <- app_assoc. cbn [app]. now replace (S k + length rest) with (k + S (length rest)) by lia.
    + rewrite step4_prealt_blank by assumption. rewrite IH; [|exact Hdb|lia|exact Hr].
      now replace (S k + length rest) with (k + S (length rest)) by lia.
Qed.

Lemma loop4_block pd b : forall db ra rp rpa rest',
  block_ok b ->
  exists rp' rpa',
  loop default_cfg (mk_ga db pd ra) (pre_st rp rpa) (render_preblock b ++ rest')
  = loop default_cfg (mk_ga (db ++ block_docs b) pd 0) (pre_st rp' rpa') rest'.
Proof.
  intros db ra rp rpa rest' Hok. destruct b as [i t rest|i t rest]; cbn [render_preblock app loop block_ok] in *.
  - exists true, 0. rewrite step4_pre. rewrite loop4_prelines; [|apply snoc_ne|exact Hok].
    cbn [block_docs]. now rewrite <- app_assoc.
  - exists false, (2 + length rest). rewrite step4_prealt. rewrite loop4_altlines; [|apply snoc_ne|lia|exact Hok].
    cbn [block_docs]. now rewrite <- app_assoc.
Qed.

Lemma loop4_blocks pd bs : forall db ra rp rpa rest',
  Forall block_ok bs ->
  exists ra' rp' rpa',
  loop default_cfg (mk_ga db pd ra) (pre_st rp rpa) (flat_map render_preblock bs ++ rest')
  = loop default_cfg (mk_ga (db ++ flat_map block_docs bs) pd ra') (pre_st rp' rpa') rest'.
Proof.
  induction bs as [|b bs IH]; intros db ra rp rpa rest' Hok.
  - exists ra, rp, rpa. simpl. now rewrite app_nil_r.
  - inversion Hok as [|? ? Hb Hr]; subst. cbn [flat_map map]. rewrite <- app_assoc.
    destruct (loop4_block pd b db ra rp rpa (flat_map render_preblock bs ++ rest') Hb) as (rp1 & rpa1 & E1).
    rewrite E1.
    destruct (IH (db ++ block_docs b) 0 rp1 rpa1 rest' Hr) as (ra2 & rp2 & rpa2 & E2).
    rewrite E2. exists ra2, rp2, rpa2. now rewrite <- app_assoc.
Qed.

Lemma loop4_stmt pd ra d rest :
  xstmt_ok d ->
  loop default_cfg (mk_ga [] pd ra) linit (render_xitem (XStmt d) ++ rest)
  = LDone (mk_ga (stmt_docs d) pd 0) (done_state (" "%char :: xs_text d)) rest.
Proof.
  intros (Ht & Hb). cbn [render_xitem]. rewrite <- app_assoc.
  change linit with (pre_st false 0).
  destruct (loop4_blocks pd (xs_pre d) [] ra false 0
              ([spaces (xs_ind d) ++ xs_text d ++ spaces (xs_trail d) ++ render_tail (xs_tail d)] ++ rest) Hb)
    as (ra' & rp' & rpa' & E).
  etransitivity; [exact E|]. cbn [app loop]. rewrite (step4_stmt _ pd ra' rp' rpa' _ _ _ _ Ht). reflexivity.
Qed.

(* ---------- what the iterator yields after a run ---------- *)

Lemma emit4_one pd ra d :
  emit default_cfg (mk_ga [d] pd ra) linit
  = Some ([d], mk_ga [] (if str_eqb d (docl []) then pd else true) ra).
Proof. reflexivity. Qed.

Lemma docl_empty_eqb pd t : (if str_eqb (docl t) (docl []) then pd else true) = pd_after pd t.
Proof.
  destruct t as [|c t']; [now rewrite str_eqb_refl|]. unfold docl. cbn [str_eqb].
  rewrite !Ascii.eqb_refl. reflexivity.
Qed.

Lemma emit4_stmt db pd text :
  good_head (" "%char :: text) ->
  emit default_cfg (mk_ga db pd 0) (done_state (" "%char :: text))
  = Some (stmts_of (" "%char :: text) ++ db, mk_ga [] (match db with [] => false | _ => true end) 0).
Proof. exact (emit_stmt db pd text). Qed.

Lemma text_good_head text tl : text_ok text tl -> good_head (" "%char :: text).
Proof.
  intros (Hf & _ & _ & _ & Hs & _). destruct text as [|c y]; [destruct Hf|].
  exists c, y. split; [now left|]. split; [exact Hf|]. unfold head_is in Hs. now rewrite Ascii.eqb_sym.
Qed.

(* ---------- whole files ---------- *)

Definition in_alt (ra : nat) : bool := 2 <=? ra.

Lemma read4_fuel f : forall fuel pd ra acc,
  (ra = 0 \/ 2 <= ra) -> Forall xitem_ok f -> length (render_xfile f) < fuel ->
  read_fuel fuel default_cfg (mk_ga [] pd ra) (render_xfile f) acc
  = ROk (acc ++ doc_out4 pd (in_alt ra) f).
Proof.
  induction f as [|it f IH]; intros fuel pd ra acc Hra Hok Hfuel.
  - destruct fuel; [simpl in Hfuel; lia|]. simpl. now rewrite app_nil_r.
  - inversion Hok as [|? ? Hit Hf]; subst.
    unfold render_xfile in *. cbn [flat_map] in *. fold (render_xfile f) in *.
    rewrite app_length in Hfuel.
    destruct it as [n|i t|i t|i t|d]; cbn [render_xitem app length doc_out4] in *.
    + (* blank line *)
      destruct fuel as [|fuel]; [lia|]. destruct pd.
      * cbn [read_fuel loop]. rewrite step4_blank_top. rewrite emit4_one, str_eqb_refl.
        rewrite (IH fuel true 0 (acc ++ [docl []]) (or_introl eq_refl) Hf) by lia.
        now rewrite <- app_assoc.
      * specialize (IH (S fuel) false 0 acc (or_introl eq_refl) Hf). cbn [read_fuel loop] in *.
        rewrite step4_blank_top. apply IH. lia.
    + (* comment line *)
      destruct fuel as [|fuel]; [lia|].
      destruct Hra as [->|Hra].
      * change (in_alt 0) with false. cbv iota. destruct pd.
        -- cbn [read_fuel loop]. change (mk_ga [] true 0) with (mk_g [] true).
           unfold cline. rewrite (step_comment_after_doc i t Hit).
           change (mk_g [docl []] true) with (mk_ga [docl []] true 0). rewrite emit4_one, str_eqb_refl.
           rewrite (IH fuel true 0 (acc ++ [docl []]) (or_introl eq_refl) Hf) by lia.
           now rewrite <- app_assoc.
        -- specialize (IH (S fuel) false 0 acc (or_introl eq_refl) Hf). cbn [read_fuel] in *.
           change (mk_ga [] false 0) with (mk_g [] false) in *. unfold cline.
           rewrite (loop_skip_comment (mk_g [] false) i t _ mk_g_clean Hit). apply IH. lia.
      * assert (Ea : in_alt ra = true) by (unfold in_alt; now apply Nat.leb_le).
        rewrite Ea. cbv iota. cbn [read_fuel loop]. rewrite (step4_alt_line pd ra i t Hit Hra).
        rewrite emit4_one, docl_empty_eqb.
        rewrite (IH fuel _ (S ra) (acc ++ [docl t]) (or_intror (le_S _ _ Hra)) Hf) by lia.
        assert (Ea' : in_alt (S ra) = true) by (unfold in_alt; apply Nat.leb_le; lia).
        rewrite Ea'. now rewrite <- app_assoc.
    + (* "!!" line *)
      destruct fuel as [|fuel]; [lia|]. cbn [read_fuel loop].
      change linit with (pre_st false 0). rewrite step4_doc. cbn [negb app]. change (pre_st false 0) with linit.
      rewrite emit4_one, docl_empty_eqb.
      rewrite (IH fuel _ 0 (acc ++ [docl t]) (or_introl eq_refl) Hf) by lia.
      now rewrite <- app_assoc.
    + (* "!*" line *)
      destruct fuel as [|fuel]; [lia|]. cbn [read_fuel loop]. rewrite step4_alt.
      rewrite emit4_one, docl_empty_eqb.
      rewrite (IH fuel _ 2 (acc ++ [docl t]) (or_intror (le_n 2)) Hf) by lia.
      now rewrite <- app_assoc.
    + (* a statement with its documentation *)
      destruct fuel as [|fuel]; [lia|]. cbn [read_fuel].
      change (flat_map render_preblock (xs_pre d)
              ++ [spaces (xs_ind d) ++ xs_text d ++ spaces (xs_trail d) ++ render_tail (xs_tail d)])
        with (render_xitem (XStmt d)).
      rewrite (loop4_stmt pd ra d _ Hit).
      rewrite (emit4_stmt _ pd _ (text_good_head _ _ (proj1 Hit))).
      assert (Hlen : 1 <= length (render_xitem (XStmt d))).
      { cbn [render_xitem]. rewrite app_length. simpl. lia. }
      rewrite (IH fuel _ 0 _ (or_introl eq_refl) Hf) by (cbn [render_xitem] in *; lia).
      now rewrite <- !app_assoc.
Qed.

(* C03, reader, all four styles: for every layout of the class, the documentation written for a
   statement — "!>" blocks (with "!!" lines; ordinary comments and blank lines inside are skipped)
   and "!|" blocks (every comment line up to the statement; blank lines inside do not end the
   block) before it, in order, then its inline "!!" text — follows the statement, rewritten to the
   plain marker; "!!" lines and "!*" blocks (the "!*" line and the comment lines immediately after
   it) on their own are delivered in order; ordinary comments never appear *)
Theorem reader_docs4 f :
  Forall xitem_ok f ->
  read_all default_cfg (render_xfile f) = ROk (doc_out4 false false f).
Proof.
  intros H. unfold read_all. change ginit with (mk_ga [] false 0).
  rewrite (read4_fuel f _ false 0 [] (or_introl eq_refl) H (Nat.lt_succ_diag_r _)). reflexivity.
Qed.

Definition mkx (pre : list preblock) (i : nat) (t : str) (tr : nat) (tl : tail) : xstmt :=
  {| xs_pre := pre; xs_ind := i; xs_text := t; xs_trail := tr; xs_tail := tl |}.

(* the two block forms differ at a blank line: it does not end a "!|" block (the comment after it
   is still documentation of x), it does end a "!*" block *)
Definition prealt_blank : list xitem :=
  [XStmt (mkx [PBAlt 0 (s " about x") [ALBlank 0; ALComment 0 (s " more")]] 0 (s "x = 1") 0 TNone);
   XAlt 0 (s " after x"); XBlank 0; XComment 0 (s " ordinary"); XStmt (mkx [] 0 (s "y = 2") 0 TNone)].

Example prealt_blank_ok :
  Forall xitem_ok prealt_blank /\
  render_xfile prealt_blank
  = [s "!| about x"; s ""; s "! more"; s "x = 1"; s "!* after x"; s ""; s "! ordinary"; s "y = 2"] /\
  read_all default_cfg (render_xfile prealt_blank)
  = ROk [s "x = 1"; s "!! about x"; s "!! more"; s "!! after x"; s "!!"; s "!!"; s "y = 2"].
Proof.
  split; [|split; vm_compute; reflexivity].
  repeat constructor; simpl; repeat split; try reflexivity; try discriminate.
Qed.

(* ---------- the two-style class of ReaderDocSpec is a part of this one ---------- *)

Lemma embed_render f : render_xfile (map embed f) = render_doc_file f.
Proof.
  unfold render_xfile, render_doc_file. induction f as [|it f IH]; [reflexivity|].
  cbn [map flat_map]. rewrite IH. f_equal.
  destruct it as [n|i t|i t|d]; try reflexivity.
  cbn [embed render_xitem render_ditem embed_stmt xs_pre xs_ind xs_text xs_trail xs_tail]. f_equal.
  induction (ds_pre d) as [|[i t] l IHl]; [reflexivity|]. cbn [map flat_map render_preblock app fst snd].
  now rewrite IHl.
Qed.

Lemma embed_docs d : stmt_docs (embed_stmt d) = map (fun p => docl (snd p)) (ds_pre d) ++ tail_docs (ds_tail d).
Proof.
  unfold stmt_docs. cbn [embed_stmt xs_pre xs_tail]. f_equal.
  induction (ds_pre d) as [|[i t] l IHl]; [reflexivity|]. cbn [map flat_map block_docs app fst snd].
  now rewrite IHl.
Qed.

Lemma embed_out f : forall pd, doc_out4 pd false (map embed f) = doc_out pd f.
Proof.
  induction f as [|it f IH]; intros pd; [reflexivity|].
  destruct it as [n|i t|i t|d]; cbn [map embed doc_out4 doc_out]; rewrite ?IH; try reflexivity.
  rewrite embed_docs. reflexivity.
Qed.

Lemma embed_ok it : ditem_ok it -> xitem_ok (embed it).
Proof.
  destruct it as [n|i t|i t|d]; cbn [embed ditem_ok xitem_ok]; auto.
  intros H. split; [exact H|]. cbn [embed_stmt xs_pre].
  induction (ds_pre d) as [|p l IHl]; constructor; [constructor|exact IHl].
Qed.

(* so the two-style theorem is an instance of the four-style one *)
Corollary reader_docs_from4 f :
  Forall ditem_ok f ->
  read_all default_cfg (render_doc_file f) = ROk (doc_out false f).
Proof.
  intros H. rewrite <- embed_render, <- embed_out. apply reader_docs4.
  rewrite Forall_forall in *. intros x Hx. apply in_map_iff in Hx as (it & <- & Hit).
  apply (embed_ok it (H it Hit)).
Qed.

(* ---------- non-vacuity ---------- *)

(* a file mixing all four styles *)
Definition example_docs4 : list xitem :=
  [XComment 0 (s " header");
   XStmt (mkx [PBAlt 0 (s " about m") [ALComment 0 (s " more about m"); ALComment 2 (s ""); ALComment 0 (s "   indented")]]
              0 (s "module m") 0 TNone);
   XAlt 2 (s " after m, a block");
   XComment 2 (s " second line of the block");
   XComment 2 (s "");
   XBlank 0;
   XComment 2 (s " an ordinary comment");
   XStmt (mkx [PBPre 2 (s " pre for x") [PLDoc 2 (s " with a plain-marked line"); PLComment 2 (s " ordinary"); PLBlank 0];
               PBAlt 2 (s " then an alternate block") [ALComment 2 (s " its second line"); ALBlank 1]]
              2 (s "integer :: x") 1 (TDoc (s " and inline ! text")));
   XDoc 4 (s " a following line for x");
   XStmt (mkx [] 2 (s "call f('a!b') ; y = 1") 0 (TComment (s " ordinary trailing")));
   XAlt 2 (s "");
   XComment 2 (s " block for the call");
   XStmt (mkx [PBAlt 0 (s " one") []; PBPre 0 (s " two") []; PBAlt 0 (s " three") [ALBlank 0; ALBlank 2]]
              0 (s "end module m") 0 TNone);
   XComment 0 (s " trailer")].

Example example_docs4_ok :
  Forall xitem_ok example_docs4 /\
  render_xfile example_docs4
  = [s "! header";
     s "!| about m"; s "! more about m"; s "  !"; s "!   indented"; s "module m";
     s "  !* after m, a block"; s "  ! second line of the block"; s "  !"; s ""; s "  ! an ordinary comment";
     s "  !> pre for x"; s "  !! with a plain-marked line"; s "  ! ordinary"; s "";
     s "  !| then an alternate block"; s "  ! its second line"; s " ";
     s "  integer :: x !! and inline ! text"; s "    !! a following line for x";
     s "  call f('a!b') ; y = 1! ordinary trailing"; s "  !*"; s "  ! block for the call";
     s "!| one"; s "!> two"; s "!| three"; s ""; s "  "; s "end module m"; s "! trailer"] /\
  read_all default_cfg (render_xfile example_docs4)
  = ROk [s "module m"; s "!! about m"; s "!! more about m"; s "!!"; s "!!   indented";
         s "!! after m, a block"; s "!! second line of the block"; s "!!"; s "!!"; s "!!";
         s "integer :: x"; s "!! pre for x"; s "!! with a plain-marked line"; s "!! then an alternate block";
         s "!! its second line"; s "!! and inline ! text"; s "!! a following line for x";
         s "call f('a!b')"; s "y = 1"; s "!!"; s "!! block for the call";
         s "end module m"; s "!! one"; s "!! two"; s "!! three"; s "!!"].
Proof.
  split; [|split; vm_compute; reflexivity].
  repeat constructor; simpl; repeat split; try reflexivity; try discriminate.
Qed.
