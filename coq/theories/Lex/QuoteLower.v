(* Lex/QuoteLower.v — what the project option `lower` means for a statement (settings: "convert all
   non-string and non-comment source code to lower case"): the characters inside character
   literals stay as written, the code around them is lower-cased.  Definitions only. *)
From Ford Require Import Base.Str Lex.Quote.

(* state: None = outside a literal, Some q = inside a literal opened by q (a doubled delimiter
   leaves the literal and re-enters it at once) *)
Fixpoint lower_from (q : option ascii) (x : str) : str :=
  match x with
  | [] => []
  | c :: x' =>
    match q with
    | None => if is_quote c then c :: lower_from (Some c) x' else lower_ch c :: lower_from None x'
    | Some d => c :: lower_from (if Ascii.eqb c d then None else q) x'
    end
  end.
Definition lower_outside (x : str) : str := lower_from None x.
