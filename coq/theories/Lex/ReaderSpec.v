(* Lex/ReaderSpec.v — the specification side of C02: what Fortran's free-form lexical rules say
   a physical layout means.  Written from the property text, not from FORD's code.
   Executable definitions only. *)
From Ford Require Import Base.Str Lex.Quote.

(* A logical line is a character stream built from pieces. *)
Inductive piece :=
| PCode (t : str)              (* characters of code: no blank, quote, '!', ';', '&' *)
| PLit (q : ascii) (body : str) (* a character literal with delimiter q and arbitrary body *)
| PSp (n : nat)                 (* n blanks *)
| PSemi.                        (* statement separator *)

Definition spaces (n : nat) : str := repeat " "%char n.

(* the body with every delimiter doubled *)
Definition escape_body (q : ascii) (body : str) : str :=
  flat_map (fun c => if Ascii.eqb c q then [q; q] else [c]) body.

Definition render_piece (p : piece) : str :=
  match p with
  | PCode t => t
  | PLit q body => q :: escape_body q body ++ [q]
  | PSp n => spaces n
  | PSemi => [semi]
  end.
Definition render_pieces (ps : list piece) : str := flat_map render_piece ps.

(* Canonical form of a statement: blank runs outside literals collapse to one blank, leading
   and trailing blanks go; literal text is untouched. State: literal delimiter, pending blank. *)
Fixpoint canon_go (q : option ascii) (pend : bool) (started : bool) (x : str) : str :=
  match x with
  | [] => []
  | c :: x' =>
    match q with
    | Some d => c :: canon_go (if Ascii.eqb c d then None else q) false true x'
    | None =>
      if is_quote c then (if pend && started then [" "%char; c] else [c]) ++ canon_go (Some c) false true x'
      else if Ascii.eqb c " "%char || Ascii.eqb c "009"%char then canon_go None true started x'
      else (if pend && started then [" "%char; c] else [c]) ++ canon_go None false true x'
    end
  end.
Definition canon (x : str) : str := canon_go None false false x.

(* the statements of a logical line: split at PSemi, canonical text, empty statements dropped *)
Fixpoint split_semi (ps : list piece) (cur : list piece) : list (list piece) :=
  match ps with
  | [] => [rev cur]
  | PSemi :: ps' => rev cur :: split_semi ps' []
  | p :: ps' => split_semi ps' (p :: cur)
  end.
Definition statements (ps : list piece) : list str :=
  filter (fun x => match x with [] => false | _ => true end) (map (fun g => canon (render_pieces g)) (split_semi ps [])).
