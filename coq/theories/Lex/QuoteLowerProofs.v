(* Lex/QuoteLowerProofs.v — the parser's literal masking commutes with the option `lower`:
   lower-casing the masked statement and putting the literals back gives the statement with its
   code lower-cased and every literal verbatim (C02, parser level).  Built on Lex/Mask.v. *)
From Ford Require Import Base.Str Lex.Quote Lex.QuoteLower Lex.Mask Lex.MaskProofs.

Lemma is_quote_same c : Quote.is_quote c = Mask.is_quote c.
Proof. reflexivity. Qed.

Lemma lower_from_code c : forall rest,
  no_quote c = true -> lower_from None (c ++ rest) = lower c ++ lower_from None rest.
Proof.
  induction c as [|a c IH]; intros rest H; [reflexivity|].
  cbn [no_quote forallb] in H. apply andb_true_iff in H as [Ha Hc].
  cbn [app lower_from lower map]. apply negb_true_iff in Ha. rewrite is_quote_same, Ha.
  f_equal. apply IH. exact Hc.
Qed.

Lemma lower_from_body q b : forall rest,
  Mask.is_quote q = true ->
  lower_from (Some q) (Mask.escape_body q b ++ q :: rest) = Mask.escape_body q b ++ q :: lower_from None rest.
Proof.
  intros rest Q. induction b as [|c b IH].
  - cbn [Mask.escape_body app lower_from]. now rewrite Ascii.eqb_refl.
  - cbn [Mask.escape_body]. unfold ch_eqb. destruct (Ascii.eqb c q) eqn:E.
    + cbn [app lower_from]. rewrite Ascii.eqb_refl, is_quote_same, Q. now rewrite IH.
    + cbn [app lower_from]. rewrite E. now rewrite IH.
Qed.

Lemma lower_from_lit q b rest :
  Mask.is_quote q = true ->
  lower_from None (render_lit q b ++ rest) = render_lit q b ++ lower_from None rest.
Proof.
  intros Q. unfold render_lit. cbn [app lower_from]. rewrite is_quote_same, Q.
  rewrite <- app_assoc. cbn [app]. rewrite lower_from_body by exact Q.
  rewrite <- app_assoc. reflexivity.
Qed.

(* the Spec side in closed form: code lower-cased, literals verbatim *)
Theorem lower_outside_render segs : forall first tail,
  wf_segs first segs = true -> no_quote tail = true ->
  lower_outside (render segs tail) = render_with (fun x => x) (lower_segs segs) (lower tail).
Proof.
  unfold lower_outside. induction segs as [|[[c q] b] r IH]; intros first tail W T.
  - cbn [render lower_segs map render_with]. rewrite <- (app_nil_r tail) at 1.
    rewrite lower_from_code by exact T. cbn [lower_from]. now rewrite app_nil_r.
  - cbn [wf_segs] in W. apply andb_true_iff in W as [W Wr]. apply andb_true_iff in W as [W _].
    apply andb_true_iff in W as [Wc Wq].
    cbn [render lower_segs map render_with].
    rewrite lower_from_code by exact Wc. rewrite lower_from_lit by exact Wq.
    f_equal. f_equal. apply (IH false tail Wr T).
Qed.

Lemma keeps_literals_id : keeps_literals (fun x => x).
Proof. intros q b _. now exists b. Qed.

(* masking, then `lower`, then unmasking = the statement with its code lower-cased and every
   literal (any body, any number of literals, both delimiters, doubled delimiters) verbatim *)
Theorem mask_lower_unmask segs tail :
  wf_line segs tail = true ->
  mask (render segs tail) = Some (render_masked 0 segs tail, lits segs) /\
  unmask_in (fun x => x) (lits segs) (lower (render_masked 0 segs tail))
  = Some (lower_outside (render segs tail)).
Proof.
  intros W. split; [now apply mask_spec|].
  rewrite (lower_keeps_literals (fun x => x) segs tail keeps_literals_id W).
  unfold wf_line in W. apply andb_true_iff in W as [W T].
  now rewrite (lower_outside_render segs true tail W T).
Qed.

Example mask_lower_unmask_example :
  let segs := [(s "Character(LEN=*), PARAMETER :: V = ", dq, s "Hello; World ! It's ""Me"" & Co");
               (s " // TRIM(", sq, s "It's"); (s ") // ", sq, s "")] in
  wf_line segs (s " ! C") = true /\
  lower_outside (render segs (s " ! C"))
  = s "character(len=*), parameter :: v = ""Hello; World ! It's """"Me"""" & Co"" // trim('It''s') // '' ! c".
Proof. cbv zeta. split; vm_compute; reflexivity. Qed.
