(* Lex/ReaderDocProofs.v — each statement is followed by exactly its documentation (C03, reader) *)
From Ford Require Import Base.Str Base.StrFacts Lex.Quote Lex.Reader Lex.ReaderSpec Lex.QuoteProofs
  Lex.ReaderProofs Lex.ReaderDocSpec.
From Coq Require Import Lia.

Definition quiet (g : gstate) : Prop := reading_alt g = 0.

Definition mk_g (db : list str) (pd : bool) : gstate := {| docbuffer := db; prevdoc := pd; reading_alt := 0 |}.
Definition pre_state (rp : bool) : lstate :=
  {| continued := false; reading_predoc := rp; reading_predoc_alt := 0; linebuffer := [] |}.

Lemma spaces_length n : length (spaces n) = n.
Proof. unfold spaces. apply repeat_length. Qed.

Lemma first_bang_spaces i x : first_bang (spaces i ++ bang :: x) = Some i.
Proof.
  unfold first_bang. rewrite first_bang_skip; [|exact I|apply bang_free_spaces].
  rewrite (qrun_no_quote None (spaces i)) by apply spaces_no_quote. simpl.
  f_equal. rewrite spaces_length. lia.
Qed.

Lemma skipn_spaces i x : skipn i (spaces i ++ x) = x.
Proof.
  rewrite skipn_app. rewrite <- (spaces_length i) at 1. rewrite skipn_all.
  rewrite spaces_length, Nat.sub_diag. reflexivity.
Qed.

Lemma firstn_spaces i x : firstn i (spaces i ++ x) = spaces i.
Proof.
  rewrite firstn_app. rewrite <- (spaces_length i) at 1. rewrite firstn_all.
  rewrite spaces_length, Nat.sub_diag. simpl. now rewrite app_nil_r.
Qed.

Lemma strip_head_bang i x : first_is hash (strip (spaces i ++ bang :: x)) = false.
Proof. destruct (strip_head i bang x eq_refl) as [y' E]. rewrite E. reflexivity. Qed.

Lemma is_blank_spaces n : is_blank (spaces n) = true.
Proof. unfold is_blank. now rewrite strip_spaces. Qed.

(* a documentation line on its own ("!!t"), read at the start of a loop run *)
Lemma step_doc_line pd i t :
  step default_cfg (mk_g [] pd) linit (spaces i ++ bang :: bang :: t) = SNext (mk_g [docl t] pd) linit true.
Proof.
  set (line0 := spaces i ++ bang :: bang :: t).
  assert (Hfb : first_bang line0 = Some i) by apply first_bang_spaces.
  assert (Esk : skipn i line0 = bang :: bang :: t) by apply skipn_spaces.
  assert (Hfn : firstn i line0 = spaces i) by apply firstn_spaces.
  assert (Hm1 : match_mark [">"%char] line0 None = None) by (rewrite match_mark_outside, Hfb, Esk; reflexivity).
  assert (Hm2 : match_mark ["|"%char] line0 None = None) by (rewrite match_mark_outside, Hfb, Esk; reflexivity).
  assert (Hm3 : match_mark ["*"%char] line0 None = None) by (rewrite match_mark_outside, Hfb, Esk; reflexivity).
  assert (Hm4 : match_mark ["!"%char] line0 None = Some i) by (rewrite match_mark_outside, Hfb, Esk; reflexivity).
  assert (Hfb2 : match_com (spaces i) None = None).
  { rewrite match_com_outside. apply first_bang_none; [exact I|apply bang_free_spaces]. }
  unfold step. cbn [mk_g linit docbuffer prevdoc reading_alt continued reading_predoc reading_predoc_alt linebuffer
                    docmark predocmark docmark_alt predocmark_alt default_cfg].
  fold line0. unfold line0 at 1. rewrite strip_head_bang.
  change (qstate []) with (@None ascii).
  change (s ">") with [">"%char]. change (s "|") with ["|"%char].
  change (s "*") with ["*"%char]. change (s "!") with ["!"%char].
  rewrite Hm1, Hm2, Hm3, Hm4. cbv beta iota zeta. rewrite Hfn, Esk, is_blank_spaces, Hfb2, strip_spaces.
  cbn [app orb andb negb first_is Nat.ltb Nat.leb Nat.eqb]. rewrite ?andb_false_r.
  cbn [app orb andb negb first_is Nat.ltb Nat.leb Nat.eqb]. reflexivity.
Qed.

Ltac unfold_step line0 :=
  unfold step;
  cbn [mk_g pre_state linit docbuffer prevdoc reading_alt continued reading_predoc reading_predoc_alt linebuffer
       docmark predocmark docmark_alt predocmark_alt default_cfg];
  fold line0;
  change (qstate []) with (@None ascii);
  change (s ">") with [">"%char]; change (s "|") with ["|"%char];
  change (s "*") with ["*"%char]; change (s "!") with ["!"%char].

Ltac tidy := cbn [app orb andb negb first_is Nat.ltb Nat.leb Nat.eqb length]; rewrite ?andb_false_r, ?andb_true_r, ?orb_true_r;
             cbn [app orb andb negb first_is Nat.ltb Nat.leb Nat.eqb length].

(* a line of preceding documentation ("!>t") *)
Lemma step_predoc_line db pd rp i t :
  step default_cfg (mk_g db pd) (pre_state rp) (spaces i ++ bang :: ">"%char :: t)
  = SNext (mk_g (db ++ [docl t]) pd) (pre_state true) false.
Proof.
  set (line0 := spaces i ++ bang :: ">"%char :: t).
  assert (Hfb : first_bang line0 = Some i) by apply first_bang_spaces.
  assert (Esk : skipn i line0 = bang :: ">"%char :: t) by apply skipn_spaces.
  assert (Hfn : firstn i line0 = spaces i) by apply firstn_spaces.
  assert (Hm1 : match_mark [">"%char] line0 None = Some i) by (rewrite match_mark_outside, Hfb, Esk; reflexivity).
  assert (Hm2 : match_mark ["|"%char] line0 None = None) by (rewrite match_mark_outside, Hfb, Esk; reflexivity).
  assert (Hm3 : match_mark ["*"%char] line0 None = None) by (rewrite match_mark_outside, Hfb, Esk; reflexivity).
  assert (Hm4 : match_mark ["!"%char] line0 None = None) by (rewrite match_mark_outside, Hfb, Esk; reflexivity).
  assert (Hcom : match_com line0 None = Some i) by exact Hfb.
  assert (Hrm : remark default_cfg line0 i (length [">"%char]) = docl t).
  { unfold remark, docl. cbn [default_cfg docmark length]. change (s "!") with ["!"%char].
    unfold line0. rewrite skipn_app, spaces_length.
    rewrite (skipn_all2 (spaces i)) by (rewrite spaces_length; lia).
    replace (i + 1 + 1 - i) with 2 by lia. reflexivity. }
  assert (Hnb : is_blank line0 = false).
  { unfold is_blank, line0. destruct (strip_head i bang (">"%char :: t) eq_refl) as [y' E]. now rewrite E. }
  assert (Hfi : first_is bang (strip line0) = true).
  { unfold line0. destruct (strip_head i bang (">"%char :: t) eq_refl) as [y' E]. rewrite E. reflexivity. }
  unfold_step line0. unfold line0 at 1. rewrite strip_head_bang.
  rewrite Hm1, Hm2, Hm3, Hm4. cbv beta iota zeta. rewrite Hrm, Hfn, is_blank_spaces.
  cbn [negb]. cbv beta iota zeta. rewrite Hnb, Hfi, Hcom. cbv beta iota zeta.
  rewrite Hfn, is_blank_spaces, strip_spaces. tidy.
  destruct (db ++ [docl t]) eqn:E; [destruct db; discriminate|]. tidy. reflexivity.
Qed.

(* a blank or ordinary comment line right after documentation yields an empty documentation line *)
Lemma step_blank_after_doc n :
  step default_cfg (mk_g [] true) linit (spaces n) = SNext (mk_g [docl []] true) linit true.
Proof.
  set (line0 := spaces n).
  assert (Hfb : first_bang line0 = None) by (apply first_bang_none; [exact I|apply bang_free_spaces]).
  assert (Hm : forall m, match_mark m line0 None = None).
  { intros m. destruct m; [reflexivity|]. now rewrite match_mark_outside, Hfb. }
  assert (Hcom : match_com line0 None = None) by exact Hfb.
  unfold_step line0. unfold line0 at 1. rewrite strip_spaces. cbn [first_is].
  rewrite !Hm. cbv beta iota zeta. rewrite !if_same, Hcom. unfold line0. rewrite strip_spaces. tidy. reflexivity.
Qed.

Lemma step_comment_after_doc i t : plain_comment t ->
  step default_cfg (mk_g [] true) linit (spaces i ++ bang :: t) = SNext (mk_g [docl []] true) linit true.
Proof.
  intros Hp. set (line0 := spaces i ++ bang :: t).
  assert (Hfb : first_bang line0 = Some i) by apply first_bang_spaces.
  assert (Esk : skipn i line0 = bang :: t) by apply skipn_spaces.
  assert (Hfn : firstn i line0 = spaces i) by apply firstn_spaces.
  assert (Hm : forall m, In m ["!"%char; ">"%char; "*"%char; "|"%char] -> match_mark [m] line0 None = None).
  { intros m Hin. rewrite match_mark_outside, Hfb. now rewrite (plain_no_mark t i line0 Hp Esk m Hin). }
  assert (Hcom : match_com line0 None = Some i) by exact Hfb.
  unfold_step line0. unfold line0 at 1. rewrite strip_head_bang.
  rewrite (Hm ">"%char) by (simpl; tauto). rewrite (Hm "|"%char) by (simpl; tauto).
  rewrite (Hm "*"%char) by (simpl; tauto). rewrite (Hm "!"%char) by (simpl; tauto).
  cbv beta iota zeta. rewrite !if_same, Hcom. tidy. rewrite Hfn, strip_spaces. tidy. reflexivity.
Qed.

Definition stmt_ok (d : dstmt) : Prop :=
  nsfirst (ds_text d) /\ nslast (ds_text d) /\
  head_is hash (ds_text d) = false /\ head_is amp (ds_text d) = false /\ head_is semi (ds_text d) = false /\
  bang_free None (ds_text d) = true /\ last_is amp (ds_text d) = false /\
  match ds_tail d with
  | TNone => True
  | TComment t => qrun None (ds_text d) = None /\ plain_comment t
  | TDoc _ => qrun None (ds_text d) = None
  end.

Lemma len3 a (x : str) b : length (spaces a ++ x ++ spaces b) = a + length x + b.
Proof. rewrite !app_length, !spaces_length. lia. Qed.

(* the statement line itself: after any number of "!>" lines, with a trailing ordinary comment,
   an inline "!!" documentation, or nothing *)
Lemma step_stmt_line db pd rp d :
  stmt_ok d ->
  step default_cfg (mk_g db pd) (pre_state rp)
       (spaces (ds_ind d) ++ ds_text d ++ spaces (ds_trail d) ++ render_tail (ds_tail d))
  = SNext (mk_g (db ++ tail_docs (ds_tail d)) pd) (done_state (" "%char :: ds_text d)) true.
Proof.
  intros (Hf & Hl & Hh & Ha & _ & Hbf & Hla & Htl).
  destruct (ds_text d) as [|ch rest] eqn:Et; [destruct Hf|].
  set (a := ds_ind d) in *. set (text := ch :: rest) in *. set (b := ds_trail d) in *. set (tl := ds_tail d) in *.
  set (line0 := spaces a ++ text ++ spaces b ++ render_tail tl).
  set (k := a + length text + b).
  assert (Hamp : Ascii.eqb ch amp = false).
  { unfold text, head_is in Ha. now rewrite Ascii.eqb_sym. }
  assert (Hhash : first_is hash (strip line0) = false).
  { unfold line0, text. cbn [app].
    destruct (strip_head a ch (rest ++ spaces b ++ render_tail tl) Hf) as [y' E]. rewrite E. exact Hh. }
  assert (Hpre : forall x, first_bang ((spaces a ++ text ++ spaces b) ++ x)
                           = first_bang_from (qrun None text) k x).
  { intros x. unfold first_bang. rewrite <- !app_assoc.
    rewrite first_bang_skip; [|exact I|apply bang_free_spaces].
    rewrite (qrun_no_quote None (spaces a)) by apply spaces_no_quote.
    rewrite first_bang_skip; [|exact I|exact Hbf].
    rewrite first_bang_skip; [|apply qrun_ok; exact I|apply bang_free_spaces].
    rewrite (qrun_no_quote _ (spaces b)) by apply spaces_no_quote.
    f_equal. unfold k. rewrite !spaces_length. lia. }
  assert (Hcore : first_bang (spaces a ++ text ++ spaces b) = None).
  { rewrite <- (app_nil_r (spaces a ++ text ++ spaces b)), Hpre. reflexivity. }
  assert (Hsplit : line0 = (spaces a ++ text ++ spaces b) ++ render_tail tl) by (unfold line0; now rewrite <- !app_assoc).
  assert (Hfn : firstn k line0 = spaces a ++ text ++ spaces b).
  { rewrite Hsplit. unfold k. rewrite <- (len3 a text b), firstn_app, firstn_all, Nat.sub_diag. simpl. now rewrite app_nil_r. }
  assert (Hsk : skipn k line0 = render_tail tl).
  { rewrite Hsplit. unfold k. rewrite <- (len3 a text b), skipn_app, skipn_all, Nat.sub_diag. reflexivity. }
  assert (Hstrip : strip (spaces a ++ text ++ spaces b) = ch :: rest) by now apply strip_pad.
  assert (Hla' : last_is amp (ch :: rest) = false) by exact Hla.
  destruct tl as [|t|t] eqn:Etl; cbn [render_tail tail_docs] in *.
  - (* nothing after the statement *)
    assert (Eline : line0 = spaces a ++ text ++ spaces b) by (unfold line0; now rewrite app_nil_r).
    assert (Hm : forall m, match_mark m line0 None = None).
    { intros m. destruct m; [reflexivity|]. now rewrite match_mark_outside, Eline, Hcore. }
    assert (Hcom : match_com line0 None = None) by (rewrite match_com_outside; now rewrite Eline).
    unfold_step line0. rewrite Hhash, !Hm. cbv beta iota zeta. rewrite !if_same, Hcom.
    rewrite Eline, Hstrip. rewrite app_nil_r. rewrite Hamp, Hla'. change (strip []) with (@nil ascii).
    cbn [app s list_ascii_of_string]. tidy. reflexivity.
  - (* an ordinary comment after the statement *)
    destruct Htl as (Hq & Hp).
    assert (Hfb : first_bang line0 = Some k).
    { rewrite Hsplit, Hpre, Hq. reflexivity. }
    assert (Hm : forall m, In m ["!"%char; ">"%char; "*"%char; "|"%char] -> match_mark [m] line0 None = None).
    { intros m Hin. rewrite match_mark_outside, Hfb. now rewrite (plain_no_mark t k line0 Hp Hsk m Hin). }
    assert (Hcom : match_com line0 None = Some k) by exact Hfb.
    unfold_step line0. rewrite Hhash.
    rewrite (Hm ">"%char) by (simpl; tauto). rewrite (Hm "|"%char) by (simpl; tauto).
    rewrite (Hm "*"%char) by (simpl; tauto). rewrite (Hm "!"%char) by (simpl; tauto).
    cbv beta iota zeta. rewrite !if_same, Hcom. tidy. rewrite Hfn, Hstrip. rewrite app_nil_r.
    rewrite Hamp, Hla'. change (strip []) with (@nil ascii).
    cbn [app s list_ascii_of_string]. tidy. reflexivity.
  - (* inline documentation after the statement *)
    assert (Hfb : first_bang line0 = Some k).
    { rewrite Hsplit, Hpre, Htl. reflexivity. }
    assert (Hm1 : match_mark [">"%char] line0 None = None) by (rewrite match_mark_outside, Hfb, Hsk; reflexivity).
    assert (Hm2 : match_mark ["|"%char] line0 None = None) by (rewrite match_mark_outside, Hfb, Hsk; reflexivity).
    assert (Hm3 : match_mark ["*"%char] line0 None = None) by (rewrite match_mark_outside, Hfb, Hsk; reflexivity).
    assert (Hm4 : match_mark ["!"%char] line0 None = Some k) by (rewrite match_mark_outside, Hfb, Hsk; reflexivity).
    assert (Hcom : match_com (spaces a ++ text ++ spaces b) None = None) by exact Hcore.
    unfold_step line0. rewrite Hhash, Hm1, Hm2, Hm3, Hm4. cbv beta iota zeta.
    rewrite Hfn, Hsk, !if_same, Hcom, Hstrip.
    rewrite Hamp, Hla'. change (strip []) with (@nil ascii).
    cbn [app s list_ascii_of_string]. tidy. reflexivity.
Qed.

(* ---------- what the iterator yields after a loop run ---------- *)

Lemma emit_docs_only pd d ds :
  emit default_cfg (mk_g (d :: ds) pd) linit
  = Some (d :: ds, mk_g [] (match ds with
                            | [] => if str_eqb d (docl []) then pd else true
                            | _ => true
                            end)).
Proof. unfold emit. cbn [linit linebuffer mk_g docbuffer prevdoc reading_alt]. destruct ds; reflexivity. Qed.

Lemma emit_stmt db pd text :
  good_head (" "%char :: text) ->
  emit default_cfg (mk_g db pd) (done_state (" "%char :: text))
  = Some (stmts_of (" "%char :: text) ++ db, mk_g [] (match db with [] => false | _ => true end)).
Proof.
  intros Hg. unfold emit, stmts_of. cbn [done_state linebuffer mk_g docbuffer prevdoc reading_alt].
  unfold nonempty.
  destruct (good_head_split _ Hg) as (y & ys & Eq & Hy). rewrite Eq. cbn [filter].
  destruct y as [|c y]; [congruence|]. cbn [map].
  destruct db; [now rewrite app_nil_r|reflexivity].
Qed.

Lemma stmt_good_head d : stmt_ok d -> good_head (" "%char :: ds_text d).
Proof.
  intros (Hf & _ & _ & _ & Hs & _). destruct (ds_text d) as [|c y]; [destruct Hf|].
  exists c, y. split; [now left|]. split; [exact Hf|]. unfold head_is in Hs. now rewrite Ascii.eqb_sym.
Qed.

(* ---------- the loop over one item ---------- *)

Lemma loop_predocs pre : forall db pd rp rest,
  loop default_cfg (mk_g db pd) (pre_state rp)
       (map (fun p => spaces (fst p) ++ bang :: ">"%char :: snd p) pre ++ rest)
  = loop default_cfg (mk_g (db ++ map (fun p => docl (snd p)) pre) pd)
         (pre_state (match pre with [] => rp | _ => true end)) rest.
Proof.
  induction pre as [|[i t] pre IH]; intros db pd rp rest.
  - simpl. now rewrite app_nil_r.
  - cbn [map app loop fst snd]. rewrite step_predoc_line. rewrite IH.
    rewrite <- app_assoc. destruct pre; reflexivity.
Qed.

Lemma loop_stmt pd d rest :
  stmt_ok d ->
  loop default_cfg (mk_g [] pd) linit (render_ditem (DStmt d) ++ rest)
  = LDone (mk_g (map (fun p => docl (snd p)) (ds_pre d) ++ tail_docs (ds_tail d)) pd)
          (done_state (" "%char :: ds_text d)) rest.
Proof.
  intros Hok. cbn [render_ditem]. rewrite <- app_assoc.
  change linit with (pre_state false). rewrite loop_predocs. cbn [app loop].
  rewrite (step_stmt_line _ pd _ d Hok). reflexivity.
Qed.

Definition ditem_ok (it : ditem) : Prop :=
  match it with
  | DBlank _ => True
  | DComment _ t => plain_comment t
  | DDoc _ _ => True
  | DStmt d => stmt_ok d
  end.

Lemma mk_g_clean : clean (mk_g [] false).
Proof. repeat split. Qed.

Lemma read_docs_fuel f : forall fuel pd acc,
  Forall ditem_ok f -> length (render_doc_file f) < fuel ->
  read_fuel fuel default_cfg (mk_g [] pd) (render_doc_file f) acc = ROk (acc ++ doc_out pd f).
Proof.
  induction f as [|it f IH]; intros fuel pd acc Hok Hfuel.
  - destruct fuel; [simpl in Hfuel; lia|]. simpl. now rewrite app_nil_r.
  - inversion Hok as [|? ? Hit Hf]; subst.
    unfold render_doc_file in *. cbn [flat_map] in *. fold (render_doc_file f) in *.
    rewrite app_length in Hfuel.
    destruct it as [n|i t|i t|d]; cbn [render_ditem app length doc_out] in *.
    + (* blank line *)
      destruct pd.
      * destruct fuel as [|fuel]; [lia|]. cbn [read_fuel loop].
        rewrite step_blank_after_doc. rewrite (emit_docs_only true (docl []) []).
        cbn [str_eqb]. rewrite str_eqb_refl.
        rewrite (IH fuel true (acc ++ [docl []]) Hf) by (fold (render_doc_file f); lia).
        now rewrite <- app_assoc.
      * destruct fuel as [|fuel]; [lia|].
        specialize (IH (S fuel) false acc Hf). cbn [read_fuel] in *.
        change (mk_g [] false) with (mk_g [] false) in *.
        rewrite (loop_skip_blank (mk_g [] false) n _ mk_g_clean). apply IH. fold (render_doc_file f). lia.
    + (* ordinary comment line *)
      destruct pd.
      * destruct fuel as [|fuel]; [lia|]. cbn [read_fuel loop].
        rewrite (step_comment_after_doc i t Hit). rewrite (emit_docs_only true (docl []) []).
        rewrite str_eqb_refl.
        rewrite (IH fuel true (acc ++ [docl []]) Hf) by (fold (render_doc_file f); lia).
        now rewrite <- app_assoc.
      * destruct fuel as [|fuel]; [lia|].
        specialize (IH (S fuel) false acc Hf). cbn [read_fuel] in *.
        rewrite (loop_skip_comment (mk_g [] false) i t _ mk_g_clean Hit). apply IH. fold (render_doc_file f). lia.
    + (* documentation line *)
      destruct fuel as [|fuel]; [lia|]. cbn [read_fuel loop].
      rewrite step_doc_line. rewrite (emit_docs_only pd (docl t) []).
      assert (Epd : (if str_eqb (docl t) (docl []) then pd else true) = match t with [] => pd | _ => true end).
      { destruct t as [|c t']; [now rewrite str_eqb_refl|]. unfold docl. cbn [str_eqb].
        rewrite !Ascii.eqb_refl. reflexivity. }
      rewrite Epd.
      rewrite (IH fuel _ (acc ++ [docl t]) Hf) by (fold (render_doc_file f); lia).
      now rewrite <- app_assoc.
    + (* a statement with its documentation *)
      destruct fuel as [|fuel]; [lia|]. cbn [read_fuel].
      change (map (fun p => spaces (fst p) ++ bang :: ">"%char :: snd p) (ds_pre d)
              ++ [spaces (ds_ind d) ++ ds_text d ++ spaces (ds_trail d) ++ render_tail (ds_tail d)])
        with (render_ditem (DStmt d)).
      rewrite (loop_stmt pd d _ Hit).
      rewrite (emit_stmt _ pd _ (stmt_good_head d Hit)).
      assert (Hlen : 1 <= length (render_ditem (DStmt d))).
      { cbn [render_ditem]. rewrite app_length. simpl. lia. }
      rewrite (IH fuel _ _ Hf) by (fold (render_doc_file f); cbn [render_ditem] in *; lia).
      now rewrite <- !app_assoc.
Qed.

(* C03, reader: every statement is followed by exactly the documentation written for it (the
   "!>" lines before it, in order, then its inline "!!" text), documentation lines on their own
   pass through in order, ordinary comments never appear; whatever the indentation, trailing
   blanks, blank and comment lines in between *)
Theorem reader_docs f :
  Forall ditem_ok f ->
  read_all default_cfg (render_doc_file f) = ROk (doc_out false f).
Proof.
  intros H. unfold read_all. change ginit with (mk_g [] false).
  rewrite (read_docs_fuel f _ false [] H (Nat.lt_succ_diag_r _)). reflexivity.
Qed.

Definition mkd (pre : list (nat * str)) (i : nat) (t : str) (tr : nat) (tl : tail) : dstmt :=
  {| ds_pre := pre; ds_ind := i; ds_text := t; ds_trail := tr; ds_tail := tl |}.

Definition example_docs : list ditem :=
  [DComment 0 (s " header"); DBlank 0;
   DStmt (mkd [(0, s " about m"); (2, s " more about m")] 0 (s "module m") 0 TNone);
   DStmt (mkd [] 2 (s "integer :: x") 1 (TDoc (s " the x ! with a bang")));
   DDoc 4 (s " second line for x"); DBlank 1; DComment 2 (s " ordinary");
   DStmt (mkd [(2, s " pre for s")] 2 (s "call f('a!b') ; y = 1") 0 (TComment (s " ordinary trailing")));
   DStmt (mkd [] 0 (s "end module m") 0 TNone)].

Example example_docs_ok :
  Forall ditem_ok example_docs /\
  read_all default_cfg (render_doc_file example_docs)
  = ROk [s "module m"; s "!! about m"; s "!! more about m";
         s "integer :: x"; s "!! the x ! with a bang"; s "!! second line for x"; s "!!"; s "!!";
         s "call f('a!b')"; s "y = 1"; s "!! pre for s"; s "end module m"].
Proof.
  split; [|vm_compute; reflexivity].
  repeat constructor; simpl; repeat split; try reflexivity; try discriminate.
Qed.

(* documentation written between the lines of a continued literal, and after its closing quote on a
   line that started inside it, is delivered with the statement (outside the one-line statements
   of [ditem]; evaluated) *)
Example docs_around_continued_literal :
  read_all default_cfg [s "x = 'abc&"; s "  !! about x"; s "  &def' !! more"]
  = ROk [s "x = 'abcdef'"; s "!! about x"; s "!! more"] /\
  read_all default_cfg [s "!> pre"; s "x = 'abc&"; s "  ! plain"; s "  &def' ! c"; s "!! after"]
  = ROk [s "x = 'abcdef'"; s "!! pre"; s "!! after"].
Proof. split; vm_compute; reflexivity. Qed.
