(* Lex/FixedSpec.v — fixed source form as the Fortran standard lays it out, and the free-form
   file that means the same (C14).  Written from the property text and the standard's column
   rules, not from FORD's code.  Executable definitions only. *)
From Ford Require Import Base.Str Lex.Quote Lex.ReaderSpec Lex.Fixed.

(* a statement line: label field (columns 1-5), column 6, then the statement field written as
   blanks ++ text ++ blanks, optionally followed by an inline comment "!..." (which may be a
   documentation comment "!!...").  [fx_seq l = Some sq]: the line is longer than 72 columns; its
   statement field fills columns 7-72 and [sq] is what stands in columns 73 and beyond (a sequence
   number, or the rest of an inline comment that runs over column 72). *)
Record fxline := { fx_label : str; fx_c6 : ascii; fx_ind : nat; fx_text : str; fx_pad : nat;
                   fx_comment : option str; fx_seq : option str }.

Definition fx_code (l : fxline) : str := spaces (fx_ind l) ++ fx_text l ++ spaces (fx_pad l).
Definition fx_field (l : fxline) : str := fx_code l ++ render_comment (fx_comment l).
Definition seq_text (l : fxline) : str := match fx_seq l with Some sq => sq | None => [] end.
Definition render_fxline (l : fxline) : str := fx_label l ++ fx_c6 l :: fx_field l ++ seq_text l ++ [nl].

(* the line as the standard reads it when the line length is limited: columns 1-72 *)
Definition cut_line (l : fxline) : fxline :=
  {| fx_label := fx_label l; fx_c6 := fx_c6 l; fx_ind := fx_ind l; fx_text := fx_text l; fx_pad := fx_pad l;
     fx_comment := fx_comment l; fx_seq := None |}.

(* lines that are not statement lines: comment lines (C, c, * or ! in column 1), blank lines of
   any width, and comment lines whose first non-blank character is a '!' in some other column than
   column 6 ([FxBang ind rest]: ind blanks, '!', rest; a '!' in column 6 marks a continuation line) *)
Inductive fxirr := FxComment (c0 : ascii) (rest : str) | FxBlank (n : nat) | FxBang (ind : nat) (rest : str).
Definition render_fxirr (i : fxirr) : str :=
  match i with
  | FxComment c0 rest => c0 :: rest ++ [nl]
  | FxBlank n => spaces n ++ [nl]
  | FxBang ind rest => spaces ind ++ bang :: rest ++ [nl]
  end.

(* a statement: initial line, then continuation lines, each possibly preceded by comment lines
   and blank lines *)
Record fxstmt := { fs_first : fxline; fs_conts : list (list fxirr * fxline) }.
Inductive fxitem := FxIrr (i : fxirr) | FxStmt (st : fxstmt).

Definition render_fxstmt (st : fxstmt) : list str :=
  render_fxline (fs_first st)
  :: flat_map (fun p => map render_fxirr (fst p) ++ [render_fxline (snd p)]) (fs_conts st).
Definition render_fxitem (it : fxitem) : list str :=
  match it with FxIrr i => [render_fxirr i] | FxStmt st => render_fxstmt st end.
Definition render_fixed (f : list fxitem) : list str := flat_map render_fxitem f.

(* ---- character context ----
   The statement fields of the lines of one statement form one character stream; a character
   literal opened on one line may be closed on a later one.  State: None = outside a literal,
   Some q = inside a literal delimited by q (a doubled delimiter closes and reopens it). *)
Definition lit_step (st : option ascii) (c : ascii) : option ascii :=
  match st with
  | Some q => if Ascii.eqb c q then None else st
  | None => if Ascii.eqb c sq || Ascii.eqb c dq then Some c else None
  end.
Fixpoint lit_end (st : option ascii) (x : str) : option ascii :=
  match x with [] => st | c :: x' => lit_end (lit_step st c) x' end.
(* no '!' outside a literal: the text is statement text, not commentary *)
Fixpoint comment_free (st : option ascii) (x : str) : bool :=
  match x with
  | [] => true
  | c :: x' =>
    match st with
    | None => if Ascii.eqb c bang then false else comment_free (lit_step st c) x'
    | Some _ => comment_free (lit_step st c) x'
    end
  end.

(* the texts of the lines of a statement, read in their character context [st]: no '!' outside
   literals, and a line that carries an inline comment ends outside a literal *)
Fixpoint texts_ok (st : option ascii) (l : fxline) (conts : list (list fxirr * fxline)) : Prop :=
  comment_free st (fx_text l) = true /\
  (match fx_comment l with Some _ => lit_end st (fx_text l) = None | None => True end) /\
  match conts with
  | [] => True
  | (_, k) :: conts' => texts_ok (lit_end st (fx_text l)) k conts'
  end.

(* every line break of the statement falls outside character literals *)
Fixpoint closed_breaks (l : fxline) (conts : list (list fxirr * fxline)) : Prop :=
  match conts with
  | [] => True
  | (_, k) :: conts' => lit_end None (fx_text l) = None /\ closed_breaks k conts'
  end.
Definition closed_item (it : fxitem) : Prop :=
  match it with FxIrr _ => True | FxStmt st => closed_breaks (fs_first st) (fs_conts st) end.

(* ---- the free-form equivalent ---- *)

(* the label as free form writes it: the digits followed by one blank; nothing for a blank field *)
Definition label_part (l : fxline) : str :=
  match strip (fx_label l) with [] => [] | d => lower d ++ [" "%char] end.

Definition bline_of (i : fxirr) : bline :=
  match i with
  | FxComment _ rest => BComment 0 rest
  | FxBlank n => BBlank (n - 6)
  | FxBang ind rest => BComment ind rest
  end.

(* the free-form line starts with the label (if any), the blanks and the text of the statement field *)
Definition seg_ind (l : fxline) : nat := match label_part l with [] => fx_ind l | _ => 0 end.
Definition seg_head (l : fxline) : str :=
  match label_part l with [] => [] | lp => lp ++ spaces (fx_ind l) end.
(* its width up to the end of the text *)
Definition text_width (l : fxline) : nat := length (label_part l) + fx_ind l + length (fx_text l).

(* Outside literals a line break is a token boundary: the line is continued with "text &" and the
   continuation line starts with its text (free form joins the two with a blank).  An inline
   comment follows the '&'; blanks at its end are immaterial and are not written.  What stands in
   columns 73+ of a long line is no part of the statement nor of its inline comment: on a line
   without inline comment it is kept as an ordinary comment "! ..." from column 73 on, on a line
   with an inline comment it is left out. *)
Definition cont_comment (l : fxline) : option str :=
  match fx_seq l, fx_comment l with
  | Some sq, None => Some (" "%char :: sq)
  | _, c => option_map rstrip c
  end.
Definition cont_trail (l : fxline) : nat :=
  match fx_seq l, fx_comment l with
  | _, Some _ => 1
  | Some _, None => 72 - (text_width l + 2)
  | None, None => 0
  end.
Definition seg_cont (l : fxline) (between : list fxirr) : seg :=
  {| sg_amp := false; sg_ind := seg_ind l; sg_text := seg_head l ++ fx_text l ++ [" "%char];
     sg_trail := cont_trail l; sg_comment := cont_comment l; sg_between := map bline_of between |}.
(* the last line of a statement *)
Definition last_comment (l : fxline) : option str :=
  match fx_seq l, fx_comment l with
  | None, c => c
  | Some sq, None => Some (" "%char :: sq)
  | Some _, Some t => Some (rstrip t)
  end.
Definition last_trail (l : fxline) : nat :=
  match fx_seq l, fx_comment l with
  | Some _, None => 72 - text_width l
  | _, _ => fx_pad l
  end.
Definition seg_last (l : fxline) : seg :=
  {| sg_amp := false; sg_ind := seg_ind l; sg_text := seg_head l ++ fx_text l;
     sg_trail := last_trail l; sg_comment := last_comment l; sg_between := [] |}.

Fixpoint segs_of (l : fxline) (conts : list (list fxirr * fxline)) : list seg :=
  match conts with
  | [] => [seg_last l]
  | (irr, k) :: conts' => seg_cont l irr :: segs_of k conts'
  end.

(* Inside a literal the standard joins column 72 of the line to column 7 of the continuation
   line: the statement field is padded with blanks to column 72, and free form must use the
   exact-join continuation ("...&" / "&...").  [st] is the character context at the start of the
   statement field of [l]. *)
Definition is_open (st : option ascii) : bool := match st with Some _ => true | None => false end.
Definition std_seg (st : option ascii) (last : bool) (l : fxline) (between : list fxirr) : seg :=
  let st' := lit_end st (fx_text l) in
  let head := if is_open st then spaces (fx_ind l)
              else match label_part l with [] => [] | lp => lp ++ spaces (fx_ind l) end in
  let ind := if is_open st then 0 else match label_part l with [] => fx_ind l | _ => 0 end in
  let tail := if last then [] else
              if is_open st' then spaces (66 - fx_ind l - length (fx_text l)) else [" "%char] in
  let c := if last then fx_comment l else option_map rstrip (fx_comment l) in
  {| sg_amp := is_open st; sg_ind := ind; sg_text := head ++ fx_text l ++ tail;
     sg_trail := if last then fx_pad l else match c with Some _ => 1 | None => 0 end;
     sg_comment := c; sg_between := if last then [] else map bline_of between |}.
Fixpoint std_segs (st : option ascii) (l : fxline) (conts : list (list fxirr * fxline)) : list seg :=
  match conts with
  | [] => [std_seg st true l []]
  | (irr, k) :: conts' => std_seg st false l irr :: std_segs (lit_end st (fx_text l)) k conts'
  end.

Definition free_item (it : fxitem) : fitem :=
  match it with
  | FxIrr (FxComment _ rest) => FComment 0 rest
  | FxIrr (FxBlank n) => FBlank (n - 6)
  | FxIrr (FxBang ind rest) => FComment ind rest
  | FxStmt st => FLine (segs_of (fs_first st) (fs_conts st))
  end.
Definition free_of (f : list fxitem) : list fitem := map free_item f.

(* the equivalent by the standard's rules, whether or not literals are continued across lines;
   with the line length limited, columns 73+ are no part of the file ([std_seg] does not look at
   them) *)
Definition std_item (it : fxitem) : fitem :=
  match it with
  | FxStmt st => FLine (std_segs None (fs_first st) (fs_conts st))
  | _ => free_item it
  end.
Definition std_free_of (f : list fxitem) : list fitem := map std_item f.

(* the file cut at column 72 *)
Definition cut_item (it : fxitem) : fxitem :=
  match it with
  | FxStmt st => FxStmt {| fs_first := cut_line (fs_first st);
                           fs_conts := map (fun p => (fst p, cut_line (snd p))) (fs_conts st) |}
  | _ => it
  end.
Definition no_seq_item (it : fxitem) : Prop :=
  match it with
  | FxStmt st => fx_seq (fs_first st) = None /\ Forall (fun p => fx_seq (snd p) = None) (fs_conts st)
  | _ => True
  end.
