(* Lex/Fixed.v — model of ford/fixed2free2.py: _inline_comment_start, _insert_continuation,
   FortranLine (__analyse, __convert, continueLine) and convertToFree.  Lines are given as read from the file, i.e. including their trailing
   newline character when they have one.  Executable definitions only. *)
From Ford Require Import Base.Str Lex.Quote.

Definition nl : ascii := "010"%char.

(* Python slices *)
Definition slice (a b : nat) (x : str) : str := firstn (b - a) (skipn a x).
Definition from (a : nat) (x : str) : str := skipn a x.

Definition str_isspace (x : str) : bool :=   (* "".isspace() is False *)
  match x with [] => false | _ => forallb is_space x end.

Definition str_empty (x : str) : bool := match x with [] => true | _ => false end.

Fixpoint contains_ch (c : ascii) (x : str) : bool :=
  match x with [] => false | d :: x' => Ascii.eqb c d || contains_ch c x' end.

Definition ljust (n : nat) (x : str) : str := x ++ repeat " "%char (n - length x).

(* _inline_comment_start(line): index of the first '!' outside character literals; a literal
   is opened by an apostrophe or a double quote and closed by the next occurrence of the same character *)
Fixpoint inline_comment_from (quote : option ascii) (i : nat) (x : str) : option nat :=
  match x with
  | [] => None
  | c :: x' =>
    match quote with
    | Some q => inline_comment_from (if Ascii.eqb c q then None else quote) (S i) x'
    | None =>
      if contains_ch c (s "'""") then inline_comment_from (Some c) (S i) x'
      else if Ascii.eqb c bang then Some i
      else inline_comment_from None (S i) x'
    end
  end.
Definition inline_comment_start (line : str) : option nat := inline_comment_from None 0 line.

(* _insert_continuation(line, skip): " &" after the statement text, before the inline comment;
   the first [skip] characters are not looked at *)
Definition insert_continuation (line : str) (skip : nat) : str :=
  match inline_comment_start (from skip line) with
  | None => rstrip line ++ s " &"
  | Some k => let k := k + skip in rstrip (firstn k line) ++ s " & " ++ rstrip (skipn k line)
  end.

Record fline := {
  f_conv : str;          (* line_conv *)
  f_regular : bool;      (* is_regular *)
  f_cont : bool;         (* isContinuation *)
  f_long : bool;         (* isLong *)
  f_omp : bool;          (* isOMP *)
  f_excess : str         (* excess_line *)
}.

Definition analyse (length_limit : bool) (line0 : str) : fline :=
  let n := length line0 in
  let firstchar := firstn 1 line0 in
  let label0 := if 1 <? n then lower (strip (slice 0 5 line0)) ++ s " " else [] in
  let cont_char := if 6 <=? n then slice 5 6 line0 else [] in
  let fivechars := if 1 <? n then slice 1 5 line0 else [] in
  let isShort := (n <=? 6) || str_empty (strip line0) in   (* len(line) <= 6 or not line.strip() *)
  let isLong := (73 <? n) && length_limit in
  let isComment0 := match firstchar with
                    | [] => true   (* "" in "cC*!" *)
                    | c :: _ => contains_ch c (s "cC*!")
                    end in
  (* stripped = line.lstrip(); bang_first = stripped.startswith("!") and len(line) - len(stripped) != 5 *)
  let stripped := lstrip line0 in
  let bang_first := starts_with (s "!") stripped && negb (n - length stripped =? 5) in
  let isNewComment := (contains_ch bang fivechars || bang_first) && negb isComment0 in
  let isOMP := isComment0 && str_eqb (lower fivechars) (s "$omp") in
  let isComment := if isOMP then false else isComment0 in
  let label := if isOMP then [] else label0 in
  let isCpp := str_eqb firstchar (s "#") in
  let regular := negb (isComment || isNewComment || isCpp || isShort) in
  let isCont := negb (str_isspace cont_char || str_eqb cont_char (s "0")) && regular in
  (* excess_line = "! " + line[72:] *)
  let '(excess, line) := if isLong && regular then (bang :: " "%char :: from 72 line0, firstn 72 line0 ++ [nl])
                          else ([], line0) in
  (* __convert *)
  let code := if 6 <? length line then from 6 line else [nl] in
  let conv :=
    if isComment then bang :: from 1 line
    else if isNewComment || isCpp then line
    else if isOMP then bang :: slice 1 5 line ++ s " " ++ code
    else if negb (str_isspace label) then label ++ code
    else code in
  (* a long line that ends in an inline comment within column 72 loses what lies beyond column 72 *)
  let '(conv, excess) :=
    if isLong && regular then
      let c := rstrip conv in
      match inline_comment_start c with
      | None => (ljust 72 c ++ excess, excess)
      | Some _ => (c ++ [nl], [nl])
      end
    else (conv, excess) in
  {| f_conv := conv; f_regular := regular; f_cont := isCont; f_long := isLong; f_omp := isOMP;
     f_excess := excess |}.

Definition continue_line (f : fline) : fline :=
  let skip := if f_omp f then 5 else 0 in   (* len("!$omp") *)
  let conv :=
    if negb (f_long f && f_regular f) || str_eqb (f_excess f) [nl] then insert_continuation (f_conv f) skip ++ [nl]
    else ljust 72 (insert_continuation (firstn 72 (f_conv f)) skip) ++ f_excess f in
  {| f_conv := conv; f_regular := f_regular f; f_cont := f_cont f; f_long := f_long f; f_omp := f_omp f;
     f_excess := f_excess f |}.

(* convertToFree: the line stack holds the last regular line and the irregular lines after it *)
Fixpoint convert_go (ll : bool) (stack : list fline) (lines : list str) : list str :=
  match lines with
  | [] => map f_conv stack
  | line :: lines' =>
    let f := analyse ll line in
    if f_regular f then
      let stack' := if f_cont f then
                      match stack with
                      | top :: rest => continue_line top :: rest
                      | [] => []
                      end
                    else stack in
      map f_conv stack' ++ convert_go ll [f] lines'
    else convert_go ll (stack ++ [f]) lines'
  end.
Definition convert_to_free (ll : bool) (lines : list str) : list str := convert_go ll [] lines.

(* the reader receives the converted lines; its patterns stop before the final newline *)
Definition chomp (x : str) : str :=
  match rev x with c :: r => if Ascii.eqb c nl then rev r else x | [] => x end.
