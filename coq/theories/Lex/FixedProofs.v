(* Lex/FixedProofs.v — the fixed-form converter produces a free-form layout of the same program *)
From Ford Require Import Base.Str Base.StrFacts Lex.Quote Lex.Reader Lex.ReaderSpec Lex.QuoteProofs
  Lex.ReaderProofs Lex.Fixed Lex.FixedSpec.
From Coq Require Import Lia.

(* ---------- well-formed fixed-form lines ---------- *)

Definition lab_char (c : ascii) : bool := is_digit c || Ascii.eqb c " "%char.

(* label field of five digits/blanks; statement text non-blank at both ends; one physical line; it
   is a statement line: where column 6 is blank its first non-blank character is not a '!'.
   Width, with the line length limited ([ll = true]): either the whole line, inline comment
   included, lies within 72 columns, or its statement field fills columns 7-72 exactly and a
   non-empty text follows in columns 73+; with the limit off: any width (and no notion of columns
   73+: what stands there is statement text or comment like everything else). *)
Definition field_width (l : fxline) : nat :=
  fx_ind l + length (fx_text l) + fx_pad l + length (render_comment (fx_comment l)).
Definition wf_fxline (ll : bool) (l : fxline) : Prop :=
  length (fx_label l) = 5 /\ Forall (fun c => lab_char c = true) (fx_label l) /\
  nsfirst (fx_text l) /\ nslast (fx_text l) /\
  match fx_seq l with
  | None => ll = true -> field_width l <= 66
  | Some sq => ll = true /\ field_width l = 66 /\ sq <> [] /\ ~ In nl sq
  end /\
  ~ In nl (fx_text l) /\
  match fx_comment l with Some t => ~ In nl t | None => True end /\
  (is_space (fx_c6 l) = true -> head_is bang (fx_text l) = false).

Definition is_initial (l : fxline) : Prop := fx_c6 l = " "%char \/ fx_c6 l = "0"%char.
Definition is_continuation (l : fxline) : Prop :=
  is_space (fx_c6 l) = false /\ fx_c6 l <> "0"%char /\ fx_label l = spaces 5.

(* comment lines: C, c, * or ! in column 1 (not an OpenMP sentinel); blank lines: any width;
   comment lines whose first non-blank character is a '!' in any column but columns 1 and 6 *)
Definition wf_fxirr (i : fxirr) : Prop :=
  match i with
  | FxComment c0 rest =>
    contains_ch c0 (s "cC*!") = true /\ head_is "$"%char rest = false /\ ~ In nl rest
  | FxBlank n => True
  | FxBang ind rest => 1 <= ind /\ ind <> 5 /\ ~ In nl rest
  end.

(* ---------- analyse ---------- *)

Lemma lstrip_head_ns x d z : lstrip x = d :: z -> is_space d = false.
Proof.
  induction x as [|c x IH]; simpl; [discriminate|].
  destruct (is_space c) eqn:E; [exact IH|]. intros [= <- _]. exact E.
Qed.

Lemma strip_head_ns x c y : strip x = c :: y -> is_space c = false.
Proof.
  unfold strip. destruct (lstrip x) as [|d z] eqn:E; [discriminate|].
  pose proof (lstrip_head_ns x d z E) as Hd.
  destruct (rstrip_head d z Hd) as [y' Ey]. rewrite Ey. intros [= <- _]. exact Hd.
Qed.

Lemma lab_not_comment c : lab_char c = true -> contains_ch c (s "cC*!") = false.
Proof.
  intros H. destruct (contains_ch c (s "cC*!")) eqn:E; [|reflexivity]. exfalso.
  simpl in E. rewrite orb_false_r in E.
  repeat (apply orb_true_iff in E as [E|E]); apply Ascii.eqb_eq in E; subst; discriminate.
Qed.

Lemma lab_not_bang c : lab_char c = true -> Ascii.eqb bang c = false.
Proof.
  intros H. destruct (Ascii.eqb bang c) eqn:E; [|reflexivity]. apply Ascii.eqb_eq in E. subst. discriminate.
Qed.

Lemma lab_not_hash c : lab_char c = true -> Ascii.eqb c "#"%char = false.
Proof.
  intros H. destruct (Ascii.eqb c "#"%char) eqn:E; [|reflexivity]. apply Ascii.eqb_eq in E. subst. discriminate.
Qed.

Lemma lab_not_dollar c : lab_char c = true -> Ascii.eqb (lower_ch c) "$"%char = false.
Proof.
  intros H. destruct (Ascii.eqb (lower_ch c) "$"%char) eqn:E; [|reflexivity]. exfalso.
  unfold lab_char in H. apply orb_true_iff in H as [H|H].
  - unfold lower_ch in E. assert (U : is_upper c = false).
    { unfold is_digit, is_upper in *. apply andb_true_iff in H as [H1 H2].
      apply Nat.leb_le in H1, H2. apply andb_false_iff. left. apply Nat.leb_gt. lia. }
    rewrite U in E. apply Ascii.eqb_eq in E. subst. discriminate.
  - apply Ascii.eqb_eq in H. subst. discriminate.
Qed.

Lemma length5 (x : str) : length x = 5 -> exists a b c d e, x = [a; b; c; d; e].
Proof.
  intros H. do 5 (destruct x as [|? x]; [discriminate|]). destruct x; [|discriminate]. eauto 6.
Qed.

Lemma spaces_app_length n x : length (spaces n ++ x) = n + length x.
Proof. rewrite app_length. unfold spaces. now rewrite repeat_length. Qed.

Lemma fx_code_length l : length (fx_code l) = fx_ind l + length (fx_text l) + fx_pad l.
Proof. unfold fx_code. rewrite !app_length. unfold spaces. rewrite !repeat_length. lia. Qed.

(* a line with a non-blank character is not blank *)
Lemma lstrip_has_ns x c : In c x -> is_space c = false ->
  exists d z, lstrip x = d :: z /\ is_space d = false.
Proof.
  induction x as [|a x IH]; [intros []|]. intros [->|H] Hc; simpl.
  - rewrite Hc. eauto.
  - destruct (is_space a) eqn:E; [now apply IH|eauto].
Qed.

Lemma strip_nonblank x c : In c x -> is_space c = false -> str_empty (strip x) = false.
Proof.
  intros H Hc. destruct (lstrip_has_ns x c H Hc) as (d & z & E & Hd). unfold strip. rewrite E.
  destruct (rstrip_head d z Hd) as [y Ey]. now rewrite Ey.
Qed.

Lemma lstrip_all_ws x : Forall (fun c => is_space c = true) x -> lstrip x = [].
Proof. induction 1 as [|c x Hc _ IH]; [reflexivity|]. simpl. now rewrite Hc. Qed.

Lemma strip_all_ws x : Forall (fun c => is_space c = true) x -> strip x = [].
Proof. intros H. unfold strip. now rewrite (lstrip_all_ws x H). Qed.

Lemma spaces_ws n : Forall (fun c => is_space c = true) (spaces n).
Proof. induction n; simpl; constructor; auto. Qed.

Lemma fx_field_length l :
  length (fx_field l) = fx_ind l + length (fx_text l) + fx_pad l + length (render_comment (fx_comment l)).
Proof. unfold fx_field, fx_code. rewrite !app_length. unfold spaces. rewrite !repeat_length. lia. Qed.

(* a statement line is not taken for a '!' comment line: its first non-blank character is a label
   digit, the character of column 6, or the first character of its statement text *)
Lemma bang_first_stmt a b c d e c6 rest :
  lab_char a = true -> lab_char b = true -> lab_char c = true -> lab_char d = true -> lab_char e = true ->
  (is_space c6 = true -> starts_with (s "!") (lstrip rest) = false) ->
  starts_with (s "!") (lstrip ([a; b; c; d; e] ++ c6 :: rest))
  && negb (length ([a; b; c; d; e] ++ c6 :: rest) - length (lstrip ([a; b; c; d; e] ++ c6 :: rest)) =? 5) = false.
Proof.
  intros Ha Hb Hc Hd He H6.
  assert (L : forall x y, lab_char x = true -> starts_with (s "!") (x :: y) = false).
  { intros x y Hx. cbn [s list_ascii_of_string starts_with]. fold bang. now rewrite (lab_not_bang x Hx). }
  cbn [app lstrip].
  destruct (is_space a); [|now rewrite (L a _ Ha)].
  destruct (is_space b); [|now rewrite (L b _ Hb)].
  destruct (is_space c); [|now rewrite (L c _ Hc)].
  destruct (is_space d); [|now rewrite (L d _ Hd)].
  destruct (is_space e); [|now rewrite (L e _ He)].
  destruct (is_space c6).
  - now rewrite (H6 eq_refl).
  - replace (length (a :: b :: c :: d :: e :: c6 :: rest) - length (c6 :: rest)) with 5 by (cbn [length]; lia).
    cbn [Nat.eqb negb]. apply andb_false_r.
Qed.

Definition lpart (lab : str) : str := match strip lab with [] => [] | d => lower d ++ [" "%char] end.

Lemma lower_ns x : is_space x = false -> is_space (lower_ch x) = false.
Proof.
  intros Hx. unfold lower_ch. destruct (is_upper x) eqn:U; [|exact Hx].
  unfold is_upper in U. apply andb_true_iff in U as [U1 U2]. apply Nat.leb_le in U1, U2.
  unfold is_space, Str.code in *. rewrite nat_ascii_embedding by lia.
  apply orb_false_iff. split; apply andb_false_iff; [right|right]; apply Nat.leb_gt; lia.
Qed.

(* line_conv: label + code, or code when the label field is blank *)
Lemma label_conv lab code :
  (if negb (str_isspace (lower (strip lab) ++ s " ")) then (lower (strip lab) ++ s " ") ++ code else code)
  = lpart lab ++ code.
Proof.
  unfold lpart. destruct (strip lab) as [|x xs] eqn:Es; [reflexivity|].
  assert (Hsp : str_isspace (lower (x :: xs) ++ s " ") = false).
  { cbn [lower map app str_isspace forallb]. now rewrite (lower_ns x (strip_head_ns _ _ _ Es)). }
  rewrite Hsp. reflexivity.
Qed.

Lemma firstn_exact {A} (a b : list A) : firstn (length a) (a ++ b) = a.
Proof. induction a as [|x a IH]; simpl; [now destruct b|now rewrite IH]. Qed.
Lemma skipn_exact {A} (a b : list A) : skipn (length a) (a ++ b) = b.
Proof. induction a as [|x a IH]; simpl; [reflexivity|exact IH]. Qed.
Lemma firstn_app_le {A} n (x y : list A) : n <= length x -> firstn n (x ++ y) = firstn n x.
Proof. intros H. rewrite firstn_app. replace (n - length x) with 0 by lia. cbn [firstn]. apply app_nil_r. Qed.
Lemma skipn_app_le {A} n (x y : list A) : n <= length x -> skipn n (x ++ y) = skipn n x ++ y.
Proof. intros H. rewrite skipn_app. replace (n - length x) with 0 by lia. reflexivity. Qed.

(* the analysis of a statement line: label field, column 6, then [code] up to the end of the line.
   With the line length limited, what lies beyond column 72 is split off as a comment. *)
Lemma analyse_stmt ll lab c6 code :
  length lab = 5 -> Forall (fun c => lab_char c = true) lab ->
  str_empty (strip (lab ++ c6 :: code ++ [nl])) = false ->
  starts_with (s "!") (lstrip (lab ++ c6 :: code ++ [nl]))
  && negb (length (lab ++ c6 :: code ++ [nl]) - length (lstrip (lab ++ c6 :: code ++ [nl])) =? 5) = false ->
  analyse ll (lab ++ c6 :: code ++ [nl]) =
  let long := (66 <? length code) && ll in
  let c := rstrip (lpart lab ++ firstn 66 code ++ [nl]) in
  let ex := bang :: " "%char :: skipn 66 code ++ [nl] in
  {| f_conv := if long then match inline_comment_start c with None => ljust 72 c ++ ex | Some _ => c ++ [nl] end
               else lpart lab ++ code ++ [nl];
     f_regular := true;
     f_cont := negb (is_space c6 || Ascii.eqb c6 "0"%char);
     f_long := long; f_omp := false;
     f_excess := if long then match inline_comment_start c with None => ex | Some _ => [nl] end else [] |}.
Proof.
  intros Hlen Hlab Hblank Hbf. set (FC := firstn 66 code). set (SC := skipn 66 code).
  destruct (length5 _ Hlen) as (a & b & c & d & e & El). rewrite El in *. clear El.
  inversion Hlab as [|? ? Ha Hl1]; subst. inversion Hl1 as [|? ? Hb Hl2]; subst.
  inversion Hl2 as [|? ? Hc Hl3]; subst. inversion Hl3 as [|? ? Hd Hl4]; subst.
  inversion Hl4 as [|? ? He _]; subst.
  unfold analyse. rewrite Hblank, Hbf.
  assert (Hn : length ([a; b; c; d; e] ++ c6 :: code ++ [nl]) = 7 + length code).
  { simpl. rewrite app_length. simpl. lia. }
  rewrite Hn.
  assert (H1 : (1 <? 7 + length code) = true) by (apply Nat.ltb_lt; lia).
  assert (H2 : (6 <=? 7 + length code) = true) by (apply Nat.leb_le; lia).
  assert (H3 : (7 + length code <=? 6) = false) by (apply Nat.leb_gt; lia).
  assert (H4 : (73 <? 7 + length code) = (66 <? length code)).
  { destruct (66 <? length code) eqn:E; [apply Nat.ltb_lt in E; apply Nat.ltb_lt; lia
                                         |apply Nat.ltb_ge in E; apply Nat.ltb_ge; lia]. }
  rewrite H1, H2, H3, H4.
  change (from 72 ([a; b; c; d; e] ++ c6 :: code ++ [nl])) with (skipn 66 (code ++ [nl])).
  change (firstn 72 ([a; b; c; d; e] ++ c6 :: code ++ [nl]))
    with ([a; b; c; d; e] ++ c6 :: firstn 66 (code ++ [nl])).
  set (F := firstn 66 (code ++ [nl])). set (K := skipn 66 (code ++ [nl])).
  cbn [app firstn slice skipn Nat.sub from andb orb].
  rewrite (lab_not_comment a Ha). cbn [andb negb orb].
  change (contains_ch bang [b; c; d; e])
    with (Ascii.eqb bang b || (Ascii.eqb bang c || (Ascii.eqb bang d || (Ascii.eqb bang e || false)))).
  rewrite (lab_not_bang b Hb), (lab_not_bang c Hc), (lab_not_bang d Hd), (lab_not_bang e He).
  cbn [orb andb negb].
  change (str_eqb [a] (s "#")) with (Ascii.eqb a "#"%char && true).
  rewrite (lab_not_hash a Ha). cbn [andb orb negb].
  change (str_isspace [c6]) with (is_space c6 && true). rewrite andb_true_r.
  change (str_eqb [c6] (s "0")) with (Ascii.eqb c6 "0"%char && true). rewrite andb_true_r.
  rewrite !andb_true_r.
  destruct ((66 <? length code) && ll) eqn:Elong; cbv zeta.
  - (* beyond column 72 *)
    assert (Hc66 : 66 <= length code).
    { apply andb_true_iff in Elong as [E _]. apply Nat.ltb_lt in E. lia. }
    assert (H5 : (6 <? length (a :: b :: c :: d :: e :: c6 :: F ++ [nl])) = true).
    { apply Nat.ltb_lt. cbn [length]. rewrite app_length. cbn [length]. lia. }
    rewrite H5. cbn [app skipn].
    rewrite (label_conv [a; b; c; d; e] (F ++ [nl])).
    subst F K. rewrite (firstn_app_le 66 code [nl] Hc66), (skipn_app_le 66 code [nl] Hc66).
    fold FC SC.
    destruct (inline_comment_start (rstrip (lpart [a; b; c; d; e] ++ FC ++ [nl]))); reflexivity.
  - assert (H5 : (6 <? length (a :: b :: c :: d :: e :: c6 :: code ++ [nl])) = true).
    { apply Nat.ltb_lt. simpl. rewrite app_length. simpl. lia. }
    rewrite H5. cbn [skipn].
    rewrite (label_conv [a; b; c; d; e] (code ++ [nl])). reflexivity.
Qed.

(* comment lines and short blank lines are not statement lines *)
Lemma analyse_comment ll c0 rest :
  wf_fxirr (FxComment c0 rest) ->
  exists lg ex, analyse ll (c0 :: rest ++ [nl]) =
  {| f_conv := bang :: rest ++ [nl]; f_regular := false; f_cont := false; f_long := lg; f_omp := false;
     f_excess := ex |}.
Proof.
  intros (Hc & Homp & _). unfold analyse.
  cbn [firstn length]. rewrite Hc.
  set (n := S (length (rest ++ [nl]))).
  assert (Hfive : (if 1 <? n then slice 1 5 (c0 :: rest ++ [nl]) else []) = firstn 4 (rest ++ [nl])).
  { assert (H1 : (1 <? n) = true) by (apply Nat.ltb_lt; unfold n; rewrite app_length; simpl; lia).
    rewrite H1. reflexivity. }
  rewrite Hfive.
  assert (Hnot : str_eqb (lower (firstn 4 (rest ++ [nl]))) (s "$omp") = false).
  { destruct rest as [|r1 rest']; [reflexivity|].
    cbn [app firstn lower map str_eqb s list_ascii_of_string].
    assert (Hr : Ascii.eqb (lower_ch r1) "$"%char = false).
    { unfold head_is in Homp. unfold lower_ch. destruct (is_upper r1) eqn:U.
      - unfold is_upper in U. apply andb_true_iff in U as [U1 U2]. apply Nat.leb_le in U1, U2.
        apply Ascii.eqb_neq. intros E. apply (f_equal code) in E. unfold code in *.
        rewrite nat_ascii_embedding in E by lia.
        replace (nat_of_ascii "$"%char) with 36 in E by reflexivity. lia.
      - now rewrite Ascii.eqb_sym. }
    now rewrite Hr. }
  rewrite Hnot. cbn [andb negb orb]. rewrite !andb_false_r. cbv beta iota zeta.
  rewrite ?andb_false_r. cbn [from skipn].
  eexists _, _. reflexivity.
Qed.

Lemma strip_blank_line n : strip (spaces n ++ [nl]) = [].
Proof.
  apply strip_all_ws. apply Forall_app. split; [apply spaces_ws|]. constructor; [reflexivity|constructor].
Qed.

(* a whitespace-only line of any width is not a statement line; what is left of it in free form
   are the blanks of its statement field *)
Lemma analyse_blank ll n : exists lg,
  analyse ll (spaces n ++ [nl]) =
  {| f_conv := spaces (n - 6) ++ [nl]; f_regular := false; f_cont := false; f_long := lg; f_omp := false;
     f_excess := [] |}.
Proof.
  destruct n as [|[|[|[|[|[|[|m]]]]]]]; try (eexists; reflexivity).
  unfold analyse. rewrite strip_blank_line.
  rewrite (lstrip_all_ws (spaces _ ++ [nl]))
    by (apply Forall_app; split; [apply spaces_ws|constructor; [reflexivity|constructor]]).
  cbn [starts_with s list_ascii_of_string andb orb].
  unfold spaces. cbn [repeat app length firstn slice skipn from Nat.sub].
  set (k := length (repeat " "%char m ++ [nl])).
  cbn [Nat.ltb Nat.leb str_empty orb negb andb contains_ch s list_ascii_of_string Ascii.eqb Bool.eqb
       str_eqb lower map strip lstrip rstrip rev is_space app str_isspace forallb].
  rewrite !orb_true_r. cbn [negb]. rewrite !andb_false_r. cbv beta iota zeta.
  eexists. reflexivity.
Qed.

(* a line whose first non-blank character is a '!' in any column but 1 and 6 passes unchanged *)
Lemma analyse_bang ll ind rest : 1 <= ind -> ind <> 5 ->
  exists lg ex, analyse ll (spaces ind ++ bang :: rest ++ [nl]) =
  {| f_conv := spaces ind ++ bang :: rest ++ [nl]; f_regular := false; f_cont := false; f_long := lg;
     f_omp := false; f_excess := ex |}.
Proof.
  intros H1 H5. unfold analyse.
  rewrite lstrip_spaces, (lstrip_ns bang _ eq_refl).
  assert (Hd : length (spaces ind ++ bang :: rest ++ [nl]) - length (bang :: rest ++ [nl]) = ind).
  { rewrite app_length. unfold spaces. rewrite repeat_length. lia. }
  rewrite Hd.
  assert (H5' : (ind =? 5) = false) by now apply Nat.eqb_neq.
  rewrite H5'. change (starts_with (s "!") (bang :: rest ++ [nl])) with true.
  destruct ind as [|k]; [lia|]. unfold spaces. cbn [repeat app firstn].
  change (contains_ch " "%char (s "cC*!")) with false.
  change (str_eqb [" "%char] (s "#")) with false.
  cbn [andb negb]. rewrite !orb_true_r. cbn [andb negb orb].
  rewrite !andb_false_r. cbv beta iota zeta. rewrite ?andb_false_r.
  eexists _, _. reflexivity.
Qed.

(* ---------- the line stack ---------- *)

Definition irr_conv (i : fxirr) : str :=
  match i with
  | FxComment _ rest => bang :: rest ++ [nl]
  | FxBlank n => spaces (n - 6) ++ [nl]
  | FxBang ind rest => spaces ind ++ bang :: rest ++ [nl]
  end.

Lemma analyse_irr ll i : wf_fxirr i ->
  f_conv (analyse ll (render_fxirr i)) = irr_conv i /\ f_regular (analyse ll (render_fxirr i)) = false.
Proof.
  destruct i as [c0 rest|n|ind rest]; intros H; cbn [render_fxirr irr_conv].
  - destruct (analyse_comment ll c0 rest H) as (lg & ex & E). rewrite E. split; reflexivity.
  - destruct (analyse_blank ll n) as (lg & E). rewrite E. split; reflexivity.
  - destruct H as (H1 & H5 & _). destruct (analyse_bang ll ind rest H1 H5) as (lg & ex & E). rewrite E. split; reflexivity.
Qed.

(* irregular lines pile up on the stack *)
Lemma convert_go_irr ll irrs : forall stack rest,
  Forall wf_fxirr irrs ->
  convert_go ll stack (map render_fxirr irrs ++ rest)
  = convert_go ll (stack ++ map (fun i => analyse ll (render_fxirr i)) irrs) rest.
Proof.
  induction irrs as [|i irrs IH]; intros stack rest H; [simpl; now rewrite app_nil_r|].
  inversion H as [|? ? Hi Hr]; subst. cbn [map app convert_go].
  destruct (analyse_irr ll i Hi) as (_ & Hreg). rewrite Hreg.
  rewrite IH by assumption. now rewrite <- app_assoc.
Qed.

(* the converted text of a statement line *)
Definition stmt_conv (l : fxline) : str := label_part l ++ fx_field l ++ [nl].
(* ---------- where the converter finds the inline comment ---------- *)

Lemma lit_end_app st a b : lit_end st (a ++ b) = lit_end (lit_end st a) b.
Proof. revert st. induction a as [|c a IH]; intros st; [reflexivity|]. simpl. apply IH. Qed.

Lemma comment_free_app st a b :
  comment_free st (a ++ b) = comment_free st a && comment_free (lit_end st a) b.
Proof.
  revert st. induction a as [|c a IH]; intros st; [reflexivity|]. cbn [app comment_free lit_end].
  destruct st as [q|]; [apply IH|]. destruct (Ascii.eqb c bang); [reflexivity|apply IH].
Qed.

(* the converter's scanner walks through statement text as the standard's character context does *)
Lemma scan_text x : forall st i y,
  comment_free st x = true ->
  inline_comment_from st i (x ++ y) = inline_comment_from (lit_end st x) (length x + i) y.
Proof.
  induction x as [|c x IH]; intros st i y H; [reflexivity|].
  cbn [app inline_comment_from comment_free lit_end length] in *.
  replace (S (length x) + i) with (length x + S i) by lia.
  destruct st as [q|].
  - cbn [lit_step] in *. now apply IH.
  - cbn [lit_step] in *. change (contains_ch c (s "'"""))
      with (Ascii.eqb c sq || (Ascii.eqb c dq || false)). rewrite orb_false_r.
    destruct (Ascii.eqb c bang) eqn:Eb; [discriminate|].
    destruct (Ascii.eqb c sq || Ascii.eqb c dq); now apply IH.
Qed.

(* characters that are neither quotes nor '!' *)
Definition neutral (c : ascii) : bool :=
  negb (Ascii.eqb c sq || Ascii.eqb c dq) && negb (Ascii.eqb c bang).

Lemma neutral_clear p : Forall (fun c => neutral c = true) p ->
  comment_free None p = true /\ lit_end None p = None.
Proof.
  induction 1 as [|c p Hc _ IH]; [split; reflexivity|].
  unfold neutral in Hc. apply andb_true_iff in Hc as [Hq Hb]. apply negb_true_iff in Hq, Hb.
  cbn [comment_free lit_end lit_step]. rewrite Hq, Hb. exact IH.
Qed.

Lemma ws_neutral p : Forall (fun c => is_space c = true) p -> Forall (fun c => neutral c = true) p.
Proof.
  intros H. rewrite Forall_forall in *. intros c Hc. specialize (H c Hc).
  unfold neutral. destruct (Ascii.eqb c sq) eqn:E1; [apply Ascii.eqb_eq in E1; subst; discriminate|].
  destruct (Ascii.eqb c dq) eqn:E2; [apply Ascii.eqb_eq in E2; subst; discriminate|].
  destruct (Ascii.eqb c bang) eqn:E3; [apply Ascii.eqb_eq in E3; subst; discriminate|]. reflexivity.
Qed.

Lemma lab_neutral c : lab_char c = true -> neutral (lower_ch c) = true /\ lower_ch c = c.
Proof.
  intros H. assert (E : lower_ch c = c).
  { unfold lower_ch. destruct (is_upper c) eqn:U; [|reflexivity]. exfalso.
    unfold lab_char in H. apply orb_true_iff in H as [H|H].
    - unfold is_digit, is_upper in *. apply andb_true_iff in H as [H1 H2]. apply andb_true_iff in U as [U1 U2].
      apply Nat.leb_le in H1, H2, U1, U2. lia.
    - apply Ascii.eqb_eq in H. subst. discriminate. }
  split; [|exact E]. rewrite E. unfold neutral.
  destruct (Ascii.eqb c sq) eqn:E1; [apply Ascii.eqb_eq in E1; subst; discriminate|].
  destruct (Ascii.eqb c dq) eqn:E2; [apply Ascii.eqb_eq in E2; subst; discriminate|].
  destruct (Ascii.eqb c bang) eqn:E3; [apply Ascii.eqb_eq in E3; subst; discriminate|]. reflexivity.
Qed.

Lemma Forall_lstrip {P : ascii -> Prop} x : Forall P x -> Forall P (lstrip x).
Proof. induction 1 as [|c x Hc Hx IH]; [constructor|]. simpl. destruct (is_space c); [exact IH|now constructor]. Qed.

Lemma Forall_strip {P : ascii -> Prop} x : Forall P x -> Forall P (strip x).
Proof. intros H. unfold strip, rstrip. apply Forall_rev, Forall_lstrip, Forall_rev, Forall_lstrip, H. Qed.

Lemma label_part_neutral l :
  Forall (fun c => lab_char c = true) (fx_label l) -> Forall (fun c => neutral c = true) (label_part l).
Proof.
  intros H. unfold label_part. pose proof (Forall_strip _ H) as Hs.
  destruct (strip (fx_label l)) as [|d ds]; [constructor|].
  apply Forall_app. split; [|repeat constructor].
  unfold lower. rewrite Forall_map. eapply Forall_impl; [|exact Hs].
  intros c Hc. apply (lab_neutral c Hc).
Qed.

(* the converted statement text of a line up to its inline comment *)
Definition fx_stmt_part (l : fxline) : str := label_part l ++ fx_code l.

Lemma stmt_part_clear ll l :
  wf_fxline ll l -> comment_free None (fx_text l) = true -> lit_end None (fx_text l) = None ->
  comment_free None (fx_stmt_part l) = true /\ lit_end None (fx_stmt_part l) = None.
Proof.
  intros (_ & Hlab & _) Hc He. unfold fx_stmt_part, fx_code.
  destruct (neutral_clear _ (label_part_neutral l Hlab)) as (A1 & A2).
  destruct (neutral_clear _ (ws_neutral _ (spaces_ws (fx_ind l)))) as (B1 & B2).
  destruct (neutral_clear _ (ws_neutral _ (spaces_ws (fx_pad l)))) as (C1 & C2).
  rewrite !comment_free_app, !lit_end_app, A1, A2, B1, B2, Hc, He, C1, C2. split; reflexivity.
Qed.


Lemma lstrip_ws_app zs rest : Forall (fun c => is_space c = true) zs -> lstrip (zs ++ rest) = lstrip rest.
Proof. induction 1 as [|z zs Hz _ IH]; [reflexivity|]. simpl. now rewrite Hz. Qed.

Lemma rstrip_app_ws x ws : Forall (fun c => is_space c = true) ws -> rstrip (x ++ ws) = rstrip x.
Proof.
  intros H. unfold rstrip. rewrite rev_app_distr, lstrip_ws_app; [reflexivity|].
  now apply Forall_rev.
Qed.

Lemma rstrip_cons_ns c x : is_space c = false -> rstrip (c :: x) = c :: rstrip x.
Proof.
  intros H. unfold rstrip. cbn [rev]. rewrite (lstrip_snoc_ns (rev x) c H), rev_app_distr. reflexivity.
Qed.

Lemma rstrip_nslast y : nslast y -> rstrip y = y.
Proof.
  intros Hy. unfold rstrip, nslast in *. destruct (rev y) as [|c r] eqn:Er; [destruct Hy|].
  rewrite lstrip_ns by assumption. rewrite <- Er. apply rev_involutive.
Qed.

Lemma nslast_app x t : nslast t -> nslast (x ++ t).
Proof.
  unfold nslast. rewrite rev_app_distr. destruct (rev t) as [|c r]; [tauto|]. simpl. auto.
Qed.

Lemma lstrip_app_ne u v : lstrip u <> [] -> lstrip (u ++ v) = lstrip u ++ v.
Proof.
  induction u as [|a u IH]; [intros H; exfalso; now apply H|]. cbn [app lstrip].
  destruct (is_space a); [exact IH|reflexivity].
Qed.

Lemma rstrip_app_ns p c x : is_space c = false -> rstrip (p ++ c :: x) = p ++ c :: rstrip x.
Proof.
  intros H. unfold rstrip. rewrite rev_app_distr. cbn [rev].
  rewrite lstrip_app_ne; rewrite (lstrip_snoc_ns (rev x) c H).
  - rewrite rev_app_distr, rev_involutive, rev_app_distr. reflexivity.
  - destruct (lstrip (rev x)); discriminate.
Qed.

Lemma length_lstrip_le x : length (lstrip x) <= length x.
Proof. induction x as [|a x IH]; [reflexivity|]. cbn [lstrip]. destruct (is_space a); simpl; lia. Qed.
Lemma length_rstrip_le x : length (rstrip x) <= length x.
Proof. unfold rstrip. rewrite rev_length. etransitivity; [apply length_lstrip_le|]. now rewrite rev_length. Qed.

Lemma lstrip_idem z : lstrip (lstrip z) = lstrip z.
Proof.
  destruct (lstrip z) as [|d z'] eqn:E; [reflexivity|]. now rewrite (lstrip_ns d z' (lstrip_head_ns _ _ _ E)).
Qed.
Lemma rstrip_idem x : rstrip (rstrip x) = rstrip x.
Proof. unfold rstrip. rewrite rev_involutive. f_equal. apply lstrip_idem. Qed.

Lemma label_part_length ll l : wf_fxline ll l -> length (label_part l) <= 6.
Proof.
  intros (Hlen & _). unfold label_part.
  assert (H : length (strip (fx_label l)) <= 5).
  { unfold strip. etransitivity; [apply length_rstrip_le|]. etransitivity; [apply length_lstrip_le|]. lia. }
  destruct (strip (fx_label l)) as [|d ds]; [simpl; lia|].
  rewrite app_length. unfold lower. rewrite map_length. simpl in *. lia.
Qed.

Definition text_part (l : fxline) : str := label_part l ++ spaces (fx_ind l) ++ fx_text l.

Lemma text_part_length l : length (text_part l) = text_width l.
Proof. unfold text_part, text_width. rewrite !app_length. unfold spaces. rewrite repeat_length. lia. Qed.

Lemma rstrip_stmt_part ll l : wf_fxline ll l -> rstrip (fx_stmt_part l) = text_part l.
Proof.
  intros (_ & _ & _ & Hl & _). unfold fx_stmt_part, fx_code, text_part.
  replace (label_part l ++ spaces (fx_ind l) ++ fx_text l ++ spaces (fx_pad l))
    with ((label_part l ++ spaces (fx_ind l) ++ fx_text l) ++ spaces (fx_pad l))
    by (now rewrite <- !app_assoc).
  rewrite rstrip_app_ws by apply spaces_ws. apply rstrip_nslast.
  rewrite app_assoc. now apply nslast_app.
Qed.

(* the converted statement line without its trailing blanks *)
Definition stripped_conv (l : fxline) : str :=
  match fx_comment l with
  | None => text_part l
  | Some t => fx_stmt_part l ++ bang :: rstrip t
  end.

Lemma rstrip_stmt_conv ll l : wf_fxline ll l -> rstrip (stmt_conv l) = stripped_conv l.
Proof.
  intros H. unfold stmt_conv, fx_field, stripped_conv.
  destruct (fx_comment l) as [t|]; cbn [render_comment].
  - replace (label_part l ++ (fx_code l ++ bang :: t) ++ [nl]) with ((fx_stmt_part l ++ bang :: t) ++ [nl])
      by (unfold fx_stmt_part; now rewrite <- !app_assoc).
    rewrite rstrip_app_ws by (constructor; [reflexivity|constructor]).
    now apply rstrip_app_ns.
  - rewrite app_nil_r. replace (label_part l ++ fx_code l ++ [nl]) with (fx_stmt_part l ++ [nl])
      by (unfold fx_stmt_part; now rewrite <- !app_assoc).
    rewrite rstrip_app_ws by (constructor; [reflexivity|constructor]).
    apply (rstrip_stmt_part ll l H).
Qed.

Lemma stripped_conv_length ll l : wf_fxline ll l -> fx_seq l <> None -> length (stripped_conv l) <= 72.
Proof.
  intros H Hs. pose proof (label_part_length ll l H) as Hlp.
  destruct H as (_ & _ & _ & _ & Hw & _). destruct (fx_seq l) as [sq|]; [|congruence].
  destruct Hw as (_ & Hw & _). unfold field_width in Hw. unfold stripped_conv.
  destruct (fx_comment l) as [t|]; cbn [render_comment length] in Hw.
  - unfold fx_stmt_part, fx_code. rewrite !app_length. cbn [length]. unfold spaces. rewrite !repeat_length.
    pose proof (length_rstrip_le t). lia.
  - rewrite text_part_length. unfold text_width. lia.
Qed.

Lemma ljust_length n x : length x <= n -> length (ljust n x) = n.
Proof. intros H. unfold ljust. rewrite app_length, repeat_length. lia. Qed.

(* the text of a statement line that is continued: " &" goes after the statement text, before the
   inline comment *)
Definition cont_text (l : fxline) : str :=
  text_part l ++
  match fx_comment l with
  | None => s " &"
  | Some t => s " & " ++ bang :: rstrip t
  end.

(* the scan of a line: no '!' outside literals in its text, and its text ends outside a literal
   if it carries an inline comment *)
Definition line_ok (l : fxline) : Prop :=
  comment_free None (fx_text l) = true /\
  match fx_comment l with Some _ => lit_end None (fx_text l) = None | None => True end.

Lemma text_part_free ll l ws :
  wf_fxline ll l -> comment_free None (fx_text l) = true -> Forall (fun c => is_space c = true) ws ->
  comment_free None (text_part l ++ ws) = true.
Proof.
  intros Hwf Hc Hws. destruct (neutral_clear _ (ws_neutral _ Hws)) as (C1 & _).
  unfold text_part. pose proof Hwf as (_ & Hlab & _).
  destruct (neutral_clear _ (label_part_neutral l Hlab)) as (A1 & A2).
  destruct (neutral_clear _ (ws_neutral _ (spaces_ws (fx_ind l)))) as (B1 & B2).
  rewrite <- !app_assoc. rewrite comment_free_app, A1, A2. rewrite comment_free_app, B1, B2.
  rewrite comment_free_app, Hc. cbn [andb].
  (* blanks are comment-free in any character context *)
  clear - Hws. generalize (lit_end None (fx_text l)). induction Hws as [|c ws Hc _ IH]; intros st; [reflexivity|].
  cbn [comment_free]. assert (Hb : Ascii.eqb c bang = false).
  { destruct (Ascii.eqb c bang) eqn:E; [apply Ascii.eqb_eq in E; subst; discriminate|reflexivity]. }
  destruct st; [apply IH|]. rewrite Hb. apply IH.
Qed.

(* where the converter's scanner stops in the stripped line *)
Lemma scan_stripped ll l ws :
  wf_fxline ll l -> line_ok l -> Forall (fun c => is_space c = true) ws ->
  inline_comment_start (stripped_conv l ++ ws)
  = match fx_comment l with None => None | Some _ => Some (length (fx_stmt_part l)) end.
Proof.
  intros Hwf (Hc & He) Hws. unfold inline_comment_start, stripped_conv.
  destruct (fx_comment l) as [t|].
  - destruct (stmt_part_clear ll l Hwf Hc He) as (P1 & P2).
    rewrite <- app_assoc. rewrite (scan_text _ None 0 _ P1), P2. cbn [app]. now rewrite Nat.add_0_r.
  - pose proof (text_part_free ll l ws Hwf Hc Hws) as Q.
    rewrite <- (app_nil_r (text_part l ++ ws)). now rewrite (scan_text _ None 0 [] Q).
Qed.

Lemma insert_cont_stripped ll l ws :
  wf_fxline ll l -> comment_free None (fx_text l) = true -> lit_end None (fx_text l) = None ->
  Forall (fun c => is_space c = true) ws ->
  insert_continuation (stripped_conv l ++ ws) 0 = cont_text l.
Proof.
  intros Hwf Hc He Hws.
  assert (Hok : line_ok l) by (split; [exact Hc|destruct (fx_comment l); auto]).
  unfold insert_continuation. cbn [from skipn]. rewrite (scan_stripped ll l ws Hwf Hok Hws).
  unfold stripped_conv, cont_text. destruct (fx_comment l) as [t|].
  - cbv zeta. rewrite <- app_assoc.
    rewrite !Nat.add_0_r, firstn_exact, skipn_exact, (rstrip_stmt_part ll l Hwf).
    change ((bang :: rstrip t) ++ ws) with (bang :: rstrip t ++ ws).
    change (bang :: rstrip t ++ ws) with ((bang :: rstrip t) ++ ws).
    rewrite rstrip_app_ws by assumption.
    rewrite rstrip_cons_ns by reflexivity. now rewrite rstrip_idem.
  - rewrite rstrip_app_ws by assumption.
    rewrite <- (rstrip_stmt_part ll l Hwf), rstrip_idem. reflexivity.
Qed.

(* ---------- the line stack, continued ---------- *)

Definition has_seq (l : fxline) : bool := match fx_seq l with Some _ => true | None => false end.
Definition fx_excess (l : fxline) : str :=
  match fx_seq l, fx_comment l with
  | Some sq, None => bang :: " "%char :: sq ++ [nl]
  | Some _, Some _ => [nl]
  | None, _ => []
  end.
Definition fx_conv (l : fxline) : str :=
  match fx_seq l, fx_comment l with
  | None, _ => stmt_conv l
  | Some _, None => ljust 72 (stripped_conv l) ++ fx_excess l
  | Some _, Some _ => stripped_conv l ++ [nl]
  end.
Definition fx_fline (l : fxline) : fline :=
  {| f_conv := fx_conv l; f_regular := true;
     f_cont := negb (is_space (fx_c6 l) || Ascii.eqb (fx_c6 l) "0"%char);
     f_long := has_seq l; f_omp := false; f_excess := fx_excess l |}.

Lemma analyse_fx ll l : wf_fxline ll l -> line_ok l -> analyse ll (render_fxline l) = fx_fline l.
Proof.
  intros Hwf Hok. pose proof Hwf as (Hlen & Hlab & Hns & _ & Hw & _ & _ & Hbang).
  unfold render_fxline.
  replace (fx_label l ++ fx_c6 l :: fx_field l ++ seq_text l ++ [nl])
    with (fx_label l ++ fx_c6 l :: (fx_field l ++ seq_text l) ++ [nl]) by (now rewrite <- app_assoc).
  rewrite analyse_stmt; try assumption.
  - fold (field_width l) in *. assert (Hfl : length (fx_field l) = field_width l) by apply fx_field_length.
    pose proof (scan_stripped ll l [] Hwf Hok (Forall_nil _)) as Hscan. rewrite app_nil_r in Hscan.
    pose proof (rstrip_stmt_conv ll l Hwf) as Hstrip. unfold stmt_conv in Hstrip.
    unfold fx_fline, fx_conv, fx_excess, has_seq, stmt_conv, seq_text in *. cbv zeta.
    change (lpart (fx_label l)) with (label_part l).
    destruct (fx_seq l) as [sq|].
    + destruct Hw as (-> & Hw & Hne & _).
      assert (Hlong : (66 <? length (fx_field l ++ sq)) && true = true).
      { rewrite andb_true_r. apply Nat.ltb_lt. rewrite app_length. destruct sq; [congruence|]. simpl. lia. }
      rewrite Hlong. rewrite <- Hw, <- Hfl, firstn_exact, skipn_exact. rewrite Hstrip, Hscan.
      destruct (fx_comment l); reflexivity.
    + assert (Hlong : (66 <? length (fx_field l ++ [])) && ll = false).
      { destruct ll; [|apply andb_false_r]. rewrite andb_true_r, app_nil_r. apply Nat.ltb_ge.
        specialize (Hw eq_refl). lia. }
      rewrite Hlong, app_nil_r. reflexivity.
  - unfold nsfirst in Hns. destruct (fx_text l) as [|t0 tx] eqn:Et; [destruct Hns|].
    apply (strip_nonblank _ t0); [|exact Hns].
    apply in_or_app. right. right. apply in_or_app. left. apply in_or_app. left.
    unfold fx_field, fx_code. rewrite Et.
    apply in_or_app. left. apply in_or_app. right. left. reflexivity.
  - destruct (length5 _ Hlen) as (a & b & c & d & e & El). rewrite El in *.
    inversion Hlab as [|? ? Ha Hl1]; subst. inversion Hl1 as [|? ? Hb Hl2]; subst.
    inversion Hl2 as [|? ? Hc Hl3]; subst. inversion Hl3 as [|? ? Hd Hl4]; subst.
    inversion Hl4 as [|? ? He _]; subst.
    apply bang_first_stmt; try assumption. intros H6. specialize (Hbang H6).
    unfold fx_field, fx_code. rewrite <- !app_assoc, lstrip_spaces.
    unfold nsfirst in Hns. destruct (fx_text l) as [|t0 tx]; [destruct Hns|].
    cbn [app]. rewrite (lstrip_ns t0 _ Hns). cbn [s list_ascii_of_string starts_with]. fold bang.
    cbn [head_is] in Hbang. now rewrite Hbang.
Qed.

Lemma cont_flag_initial l : is_initial l -> f_cont (fx_fline l) = false.
Proof. intros [H|H]; cbn [fx_fline f_cont]; rewrite H; reflexivity. Qed.

Lemma cont_flag_continuation l : is_continuation l -> f_cont (fx_fline l) = true.
Proof.
  intros (H1 & H2 & _). cbn [fx_fline f_cont]. rewrite H1.
  assert (E : Ascii.eqb (fx_c6 l) "0"%char = false) by now apply Ascii.eqb_neq.
  now rewrite E.
Qed.

(* the converted text of a statement line when it is followed by a continuation line *)
Definition fx_conv_continued (l : fxline) : str := f_conv (continue_line (fx_fline l)).

Lemma map_conv_irr ll irrs : Forall wf_fxirr irrs ->
  map f_conv (map (fun i => analyse ll (render_fxirr i)) irrs) = map irr_conv irrs.
Proof.
  intros H. induction H as [|i irrs Hi _ IH]; [reflexivity|].
  cbn [map]. rewrite IH. f_equal. apply (analyse_irr ll i Hi).
Qed.

Lemma last_cons_default {A} (x : A) xs d1 d2 : List.last (x :: xs) d1 = List.last (x :: xs) d2.
Proof. revert x. induction xs as [|y xs IH]; intros x; [reflexivity|]. simpl in *. apply IH. Qed.

Definition last_line (prev : fxline) (conts : list (list fxirr * fxline)) : fxline :=
  List.last (map snd conts) prev.

(* continuation lines of one statement, with the previous statement line on the stack *)
Lemma convert_go_conts ll conts : forall prev rest,
  wf_fxline ll prev ->
  Forall (fun p => Forall wf_fxirr (fst p) /\ wf_fxline ll (snd p) /\ is_continuation (snd p)) conts ->
  Forall (fun p => line_ok (snd p)) conts ->
  exists last,
    convert_go ll [fx_fline prev]
      (flat_map (fun p => map render_fxirr (fst p) ++ [render_fxline (snd p)]) conts ++ rest)
    = flat_map (fun q => fx_conv_continued (fst q) :: map irr_conv (snd q))
               (combine (prev :: map snd conts) (map fst conts))
      ++ convert_go ll [fx_fline last] rest
    /\ last = last_line prev conts.
Proof.
  induction conts as [|[irrs k] conts IH]; intros prev rest Hp Hc Hok.
  - exists prev. split; reflexivity.
  - inversion Hc as [|? ? (Hi & Hk & Hkc) Hr]; subst. inversion Hok as [|? ? Hok1 Hok2]; subst.
    cbn [fst snd] in *.
    cbn [flat_map]. rewrite <- !app_assoc. rewrite convert_go_irr by assumption.
    cbn [app convert_go fst snd]. rewrite (analyse_fx ll k Hk Hok1).
    change (f_regular (fx_fline k)) with true. cbv iota. rewrite (cont_flag_continuation k Hkc).
    cbn [app map]. fold (fx_conv_continued prev).
    rewrite (map_conv_irr ll irrs Hi).
    destruct (IH k rest Hk Hr Hok2) as (last & E & El). exists last. split.
    + cbn [map combine flat_map fst snd]. rewrite E.
      cbn [app]. rewrite <- app_assoc. reflexivity.
    + rewrite El. unfold last_line. cbn [map snd]. destruct conts as [|p conts]; [reflexivity|].
      cbn [map]. change (List.last (k :: snd p :: map snd conts) prev) with (List.last (snd p :: map snd conts) prev).
      apply last_cons_default.
Qed.

(* ---------- the whole file through the converter ---------- *)

(* [P]: which comment and blank lines are admitted *)
Definition wf_conts_of (ll : bool) (P : fxirr -> Prop) (conts : list (list fxirr * fxline)) : Prop :=
  Forall (fun p => Forall P (fst p) /\ wf_fxline ll (snd p) /\ is_continuation (snd p)) conts.
Definition wf_stmt_of (ll : bool) (P : fxirr -> Prop) (st : fxstmt) : Prop :=
  wf_fxline ll (fs_first st) /\ is_initial (fs_first st) /\ wf_conts_of ll P (fs_conts st) /\
  texts_ok None (fs_first st) (fs_conts st).
Definition wf_item_of (ll : bool) (P : fxirr -> Prop) (it : fxitem) : Prop :=
  match it with FxIrr i => P i | FxStmt st => wf_stmt_of ll P st end.

(* [ll]: the length-limit setting the file is meant for *)
Definition wf_conts (ll : bool) := wf_conts_of ll wf_fxirr.
Definition wf_stmt (ll : bool) := wf_stmt_of ll wf_fxirr.
Definition wf_item (ll : bool) := wf_item_of ll wf_fxirr.

Definition stmt_lines (st : fxstmt) : list str :=
  flat_map (fun q => fx_conv_continued (fst q) :: map irr_conv (snd q))
           (combine (fs_first st :: map snd (fs_conts st)) (map fst (fs_conts st)))
  ++ [fx_conv (last_line (fs_first st) (fs_conts st))].
Definition out_item (it : fxitem) : list str :=
  match it with FxIrr i => [irr_conv i] | FxStmt st => stmt_lines st end.

(* every line of the file scans as a line on its own *)
Definition ok_item (it : fxitem) : Prop :=
  match it with
  | FxIrr _ => True
  | FxStmt st => line_ok (fs_first st) /\ Forall (fun p => line_ok (snd p)) (fs_conts st)
  end.

Lemma convert_go_file ll f : forall stack,
  Forall (wf_item ll) f -> Forall ok_item f ->
  convert_go ll stack (render_fixed f) = map f_conv stack ++ flat_map out_item f.
Proof.
  induction f as [|it f IH]; intros stack H Hok; [simpl; now rewrite app_nil_r|].
  inversion H as [|? ? Hit Hf]; subst. inversion Hok as [|? ? Hok1 Hok2]; subst.
  unfold render_fixed. cbn [flat_map]. fold (render_fixed f).
  destruct it as [i|st].
  - cbn [render_fxitem app convert_go out_item].
    destruct (analyse_irr ll i Hit) as (Hc & Hreg). rewrite Hreg.
    rewrite (IH _ Hf Hok2). rewrite map_app. cbn [map]. rewrite Hc. now rewrite <- app_assoc.
  - destruct Hit as (Hfirst & Hinit & Hconts & _). destruct Hok1 as (Hokf & Hokc).
    cbn [render_fxitem render_fxstmt app convert_go out_item].
    rewrite (analyse_fx ll _ Hfirst Hokf). change (f_regular (fx_fline (fs_first st))) with true. cbv iota.
    rewrite (cont_flag_initial _ Hinit).
    destruct (convert_go_conts ll (fs_conts st) (fs_first st) (render_fixed f) Hfirst Hconts Hokc) as (last & E & El).
    rewrite E, El. rewrite (IH _ Hf Hok2). unfold stmt_lines. cbn [map f_conv fx_fline app].
    rewrite <- !app_assoc. reflexivity.
Qed.

Theorem convert_file ll f :
  Forall (wf_item ll) f -> Forall ok_item f -> convert_to_free ll (render_fixed f) = flat_map out_item f.
Proof. intros H Hok. unfold convert_to_free. rewrite (convert_go_file ll f [] H Hok). reflexivity. Qed.

(* the whole converted line, continued or last, without its newline *)
Definition cont_line (l : fxline) : str :=
  match fx_seq l, fx_comment l with
  | Some sq, None => ljust 72 (cont_text l) ++ bang :: " "%char :: sq
  | _, _ => cont_text l
  end.
Definition last_text (l : fxline) : str :=
  match fx_seq l, fx_comment l with
  | None, _ => label_part l ++ fx_field l
  | Some sq, None => ljust 72 (stripped_conv l) ++ bang :: " "%char :: sq
  | Some _, Some _ => stripped_conv l
  end.

Lemma conv_last l : fx_conv l = last_text l ++ [nl].
Proof.
  unfold fx_conv, last_text, fx_excess.
  destruct (fx_seq l) as [sq|]; destruct (fx_comment l) as [t|]; try reflexivity;
    try (unfold stmt_conv; now rewrite <- app_assoc).
Qed.

Lemma conv_continued ll l :
  wf_fxline ll l -> comment_free None (fx_text l) = true -> lit_end None (fx_text l) = None ->
  fx_conv_continued l = cont_line l ++ [nl].
Proof.
  intros Hwf Hc He. unfold fx_conv_continued, continue_line, cont_line.
  cbn [fx_fline f_conv f_long f_regular f_omp f_excess]. unfold has_seq, fx_conv, fx_excess.
  assert (Hnl : Forall (fun c => is_space c = true) [nl]) by (constructor; [reflexivity|constructor]).
  destruct (fx_seq l) as [sq|] eqn:Es; cbn [andb negb orb].
  - destruct (fx_comment l) as [t|] eqn:Ec.
    + (* the excess was dropped: the line is continued like a short one *)
      change (str_eqb [nl] [nl]) with true. cbv iota.
      now rewrite (insert_cont_stripped ll l [nl] Hwf Hc He Hnl).
    + change (str_eqb (bang :: " "%char :: sq ++ [nl]) [nl]) with false. cbv iota.
      assert (Hlen : length (stripped_conv l) <= 72).
      { apply (stripped_conv_length ll l Hwf). congruence. }
      rewrite <- (ljust_length 72 (stripped_conv l) Hlen) at 2. rewrite firstn_exact.
      unfold ljust at 2. rewrite (insert_cont_stripped ll l _ Hwf Hc He (spaces_ws _)).
      rewrite <- app_assoc. reflexivity.
  - (* the scan of the unstripped line: trailing blanks and the newline change nothing *)
    unfold stmt_conv, fx_field, insert_continuation, inline_comment_start. cbn [from skipn].
    destruct (stmt_part_clear ll l Hwf Hc He) as (P1 & P2).
    unfold cont_text.
    destruct (fx_comment l) as [t|]; cbn [render_comment].
    + replace (label_part l ++ (fx_code l ++ bang :: t) ++ [nl]) with (fx_stmt_part l ++ bang :: t ++ [nl])
        by (unfold fx_stmt_part; now rewrite <- !app_assoc).
      rewrite (scan_text _ None 0 _ P1), P2.
      assert (B : forall i r, inline_comment_from None i (bang :: r) = Some i) by reflexivity.
      rewrite B. cbv zeta.
      rewrite !Nat.add_0_r, firstn_exact, skipn_exact, (rstrip_stmt_part ll l Hwf).
      change (bang :: t ++ [nl]) with ((bang :: t) ++ [nl]).
      rewrite rstrip_app_ws by assumption.
      rewrite rstrip_cons_ns by reflexivity. rewrite <- !app_assoc. reflexivity.
    + rewrite app_nil_r.
      replace (label_part l ++ fx_code l ++ [nl]) with (fx_stmt_part l ++ [nl])
        by (unfold fx_stmt_part; now rewrite <- !app_assoc).
      rewrite (scan_text _ None 0 _ P1), P2.
      assert (N : inline_comment_from None (length (fx_stmt_part l) + 0) [nl] = None) by reflexivity.
      rewrite N. rewrite rstrip_app_ws by assumption.
      rewrite (rstrip_stmt_part ll l Hwf). reflexivity.
Qed.

(* ---------- each converted line is the free-form line of the equivalent layout ---------- *)

Lemma chomp_snoc x : chomp (x ++ [nl]) = x.
Proof. unfold chomp. rewrite rev_app_distr. cbn [rev app]. rewrite Ascii.eqb_refl. apply rev_involutive. Qed.

Lemma seg_prefix l : spaces (seg_ind l) ++ seg_head l = label_part l ++ spaces (fx_ind l).
Proof.
  unfold seg_ind, seg_head. destruct (label_part l) as [|c lp]; [now rewrite app_nil_r|reflexivity].
Qed.

Lemma render_cont l irr first :
  render_seg_line first false (seg_cont l irr)
  = (text_part l ++ [" "%char; amp]) ++ spaces (cont_trail l) ++ render_comment (cont_comment l).
Proof.
  unfold render_seg_line, seg_cont. cbn [sg_amp sg_ind sg_text sg_trail sg_comment].
  assert (E : (if first then [] else []) = @nil ascii) by now destruct first. rewrite E. cbn [app].
  rewrite !app_assoc, seg_prefix. unfold text_part. now rewrite <- !app_assoc.
Qed.

Lemma render_last l first :
  render_seg_line first true (seg_last l)
  = text_part l ++ spaces (last_trail l) ++ render_comment (last_comment l).
Proof.
  unfold render_seg_line, seg_last. cbn [sg_amp sg_ind sg_text sg_trail sg_comment].
  assert (E : (if first then [] else []) = @nil ascii) by now destruct first. rewrite E. cbn [app].
  rewrite app_nil_r, !app_assoc, seg_prefix. unfold text_part. now rewrite <- !app_assoc.
Qed.

Lemma line_continued ll l irr first :
  wf_fxline ll l -> comment_free None (fx_text l) = true -> lit_end None (fx_text l) = None ->
  chomp (fx_conv_continued l) = render_seg_line first false (seg_cont l irr).
Proof.
  intros H Hc He. rewrite (conv_continued ll l H Hc He), chomp_snoc, render_cont.
  unfold cont_line, cont_text, cont_trail, cont_comment.
  change (s " & ") with [" "%char; amp; " "%char]. change (s " &") with [" "%char; amp].
  destruct (fx_seq l) as [sq|]; destruct (fx_comment l) as [t|];
    cbn [option_map render_comment spaces repeat app]; unfold ljust; rewrite ?app_nil_r.
  - rewrite <- !app_assoc. reflexivity.
  - rewrite !app_length, text_part_length. cbn [length app].
    rewrite <- !app_assoc. cbn [app]. reflexivity.
  - rewrite <- !app_assoc. reflexivity.
  - reflexivity.
Qed.

Lemma line_last ll l first : wf_fxline ll l ->
  chomp (fx_conv l) = render_seg_line first true (seg_last l).
Proof.
  intros H. rewrite conv_last, chomp_snoc, render_last.
  unfold last_text, last_trail, last_comment, stripped_conv, fx_field.
  destruct (fx_seq l) as [sq|]; destruct (fx_comment l) as [t|];
    cbn [render_comment]; unfold ljust; rewrite ?app_nil_r.
  - unfold fx_stmt_part, fx_code, text_part. rewrite <- !app_assoc. reflexivity.
  - rewrite text_part_length. rewrite <- !app_assoc. reflexivity.
  - unfold fx_code, text_part. rewrite <- !app_assoc. reflexivity.
  - unfold fx_code, text_part. rewrite <- !app_assoc. reflexivity.
Qed.

Lemma line_irr i : chomp (irr_conv i) = render_bline (bline_of i).
Proof.
  destruct i as [c0 rest|n|ind rest]; cbn [irr_conv bline_of render_bline].
  - change (bang :: rest ++ [nl]) with ((bang :: rest) ++ [nl]). apply chomp_snoc.
  - apply chomp_snoc.
  - rewrite app_comm_cons, app_assoc. apply chomp_snoc.
Qed.

(* the texts of the continued lines of a statement whose line breaks fall outside literals *)
Fixpoint conts_clear (l : fxline) (conts : list (list fxirr * fxline)) : Prop :=
  match conts with
  | [] => True
  | (_, k) :: conts' =>
    comment_free None (fx_text l) = true /\ lit_end None (fx_text l) = None /\ conts_clear k conts'
  end.

Lemma texts_conts_clear conts : forall l,
  texts_ok None l conts -> closed_breaks l conts -> conts_clear l conts.
Proof.
  induction conts as [|[irr k] conts IH]; intros l Ht Hc; [exact I|].
  cbn [texts_ok closed_breaks conts_clear] in *.
  destruct Ht as (T1 & _ & T3). destruct Hc as (C1 & C2). rewrite C1 in T3.
  split; [exact T1|]. split; [exact C1|]. now apply IH.
Qed.

Lemma stmt_lines_free ll conts : forall l first,
  wf_fxline ll l -> wf_conts ll conts -> conts_clear l conts ->
  map chomp (flat_map (fun q => fx_conv_continued (fst q) :: map irr_conv (snd q))
                      (combine (l :: map snd conts) (map fst conts))
             ++ [fx_conv (last_line l conts)])
  = render_segs first (segs_of l conts).
Proof.
  induction conts as [|[irr k] conts IH]; intros l first Hl Hc Hcl.
  - cbn [map combine flat_map app segs_of render_segs]. unfold last_line. cbn [map List.last].
    now rewrite (line_last ll l first Hl).
  - inversion Hc as [|? ? (Hi & Hk & Hkc) Hr]; subst. cbn [fst snd] in *.
    destruct Hcl as (Hcf & Hle & Hcl).
    change (combine (l :: map snd ((irr, k) :: conts)) (map fst ((irr, k) :: conts)))
      with ((l, irr) :: combine (k :: map snd conts) (map fst conts)).
    cbn [flat_map fst snd segs_of].
    assert (Hlast : last_line l ((irr, k) :: conts) = last_line k conts).
    { unfold last_line. cbn [map snd]. destruct conts as [|p conts]; [reflexivity|].
      cbn [map]. change (List.last (k :: snd p :: map snd conts) l) with (List.last (snd p :: map snd conts) l).
      apply last_cons_default. }
    rewrite Hlast. rewrite <- app_assoc. rewrite map_app. cbn [app map]. rewrite map_app.
    specialize (IH k false Hk Hr Hcl). rewrite map_app in IH. rewrite IH.
    rewrite (line_continued ll l irr first Hl Hcf Hle).
    assert (Hirr : map chomp (map irr_conv irr) = map render_bline (map bline_of irr)).
    { clear. induction irr as [|i irr IHi]; [reflexivity|]. cbn [map]. rewrite IHi. f_equal. apply line_irr. }
    rewrite Hirr.
    change (render_segs first (seg_cont l irr :: segs_of k conts))
      with (match segs_of k conts with
            | [] => [render_seg_line first true (seg_cont l irr)]
            | _ => render_seg_line first false (seg_cont l irr)
                   :: map render_bline (sg_between (seg_cont l irr)) ++ render_segs false (segs_of k conts)
            end).
    assert (Hne : segs_of k conts <> []) by (destruct conts as [|[? ?] ?]; discriminate).
    destruct (segs_of k conts) as [|sg2 segs2] eqn:Es; [congruence|].
    reflexivity.
Qed.

Lemma texts_lines_ok conts : forall l,
  texts_ok None l conts -> closed_breaks l conts -> line_ok l /\ Forall (fun p => line_ok (snd p)) conts.
Proof.
  induction conts as [|[irr k] conts IH]; intros l Ht Hc; cbn [texts_ok closed_breaks] in *.
  - destruct Ht as (T1 & T2 & _). split; [split; assumption|constructor].
  - destruct Ht as (T1 & T2 & T3). destruct Hc as (C1 & C2). rewrite C1 in T3.
    destruct (IH k T3 C2) as (K1 & K2). split; [split; assumption|]. constructor; assumption.
Qed.

Lemma items_ok ll f : Forall (wf_item ll) f -> Forall closed_item f -> Forall ok_item f.
Proof.
  intros H Hc. rewrite Forall_forall in *. intros it Hit. specialize (H it Hit). specialize (Hc it Hit).
  destruct it as [i|st]; [exact I|]. destruct H as (_ & _ & _ & Ht). now apply texts_lines_ok.
Qed.

(* C14: the converter's output is, line for line, the free-form file [free_of f] *)
Theorem fixed_as_free ll f :
  Forall (wf_item ll) f -> Forall closed_item f ->
  map chomp (convert_to_free ll (render_fixed f)) = render_file (free_of f).
Proof.
  intros H Hcl. rewrite (convert_file ll f H (items_ok ll f H Hcl)).
  induction H as [|it f Hit _ IH]; [reflexivity|].
  inversion Hcl as [|? ? Hc1 Hc2]; subst.
  cbn [flat_map free_of map]. rewrite map_app. unfold render_file in *. cbn [flat_map].
  fold (free_of f). rewrite (IH Hc2). f_equal.
  destruct it as [i|st]; cbn [out_item free_item render_item map].
  - destruct i as [c0 rest|n|ind rest]; cbn [irr_conv].
    + change (bang :: rest ++ [nl]) with ((bang :: rest) ++ [nl]). now rewrite chomp_snoc.
    + now rewrite chomp_snoc.
    + now rewrite app_comm_cons, app_assoc, chomp_snoc.
  - destruct Hit as (Hfirst & _ & Hconts & Htexts). unfold stmt_lines.
    apply (stmt_lines_free ll (fs_conts st) (fs_first st) true Hfirst Hconts).
    now apply texts_conts_clear.
Qed.

(* ---------- statement, partial theorem, witnesses ---------- *)

(* where no literal is continued across a line break, the standard's equivalent is [free_of] of
   the file cut at column 72 *)
Definition cut_cont (p : list fxirr * fxline) : list fxirr * fxline := (fst p, cut_line (snd p)).

Lemma std_segs_closed conts : forall l,
  closed_breaks l conts -> std_segs None l conts = segs_of (cut_line l) (map cut_cont conts).
Proof.
  induction conts as [|[irr k] conts IH]; intros l H.
  - cbn [std_segs segs_of map]. unfold std_seg, seg_last, seg_ind, seg_head, last_trail, last_comment.
    cbn [is_open cut_line fx_seq fx_comment fx_pad fx_ind fx_text]. rewrite app_nil_r.
    change (label_part (cut_line l)) with (label_part l). destruct (label_part l); reflexivity.
  - destruct H as (H1 & H2). cbn [std_segs segs_of map cut_cont fst snd]. rewrite H1, (IH k H2). f_equal.
    unfold std_seg, seg_cont, seg_ind, seg_head, cont_trail, cont_comment. rewrite H1.
    cbn [is_open cut_line fx_seq fx_comment fx_pad fx_ind fx_text].
    change (label_part (cut_line l)) with (label_part l).
    destruct (label_part l); destruct (fx_comment l); reflexivity.
Qed.

Definition cut_file (f : list fxitem) : list fxitem := map cut_item f.

Lemma std_free_closed f : Forall closed_item f -> std_free_of f = free_of (cut_file f).
Proof.
  induction 1 as [|it f Hit _ IH]; [reflexivity|]. unfold std_free_of, free_of, cut_file in *. cbn [map].
  rewrite IH. f_equal. destruct it as [i|st]; [destruct i; reflexivity|]. cbn [std_item free_item cut_item fs_first fs_conts].
  now rewrite std_segs_closed.
Qed.

(* a file without text in columns 73+ is its own cut *)
Lemma cut_line_id l : fx_seq l = None -> cut_line l = l.
Proof. destruct l; cbn. intros ->. reflexivity. Qed.

Lemma cut_file_id f : Forall no_seq_item f -> cut_file f = f.
Proof.
  induction 1 as [|it f Hit _ IH]; [reflexivity|]. unfold cut_file in *. cbn [map]. rewrite IH. f_equal.
  destruct it as [i|[first conts]]; [reflexivity|]. destruct Hit as (H1 & H2). cbn [cut_item fs_first fs_conts] in *.
  assert (Hm : map (fun p : list fxirr * fxline => (fst p, cut_line (snd p))) conts = conts).
  { induction H2 as [|[irr k] conts Hk _ IHc]; [reflexivity|]. cbn [map fst snd] in *.
    now rewrite IHc, (cut_line_id k Hk). }
  now rewrite (cut_line_id first H1), Hm.
Qed.

(* the text of columns 73+ does not reach the statements: the free-form file has the same
   statement texts as that of the file cut at column 72 *)
Lemma joined_from_same s1 : forall s2 buf,
  Forall2 (fun a b => sg_amp a = sg_amp b /\ sg_text a = sg_text b) s1 s2 ->
  joined_from buf s1 = joined_from buf s2.
Proof.
  induction s1 as [|a s1 IH]; intros s2 buf H; inversion H as [|? b ? s2' (Ha & Ht) Hr]; subst; [reflexivity|].
  cbn [joined_from]. rewrite Ha, Ht. now apply IH.
Qed.

Lemma joined_same s1 s2 :
  Forall2 (fun a b => sg_amp a = sg_amp b /\ sg_text a = sg_text b) s1 s2 -> joined s1 = joined s2.
Proof.
  intros H. inversion H as [|a b s1' s2' (Ha & Ht) Hr]; subst; [reflexivity|].
  cbn [joined]. rewrite Ht. now apply joined_from_same.
Qed.

Lemma segs_cut_same conts : forall l,
  Forall2 (fun a b => sg_amp a = sg_amp b /\ sg_text a = sg_text b)
          (segs_of (cut_line l) (map cut_cont conts)) (segs_of l conts).
Proof.
  induction conts as [|[irr k] conts IH]; intros l; cbn [segs_of map cut_cont fst snd].
  - constructor; [|constructor]. split; reflexivity.
  - constructor; [split; reflexivity|apply IH].
Qed.

Lemma texts_cut f : file_texts (free_of (cut_file f)) = file_texts (free_of f).
Proof.
  induction f as [|it f IH]; [reflexivity|]. unfold file_texts, free_of, cut_file in *. cbn [map flat_map].
  rewrite IH. f_equal. destruct it as [[c0 rest|n|ind rest]|st]; try reflexivity.
  cbn [cut_item free_item fs_first fs_conts]. f_equal.
  apply joined_same. apply (segs_cut_same (fs_conts st) (fs_first st)).
Qed.

(* C14, full: a fixed-form file reads as its free-form equivalent by the standard's rules - the
   same statements and documentation lines, blanks at the end of a line (which a documentation
   comment cut at column 72 may have) not counted *)
Definition norm_res (r : read_res) : read_res :=
  match r with ROk ls => ROk (map rstrip ls) | e => e end.
Definition statement_C14 : Prop :=
  forall ll f, Forall (wf_item ll) f ->
  norm_res (read_all default_cfg (map chomp (convert_to_free ll (render_fixed f))))
  = norm_res (read_all default_cfg (render_file (std_free_of f))).

(* ... it holds for every file in which no character literal is continued across lines and no
   line has text in columns 73+ (with the length limit off: lines of any width) *)
Theorem partial_C14 ll f :
  Forall (wf_item ll) f -> Forall closed_item f -> Forall no_seq_item f ->
  read_all default_cfg (map chomp (convert_to_free ll (render_fixed f)))
  = read_all default_cfg (render_file (std_free_of f)).
Proof. intros H Hc Hn. now rewrite (std_free_closed f Hc), (cut_file_id f Hn), (fixed_as_free ll f H Hc). Qed.

(* ... and with text in columns 73+ in the class of the reader theorem ([item_ok]: ordinary
   comments only) *)
Theorem partial_C14_seq ll f :
  Forall (wf_item ll) f -> Forall closed_item f ->
  Forall item_ok (free_of f) -> Forall item_ok (free_of (cut_file f)) ->
  read_all default_cfg (map chomp (convert_to_free ll (render_fixed f)))
  = read_all default_cfg (render_file (std_free_of f)).
Proof.
  intros H Hc H1 H2. rewrite (std_free_closed f Hc), (fixed_as_free ll f H Hc).
  apply layout_invariance; [assumption|assumption|]. symmetry. apply texts_cut.
Qed.

Corollary fixed_statements ll f :
  Forall (wf_item ll) f -> Forall closed_item f -> Forall item_ok (free_of f) ->
  read_all default_cfg (map chomp (convert_to_free ll (render_fixed f)))
  = ROk (flat_map stmts_of (file_texts (free_of f))).
Proof. intros H1 Hc H2. rewrite (fixed_as_free ll f H1 Hc). now apply file_statements. Qed.

(* ... which are the statements of the file cut at column 72 *)
Corollary fixed_statements_cut ll f :
  Forall (wf_item ll) f -> Forall closed_item f -> Forall item_ok (free_of f) ->
  read_all default_cfg (map chomp (convert_to_free ll (render_fixed f)))
  = ROk (flat_map stmts_of (file_texts (free_of (cut_file f)))).
Proof. intros H1 Hc H2. rewrite texts_cut. now apply fixed_statements. Qed.

Definition mkfxs (lab : str) (c6 : ascii) (i : nat) (t : str) (p : nat) (c sq : option str) : fxline :=
  {| fx_label := lab; fx_c6 := c6; fx_ind := i; fx_text := t; fx_pad := p; fx_comment := c; fx_seq := sq |}.
Definition mkfx (lab : str) (c6 : ascii) (i : nat) (t : str) (p : nat) (c : option str) : fxline :=
  mkfxs lab c6 i t p c None.

Ltac wf_tac :=
  repeat match goal with
         | |- Forall (fun c : ascii => lab_char c = true) _ => repeat constructor
         | |- Forall _ (_ :: _) => constructor
         | |- Forall _ [] => constructor
         | |- wf_item _ _ => unfold wf_item
         | |- wf_item_of _ _ _ => cbn [wf_item_of]
         | |- wf_stmt_of _ _ _ => unfold wf_stmt_of; cbn [fs_first fs_conts]
         | |- wf_conts_of _ _ _ => unfold wf_conts_of
         | |- (_ = _) -> _ =>
           let H := fresh in intro H; try discriminate H; try (vm_compute in H; discriminate H)
         | |- closed_item _ => cbn [closed_item fs_first fs_conts closed_breaks mkfx mkfxs fx_text]
         | |- wf_stmt _ _ => unfold wf_stmt
         | |- wf_conts _ _ => unfold wf_conts
         | |- wf_fxirr _ => cbn [wf_fxirr]
         | |- texts_ok _ _ _ => cbn [texts_ok mkfx mkfxs fx_text fx_comment]
         | |- context [fst (_, _)] => cbn [fst snd]
         | |- context [snd (_, _)] => cbn [fst snd]
         | |- wf_fxline _ _ => unfold wf_fxline, field_width;
                                cbn [mkfx mkfxs fx_label fx_text fx_ind fx_pad fx_comment fx_seq]
         | |- is_initial _ => (left; reflexivity) || (right; reflexivity)
         | |- is_continuation _ => unfold is_continuation; cbn [mkfx mkfxs fx_label fx_c6]
         | |- _ /\ _ => split
         | |- True => exact I
         | |- _ <= _ => simpl; lia
         | |- ~ In _ _ => simpl; let H := fresh in intros H; repeat (destruct H as [H|H]; [discriminate|]); exact H
         | |- _ <> _ => discriminate
         | |- _ = _ => reflexivity
         | |- nsfirst _ => reflexivity
         | |- nslast _ => reflexivity
         end.

(* The literal continued across lines: the standard joins column 72 to column 7, FORD joins the
   trimmed texts with one blank.
         s = 'ab   /        &cd'                                                          *)
Definition witness_literal : list fxitem :=
  [FxStmt {| fs_first := mkfx (spaces 5) " " 0 (s "s = 'ab") 0 None;
             fs_conts := [([], mkfx (spaces 5) "&" 0 (s "cd'") 0 None)] |}].

Lemma witness_literal_wf : Forall (wf_item true) witness_literal.
Proof. unfold witness_literal. wf_tac. Qed.

Example literal_split_outputs :
  render_fixed witness_literal = [s "      s = 'ab" ++ [nl]; s "     &cd'" ++ [nl]] /\
  ~ Forall closed_item witness_literal /\
  read_all default_cfg (map chomp (convert_to_free true (render_fixed witness_literal)))
  = ROk [s "s = 'ab cd'"] /\
  read_all default_cfg (render_file (std_free_of witness_literal))
  = ROk [s "s = 'ab" ++ spaces 59 ++ s "cd'"].
Proof.
  split; [reflexivity|]. split; [|split; vm_compute; reflexivity].
  intros H. inversion H as [|? ? Hc _]. destruct Hc as (Hopen & _). vm_compute in Hopen. discriminate.
Qed.

Theorem refuted_literal_split : ~ statement_C14.
Proof. intros H. specialize (H true witness_literal witness_literal_wf). vm_compute in H. discriminate. Qed.

(* ---------- the two repaired defects: former witnesses, now regression examples ---------- *)

(*       x = 1 ! c   /        &  + 2 *)
Definition regress_inline_comment : list fxitem :=
  [FxStmt {| fs_first := mkfx (spaces 5) " " 0 (s "x = 1") 1 (Some (s " c"));
             fs_conts := [([], mkfx (spaces 5) "&" 2 (s "+ 2") 0 None)] |}].
(*       x = 1   /  (7 blanks)  /        &  + 2 *)
Definition regress_blank : list fxitem :=
  [FxStmt {| fs_first := mkfx (spaces 5) " " 0 (s "x = 1") 0 None;
             fs_conts := [([FxBlank 7], mkfx (spaces 5) "&" 2 (s "+ 2") 0 None)] |}].

Example regress_inline_comment_ok :
  Forall (wf_item true) regress_inline_comment /\ Forall closed_item regress_inline_comment /\
  render_fixed regress_inline_comment = [s "      x = 1 ! c" ++ [nl]; s "     &  + 2" ++ [nl]] /\
  map chomp (convert_to_free true (render_fixed regress_inline_comment)) = [s "x = 1 & ! c"; s "  + 2"] /\
  render_file (free_of regress_inline_comment) = [s "x = 1 & ! c"; s "  + 2"] /\
  read_all default_cfg (map chomp (convert_to_free true (render_fixed regress_inline_comment)))
  = ROk [s "x = 1 + 2"].
Proof.
  split; [unfold regress_inline_comment; wf_tac|]. split; [unfold regress_inline_comment; wf_tac|].
  repeat match goal with |- _ /\ _ => split end; vm_compute; reflexivity.
Qed.

Example regress_blank_ok :
  Forall (wf_item true) regress_blank /\ Forall closed_item regress_blank /\
  render_fixed regress_blank = [s "      x = 1" ++ [nl]; s "       " ++ [nl]; s "     &  + 2" ++ [nl]] /\
  map chomp (convert_to_free true (render_fixed regress_blank)) = [s "x = 1 &"; s " "; s "  + 2"] /\
  render_file (free_of regress_blank) = [s "x = 1 &"; s " "; s "  + 2"] /\
  read_all default_cfg (map chomp (convert_to_free true (render_fixed regress_blank)))
  = ROk [s "x = 1 + 2"].
Proof.
  split; [unfold regress_blank; wf_tac|]. split; [unfold regress_blank; wf_tac|].
  repeat match goal with |- _ /\ _ => split end; vm_compute; reflexivity.
Qed.

(* ---------- non-vacuity ---------- *)

(* labels, a '0' in column 6, several continuation characters, comment lines of all four styles,
   blank lines of widths 2, 6, 9 and 40 inside a statement, inline comments on continued lines
   (after a literal holding '!' and a doubled quote) and on a last line *)
Definition example_fixed : list fxitem :=
  [FxIrr (FxComment "C" (s " header"));
   FxStmt {| fs_first := mkfx (s "  100") "0" 1 (s "call f('a!b', 'it''s',") 3 (Some (s " first ' part  "));
             fs_conts := [([FxComment "*" (s " star"); FxBlank 2; FxBlank 9], mkfx (spaces 5) "1" 4 (s "x)") 0 None);
                          ([FxComment "c" (s ""); FxBlank 40; FxComment "!" (s " bang"); FxBlank 6],
                           mkfx (spaces 5) "$" 0 (s "; y = 2") 1 (Some (s "last")))] |};
   FxIrr (FxBlank 0); FxIrr (FxBlank 30);
   FxStmt {| fs_first := mkfx (spaces 5) " " 0 (s "end") 0 None; fs_conts := [] |}].

Example example_fixed_ok :
  Forall (wf_item true) example_fixed /\ Forall closed_item example_fixed /\ Forall item_ok (free_of example_fixed) /\
  map chomp (convert_to_free true (render_fixed example_fixed))
  = [s "! header"; s "100  call f('a!b', 'it''s', & ! first ' part"; s "! star"; s ""; s "   ";
     s "    x) &"; s "!"; spaces 34; s "! bang"; s ""; s "; y = 2 !last"; s ""; spaces 24; s "end"] /\
  read_all default_cfg (map chomp (convert_to_free true (render_fixed example_fixed)))
  = ROk [s "100  call f('a!b', 'it''s', x)"; s "y = 2"; s "end"].
Proof.
  split; [unfold example_fixed; wf_tac|]. split; [unfold example_fixed; wf_tac|].
  split; [|split; vm_compute; reflexivity].
  repeat constructor; simpl; repeat split; try reflexivity; try discriminate; auto;
    try (intros; discriminate); try (repeat constructor; simpl; repeat split; discriminate).
Qed.

(* a documentation comment on a continued line stays a documentation comment of that line *)
Definition example_doc : list fxitem :=
  [FxStmt {| fs_first := mkfx (spaces 5) " " 0 (s "integer ::") 2 (Some (s "! the count "));
             fs_conts := [([FxBlank 72], mkfx (spaces 5) "+" 1 (s "n") 0 None)] |}].

Example example_doc_ok :
  Forall (wf_item true) example_doc /\ Forall closed_item example_doc /\
  map chomp (convert_to_free true (render_fixed example_doc)) = [s "integer :: & !! the count"; spaces 66; s " n"] /\
  read_all default_cfg (map chomp (convert_to_free true (render_fixed example_doc)))
  = ROk [s "integer :: n"; s "!! the count"].
Proof.
  split; [unfold example_doc; wf_tac|]. split; [unfold example_doc; wf_tac|].
  split; vm_compute; reflexivity.
Qed.

(* ---------- '!' as continuation mark and as comment initiator ---------- *)

(* a comment line whose '!' stands in column 7, between a line and its continuation line (a repaired
   defect: the line used to be taken for a statement line and got the '&')
         x = 1   /        ! note   /        &  + 2                                      *)
Definition regress_indented : list fxitem :=
  [FxStmt {| fs_first := mkfx (spaces 5) " " 0 (s "x = 1") 0 None;
             fs_conts := [([FxBang 6 (s " note")], mkfx (spaces 5) "&" 2 (s "+ 2") 0 None)] |}].

Example regress_indented_ok :
  Forall (wf_item true) regress_indented /\ Forall closed_item regress_indented /\
  render_fixed regress_indented = [s "      x = 1" ++ [nl]; s "      ! note" ++ [nl]; s "     &  + 2" ++ [nl]] /\
  map chomp (convert_to_free true (render_fixed regress_indented)) = [s "x = 1 &"; s "      ! note"; s "  + 2"] /\
  render_file (free_of regress_indented) = [s "x = 1 &"; s "      ! note"; s "  + 2"] /\
  read_all default_cfg (map chomp (convert_to_free true (render_fixed regress_indented)))
  = ROk [s "x = 1 + 2"].
Proof.
  split; [unfold regress_indented; wf_tac|]. split; [unfold regress_indented; wf_tac|].
  repeat match goal with |- _ /\ _ => split end; vm_compute; reflexivity.
Qed.

(* in the class of the theorems: '!' in column 6 marks a continuation line (three times here, once
   on a line with an inline comment), and comment lines whose '!' stands in columns 2, 3, 5, 7 and
   31 pass as comment lines *)
Definition example_bang : list fxitem :=
  [FxIrr (FxBang 2 (s " in column 3"));
   FxStmt {| fs_first := mkfx (s "   10") " " 0 (s "call f(a,") 1 (Some (s " first"));
             fs_conts := [([FxBang 1 (s ""); FxBang 4 (s " col 5")], mkfx (spaces 5) "!" 2 (s "b,") 0 (Some (s " note")));
                          ([FxBang 6 (s " col 7"); FxBang 30 (s "far")], mkfx (spaces 5) "!" 0 (s "c,") 0 None);
                          ([FxBlank 8], mkfx (spaces 5) "!" 1 (s "d)") 0 None)] |}].

Example example_bang_ok :
  Forall (wf_item true) example_bang /\ Forall closed_item example_bang /\ Forall item_ok (free_of example_bang) /\
  render_fixed example_bang
  = map (fun x => x ++ [nl])
        [s "  ! in column 3"; s "   10 call f(a, ! first"; s " !"; s "    ! col 5"; s "     !  b,! note"; s "      ! col 7"; spaces 30 ++ s "!far"; s "     !c,";
         s "        "; s "     ! d)"] /\
  map chomp (convert_to_free true (render_fixed example_bang))
  = [s "  ! in column 3"; s "10 call f(a, & ! first"; s " !"; s "    ! col 5"; s "  b, & ! note"; s "      ! col 7"; spaces 30 ++ s "!far"; s "c, &"; s "  "; s " d)"] /\
  read_all default_cfg (map chomp (convert_to_free true (render_fixed example_bang)))
  = ROk [s "10 call f(a, b, c, d)"].
Proof.
  split; [unfold example_bang; wf_tac|]. split; [unfold example_bang; wf_tac|].
  split; [|repeat match goal with |- _ /\ _ => split end; vm_compute; reflexivity].
  repeat constructor; simpl; repeat split; try reflexivity; try discriminate; auto;
    try (intros; discriminate); try (repeat constructor; simpl; repeat split; discriminate).
Qed.

(* ---------- text in columns 73 and beyond ---------- *)

(* With the line length limited, what stands beyond column 72 is no part of the file.  It used to
   be appended to an inline documentation comment of its line (a repaired defect):
         integer :: n  !! the number of iterations of the outer loop that r|un before convergence *)
Definition regress_seq_doc : list fxitem :=
  [FxStmt {| fs_first := mkfxs (spaces 5) " " 0 (s "integer :: n") 2
                               (Some (s "! the number of iterations of the outer loop that r"))
                               (Some (s "un before convergence"));
             fs_conts := [] |};
   FxStmt {| fs_first := mkfxs (spaces 5) " " 0 (s "integer :: m") 1 (Some (s "! the count" ++ spaces 41))
                               (Some (s "SEQ00010"));
             fs_conts := [([], mkfxs (spaces 5) "&" 1 (s ", k") 62 None (Some (s "!note")))] |}].

Example regress_seq_doc_ok :
  Forall (wf_item true) regress_seq_doc /\ Forall closed_item regress_seq_doc /\
  render_fixed regress_seq_doc
  = map (fun x => x ++ [nl])
        [s "      integer :: n  !! the number of iterations of the outer loop that run before convergence";
         s "      integer :: m !! the count" ++ spaces 41 ++ s "SEQ00010";
         s "     & , k" ++ spaces 62 ++ s "!note"] /\
  map chomp (convert_to_free true (render_fixed regress_seq_doc))
  = [s "integer :: n  !! the number of iterations of the outer loop that r";
     s "integer :: m & !! the count"; s " , k" ++ spaces 68 ++ s "! !note"] /\
  read_all default_cfg (map chomp (convert_to_free true (render_fixed regress_seq_doc)))
  = ROk [s "integer :: n"; s "!! the number of iterations of the outer loop that r";
         s "integer :: m , k"; s "!! the count"] /\
  norm_res (read_all default_cfg (render_file (std_free_of regress_seq_doc)))
  = ROk [s "integer :: n"; s "!! the number of iterations of the outer loop that r";
         s "integer :: m , k"; s "!! the count"].
Proof.
  split; [unfold regress_seq_doc; wf_tac|]. split; [unfold regress_seq_doc; wf_tac|].
  repeat match goal with |- _ /\ _ => split end; vm_compute; reflexivity.
Qed.

(* non-vacuity: a labelled statement over four lines with sequence numbers on every line; one line
   has an inline comment before column 72, one an inline comment that runs over column 72, a blank
   line of 80 columns and a comment line whose '!' stands in column 74 in between *)
Definition example_seq : list fxitem :=
  [FxStmt {| fs_first := mkfxs (s "  100") "0" 1 (s "call f('a!b',") 52 None (Some (s "SEQ00010"));
             fs_conts :=
               [([], mkfxs (spaces 5) "1" 4 (s "x,") 0 (Some (s " second" ++ spaces 52)) (Some (s "SEQ00020")));
                ([], mkfxs (spaces 5) "!" 0 (s "y,") 1
                           (Some (s " a plain comment that runs over column seventy-two and goes on"))
                           (Some (s " for a while")));
                ([FxBlank 80; FxBang 73 (s "beyond")], mkfxs (spaces 5) "&" 2 (s "z)") 62 None (Some (s "00000040")))] |}].

Example example_seq_ok :
  Forall (wf_item true) example_seq /\ Forall closed_item example_seq /\
  Forall item_ok (free_of example_seq) /\ Forall item_ok (free_of (cut_file example_seq)) /\
  render_fixed example_seq
  = map (fun x => x ++ [nl])
        [s "  1000 call f('a!b'," ++ spaces 52 ++ s "SEQ00010";
         s "     1    x,! second" ++ spaces 52 ++ s "SEQ00020";
         s "     !y, ! a plain comment that runs over column seventy-two and goes on for a while";
         spaces 80; spaces 73 ++ s "!beyond";
         s "     &  z)" ++ spaces 62 ++ s "00000040"] /\
  map chomp (convert_to_free true (render_fixed example_seq))
  = [s "100  call f('a!b', &" ++ spaces 52 ++ s "! SEQ00010";
     s "    x, & ! second";
     s "y, & ! a plain comment that runs over column seventy-two and goes on";
     spaces 74; spaces 73 ++ s "!beyond";
     s "  z)" ++ spaces 68 ++ s "! 00000040"] /\
  read_all default_cfg (map chomp (convert_to_free true (render_fixed example_seq)))
  = ROk [s "100  call f('a!b', x, y, z)"] /\
  read_all default_cfg (render_file (std_free_of example_seq)) = ROk [s "100  call f('a!b', x, y, z)"].
Proof.
  split; [unfold example_seq; wf_tac|]. split; [unfold example_seq; wf_tac|].
  split; [|split; [|repeat match goal with |- _ /\ _ => split end; vm_compute; reflexivity]];
    (repeat constructor; simpl; repeat split; try reflexivity; try discriminate; auto;
     try (intros; discriminate); try (repeat constructor; simpl; repeat split; discriminate)).
Qed.

(* with the length limit off a line may have any width: text and comments beyond column 72 are
   statement text and comments like everything else *)
Definition example_wide : list fxitem :=
  [FxStmt {| fs_first := mkfx (spaces 5) " " 0 (s "x = 'a long literal that reaches beyond column seventy-two of the line' // y") 2
                              (Some (s " and a comment"));
             fs_conts := [([FxBlank 90], mkfx (spaces 5) "+" 60 (s "// 'far right'") 0 None)] |}].

Example example_wide_ok :
  Forall (wf_item false) example_wide /\ Forall closed_item example_wide /\ Forall no_seq_item example_wide /\
  Forall item_ok (free_of example_wide) /\
  read_all default_cfg (map chomp (convert_to_free false (render_fixed example_wide)))
  = ROk [s "x = 'a long literal that reaches beyond column seventy-two of the line' // y // 'far right'"].
Proof.
  split; [unfold example_wide; wf_tac|]. split; [unfold example_wide; wf_tac|].
  split; [repeat constructor|]. split; [|vm_compute; reflexivity].
  repeat constructor; simpl; repeat split; try reflexivity; try discriminate; auto;
    try (intros; discriminate); try (repeat constructor; simpl; repeat split; discriminate).
Qed.
