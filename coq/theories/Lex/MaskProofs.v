(* Lex/MaskProofs.v -- the masking / re-insertion loops of Lex/Mask.v are inverse to each other on
   every statement made of quote-free code and well-formed literals (property C18). *)
From Ford Require Import Base.Str Base.StrFacts Out.Names Lex.Mask.
From Coq Require Import Lia DecimalString DecimalNat Decimal.

Definition starts_ok (x : str) : bool :=
  match x with [] => true | d :: _ => negb (is_quote d) end.

Lemma ch_eqb_refl c : ch_eqb c c = true.
Proof. apply Ascii.eqb_refl. Qed.
Lemma ch_eqb_eq a b : ch_eqb a b = true <-> a = b.
Proof. apply Ascii.eqb_eq. Qed.

(* ---------- scanning one literal ---------- *)

Lemma scan_pair q x : scan q (q :: q :: x) = match scan q x with Some n => Some (2 + n) | None => Some 1 end.
Proof. cbn [scan]. now rewrite !ch_eqb_refl. Qed.
Lemma scan_other q c x : ch_eqb c q = false -> scan q (c :: x) = option_map S (scan q x).
Proof. intros E. cbn [scan]. now rewrite E. Qed.
Lemma scan_close q rest : match rest with [] => True | d :: _ => ch_eqb d q = false end ->
  scan q (q :: rest) = Some 1.
Proof. intros Hr. cbn [scan]. rewrite ch_eqb_refl. destruct rest as [|d rest]; [reflexivity|]. now rewrite Hr. Qed.

Lemma scan_lit q b rest :
  match rest with [] => True | d :: _ => ch_eqb d q = false end ->
  scan q (escape_body q b ++ q :: rest) = Some (S (length (escape_body q b))).
Proof.
  intros Hr. induction b as [|c b IH]; cbn [escape_body].
  - now apply scan_close.
  - destruct (ch_eqb c q) eqn:E.
    + rewrite <- !app_comm_cons, scan_pair, IH. reflexivity.
    + rewrite <- app_comm_cons, scan_other, IH by exact E. reflexivity.
Qed.

Lemma starts_ok_not q rest : is_quote q = true -> starts_ok rest = true ->
  match rest with [] => True | d :: _ => ch_eqb d q = false end.
Proof.
  intros Hq Hs. destruct rest as [|d rest]; [exact I|]. simpl in Hs.
  destruct (ch_eqb d q) eqn:E; [|reflexivity].
  apply ch_eqb_eq in E. subst d. rewrite Hq in Hs. discriminate.
Qed.

Lemma find_lit_cons_quote c x n : is_quote c = true -> scan c x = Some n ->
  find_lit (c :: x) = Some (0, S n).
Proof. intros H1 H2. simpl. now rewrite H1, H2. Qed.

Lemma find_lit_here q b rest : is_quote q = true -> starts_ok rest = true ->
  find_lit (render_lit q b ++ rest) = Some (0, length (render_lit q b)).
Proof.
  intros Hq Hs. unfold render_lit. rewrite <- app_comm_cons, <- app_assoc, <- app_comm_cons, app_nil_l.
  rewrite (find_lit_cons_quote q _ (S (length (escape_body q b)))); auto.
  - simpl. rewrite app_length. simpl. now rewrite Nat.add_1_r.
  - apply scan_lit. now apply starts_ok_not.
Qed.

Lemma find_lit_code c x : no_quote c = true ->
  find_lit (c ++ x) = match find_lit x with Some (st, len) => Some (length c + st, len) | None => None end.
Proof.
  intros H. induction c as [|a c IH]; simpl.
  - destruct (find_lit x) as [[st len]|]; reflexivity.
  - simpl in H. apply andb_true_iff in H as [Ha Hc]. apply negb_true_iff in Ha. rewrite Ha, IH by exact Hc.
    destruct (find_lit x) as [[st len]|]; reflexivity.
Qed.

Lemma find_lit_none x : no_quote x = true -> find_lit x = None.
Proof.
  intros H. rewrite <- (app_nil_r x), find_lit_code by exact H. reflexivity.
Qed.

Lemma find_lit_code_lit c q b rest : no_quote c = true -> is_quote q = true -> starts_ok rest = true ->
  find_lit (c ++ render_lit q b ++ rest) = Some (length c, length (render_lit q b)).
Proof.
  intros Hc Hq Hs. rewrite find_lit_code, find_lit_here by assumption. now rewrite Nat.add_0_r.
Qed.

(* ---------- list surgery ---------- *)

Lemma skipn_pre {A} (pre x : list A) : skipn (length pre) (pre ++ x) = x.
Proof. induction pre; simpl; auto. Qed.
Lemma firstn_pre {A} (pre x : list A) : firstn (length pre) (pre ++ x) = pre.
Proof. induction pre; simpl; [now destruct x|]. now f_equal. Qed.
Lemma skipn_pre2 {A} (pre c x : list A) : skipn (length pre + length c) (pre ++ c ++ x) = x.
Proof. rewrite <- app_length, app_assoc. apply skipn_pre. Qed.
Lemma firstn_pre2 {A} (pre c x : list A) : firstn (length pre + length c) (pre ++ c ++ x) = pre ++ c.
Proof. rewrite <- app_length, app_assoc. apply firstn_pre. Qed.
Lemma skipn_pre3 {A} (pre c l x : list A) :
  skipn (length pre + length c + length l) (pre ++ c ++ l ++ x) = x.
Proof. rewrite <- !app_length, !app_assoc. apply skipn_pre. Qed.

(* ---------- placeholders ---------- *)

Lemma uint_no_dq d : ~ In dq (s (NilEmpty.string_of_uint d)).
Proof. induction d; simpl; [tauto | intros [H|H]; [discriminate | auto] ..]. Qed.

Lemma escape_body_id q x : ~ In q x -> escape_body q x = x.
Proof.
  induction x as [|c x IH]; simpl; intros H; [reflexivity|].
  destruct (ch_eqb c q) eqn:E.
  - apply ch_eqb_eq in E. subst. exfalso. apply H. now left.
  - rewrite IH; auto.
Qed.

Lemma placeholder_lit k : placeholder k = render_lit dq (dec k).
Proof. unfold placeholder, render_lit. rewrite escape_body_id; [reflexivity|apply uint_no_dq]. Qed.

Lemma dec_nonempty k : dec k <> [].
Proof.
  unfold dec. intros H.
  assert (E : NilEmpty.string_of_uint (Nat.to_uint k) = ""%string).
  { destruct (NilEmpty.string_of_uint (Nat.to_uint k)); [reflexivity|discriminate]. }
  pose proof (NilEmpty.usu (Nat.to_uint k)) as U. rewrite E in U. simpl in U.
  injection U as U. pose proof (Unsigned.of_to k) as V. rewrite <- U in V. simpl in V.
  subst k. discriminate U.
Qed.

Lemma parse_dec k : parse_nat (dec k) = Some k.
Proof.
  unfold parse_nat. destruct (dec k) eqn:E; [now apply dec_nonempty in E|]. rewrite <- E.
  unfold dec, Str.s. rewrite string_of_list_ascii_of_string, NilEmpty.usu. simpl. now rewrite Unsigned.of_to.
Qed.

Lemma dq_quote : is_quote dq = true. Proof. reflexivity. Qed.

(* the text between the quotes of a placeholder *)
Lemma placeholder_unfold k : placeholder k = [dq] ++ dec k ++ [dq].
Proof. reflexivity. Qed.
Lemma placeholder_len k : length (placeholder k) - 2 = length (dec k).
Proof. rewrite placeholder_unfold, !app_length. simpl. lia. Qed.

Lemma placeholder_body k : firstn (length (placeholder k) - 2) (skipn 1 (placeholder k)) = dec k.
Proof.
  unfold placeholder. change (skipn 1 (dq :: dec k ++ [dq])) with (dec k ++ [dq]).
  change (length (dq :: dec k ++ [dq])) with (S (length (dec k ++ [dq]))).
  rewrite app_length. change (length [dq]) with 1.
  replace (S (length (dec k) + 1) - 2) with (length (dec k)) by lia. apply firstn_pre.
Qed.

(* ---------- what follows a literal ---------- *)

Lemma starts_ok_code c x : no_quote c = true -> c <> [] -> starts_ok (c ++ x) = true.
Proof.
  destruct c as [|a c]; [congruence|]. simpl. intros H _. apply andb_true_iff in H. tauto.
Qed.

Lemma starts_ok_render r tail : wf_segs false r = true -> no_quote tail = true ->
  starts_ok (render r tail) = true.
Proof.
  intros Hw Ht. destruct r as [|[[c q] b] r]; simpl in *.
  - destruct tail; simpl in *; [reflexivity|]. apply andb_true_iff in Ht. tauto.
  - rewrite !andb_true_iff in Hw. destruct Hw as [[[Hc _] Hne] _].
    apply starts_ok_code; [exact Hc|]. destruct c; [discriminate|congruence].
Qed.

Lemma starts_ok_render_masked k r tail : wf_segs false r = true -> no_quote tail = true ->
  starts_ok (render_masked k r tail) = true.
Proof.
  intros Hw Ht. destruct r as [|[[c q] b] r]; simpl in *.
  - destruct tail; simpl in *; [reflexivity|]. apply andb_true_iff in Ht. tauto.
  - rewrite !andb_true_iff in Hw. destruct Hw as [[[Hc _] Hne] _].
    apply starts_ok_code; [exact Hc|]. destruct c; [discriminate|congruence].
Qed.

Lemma starts_ok_render_with prep r tail : wf_segs false r = true -> no_quote tail = true ->
  starts_ok (render_with prep r tail) = true.
Proof.
  intros Hw Ht. destruct r as [|[[c q] b] r]; simpl in *.
  - destruct tail; simpl in *; [reflexivity|]. apply andb_true_iff in Ht. tauto.
  - rewrite !andb_true_iff in Hw. destruct Hw as [[[Hc _] Hne] _].
    apply starts_ok_code; [exact Hc|]. destruct c; [discriminate|congruence].
Qed.

Lemma wf_segs_weaken first r : wf_segs first r = true -> wf_segs true r = true.
Proof.
  destruct r as [|[[c q] b] r]; simpl; [auto|]. rewrite !andb_true_iff. intros [[[A B] _] D]. now rewrite A, B, D.
Qed.

(* ---------- the masking loop ---------- *)

Lemma mask_loop_spec : forall segs tail fuel pre strs first,
  wf_segs first segs = true -> no_quote tail = true -> length segs < fuel ->
  mask_loop fuel strs (pre ++ render segs tail) (length pre)
  = Some (pre ++ render_masked (length strs) segs tail, strs ++ lits segs).
Proof.
  induction segs as [|[[c q] b] r IH]; intros tail fuel pre strs first Hw Ht Hf.
  - destruct fuel; [simpl in Hf; lia|]. simpl. rewrite skipn_pre, find_lit_none by exact Ht.
    now rewrite app_nil_r.
  - destruct fuel; [simpl in Hf; lia|].
    simpl in Hw. rewrite !andb_true_iff in Hw. destruct Hw as [[[Hc Hq] Hne] Hr].
    assert (S1 : starts_ok (render r tail) = true) by now apply starts_ok_render.
    cbn [mask_loop render]. rewrite skipn_pre.
    rewrite find_lit_code_lit by assumption.
    rewrite skipn_pre2, firstn_pre2, firstn_pre, skipn_pre3.
    replace (pre ++ c) with (pre ++ c) by reflexivity.
    rewrite <- (app_assoc pre c), skipn_pre.
    rewrite placeholder_lit.
    rewrite find_lit_code_lit by (auto using dq_quote).
    rewrite <- placeholder_lit.
    replace (length pre + length c + length (placeholder (length strs)))
      with (length ((pre ++ c) ++ placeholder (length strs))) by (rewrite !app_length; lia).
    replace (pre ++ c ++ placeholder (length strs) ++ render r tail)
      with (((pre ++ c) ++ placeholder (length strs)) ++ render r tail) by (now rewrite <- !app_assoc).
    rewrite (IH tail fuel _ (strs ++ [render_lit q b]) false) by (auto; simpl in Hf; lia).
    rewrite app_length. change (length [render_lit q b]) with 1. rewrite Nat.add_1_r, <- !app_assoc.
    reflexivity.
Qed.

Lemma render_lit_length q b : 2 <= length (render_lit q b).
Proof. unfold render_lit. change (length (q :: escape_body q b ++ [q])) with (S (length (escape_body q b ++ [q]))).
       rewrite app_length. change (length [q]) with 1. lia. Qed.

Lemma render_length segs tail : length segs + length segs <= length (render segs tail).
Proof.
  induction segs as [|[[c q] b] r IH]; [simpl; lia|].
  change (render (((c, q, b)) :: r) tail) with (c ++ render_lit q b ++ render r tail).
  rewrite !app_length. pose proof (render_lit_length q b). simpl length in *. lia.
Qed.

Theorem mask_spec : forall segs tail, wf_line segs tail = true ->
  mask (render segs tail) = Some (render_masked 0 segs tail, lits segs).
Proof.
  intros segs tail H. unfold wf_line in H. apply andb_true_iff in H as [Hw Ht].
  unfold mask. pose proof (render_length segs tail) as L.
  apply (mask_loop_spec segs tail _ [] [] true Hw Ht). lia.
Qed.

(* ---------- the re-insertion loop ---------- *)

(* what [prep] may do to a stored literal: keep it a literal with the same quote *)
Definition keeps_literals (prep : str -> str) : Prop :=
  forall q b, is_quote q = true -> exists b', prep (render_lit q b) = render_lit q b'.

Lemma unmask_loop_spec prep : keeps_literals prep ->
  forall segs tail fuel pre front first,
  wf_segs first segs = true -> no_quote tail = true -> length segs < fuel ->
  unmask_loop fuel prep (front ++ lits segs) (pre ++ render_masked (length front) segs tail) (length pre)
  = Some (pre ++ render_with prep segs tail).
Proof.
  intros K. induction segs as [|[[c q] b] r IH]; intros tail fuel pre front first Hw Ht Hf.
  - destruct fuel; [simpl in Hf; lia|]. simpl. rewrite skipn_pre, find_lit_none by exact Ht. reflexivity.
  - destruct fuel; [simpl in Hf; lia|].
    simpl in Hw. rewrite !andb_true_iff in Hw. destruct Hw as [[[Hc Hq] Hne] Hr].
    assert (S1 : starts_ok (render_masked (S (length front)) r tail) = true)
      by now apply starts_ok_render_masked.
    cbn [unmask_loop render_masked]. rewrite skipn_pre.
    rewrite placeholder_lit at 1. rewrite find_lit_code_lit by (auto using dq_quote).
    rewrite <- placeholder_lit.
    replace (length pre + length c + 1) with (length (pre ++ c) + 1) by (rewrite app_length; lia).
    assert (B : firstn (length (placeholder (length front)) - 2)
                  (skipn (length (pre ++ c) + 1)
                     (pre ++ c ++ placeholder (length front) ++ render_masked (S (length front)) r tail))
                = dec (length front)).
    { rewrite placeholder_len.
      rewrite (placeholder_unfold (length front)) at 1.
      replace (pre ++ c ++ ([dq] ++ dec (length front) ++ [dq]) ++ render_masked (S (length front)) r tail)
        with (((pre ++ c) ++ [dq]) ++ dec (length front) ++ [dq] ++ render_masked (S (length front)) r tail)
        by (now rewrite <- !app_assoc).
      replace (length (pre ++ c) + 1) with (length ((pre ++ c) ++ [dq]))
        by (now rewrite (app_length (pre ++ c) [dq])).
      rewrite skipn_pre. apply firstn_pre. }
    rewrite B, parse_dec.
    match goal with |- context [nth_error ?l ?n] =>
      replace (nth_error l n) with (Some (render_lit q b))
        by (symmetry; rewrite nth_error_app2, Nat.sub_diag by lia; reflexivity) end.
    destruct (K q b Hq) as (b' & P). rewrite P.
    rewrite firstn_pre2, skipn_pre3.
    rewrite <- (app_assoc pre c), skipn_pre.
    assert (S2 : starts_ok (render_masked (S (length front)) r tail) = true) by exact S1.
    rewrite find_lit_code_lit by assumption.
    replace (length pre + length c + length (render_lit q b'))
      with (length ((pre ++ c) ++ render_lit q b')) by (rewrite !app_length; lia).
    replace (pre ++ c ++ render_lit q b' ++ render_masked (S (length front)) r tail)
      with (((pre ++ c) ++ render_lit q b') ++ render_masked (S (length front)) r tail)
      by (now rewrite <- !app_assoc).
    match goal with |- unmask_loop _ _ ?L _ _ = _ =>
      replace L with ((front ++ [render_lit q b]) ++ lits r) by (now rewrite <- app_assoc) end.
    replace (S (length front)) with (length (front ++ [render_lit q b])) by (rewrite app_length; simpl; lia).
    rewrite (IH tail fuel _ (front ++ [render_lit q b]) false) by (auto; simpl in Hf; lia).
    cbn [render_with]. rewrite P, <- !app_assoc. reflexivity.
Qed.

Lemma render_masked_length k segs tail : length segs + length segs <= length (render_masked k segs tail).
Proof.
  revert k. induction segs as [|[[c q] b] r IH]; intros k; [simpl; lia|].
  change (render_masked k (((c, q, b)) :: r) tail) with (c ++ placeholder k ++ render_masked (S k) r tail).
  rewrite !app_length. specialize (IH (S k)). rewrite placeholder_lit.
  pose proof (render_lit_length dq (dec k)). simpl length in *. lia.
Qed.

Theorem unmask_spec prep : keeps_literals prep ->
  forall segs tail, wf_line segs tail = true ->
  unmask_in prep (lits segs) (render_masked 0 segs tail) = Some (render_with prep segs tail).
Proof.
  intros K segs tail H. unfold wf_line in H. apply andb_true_iff in H as [Hw Ht].
  unfold unmask_in. pose proof (render_masked_length 0 segs tail) as L.
  apply (unmask_loop_spec prep K segs tail _ [] [] true Hw Ht). lia.
Qed.

(* ---------- the NBSP substitution keeps literals, and is undone by reading NBSP as a blank ---------- *)

Lemma nbsp_from_snoc nbsp q : ch_eqb q space = false -> forall x p,
  nbsp_from nbsp p (x ++ [q]) = nbsp_from nbsp p x ++ [q].
Proof.
  intros Hq. induction x as [|c x IH]; intros p; simpl.
  - now rewrite Hq.
  - destruct (ch_eqb c space) eqn:E.
    + rewrite IH. destruct x as [|d x]; simpl; [now rewrite Hq|reflexivity].
    + now rewrite IH.
Qed.

Lemma nbsp_from_escape nbsp q : ch_eqb q space = false -> ch_eqb nbsp q = false -> forall b p,
  nbsp_from nbsp p (escape_body q b) = escape_body q (nbsp_from nbsp p b).
Proof.
  intros Hq Hn. induction b as [|c b IH]; intros p; simpl; [reflexivity|].
  destruct (ch_eqb c q) eqn:E.
  - apply ch_eqb_eq in E. subst c. simpl. rewrite !Hq. simpl. rewrite ch_eqb_refl. now rewrite IH.
  - simpl. destruct (ch_eqb c space) eqn:Es.
    + assert (X : (match escape_body q b with d :: _ => ch_eqb d space | [] => false end)
                = (match b with d :: _ => ch_eqb d space | [] => false end)).
      { destruct b as [|d b]; simpl; [reflexivity|]. destruct (ch_eqb d q) eqn:Ed; simpl; [|reflexivity].
        apply ch_eqb_eq in Ed. subst d. now rewrite Hq. }
      rewrite X, IH. simpl.
      destruct (p || match b with d :: _ => ch_eqb d space | [] => false end) eqn:Y; simpl.
      * now rewrite Hn.
      * now rewrite E.
    + simpl. now rewrite E, IH.
Qed.

Lemma quote_not_space q : is_quote q = true -> ch_eqb q space = false.
Proof.
  unfold is_quote. intros H. apply orb_true_iff in H as [H|H]; apply ch_eqb_eq in H; subst; reflexivity.
Qed.

Lemma nbsp_keeps nbsp : is_quote nbsp = false -> keeps_literals (nbsp_sub nbsp).
Proof.
  intros Hn q b Hq. exists (nbsp_from nbsp false b).
  pose proof (quote_not_space q Hq) as Hs.
  assert (Hnq : ch_eqb nbsp q = false).
  { destruct (ch_eqb nbsp q) eqn:E; [|reflexivity]. apply ch_eqb_eq in E. subst. congruence. }
  unfold nbsp_sub, render_lit. simpl nbsp_from. rewrite Hs.
  rewrite nbsp_from_snoc by exact Hs. now rewrite nbsp_from_escape.
Qed.

Lemma id_keeps : keeps_literals (fun x => x).
Proof. intros q b _. now exists b. Qed.

Lemma render_with_id segs tail : render_with (fun x => x) segs tail = render segs tail.
Proof. induction segs as [|[[c q] b] r IH]; simpl; [reflexivity|]. now rewrite IH. Qed.

Lemma un_nbsp_app nbsp a b : un_nbsp nbsp (a ++ b) = un_nbsp nbsp a ++ un_nbsp nbsp b.
Proof. apply map_app. Qed.

Lemma un_nbsp_id nbsp x : ~ In nbsp x -> un_nbsp nbsp x = x.
Proof.
  induction x as [|c x IH]; simpl; intros H; [reflexivity|].
  destruct (ch_eqb c nbsp) eqn:E.
  - apply ch_eqb_eq in E. subst. exfalso. apply H. now left.
  - rewrite IH; auto.
Qed.

Lemma un_nbsp_sub nbsp : ch_eqb nbsp space = false -> forall x p,
  ~ In nbsp x -> un_nbsp nbsp (nbsp_from nbsp p x) = x.
Proof.
  intros Hn. induction x as [|c x IH]; intros p H; simpl; [reflexivity|].
  assert (Hc : ch_eqb c nbsp = false).
  { destruct (ch_eqb c nbsp) eqn:E; [|reflexivity]. apply ch_eqb_eq in E. subst. exfalso. apply H. now left. }
  assert (Hx : ~ In nbsp x) by (intros I; apply H; now right).
  destruct (ch_eqb c space) eqn:Es.
  - apply ch_eqb_eq in Es.
    destruct (p || match x with d :: _ => ch_eqb d space | [] => false end); simpl.
    + rewrite ch_eqb_refl, IH by exact Hx. now rewrite Es.
    + rewrite Hc, IH by exact Hx. reflexivity.
  - simpl. rewrite Hc, IH by exact Hx. reflexivity.
Qed.

Lemma un_nbsp_render nbsp : ch_eqb nbsp space = false -> forall segs tail,
  ~ In nbsp (render segs tail) ->
  un_nbsp nbsp (render_with (nbsp_sub nbsp) segs tail) = render segs tail.
Proof.
  intros Hn. induction segs as [|[[c q] b] r IH]; intros tail H.
  - simpl in *. now apply un_nbsp_id.
  - change (render ((c, q, b) :: r) tail) with (c ++ render_lit q b ++ render r tail) in *.
    change (render_with (nbsp_sub nbsp) ((c, q, b) :: r) tail)
      with (c ++ nbsp_sub nbsp (render_lit q b) ++ render_with (nbsp_sub nbsp) r tail).
    rewrite !un_nbsp_app. rewrite !in_app_iff in H.
    rewrite un_nbsp_id by tauto. unfold nbsp_sub. rewrite (un_nbsp_sub nbsp Hn) by tauto. rewrite IH by tauto.
    reflexivity.
Qed.

(* Every literal of a statement -- whatever its body, whatever the number of literals -- is cut out
   and put back verbatim (prep = identity: bind names), or verbatim up to the NBSP substitution
   (initial values), which reading NBSP as a blank undoes. *)
Theorem mask_roundtrip : forall nbsp segs tail,
  is_quote nbsp = false -> wf_line segs tail = true ->
  exists m strs,
    mask (render segs tail) = Some (m, strs) /\
    unmask_in (fun x => x) strs m = Some (render segs tail) /\
    unmask_in (nbsp_sub nbsp) strs m = Some (render_with (nbsp_sub nbsp) segs tail) /\
    (ch_eqb nbsp space = false -> ~ In nbsp (render segs tail) ->
     un_nbsp nbsp (render_with (nbsp_sub nbsp) segs tail) = render segs tail).
Proof.
  intros nbsp segs tail Hn Hw. exists (render_masked 0 segs tail), (lits segs).
  split; [now apply mask_spec|]. split.
  - rewrite (unmask_spec _ id_keeps) by exact Hw. now rewrite render_with_id.
  - split; [apply unmask_spec; auto using nbsp_keeps|]. intros Hs Hi. now apply un_nbsp_render.
Qed.

(* the literals may be re-inserted into any other text that carries the same placeholders
   (FORD removes blanks and spaces commas in the initial value before re-inserting) *)
Corollary unmask_any_code : forall prep segs segs' tail',
  keeps_literals prep -> lits segs' = lits segs -> wf_line segs' tail' = true ->
  unmask_in prep (lits segs) (render_masked 0 segs' tail') = Some (render_with prep segs' tail').
Proof. intros prep segs segs' tail' K E W. rewrite <- E. now apply unmask_spec. Qed.

Definition tilde_c : ascii := "~"%char.
Example mask_roundtrip_nonvacuous :
  let segs := [(s "character(len=*), parameter :: v = ", dq, s "a  b \ <i> & 'q' ""d"" ");
               (s " // ", sq, s "it's </b>   x"); (s "//", sq, [])] in
  wf_line segs (s " ! end") = true /\
  is_quote tilde_c = false /\ ~ In tilde_c (render segs (s " ! end")) /\
  option_map snd (mask (render segs (s " ! end")))
    = Some [s """a  b \ <i> & 'q' """"d"""" """; s "'it''s </b>   x'"; s "''"] /\
  render_with (nbsp_sub tilde_c) segs [] =
    s "character(len=*), parameter :: v = ""a~~b \ <i> & 'q' """"d"""" "" // 'it''s </b>~~~x'//''".
Proof. vm_compute. repeat split; try reflexivity. intros H. repeat (destruct H as [H|H]; [discriminate H|]). exact H. Qed.

(* a statement the hypotheses exclude: an unterminated quote before a literal is paired with the
   placeholder's opening quote, and the index is then read from the wrong place *)
Example mask_needs_wellformed :
  mask (s """ 'abc'") = Some (s """ ""0""", [s "'abc'"]) /\
  unmask_in (fun x => x) [s "'abc'"] (s """ ""0""") = None.
Proof. vm_compute. auto. Qed.

(* ---------- the project option `lower`: the statement is lower-cased after masking ---------- *)

Definition lower_segs (segs : list seg) : list seg :=
  map (fun sg => match sg with (c, q, b) => (lower c, q, b) end) segs.

Lemma lower_app a b : lower (a ++ b) = lower a ++ lower b.
Proof. apply map_app. Qed.

Lemma is_quote_lower_ch c : is_quote (lower_ch c) = is_quote c.
Proof. destruct c as [[] [] [] [] [] [] [] []]; reflexivity. Qed.

Lemma no_quote_lower x : no_quote (lower x) = no_quote x.
Proof. induction x as [|c x IH]; simpl; [reflexivity|]. now rewrite is_quote_lower_ch, IH. Qed.

Lemma uint_lower d : lower (s (NilEmpty.string_of_uint d)) = s (NilEmpty.string_of_uint d).
Proof. induction d; simpl; [reflexivity | unfold lower in *; simpl; now rewrite IHd ..]. Qed.

Lemma placeholder_lower k : lower (placeholder k) = placeholder k.
Proof.
  rewrite placeholder_unfold, !lower_app. unfold dec. rewrite uint_lower. reflexivity.
Qed.

Lemma render_masked_lower : forall segs tail k,
  lower (render_masked k segs tail) = render_masked k (lower_segs segs) (lower tail).
Proof.
  induction segs as [|[[c q] b] r IH]; intros tail k; [reflexivity|].
  change (render_masked k ((c, q, b) :: r) tail) with (c ++ placeholder k ++ render_masked (S k) r tail).
  rewrite !lower_app, placeholder_lower, IH. reflexivity.
Qed.

Lemma lits_lower segs : lits (lower_segs segs) = lits segs.
Proof. induction segs as [|[[c q] b] r IH]; simpl; [reflexivity|]. now rewrite IH. Qed.

Lemma wf_segs_lower first segs : wf_segs first (lower_segs segs) = wf_segs first segs.
Proof.
  revert first. induction segs as [|[[c q] b] r IH]; intros first; [reflexivity|].
  simpl. rewrite no_quote_lower, IH. destruct c; reflexivity.
Qed.

(* whatever `lower` says, the literals are put back exactly as they were written; only the code
   around them is lower-cased *)
Theorem lower_keeps_literals : forall prep segs tail,
  keeps_literals prep -> wf_line segs tail = true ->
  unmask_in prep (lits segs) (lower (render_masked 0 segs tail))
  = Some (render_with prep (lower_segs segs) (lower tail)).
Proof.
  intros prep segs tail K W. rewrite render_masked_lower.
  apply unmask_any_code; auto using lits_lower.
  unfold wf_line in *. now rewrite wf_segs_lower, no_quote_lower.
Qed.

Example lower_keeps_literals_nonvacuous :
  let segs := [(s "CHARACTER(LEN=*), PARAMETER :: V = ", dq, s "Hello  World"); (s " // TRIM(", sq, s "It's")] in
  wf_line segs (s ")") = true /\
  render_with (fun x => x) (lower_segs segs) (lower (s ")"))
    = s "character(len=*), parameter :: v = ""Hello  World"" // trim('It''s')".
Proof. vm_compute. auto. Qed.
