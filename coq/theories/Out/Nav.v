(* Out/Nav.v -- which navigation links of base.html / index.html have an existing target, over the
   conditions regenerated from the source in Gen/NavConds.v (translator T4).  Definitions only. *)
From Ford Require Import Base.Str Gen.NavConds.

Fixpoint lookup_page (name : str) (l : list (str * (counts -> bool))) : option (counts -> bool) :=
  match l with
  | [] => None
  | (n, f) :: l' => if str_eqb name n then Some f else lookup_page name l'
  end.

(* lists/<name> is written (Documentation.__init__ appends the list page) *)
Definition list_page (name : str) (c : counts) : bool :=
  match lookup_page name list_pages with Some f => f c | None => false end.

Fixpoint lookup_entity (name : str) (l : list (str * (counts -> nat) * (counts -> bool)))
  : option ((counts -> nat) * (counts -> bool)) :=
  match l with
  | [] => None
  | (n, size, cond) :: l' => if str_eqb name n then Some (size, cond) else lookup_entity name l'
  end.

(* project.<coll>[0].get_url() names a written page: the collection is not empty (otherwise the
   template fails) and its members get pages *)
Definition single_page (coll : str) (c : counts) : bool :=
  match lookup_entity coll entity_pages with
  | Some (size, cond) => (0 <? size c) && cond c
  | None => false
  end.

Definition target_ok (t : target) (c : counts) : bool :=
  match t with TList p => list_page p c | TSingle k => single_page k c end.

(* the link is either not emitted or its target exists *)
Definition nav_link_ok (l : navlink) (c : counts) : bool :=
  implb (nl_cond l c) (target_ok (nl_target l) c).

(* FORD stops before generating anything when there is no source file *)
Definition wf_counts (c : counts) : bool := 0 <? n_files c.

(* what a run is expected to show: per nav link "emitted", per list page "written" *)
Definition model_emitted (c : counts) : list bool := map (fun l => nl_cond l c) nav_links.
Definition model_pages (c : counts) : list bool := map (fun p => snd p c) list_pages.
Definition all_links_ok (c : counts) : bool := forallb (fun l => nav_link_ok l c) nav_links.
