(* Out/NamesSpecProofs.v — the executable predicate the C10 judge evaluates on the implementation's
   outputs holds of the model's outputs for every request sequence *)
From Ford Require Import Base.Str Base.StrFacts Out.Names Out.NamesProofs Corr.C10.
From Coq Require Import Lia.

Definition pair_ok (r : req * str) (n : str) (r' : req * str) (n' : str) : bool :=
  if Nat.eqb (r_id (fst r)) (r_id (fst r')) then str_eqb n n'
  else if key_eqb (clash_key r) (clash_key r') then negb (str_eqb n n') else true.

Lemma ok_against_intro r n : forall rs ns,
  length rs = length ns ->
  (forall j rj nj, nth_error rs j = Some rj -> nth_error ns j = Some nj -> pair_ok r n rj nj = true) ->
  ok_against r n rs ns = true.
Proof.
  induction rs as [|r' rs IH]; intros [|n' ns] Hl H; simpl in *; try reflexivity; try discriminate.
  apply andb_true_iff. split.
  - apply (H 0 r' n' eq_refl eq_refl).
  - apply IH; [lia|]. intros j rj nj H1 H2. apply (H (S j) rj nj H1 H2).
Qed.

Lemma spec_ok_intro : forall rs ns,
  length rs = length ns ->
  (forall i j ri rj ni nj, i < j ->
     nth_error rs i = Some ri -> nth_error rs j = Some rj ->
     nth_error ns i = Some ni -> nth_error ns j = Some nj -> pair_ok ri ni rj nj = true) ->
  spec_ok rs ns = true.
Proof.
  induction rs as [|r rs IH]; intros [|n ns] Hl H; simpl in *; try reflexivity; try discriminate.
  apply andb_true_iff. split.
  - apply ok_against_intro; [lia|]. intros j rj nj H1 H2.
    apply (H 0 (S j) r rj n nj); auto; lia.
  - apply IH; [lia|]. intros i j ri rj ni nj Hij H1 H2 H3 H4.
    apply (H (S i) (S j) ri rj ni nj); auto; lia.
Qed.

Lemma run_length rs : forall st, length (snd (run st rs)) = length rs.
Proof.
  induction rs as [|r rs IH]; intros st; simpl; [reflexivity|].
  destruct (get_name st r) as [st1 n]. specialize (IH st1). destruct (run st1 rs) as [st2 ns]. simpl in *. lia.
Qed.

Lemma clash_key_dir r r' : key_eqb (clash_key r) (clash_key r') = true -> r_dir (fst r) = r_dir (fst r').
Proof.
  unfold clash_key. intros H. apply key_eqb_eq in H.
  destruct (str_eqb (r_dir (fst r)) (s "None")) eqn:E1; destruct (str_eqb (r_dir (fst r')) (s "None")) eqn:E2.
  - apply str_eqb_eq in E1, E2. congruence.
  - discriminate H.
  - discriminate H.
  - now injection H.
Qed.

(* for every request sequence (entities with their kind word), the identifiers the model hands out
   satisfy the judge's predicate: same entity, same identifier; different entities that would
   share a page (same directory) or an anchor (same kind, no page) get different identifiers *)
Theorem model_meets_spec (ros : list (req * str)) :
  consistent (map fst ros) ->
  Forall (fun r => no_tilde (final_name (r_name r))) (map fst ros) ->
  spec_ok ros (run_idents (map fst ros)) = true.
Proof.
  intros Hc Hn. apply spec_ok_intro.
  - unfold run_idents. rewrite run_length. now rewrite map_length.
  - intros i j ri rj ni nj Hij H1 H2 H3 H4. unfold pair_ok.
    assert (E1 : nth_error (map fst ros) i = Some (fst ri)) by (rewrite nth_error_map, H1; reflexivity).
    assert (E2 : nth_error (map fst ros) j = Some (fst rj)) by (rewrite nth_error_map, H2; reflexivity).
    destruct (Nat.eqb (r_id (fst ri)) (r_id (fst rj))) eqn:Eid.
    + apply Nat.eqb_eq in Eid.
      pose proof (idents_idempotent (map fst ros) i j (fst ri) (fst rj) E1 E2 Eid) as Hi.
      rewrite H3, H4 in Hi. injection Hi as ->. apply str_eqb_refl.
    + apply Nat.eqb_neq in Eid.
      destruct (key_eqb (clash_key ri) (clash_key rj)) eqn:Ek; [|reflexivity].
      apply negb_true_iff, str_eqb_neq.
      apply (idents_distinct (map fst ros) i j (fst ri) (fst rj) ni nj Hc Hn E1 E2 H3 H4 Eid).
      now apply clash_key_dir.
Qed.
