(* Out/EscapeProofs.v -- escaped text is inert and reads back as the original; the finite facts
   about the regenerated site list (property C18). *)
From Ford Require Import Base.Str Base.StrFacts Gen.EscapeSites Out.Escape.
From Coq Require Import Lia.

(* ---------- one character ---------- *)

Lemma escape_ch_cases c :
  (c = c_amp /\ escape_ch c = s "&amp;") \/ (c = c_lt /\ escape_ch c = s "&lt;") \/
  (c = c_gt /\ escape_ch c = s "&gt;") \/ (c = c_sq /\ escape_ch c = s "&#39;") \/
  (c = c_dq /\ escape_ch c = s "&#34;") \/
  (ch_eqb c c_amp = false /\ ch_eqb c c_lt = false /\ ch_eqb c c_gt = false /\
   ch_eqb c c_sq = false /\ ch_eqb c c_dq = false /\ escape_ch c = [c]).
Proof.
  unfold escape_ch.
  destruct (ch_eqb c c_amp) eqn:E1; [apply Ascii.eqb_eq in E1; auto|].
  destruct (ch_eqb c c_lt) eqn:E2; [apply Ascii.eqb_eq in E2; auto|].
  destruct (ch_eqb c c_gt) eqn:E3; [apply Ascii.eqb_eq in E3; auto 6|].
  destruct (ch_eqb c c_sq) eqn:E4; [apply Ascii.eqb_eq in E4; auto 7|].
  destruct (ch_eqb c c_dq) eqn:E5; [apply Ascii.eqb_eq in E5; auto 8|].
  do 5 right. auto 10.
Qed.

Lemma unesc_escape_ch c rest : unesc 0 (escape_ch c ++ rest) = c :: unesc 0 rest.
Proof.
  destruct (escape_ch_cases c) as [[-> ->]|[[-> ->]|[[-> ->]|[[-> ->]|[[-> ->]|(E1 & _ & _ & _ & _ & ->)]]]]];
    try reflexivity.
  simpl. now rewrite E1.
Qed.

Theorem unescape_escape x : unescape (html_escape x) = x.
Proof.
  unfold unescape. induction x as [|c x IH]; [reflexivity|].
  simpl html_escape. now rewrite unesc_escape_ch, IH.
Qed.

Lemma vis_escape_ch c rest :
  vis false 0 (escape_ch c ++ rest) = (c :: fst (vis false 0 rest), snd (vis false 0 rest)).
Proof.
  destruct (escape_ch_cases c) as [[-> ->]|[[-> ->]|[[-> ->]|[[-> ->]|[[-> ->]|(E1 & E2 & _ & _ & _ & ->)]]]]];
    try (simpl; destruct (vis false 0 rest); reflexivity).
  simpl. rewrite E2, E1. simpl. destruct (vis false 0 rest); reflexivity.
Qed.

(* an HTML reader sees exactly the original text and no tag *)
Theorem render_escape x : render_text (html_escape x) = (x, 0).
Proof.
  unfold render_text. induction x as [|c x IH]; [reflexivity|].
  simpl html_escape. rewrite vis_escape_ch, IH. reflexivity.
Qed.

Lemma forallb_plain_escape_ch c : forallb plain_ch (escape_ch c) = true.
Proof.
  destruct (escape_ch_cases c) as [[-> ->]|[[-> ->]|[[-> ->]|[[-> ->]|[[-> ->]|(_ & E2 & E3 & E4 & E5 & ->)]]]]];
    try reflexivity.
  simpl. unfold plain_ch. now rewrite E2, E3, E4, E5.
Qed.

Lemma amps_ok_escape_ch c rest : amps_ok rest = true -> amps_ok (escape_ch c ++ rest) = true.
Proof.
  intros H.
  destruct (escape_ch_cases c) as [[-> ->]|[[-> ->]|[[-> ->]|[[-> ->]|[[-> ->]|(E1 & _ & _ & _ & _ & ->)]]]]];
    try (simpl; exact H).
  simpl. now rewrite E1, H.
Qed.

Theorem no_markup_escape x : no_markup (html_escape x) = true.
Proof.
  unfold no_markup. apply andb_true_iff. split.
  - induction x as [|c x IH]; [reflexivity|]. simpl html_escape.
    now rewrite forallb_app, forallb_plain_escape_ch, IH.
  - induction x as [|c x IH]; [reflexivity|]. simpl html_escape. now apply amps_ok_escape_ch.
Qed.

Theorem escape_inert : forall x,
  no_markup (html_escape x) = true /\ unescape (html_escape x) = x /\ render_text (html_escape x) = (x, 0).
Proof. intros x. auto using no_markup_escape, unescape_escape, render_escape. Qed.

Example escape_inert_nonvacuous :
  html_escape (s "'<b>x</b>' & ""q""") = s "&#39;&lt;b&gt;x&lt;/b&gt;&#39; &amp; &#34;q&#34;" /\
  render_text (html_escape (s "merge(2,3,k<n)")) = (s "merge(2,3,k<n)", 0).
Proof. vm_compute. auto. Qed.

(* the same texts printed raw are not what the source says: a tag swallows part of them *)
Example raw_text_is_not_inert :
  render_text (s "(merge(2,3,k<n))") = (s "(merge(2,3,k", 1) /\
  render_text (s "name=""s<u>name""") = (s "name=""sname""", 1) /\
  no_markup (s "k<n") = false.
Proof. vm_compute. auto. Qed.

(* ---------- the regenerated site list ---------- *)

Lemma forallb_In {A} (f : A -> bool) l : forallb f l = true -> forall x, In x l -> f x = true.
Proof. intros H x Hx. rewrite forallb_forall in H. auto. Qed.

(* every printed field is classified (a new field in a template must be classified first) *)
Theorem sites_classified : forall st, In st sites -> classified st = true.
Proof. apply forallb_In. vm_compute. reflexivity. Qed.

(* outside the known findings every site that prints declaration text escapes it *)
Theorem sites_escaped_partial : forall st,
  In st sites -> reads_source_text st = true -> site_excused st = false -> escaped st = true.
Proof.
  assert (A : forall st, In st sites -> (site_ok st || site_excused st) = true)
    by (apply forallb_In; vm_compute; reflexivity).
  intros st Hin Hr He. pose proof (A st Hin) as H.
  rewrite He, orb_false_r in H. unfold site_ok in H. now rewrite Hr in H.
Qed.

(* no excused site is left: every site that prints declaration text escapes it *)
Theorem sites_escaped : forall st,
  In st sites -> reads_source_text st = true -> escaped st = true.
Proof.
  intros st Hin Hr. apply sites_escaped_partial; auto.
Qed.

Lemma find_site_In key l st : find_site key l = Some st -> In st l.
Proof.
  induction l as [|a l IH]; simpl; [discriminate|].
  destruct (str_eqb key (st_key a)); [intros [= ->]; now left | intros F; right; auto].
Qed.

Example sites_escaped_nonvacuous :
  (exists st, In st sites /\ reads_source_text st = true /\ str_in (s "e") (st_filters st) = true) /\
  (exists st, In st sites /\ reads_source_text st = true /\ st_filters st = [s "relurl"] /\
              str_in (st_field st) text_escaped_at_source = true).
Proof.
  split.
  - destruct (find_site (s "macros.html:var.initial|e#1") sites) as [st|] eqn:F; [|vm_compute in F; discriminate F].
    exists st. split; [eapply find_site_In; eauto|]. vm_compute in F. injection F as <-. vm_compute. auto.
  - destruct (find_site (s "macros.html:var.full_type | relurl(page_url)#1") sites) as [st|] eqn:F;
      [|vm_compute in F; discriminate F].
    exists st. split; [eapply find_site_In; eauto|]. vm_compute in F. injection F as <-. vm_compute. auto.
Qed.

(* ---------- the text-level escape ---------- *)

Lemma escape_text_ch_cases c :
  (c = c_amp /\ escape_text_ch c = s "&amp;") \/ (c = c_lt /\ escape_text_ch c = s "&lt;") \/
  (c = c_gt /\ escape_text_ch c = s "&gt;") \/
  (ch_eqb c c_amp = false /\ ch_eqb c c_lt = false /\ escape_text_ch c = [c]).
Proof.
  unfold escape_text_ch.
  destruct (ch_eqb c c_amp) eqn:E1; [apply Ascii.eqb_eq in E1; auto|].
  destruct (ch_eqb c c_lt) eqn:E2; [apply Ascii.eqb_eq in E2; auto|].
  destruct (ch_eqb c c_gt) eqn:E3; [apply Ascii.eqb_eq in E3; auto 6|].
  auto 8.
Qed.

Lemma vis_escape_text_ch c rest :
  vis false 0 (escape_text_ch c ++ rest) = (c :: fst (vis false 0 rest), snd (vis false 0 rest)).
Proof.
  destruct (escape_text_ch_cases c) as [[-> ->]|[[-> ->]|[[-> ->]|(E1 & E2 & ->)]]];
    try (simpl; destruct (vis false 0 rest); reflexivity).
  simpl. rewrite E2, E1. simpl. destruct (vis false 0 rest); reflexivity.
Qed.

(* in element content the reader sees exactly the original text and no element *)
Theorem render_escape_text x : render_text (escape_text x) = (x, 0).
Proof.
  unfold render_text. induction x as [|c x IH]; [reflexivity|].
  simpl escape_text. rewrite vis_escape_text_ch, IH. reflexivity.
Qed.

Example escape_text_nonvacuous :
  escape_text (s "kind(k<n) & 'a'") = s "kind(k&lt;n) &amp; 'a'" /\
  render_text (escape_text (s "kind(k<n) & 'a'")) = (s "kind(k<n) & 'a'", 0).
Proof. vm_compute. auto. Qed.
