(* Out/ProjectFoldProofs.v — a rejected file leaves no trace in the project (C20) *)
From Ford Require Import Base.Str Sem.Tree Out.Names Out.ProjectFold.

Lemma fold_files fs : forall st,
  p_files (fold_left pstep fs st) =
  p_files st ++ flat_map (fun f => match parse_file (fst f) (snd f) with POk e _ => [e] | PErr _ => [] end) fs.
Proof.
  induction fs as [|f fs IH]; intros st; simpl; [now rewrite app_nil_r|].
  rewrite IH. unfold pstep. destruct (parse_file (fst f) (snd f)); simpl; [reflexivity|].
  now rewrite <- app_assoc.
Qed.

Lemma fold_names fs : forall st, p_names (fold_left pstep fs st) = p_names st.
Proof.
  induction fs as [|f fs IH]; intros st; simpl; [reflexivity|].
  rewrite IH. unfold pstep. destruct (parse_file (fst f) (snd f)); reflexivity.
Qed.

(* the documented entities and the name table are those of the project without the bad file,
   wherever the bad file stands in the enumeration order; the bad file is reported *)
Theorem isolation fs1 f fs2 e :
  parse_file (fst f) (snd f) = PErr e ->
  p_files (build (fs1 ++ f :: fs2)) = p_files (build (fs1 ++ fs2)) /\
  p_names (build (fs1 ++ f :: fs2)) = p_names (build (fs1 ++ fs2)) /\
  In (fst f) (p_skipped (build (fs1 ++ f :: fs2))).
Proof.
  intros E. unfold build. rewrite !fold_files, !fold_names. split; [|split; [reflexivity|]].
  - rewrite !flat_map_app. cbn [flat_map]. rewrite E. reflexivity.
  - rewrite fold_left_app. cbn [fold_left].
    assert (Hs : forall fs st x, In x (p_skipped st) -> In x (p_skipped (fold_left pstep fs st))).
    { induction fs as [|g fs IH]; intros st x Hx; [exact Hx|]. simpl. apply IH.
      unfold pstep. destruct (parse_file (fst g) (snd g)); simpl; [apply in_or_app; now left|exact Hx]. }
    apply Hs. unfold pstep at 1. rewrite E. simpl. apply in_or_app. right. now left.
Qed.
