(* Out/ExternalTablesProofs.v — the tables the model Out/External.v was written against are the tables of
   the working tree (regenerated into Gen/C16Tables.v by translate/t_c16_tables.py on every check). *)
From Ford Require Import Base.Str Out.External Gen.C16Tables.

Definition xcls_name (c : xcls) : str :=
  match c with
  | XModule => s "ExternalModule" | XInterface => s "ExternalInterface" | XType => s "ExternalType"
  | XVariable => s "ExternalVariable" | XFunction => s "ExternalFunction"
  | XSubroutine => s "ExternalSubroutine" | XBound => s "ExternalBoundProcedure"
  end.
Definition plist_name (p : plist) : str :=
  match p with
  | PLModules => s "extModules" | PLProcedures => s "extProcedures" | PLInterfaces => s "extInterfaces"
  | PLTypes => s "extTypes" | PLVariables => s "extVariables"
  end.
Definition coll_name (c : coll) : str :=
  match c with
  | CModules => s "modules" | CSubmodules => s "submodules" | CExtModules => s "extModules"
  | CTypes => s "types" | CExtTypes => s "extTypes" | CProcedures => s "procedures"
  | CExtProcedures => s "extProcedures" | CAllFiles => s "allfiles" | CAbsInterfaces => s "absinterfaces"
  | CExtInterfaces => s "extInterfaces" | CPrograms => s "programs" | CBlockData => s "blockdata"
  | CNamelists => s "namelists"
  end.

Theorem tables_fingerprint :
  ATTRIBUTES_src = ATTRIBUTES /\
  ENTITIES_src = map (fun kc => (fst kc, xcls_name (snd kc))) ENTITIES /\
  ENTITY_LISTS_src = map (fun kc => (fst kc, plist_name (project_list (snd kc)))) ENTITIES /\
  METADATA_NAME_src = METADATA_NAME /\
  CAUGHT_src = CAUGHT /\
  SUBLINK_TYPES_src = SUBLINK_TYPES /\
  LINK_TYPES_src = map (fun kc => (fst kc, coll_name (snd kc))) LINK_TYPES /\
  filter (fun k => str_in k ATTRIBUTES) CHILDREN_src = CHILD_ORDER /\
  USE_CHAIN_src = [s "modules"; s "external_modules"] /\
  FIND_LOCAL_FIRST_src = true.
Proof. repeat split; reflexivity. Qed.
