(* Out/Settings.v -- executable model of how FORD turns a project file, an fpm.toml table, a
   --config string and command line options into the effective ProjectSettings.

   Mirrors, as they are: ford/utils.py meta_preprocessor, str_to_bool, normalise_path;
   ford/settings.py convert_setting, convert_to_bool, ExtraFileType.from_string, _parse_to_dict,
   convert_types_from_metapreprocessor, convert_types_from_commandarguments,
   ProjectSettings.__init__/__post_init__/normalise_paths, load_toml_settings,
   load_markdown_settings; ford/__init__.py load_settings, parse_arguments.
   __post_init__ includes the loop that converts or rejects the values of bool / int / str options
   (check_scalars); list, key/value-table, file-type and path options are wrapped / used as they come.
   The field table, OPTION_SEPARATORS, INTRINSIC_MODS, LICENSES come from Gen/Schema.v.
   Trusted/outside: tomllib (the model takes parsed TOML values), argparse (the model takes the
   parsed destinations), pathlib/os.path (lexical model, no symlinks, no '$'), strftime and the
   preprocessor self-test (stubbed by the harness).  Definitions only. *)
From Coq Require Import ZArith.
From Ford Require Import Base.Str Out.SettingsTypes Gen.Schema.
Local Open Scope Z_scope.
Local Open Scope nat_scope.

(* ------------------------------------------------------------------ results *)
Inductive res (A : Type) : Type :=
| Ok (a : A)
| Err (ety opt : str) (named : bool)   (* exception type; option concerned; message names it *)
| Unmodelled (why : str).
Arguments Ok {A} a.
Arguments Err {A} ety opt named.
Arguments Unmodelled {A} why.

Definition bind {A B} (r : res A) (f : A -> res B) : res B :=
  match r with Ok a => f a | Err e o n => Err e o n | Unmodelled w => Unmodelled w end.
Notation "'do' x <- r ; k" := (bind r (fun x => k)) (at level 200, x name, r at level 100, k at level 200).

Fixpoint mapM {A B} (f : A -> res B) (l : list A) : res (list B) :=
  match l with
  | [] => Ok []
  | x :: l' => do y <- f x; do ys <- mapM f l'; Ok (y :: ys)
  end.

(* ------------------------------------------------------------------ strings *)
(* string equality and association lists that stop at the first difference (the versions of
   Base/Str.v use [&&], which the strict evaluation of vm_compute turns into a full traversal) *)
Fixpoint seqb (a b : str) : bool :=
  match a, b with
  | [], [] => true
  | x :: a', y :: b' => if Ascii.eqb x y then seqb a' b' else false
  | _, _ => false
  end.
Fixpoint aget {V} (k : str) (m : list (str * V)) : option V :=
  match m with
  | [] => None
  | (k', v) :: m' => if seqb k k' then Some v else aget k m'
  end.
Fixpoint aset {V} (k : str) (v : V) (m : list (str * V)) : list (str * V) :=
  match m with
  | [] => [(k, v)]
  | (k', v') :: m' => if seqb k k' then (k, v) :: m' else (k', v') :: aset k v m'
  end.
Fixpoint sin (x : str) (l : list str) : bool :=
  match l with
  | [] => false
  | y :: l' => if seqb x y then true else sin x l'
  end.
Fixpoint prefix (p x : str) : bool :=
  match p, x with
  | [], _ => true
  | a :: p', b :: x' => if Ascii.eqb a b then prefix p' x' else false
  | _ :: _, [] => false
  end.
Fixpoint contains_fuel (fuel : nat) (needle hay : str) : bool :=
  match fuel with
  | O => false
  | S f => prefix needle hay || match hay with [] => false | _ :: h' => contains_fuel f needle h' end
  end.
Definition contains (needle hay : str) : bool := contains_fuel (S (length hay)) needle hay.

(* str.split(sep, 1) for a one-character separator: None when sep does not occur *)
Fixpoint split_once (sep : ascii) (x : str) : option (str * str) :=
  match x with
  | [] => None
  | c :: x' =>
    if Ascii.eqb c sep then Some ([], x')
    else match split_once sep x' with Some (a, b) => Some (c :: a, b) | None => None end
  end.

(* str.split(): maximal runs of non-whitespace *)
Fixpoint split_ws_go (x cur : str) : list str :=
  match x with
  | [] => match cur with [] => [] | _ => [rev cur] end
  | c :: x' =>
    if is_space c then match cur with [] => split_ws_go x' [] | _ => rev cur :: split_ws_go x' [] end
    else split_ws_go x' (c :: cur)
  end.
Definition split_ws (x : str) : list str := split_ws_go x [].

(* split at a character, keeping empty pieces (str.split(c)) *)
Fixpoint split_ch_go (c : ascii) (x cur : str) : list str :=
  match x with
  | [] => [rev cur]
  | d :: x' => if Ascii.eqb d c then rev cur :: split_ch_go c x' [] else split_ch_go c x' (d :: cur)
  end.
Definition split_ch (c : ascii) (x : str) : list str := split_ch_go c x [].

Definition ncode (c : ascii) : N := N_of_ascii c.
Fixpoint str_ltb (a b : str) : bool :=
  match a, b with
  | [], [] => false
  | [], _ :: _ => true
  | _ :: _, [] => false
  | x :: a', y :: b' =>
    if N.ltb (ncode x) (ncode y) then true
    else if N.eqb (ncode x) (ncode y) then str_ltb a' b' else false
  end.
Fixpoint insert_sorted (x : str) (l : list str) : list str :=
  match l with
  | [] => [x]
  | y :: l' => if seqb x y then l else if str_ltb x y then x :: l else y :: insert_sorted x l'
  end.
(* sorted(set(l)) *)
Definition sort_dedup (l : list str) : list str := fold_right insert_sorted [] l.

Definition nl : str := s "
".

(* ------------------------------------------------------------------ Python int(str) on ASCII *)
Definition is_space_c (c : ascii) : bool :=
  ((9 <=? code c) && (code c <=? 13)) || (code c =? 32).
Fixpoint lstrip_c (x : str) : str :=
  match x with c :: x' => if is_space_c c then lstrip_c x' else x | [] => [] end.
Definition strip_c (x : str) : str := rev (lstrip_c (rev (lstrip_c x))).

(* digits with single underscores between digits; [prev_digit] says whether the previous
   character was a digit (an underscore is allowed only then, and not at the end) *)
Fixpoint digits_val (x : str) (acc : Z) (prev_digit : bool) : option Z :=
  match x with
  | [] => if prev_digit then Some acc else None
  | c :: x' =>
    if is_digit c then digits_val x' (acc * 10 + Z.of_nat (code c - 48))%Z true
    else if (code c =? 95) && prev_digit then
      match x' with
      | d :: _ => if is_digit d then digits_val x' acc false else None
      | [] => None
      end
    else None
  end.
Definition py_int (x : str) : option Z :=
  match strip_c x with
  | [] => None
  | c :: r =>
    if code c =? 45 then option_map Z.opp (digits_val r 0%Z false)
    else if code c =? 43 then digits_val r 0%Z false
    else digits_val (c :: r) 0%Z false
  end.

(* decimal rendering (Python str(int)) *)
Fixpoint pos_digits_fuel (fuel : nat) (n : Z) (acc : str) : str :=
  match fuel with
  | O => acc
  | S f =>
    let d := ascii_of_nat (48 + Z.to_nat (n mod 10)%Z) in
    if (n <? 10)%Z then d :: acc else pos_digits_fuel f (n / 10)%Z (d :: acc)
  end.
Definition str_of_Z (z : Z) : str :=
  match z with
  | Z0 => s "0"
  | Zpos p => pos_digits_fuel (S (Pos.size_nat p)) z []
  | Zneg p => "-"%char :: pos_digits_fuel (S (Pos.size_nat p)) (Zpos p) []
  end.

(* ------------------------------------------------------------------ Python values *)
Fixpoint pv_eqb (a b : pv) {struct a} : bool :=
  match a, b with
  | PNone, PNone => true
  | PBool x, PBool y => Bool.eqb x y
  | PInt x, PInt y => Z.eqb x y
  | PStr x, PStr y => seqb x y
  | PPath x, PPath y => seqb x y
  | PList l, PList m =>
    (fix go (l m : list pv) : bool :=
       match l, m with
       | [], [] => true
       | x :: l', y :: m' => pv_eqb x y && go l' m'
       | _, _ => false
       end) l m
  | PDict l, PDict m =>
    (fix go (l m : list (str * pv)) : bool :=
       match l, m with
       | [], [] => true
       | (k, x) :: l', (k2, y) :: m' => seqb k k2 && pv_eqb x y && go l' m'
       | _, _ => false
       end) l m
  | PFT e c l, PFT e2 c2 l2 => seqb e e2 && seqb c c2 && opt_eqb seqb l l2
  | POther t, POther u => seqb t u
  | _, _ => false
  end.

(* Python ==, as far as the settings code uses it (bool is an int; Path("a") != "a") *)
Definition py_eq (a b : pv) : bool :=
  match a, b with
  | PBool x, PInt z | PInt z, PBool x => Z.eqb z (if x then 1 else 0)%Z
  | _, _ => pv_eqb a b
  end.

Definition py_truthy (v : pv) : bool :=
  match v with
  | PNone => false
  | PBool b => b
  | PInt z => negb (Z.eqb z 0)
  | PStr x => match x with [] => false | _ => true end
  | PPath _ => true
  | PList l => match l with [] => false | _ => true end
  | PDict d => match d with [] => false | _ => true end
  | PFT _ _ _ => true
  | POther _ => true
  end.

Definition is_str (v : pv) : bool := match v with PStr _ => true | _ => false end.
Definition unhashable (v : pv) : bool := match v with PList _ | PDict _ => true | _ => false end.

(* iteration: list elements, dict keys, characters of a str *)
Definition py_iter (v : pv) : option (list pv) :=
  match v with
  | PList l => Some l
  | PDict d => Some (map (fun kv => PStr (fst kv)) d)
  | PStr x => Some (map (fun c => PStr [c]) x)
  | _ => None
  end.

Definition te {A} (opt : str) : res A := Err (s "TypeError") opt false.
Definition ae {A} (opt : str) : res A := Err (s "AttributeError") opt false.

(* [x in container] *)
Definition py_in (opt : str) (x container : pv) : res bool :=
  match container with
  | PList l => Ok (existsb (py_eq x) l)
  | PDict d => if unhashable x then te opt
               else Ok (match x with PStr k => existsb (fun kv => seqb k (fst kv)) d | _ => false end)
  | PStr h => match x with PStr n => Ok (contains n h) | _ => te opt end
  | _ => te opt
  end.

(* ------------------------------------------------------------------ settings objects *)
Definition settings := list (str * pv).

Definition sget (k : str) (st : settings) : pv :=
  match aget k st with Some v => v | None => PNone end.
(* setattr on an existing field; other attribute names do not reach the observed fields *)
Fixpoint sset (k : str) (v : pv) (st : settings) : settings :=
  match st with
  | [] => []
  | (k', v') :: st' => if seqb k k' then (k, v) :: st' else (k', v') :: sset k v st'
  end.

Fixpoint find_field (sch : list field) (k : str) : option field :=
  match sch with
  | [] => None
  | f :: sch' => if seqb k (f_name f) then Some f else find_field sch' k
  end.
Definition type_table : list (str * tyclass) :=
  Eval vm_compute in map (fun f => (f_name f, f_ty f)) project_schema.
Definition field_ty (k : str) : option tyclass := aget k type_table.
Definition defaults : settings :=
  Eval vm_compute in map (fun f => (f_name f, f_default f)) project_schema.

Definition is_list_ty (t : tyclass) : bool :=
  match t with TListStr | TListPath => true | _ => false end.
Definition is_path_ty (t : tyclass) : bool :=
  match t with TPath | TOptPath => true | _ => false end.

(* ------------------------------------------------------------------ type-directed conversion *)
(* is_same_type(default_type, type(value)); a PosixPath is not of type Path, List[str] != list *)
Definition same_type (t : tyclass) (v : pv) : bool :=
  match t, v with
  | TBool, PBool _ | TInt, PInt _ | TStr, PStr _ | TListAny, PList _ => true
  | TOptStr, PStr _ | TOptStr, PNone | TOptPath, PNone | TOptInt, PInt _ | TOptInt, PNone => true
  | _, _ => false
  end.

Definition str_to_bool (key : str) (v : pv) : res pv :=
  match v with
  | PBool b => Ok (PBool b)
  | PStr t =>
    if seqb (lower t) (s "true") then Ok (PBool true)
    else if seqb (lower t) (s "false") then Ok (PBool false)
    else Err (s "ValueError") key true
  | _ => ae key
  end.

Definition convert_to_bool (key : str) (v : pv) : res pv :=
  match v with
  | PBool b => Ok (PBool b)
  | PList l =>
    match l with
    | [] => Err (s "IndexError") key false
    | [e] => str_to_bool key e
    | _ => Err (s "ValueError") key true
    end
  | PStr x =>
    match x with
    | [] => Err (s "IndexError") key false
    | [c] => str_to_bool key (PStr [c])
    | _ => Err (s "ValueError") key true
    end
  | PDict d =>
    match d with
    | [] | [_] => Err (s "KeyError") key false
    | _ => Err (s "ValueError") key true
    end
  | _ => te key
  end.

Definition convert_to_int (key : str) (v : pv) : res pv :=
  let of_elem (e : pv) : res pv :=
    match e with
    | PStr t => match py_int t with Some z => Ok (PInt z) | None => Err (s "ValueError") key true end
    | PInt z => Ok (PInt z)
    | PBool b => Ok (PInt (if b then 1 else 0)%Z)
    | _ => te key
    end in
  match v with
  | PList (e :: _) => of_elem e
  | PList [] => Err (s "IndexError") key false
  | PStr (c :: _) => of_elem (PStr [c])
  | PStr [] => Err (s "IndexError") key false
  | PDict _ => Err (s "KeyError") key false
  | _ => te key
  end.

Fixpoint all_strs (l : list pv) : option (list str) :=
  match l with
  | [] => Some []
  | PStr x :: l' => option_map (cons x) (all_strs l')
  | _ => None
  end.

Definition file_type_from_string (key : str) (e : pv) : res (str * pv) :=
  match e with
  | PStr x =>
    match split_ws x with
    | [a; b] => Ok (a, PFT a b None)
    | [a; b; c] => Ok (a, PFT a b (Some c))
    | _ => Err (s "ValueError") (s "extra_filetype") true
    end
  | _ => ae key
  end.

Definition parse_entry (key : str) (sep : ascii) (e : pv) : res (str * pv) :=
  match e with
  | PStr x =>
    match split_once sep x with
    | Some (k, v) => Ok (strip k, PStr (strip v))
    | None => Err (s "RuntimeError") key true
    end
  | _ => ae key
  end.

Definition dict_of_pairs (l : list (str * pv)) : pv :=
  PDict (fold_left (fun d kv => aset (fst kv) (snd kv) d) l []).

Definition convert_to_dict (t : tyclass) (key : str) (v : pv) : res pv :=
  do items <- match v with
              | PStr _ => Ok [v]
              | PList l => Ok l
              | _ => te key
              end;
  let items := filter py_truthy items in
  match t with
  | TDictFT => do ps <- mapM (file_type_from_string key) items; Ok (dict_of_pairs ps)
  | _ =>
    match aget key option_separators with
    | Some [sep] => do ps <- mapM (parse_entry key sep) items; Ok (dict_of_pairs ps)
    | _ => Err (s "KeyError") key true
    end
  end.

Definition convert_setting (t : tyclass) (key : str) (v : pv) : res pv :=
  if same_type t v then Ok v
  else match t with
  | TListAny => Ok (PList [v])
  | TBool => convert_to_bool key v
  | TInt | TOptInt => convert_to_int key v
  | TStr | TOptStr | TPath | TOptPath =>
    match v with
    | PList l => match all_strs l with Some xs => Ok (PStr (join nl xs)) | None => te key end
    | _ => Ok v
    end
  | TDictStr | TDictFT =>
    match v with PDict _ => Ok v | _ => convert_to_dict t key v end
  | TListStr | TListPath => Ok v
  end.

(* ------------------------------------------------------------------ meta_preprocessor *)
Definition is_key_char (c : ascii) : bool := is_alpha c || is_digit c || (code c =? 95) || (code c =? 45).

Fixpoint take_while (p : ascii -> bool) (x : str) : str * str :=
  match x with
  | c :: x' => if p c then let (a, b) := take_while p x' in (c :: a, b) else ([], x)
  | [] => ([], [])
  end.
Definition is_blank (c : ascii) : bool := code c =? 32.

(* META_RE: up to three blanks, a key of letters, digits, '_' and '-', a colon, the value;
   result (key.lower().strip(), value.strip()) *)
Definition match_meta (line : str) : option (str * str) :=
  let (sp, r) := take_while is_blank line in
  if 3 <? length sp then None
  else
    let (k, r2) := take_while is_key_char r in
    match k, r2 with
    | _ :: _, c :: v => if code c =? 58 then Some (strip (lower k), strip v) else None
    | _, _ => None
    end.
(* META_MORE_RE: at least four blanks, then the value *)
Definition match_more (line : str) : option str :=
  let (sp, r) := take_while is_blank line in
  if 4 <=? length sp then Some (strip r) else None.
Definition begin_re (line : str) : bool := prefix (s "---") line.
Definition end_re (line : str) : bool := prefix (s "---") line || prefix (s "...") line.

Fixpoint meta_append (k v : str) (m : list (str * list str)) : list (str * list str) :=
  match m with
  | [] => [(k, [v])]
  | (k', vs) :: m' => if seqb k k' then (k', vs ++ [v]) :: m' else (k', vs) :: meta_append k v m'
  end.

Fixpoint meta_go (lines : list str) (key : option str) (m : list (str * list str))
  : list (str * list str) :=
  match lines with
  | [] => m
  | line :: rest =>
    if seqb (strip line) [] || end_re line then m
    else match match_meta line with
    | Some (k, v) => meta_go rest (Some k) (meta_append k v m)
    | None =>
      match match_more line, key with
      | Some v, Some k => meta_go rest key (meta_append k v m)
      | _, _ => m
      end
    end
  end.
Definition meta_preprocessor (lines : list str) : list (str * list str) :=
  match lines with
  | l0 :: rest => if begin_re l0 then meta_go rest None [] else meta_go lines None []
  | [] => []
  end.

(* ------------------------------------------------------------------ __init__ and __post_init__ *)
Fixpoint first_bad_key (kw : list (str * pv)) : option str :=
  match kw with
  | [] => None
  | (k, _) :: kw' =>
    match find_field project_schema k with
    | Some f => if f_init f then first_bad_key kw' else Some k
    | None => Some k
    end
  end.

Definition overlay (st : settings) (kw : list (str * pv)) : settings :=
  fold_left (fun st kv => sset (fst kv) (snd kv) st) kw st.

(* the declared types in field order; a settings object keeps its fields in this order, so the
   loops over asdict(self) walk both lists in step *)
Definition field_types : list tyclass := Eval vm_compute in map f_ty project_schema.

Definition wrap_lists (st : settings) : settings :=
  map (fun tkv : tyclass * (str * pv) =>
         let (t, kv) := tkv in
         if is_list_ty t
         then match snd kv with PList _ => kv | v => (fst kv, PList [v]) end
         else kv) (combine field_types st).

Definition plist (v : pv) : list pv := match v with PList l => l | _ => [] end.

Fixpoint first_in (opt : str) (xs : list pv) (container : pv) : res bool :=
  match xs with
  | [] => Ok false
  | x :: xs' => do b <- py_in opt x container; if b then Ok true else first_in opt xs' container
  end.

Definition lower_item (v : pv) : res pv :=
  match v with PStr x => Ok (PStr (lower x)) | _ => ae (s "display") end.

Definition docmark_pairs : list (str * str) :=
  [(s "docmark", s "predocmark"); (s "docmark", s "docmark_alt"); (s "docmark", s "predocmark_alt");
   (s "predocmark", s "docmark_alt"); (s "predocmark", s "predocmark_alt");
   (s "docmark_alt", s "predocmark_alt")].

Fixpoint check_docmarks (st : settings) (ps : list (str * str)) : res unit :=
  match ps with
  | [] => Ok tt
  | (a, b) :: ps' =>
    if py_eq (sget a st) (sget b st) && negb (py_eq (sget b st) (PStr []))
    then Err (s "ValueError") a true else check_docmarks st ps'
  end.

(* ExtraFileType applied to the keyword arguments d *)
Definition file_type_of_dict (v : pv) : res (str * pv) :=
  let opt := s "extra_filetypes" in
  match v with
  | PDict d =>
    if negb (forallb (fun kv => sin (fst kv) [s "extension"; s "comment"; s "lexer"]) d) then te opt
    else match aget (s "extension") d, aget (s "comment") d, aget (s "lexer") d with
    | Some (PStr e), Some (PStr c), None => Ok (e, PFT e c None)
    | Some (PStr e), Some (PStr c), Some (PStr l) => Ok (e, PFT e c (Some l))
    | Some (PStr e), Some (PStr c), Some PNone => Ok (e, PFT e c None)
    | None, _, _ | _, None, _ => te opt
    | _, _, _ => Unmodelled (s "ExtraFileType with non-string members")
    end
  | PFT e c l => Ok (e, v)
  | _ => te opt
  end.

Definition union_exts (a b : pv) : res pv :=
  let l := plist a ++ plist b in
  if existsb unhashable l then te (s "extensions")
  else match all_strs l with
  | Some xs => Ok (PList (map PStr (sort_dedup xs)))
  | None => Unmodelled (s "set of non-string extensions")
  end.

Definition set_relative (st0 : settings) : settings :=
  sset (s "relative") (PBool (py_eq (sget (s "project_url") st0) (PStr []))) st0.

(* the checks and updates between the list wrapping and the extra_filetypes conversion *)
Definition post_core (st : settings) : res settings :=
  do clash <- first_in (s "extensions") (plist (sget (s "fixed_extensions") st)) (sget (s "extensions") st);
  if clash then Err (s "ValueError") (s "extensions") true else
  do mods <- match py_iter (sget (s "extra_mods") st) with Some l => Ok l | None => te (s "extra_mods") end;
  do clash2 <- first_in (s "external") mods (sget (s "external") st);
  if clash2 then Err (s "ValueError") (s "external") true else
  do disp <- mapM lower_item (plist (sget (s "display") st));
  let st := sset (s "display") (PList disp) st in
  do exts <- union_exts (sget (s "extensions") st) (sget (s "fpp_extensions") st);
  let st := sset (s "extensions") exts st in
  let st := sset (s "exclude_dir") (PList (plist (sget (s "exclude_dir") st) ++ [sget (s "output_dir") st])) st in
  do em <- match sget (s "extra_mods") st with
           | PDict d => Ok (PDict (fold_left (fun d kv => aset (fst kv) (PStr (snd kv)) d) intrinsic_mods d))
           | _ => ae (s "extra_mods")
           end;
  let st := sset (s "extra_mods") em st in
  do _ <- check_docmarks st docmark_pairs;
  Ok st.

(* a list of file types (tables in TOML) becomes a dict keyed by extension *)
Definition filetypes_step (st : settings) : res settings :=
  match sget (s "extra_filetypes") st with
  | PList l => do ps <- mapM file_type_of_dict l; Ok (sset (s "extra_filetypes") (dict_of_pairs ps) st)
  | _ => Ok st
  end.

(* the declared types whose values the loop of __post_init__ checks: bool, int, str and their
   Optional forms *)
Definition is_scalar_ty (t : tyclass) : bool :=
  match t with TBool | TInt | TOptInt | TStr | TOptStr => true | _ => false end.

(* one field of that loop (values of fpm.toml and --config arrive as written): a value of the
   declared type, or None, passes; a flag or number given as text is converted as the project file
   converts it (convert_setting on the one-element list); anything else is rejected with a
   ValueError that names the option.  Fields of the other declared types are not looked at. *)
Definition check_scalar (t : tyclass) (k : str) (v : pv) : res pv :=
  match t with
  | TBool | TInt | TOptInt | TStr | TOptStr =>
    if same_type t v then Ok v
    else match v with
    | PNone => Ok v
    | PStr _ => convert_setting t k (PList [v])
    | _ => Err (s "ValueError") k true
    end
  | _ => Ok v
  end.

(* the loop runs in field order: the first offending field raises *)
Fixpoint check_scalars (tkvs : list (tyclass * (str * pv))) : res settings :=
  match tkvs with
  | [] => Ok []
  | (t, (k, v)) :: r => do v' <- check_scalar t k v; do r' <- check_scalars r; Ok ((k, v') :: r')
  end.

(* __post_init__ up to the extra_filetypes conversion *)
Definition post_checked (st0 : settings) : res settings :=
  do st <- check_scalars (combine field_types (wrap_lists (set_relative st0))); post_core st.

Definition post_init (st0 : settings) : res settings :=
  do st <- post_checked st0; filetypes_step st.

(* ProjectSettings applied to the keyword arguments kw *)
Definition construct (kw : list (str * pv)) : res settings :=
  match first_bad_key kw with
  | Some k => Err (s "TypeError") k true
  | None => post_init (overlay defaults kw)
  end.

(* ------------------------------------------------------------------ the two file formats *)
(* convert_types_from_metapreprocessor: unknown keys are warned about and dropped *)
Fixpoint convert_meta (m : list (str * list str)) : res (list (str * pv) * list str) :=
  match m with
  | [] => Ok ([], [])
  | (k, vs) :: m' =>
    match field_ty k with
    | None => do r <- convert_meta m'; Ok (fst r, k :: snd r)
    | Some t =>
      do v <- convert_setting t k (PList (map PStr vs));
      do r <- convert_meta m';
      Ok ((k, v) :: fst r, snd r)
    end
  end.

Definition include_like (kv : str * pv) : bool :=
  match snd kv with PStr x => prefix (s "{!") x | _ => false end.

(* keys that are not options are reported and dropped (fpm.toml and --config, as for the project
   file): the remaining pairs and the keys warned about *)
Fixpoint drop_unknown (kv : list (str * pv)) : list (str * pv) * list str :=
  match kv with
  | [] => ([], [])
  | (k, v) :: kv' =>
    let (known, warned) := drop_unknown kv' in
    match field_ty k with
    | Some _ => ((k, v) :: known, warned)
    | None => (known, k :: warned)
    end
  end.

(* dict.update: the --config options override those of the file *)
Definition kw_update (kw extra : list (str * pv)) : list (str * pv) :=
  fold_left (fun d kv => aset (fst kv) (snd kv) d) extra kw.

(* load_markdown_settings: settings and the keys warned about; [extra] are the --config options *)
Definition run_markdown (lines : list str) (extra : list (str * pv)) : res (settings * list str) :=
  do r <- convert_meta (meta_preprocessor lines);
  if existsb include_like (fst r) then Unmodelled (s "markdown include in metadata") else
  do st <- construct (kw_update (fst r) extra);
  Ok (st, snd r).

(* load_toml_settings on the parsed [extra.ford] table *)
Definition run_toml (kv extra : list (str * pv)) : res (settings * list str) :=
  let (known, warned) := drop_unknown kv in
  do st <- construct (kw_update known extra); Ok (st, warned).

(* load_settings: fpm.toml wins when it has an [extra.ford] table *)
Definition load_settings (lines : list str) (toml : option (list (str * pv))) (extra : list (str * pv))
  : res (settings * list str) :=
  match toml with Some kv => run_toml kv extra | None => run_markdown lines extra end.

(* ------------------------------------------------------------------ parse_arguments *)
(* --config handed to parse_arguments directly (not what ford.initialize does): setattr of the raw
   TOML values *)
Definition apply_config (st : settings) (cfg : list (str * pv)) : settings := overlay st cfg.

(* convert_types_from_commandarguments over the destinations that are not None *)
Fixpoint apply_cli (st : settings) (cli : list (str * pv)) : res settings :=
  match cli with
  | [] => Ok st
  | (k, v) :: cli' =>
    match field_ty k with
    | Some t => do v' <- convert_setting t k v; apply_cli (sset k v' st) cli'
    | None => apply_cli st cli'
    end
  end.

(* pathlib: (base / p).absolute().resolve(), lexically *)
Fixpoint norm_comps (cs : list str) (acc : list str) : list str :=
  match cs with
  | [] => rev acc
  | c :: cs' =>
    if seqb c [] || seqb c (s ".") then norm_comps cs' acc
    else if seqb c (s "..") then norm_comps cs' (tl acc)
    else norm_comps cs' (c :: acc)
  end.
Definition slash : ascii := "/"%char.
Definition render_path (cs : list str) : str := slash :: join [slash] cs.
Definition norm_path (base p : str) : str :=
  match p with
  | c :: _ => if Ascii.eqb c slash then render_path (norm_comps (split_ch slash p) [])
              else render_path (norm_comps (split_ch slash base ++ split_ch slash p) [])
  | [] => render_path (norm_comps (split_ch slash base) [])
  end.
Definition has_dollar (x : str) : bool := existsb (fun c => code c =? 36) x.

Definition normalise_value (opt base : str) (v : pv) : res pv :=
  match v with
  | PStr x | PPath x => if has_dollar x then Unmodelled (s "environment variable in a path")
                        else Ok (PPath (norm_path base x))
  | _ => te opt
  end.

Definition normalise_field (base : str) (st : res settings) (tkv : tyclass * (str * pv)) : res settings :=
  do st <- st;
  let (t, kv) := tkv in
  match snd kv, t with
  | PNone, _ => Ok st
  | _, _ =>
  (* copy_subdir holds names of subdirectories of the page directories, not paths *)
  if seqb (fst kv) (s "copy_subdir") then Ok st else
  match snd kv, t with
  | PNone, _ => Ok st
  | _, TListPath =>
    match py_iter (sget (fst kv) st) with
    | Some l => do l' <- mapM (normalise_value (fst kv) base) l; Ok (sset (fst kv) (PList l') st)
    | None => te (fst kv)
    end
  | v, t => if is_path_ty t then do v' <- normalise_value (fst kv) base v; Ok (sset (fst kv) v' st)
            else Ok st
  end
  end.

(* normalise_paths; [base] is the absolute project directory, [ford_dir] the package directory *)
Definition normalise_paths (base ford_dir : str) (st : settings) : res settings :=
  let st := sset (s "directory") (PPath base) st in
  let st := if py_eq (sget (s "favicon") st) (PPath favicon_path)
            then sset (s "favicon") (PPath (ford_dir ++ slash :: favicon_path)) st else st in
  let st := if py_eq (sget (s "md_base_dir") st) (PPath (s "."))
            then sset (s "md_base_dir") (PPath base) st else st in
  do st <- fold_left (normalise_field base) (combine field_types st) (Ok st);
  Ok (if py_truthy (sget (s "relative") st) then sset (s "project_url") (sget (s "output_dir") st) st else st).

(* parse_arguments, right after normalise_paths: the output directory is never searched for sources.
   __post_init__ appended the output_dir known when the settings were built; the command line may
   have replaced output_dir or exclude_dir since.  Both are normalised paths here; [in] is == *)
Definition exclude_output (st : settings) : res settings :=
  match sget (s "exclude_dir") st with
  | PList l =>
    let od := sget (s "output_dir") st in
    Ok (if existsb (py_eq od) l then st else sset (s "exclude_dir") (PList (l ++ [od])) st)
  | _ => te (s "exclude_dir")
  end.

Definition is_ancestor_or_self (od sd : str) : bool :=
  seqb od sd || prefix (od ++ [slash]) sd || (seqb od [slash] && prefix [slash] sd).

Definition license_of (opt : str) (v : pv) : res pv :=
  match v with
  | PStr x => Ok (match aget (lower x) licenses with Some h => PStr h | None => v end)
  | _ => ae opt
  end.

Definition strftime_stub (fmt : str) : str := s "<T:" ++ fmt ++ s ">".

(* the rest of parse_arguments after normalise_paths (time and the preprocessor test stubbed) *)
Definition finish_arguments (st : settings) : res settings :=
  do cd <- match sget (s "creation_date") st with
           | PStr x => Ok (PStr (strftime_stub x))
           | _ => te (s "creation_date")
           end;
  let st := sset (s "creation_date") cd st in
  do srcs <- match py_iter (sget (s "src_dir") st) with Some l => Ok l | None => te (s "src_dir") end;
  let od := sget (s "output_dir") st in
  if existsb (fun sd => match od, sd with
                        | PPath o, PPath d => is_ancestor_or_self o d
                        | _, _ => false
                        end) srcs
  then Err (s "ValueError") (s "src_dir") false else
  do _ <- match sget (s "gitter_sidecar") st with
          | PNone | PStr _ => Ok tt
          | _ => @ae unit (s "gitter_sidecar")
          end;
  do st <- (if py_truthy (sget (s "preprocess") st)
            then match sget (s "preprocessor") st with PStr _ => Ok st | _ => ae (s "preprocessor") end
            else Ok (sset (s "fpp_extensions") (PList []) st));
  do lic <- license_of (s "license") (sget (s "license") st);
  let st := sset (s "license") lic st in
  do dl <- license_of (s "doc_license") (sget (s "doc_license") st);
  Ok (sset (s "doc_license") dl st).

(* ------------------------------------------------------------------ the whole pipeline *)
Record input := mkinput {
  i_lines : list str;                     (* lines of the project file *)
  i_toml : option (list (str * pv));      (* parsed [extra.ford] table of fpm.toml, when present *)
  i_cfg : option (list (str * pv));       (* parsed --config string *)
  i_cli : list (str * pv);                (* command line destinations that are not None *)
  i_cwd : str;                            (* working directory (absolute, normalised) *)
  i_dir : str;                            (* the directory argument (of the project file) *)
  i_ford : str                            (* directory of the ford package *)
}.

Definition project_dir (i : input) : str := norm_path (i_cwd i) (i_dir i).

(* ford.initialize: the --config options (unknown keys reported and dropped) join the options of
   the settings file before the settings object is built; then the command line *)
Definition effective (i : input) : res (settings * list str) :=
  let (cfg, cfg_warned) := drop_unknown (match i_cfg i with Some c => c | None => [] end) in
  do r <- load_settings (i_lines i) (i_toml i) cfg;
  do st <- apply_cli (fst r) (i_cli i);
  do st <- normalise_paths (project_dir i) (i_ford i) st;
  do st <- exclude_output st;
  do st <- finish_arguments st;
  Ok (st, cfg_warned ++ snd r).

(* ------------------------------------------------------------------ abstract typed values and
   their three encodings *)
Inductive aval : Type :=
| VBool (b : bool)
| VInt (z : Z)
| VStr (lines : list str)                         (* the string "\n".join(lines) *)
| VList (items : list str)
| VOne (item : str)                               (* a one-element list written as a bare scalar *)
| VDict (entries : list (str * str))
| VFT (types : list (str * str * option str)).     (* extension, comment, lexer *)

Definition indent : str := s "    ".

(* "key: first" followed by indented continuation lines *)
Definition md_block (key : str) (vals : list str) : list str :=
  match vals with
  | [] => [key ++ s ":"]
  | v :: vs => (key ++ s ": " ++ v) :: map (fun x => indent ++ x) vs
  end.

Definition sep_of (key : str) : str :=
  match aget key option_separators with Some x => x | None => s "=" end.

Definition ft_line (t : str * str * option str) : str :=
  match t with
  | (e, c, None) => e ++ s " " ++ c
  | (e, c, Some l) => e ++ s " " ++ c ++ s " " ++ l
  end.

(* what meta_preprocessor is expected to extract for the value: the list of metadata strings *)
Definition md_values (key : str) (v : aval) : list str :=
  match v with
  | VBool b => [if b then s "true" else s "false"]
  | VInt z => [str_of_Z z]
  | VStr ls => ls
  | VList l => l
  | VOne x => [x]
  | VDict d => map (fun kv => fst kv ++ sep_of key ++ snd kv) d
  | VFT l => map ft_line l
  end.
Definition enc_md (key : str) (v : aval) : list str := md_block key (md_values key v).

Definition ft_dict (t : str * str * option str) : pv :=
  match t with
  | (e, c, None) => PDict [(s "extension", PStr e); (s "comment", PStr c)]
  | (e, c, Some l) => PDict [(s "extension", PStr e); (s "comment", PStr c); (s "lexer", PStr l)]
  end.

(* the value as TOML expresses it (fpm.toml and --config alike) *)
Definition enc_toml (v : aval) : pv :=
  match v with
  | VBool b => PBool b
  | VInt z => PInt z
  | VStr ls => PStr (join nl ls)
  | VList l => PList (map PStr l)
  | VOne x => PStr x
  | VDict d => PDict (map (fun kv => (fst kv, PStr (snd kv))) d)
  | VFT l => PList (map ft_dict l)
  end.

(* well-formedness of the pieces of text that the markdown metadata syntax can carry *)
Definition no_newline (x : str) : bool := negb (existsb (fun c => code c =? 10) x).
Definition stripped (x : str) : bool :=
  match x with
  | [] => true
  | c :: _ => negb (is_space c) && negb (is_space (last x c))
  end.
Definition piece (x : str) : bool := no_newline x && stripped x.
Definition nonempty (x : str) : bool := match x with [] => false | _ => true end.
Definition pieces (l : list str) : bool :=
  match l with
  | [] => false
  | x :: l' => piece x && forallb (fun y => piece y && nonempty y) l'
  end.
Definition token (x : str) : bool := nonempty x && negb (existsb is_space x).
Fixpoint nodup_strs (l : list str) : bool :=
  match l with [] => true | x :: l' => negb (sin x l') && nodup_strs l' end.

Definition wt_value (key : str) (t : tyclass) (v : aval) : bool :=
  match t, v with
  | TBool, VBool _ => true
  | (TInt | TOptInt), VInt _ => true
  | (TStr | TOptStr | TPath | TOptPath), VStr ls =>
    pieces ls && negb (prefix (s "{!") (join nl ls))
  | (TListStr | TListPath | TListAny), VList l => pieces l
  | (TListStr | TListPath), VOne x => piece x
  | TDictStr, VDict d =>
    match aget key option_separators with
    | Some [sep] =>
      negb (is_space sep)
      && forallb (fun kv => piece (fst kv) && piece (snd kv)
                            && negb (existsb (Ascii.eqb sep) (fst kv))) d
      && nodup_strs (map fst d)
    | _ => false
    end
  | TDictFT, VFT l =>
    forallb (fun t => match t with
                      | (e, c, None) => token e && token c
                      | (e, c, Some x) => token e && token c && token x
                      end) l
    && nodup_strs (map (fun t => fst (fst t)) l)
  | _, _ => false
  end.

Definition wt_option (kv : str * aval) : bool :=
  match find_field project_schema (fst kv) with
  | Some f => wt_value (fst kv) (f_ty f) (snd kv)
  | None => false
  end.
Definition wt_options (kvs : list (str * aval)) : bool :=
  forallb wt_option kvs && nodup_strs (map fst kvs).

Definition enc_md_all (kvs : list (str * aval)) : list str :=
  flat_map (fun kv => enc_md (fst kv) (snd kv)) kvs.
Definition enc_toml_all (kvs : list (str * aval)) : list (str * pv) :=
  map (fun kv => (fst kv, enc_toml (snd kv))) kvs.

(* the three ways of writing the same options, everything else equal *)
Definition effective_md (i : input) (kvs : list (str * aval)) : res (settings * list str) :=
  effective (mkinput (enc_md_all kvs) None None (i_cli i) (i_cwd i) (i_dir i) (i_ford i)).
Definition effective_toml (i : input) (kvs : list (str * aval)) : res (settings * list str) :=
  effective (mkinput [] (Some (enc_toml_all kvs)) None (i_cli i) (i_cwd i) (i_dir i) (i_ford i)).
Definition effective_config (i : input) (kvs : list (str * aval)) : res (settings * list str) :=
  effective (mkinput [] None (Some (enc_toml_all kvs)) (i_cli i) (i_cwd i) (i_dir i) (i_ford i)).

(* one table of raw values in fpm.toml / in --config, or the lines of a project file, everything
   else equal *)
Definition with_md (i : input) (lines : list str) : input :=
  mkinput lines None None (i_cli i) (i_cwd i) (i_dir i) (i_ford i).
Definition with_toml (i : input) (kv : list (str * pv)) : input :=
  mkinput [] (Some kv) None (i_cli i) (i_cwd i) (i_dir i) (i_ford i).
Definition with_config (i : input) (kv : list (str * pv)) : input :=
  mkinput [] None (Some kv) (i_cli i) (i_cwd i) (i_dir i) (i_ford i).

(* an option that can be given at all (a field of the schema that __init__ accepts) *)
Definition settable (k : str) : bool :=
  match find_field project_schema k with Some f => f_init f | None => false end.
(* the declared types for which text is converted: flags and numbers *)
Definition is_conv_ty (t : tyclass) : bool :=
  match t with TBool | TInt | TOptInt => true | _ => false end.
