(* Out/ExternalSpec.v — C16: what the property demands, written from the property text (and from
   what Fortran's USE association means), not from FORD's code.  Executable definitions and the
   statements' vocabulary only; proofs are in Out/ExternalProofs.v.

   (a) A link from B into A is the place where A's documentation lives, followed by the relative
       address A itself gives the entity: [spec_join].
   (b) The description A exports names exactly A's modules and, per module, exactly the entities a
       USE of that module can import (PUBLIC and PROTECTED ones), nothing else: [exact_on].
   (c) A name B defines itself never resolves to an imported entity: [local_first_ok].
   (d) Whatever state the description is in, loading it does not end the run: [survives]. *)
From Ford Require Import Base.Str Base.Path Out.Names Out.External.

(* ---------------------------------------------------------------- (a) links *)

(* base / rel : for a directory "dir/rel", for a URL ending in "/" plain concatenation *)
Definition spec_join (b : base) (rel : str) : str :=
  match b with
  | BLocal d => d ++ s "/" ++ rel
  | BRemote u => u ++ rel
  end.

(* A's own address of the entities of a module, listed with the path (module name, lower-cased
   entity name, class of USE-importable thing) under which B names them *)
Definition kid_url (idf : nat -> str) (m : ent) (e : ent) : option str :=
  own_url (Some (e_kind m)) (own_url None None (e_kind m) (idf (e_id m))) (e_kind e) (idf (e_id e)).
Definition module_url (idf : nat -> str) (m : ent) : option str :=
  own_url None None (e_kind m) (idf (e_id m)).

(* the page part of a relative URL *)
Definition page_of (u : str) : str := strip_frag u.

(* A module makes an entity accessible under a name: its own entity under the entity's name, or (alias
   node) an entity of another module under a local name.  The entity, its class, and whether its
   defining module documents it: *)
Definition denoted (e : ent) : ent := match alias_target e with Some t => t | None => e end.
Definition class_of (e : ent) : option str := pub_class (e_kind (denoted e)).
Definition displayed (disp : list perm) (e : ent) : bool := shown disp (denoted e).

(* an entity B can import from module m (under the name e_name e) *)
Definition importable (e : ent) : bool :=
  accessible e && match class_of e with Some _ => true | None => false end.

(* everything B may link to in module m with the URL it must get: (class dict, lower name, url) *)
Definition expected_links (idf : nat -> str) (b : base) (m : ent) : list (str * str * str) :=
  flat_map (fun e =>
    if importable e then
      match pub_class (e_kind e), kid_url idf m e with
      | Some c, Some u => [(c, lower (e_name e), spec_join b u)]
      | _, _ => []
      end
    else []) (e_kids m).

(* ---------------------------------------------------------------- (b) the exported description *)

Definition jget (k : str) (j : json) : option json :=
  match j with JDict d => assoc_get k d | _ => None end.
Definition jname (j : json) : str :=
  match jget (s "name") j with Some (JStr x) => x | _ => [] end.
Definition jlist (j : option json) : list json := match j with Some (JList l) => l | _ => [] end.
Definition jkeys (j : option json) : list str := match j with Some (JDict l) => map fst l | _ => [] end.

Definition PUB_CLASSES : list str := [s "pub_procs"; s "pub_absints"; s "pub_types"; s "pub_vars"].
Definition LIST_CLASSES : list str :=
  [s "functions"; s "subroutines"; s "interfaces"; s "absinterfaces"; s "types"; s "variables"].

(* the public entities of module m that belong in class dict c / in list l, as lower-case names *)
Definition spec_pub (m : ent) (c : str) : list str :=
  map (fun e => lower (e_name e))
      (filter (fun e => accessible e && opt_eqb str_eqb (class_of e) (Some c)) (e_kids m)).
Definition spec_list (m : ent) (l : str) : list str :=
  map (fun e => lower (e_name e))
      (filter (fun e => accessible e && str_eqb (slot_of (e_kind e)) l) (e_kids m)).

Definition same_set (a b : list str) : bool :=
  forallb (fun x => str_in x b) a && forallb (fun x => str_in x a) b.

(* the description [jm] of one module lists exactly m's public entities *)
Definition module_exact (m : ent) (jm : json) : bool :=
  str_eqb (jname jm) (e_name m)
  && forallb (fun c => same_set (jkeys (jget c jm)) (spec_pub m c)) PUB_CLASSES
  && forallb (fun l => same_set (map (fun x => lower (jname x)) (jlist (jget l jm))) (spec_list m l))
             LIST_CLASSES.

Fixpoint all2 {X Y} (f : X -> Y -> bool) (a : list X) (b : list Y) : bool :=
  match a, b with
  | [], [] => true
  | x :: a', y :: b' => f x y && all2 f a' b'
  | _, _ => false
  end.

(* a description (content of modules.json) is exact for A *)
Definition exact_on (mods : list ent) (j : json) : bool :=
  all2 module_exact mods (jlist (jget (s "modules") j)).

(* the `display` setting that documents what Fortran makes accessible, as a set *)
Definition display_default (d : list perm) : bool :=
  has_perm Public d && has_perm Protected d && negb (has_perm Private d).

(* ---------------------------------------------------------------- (c) B's own names win *)

Definition ALL_LOCAL : list coll :=
  [CModules; CSubmodules; CTypes; CProcedures; CAllFiles; CAbsInterfaces; CPrograms; CBlockData; CNamelists].
Definition lower_in (n : str) (l : list str) : bool := existsb (fun x => str_eqb (lower n) (lower x)) l.
Definition defined_locally (B : blocal) (n : str) : bool :=
  existsb (fun c => lower_in n (local_names B c)) ALL_LOCAL.
Definition is_local (h : hit) : bool :=
  match h with HLocal _ _ | HLocalChild _ _ => true | HExt _ => false end.
(* outcome of a look-up of a name B defines: one of B's own entities *)
Definition local_first_ok (B : blocal) (n : str) (r : res (option hit)) : bool :=
  if defined_locally B n then
    match r with Ok (Some h) => is_local h | _ => false end
  else true.

(* an imported object of that name exists somewhere *)
Definition ext_named (tops : list xval) (n : str) : bool :=
  existsb (fun o => match x_name o with JStr x => str_eqb (lower n) (lower x) | _ => true end)
          (flat_map objs_of tops).

(* ---------------------------------------------------------------- (d) load errors are contained *)

Definition survives (o : outcome) : bool :=
  match o with ORaised _ => false | _ => true end.
(* "costs only the links": a failed load leaves no external entities, the run goes on *)
Definition only_links_lost (o : outcome) : bool :=
  match o with OContained => true | OLoaded [] => true | _ => false end.

(* the source carries a usable description *)
Definition has_description (src : source) : bool :=
  match src with
  | SLocal _ (LJson _) | SRemote _ (RJson _) => true
  | _ => false
  end.

(* ---------------------------------------------------------------- (a') links, path by path *)

(* the object named [n] in list attribute [slot] of an imported object *)
Definition slot_child (x : xval) (slot n : str) : option xval :=
  match assoc_get slot (x_attrs x) with
  | Some (XL l) =>
    find (fun o => match x_name o with JStr y => str_eqb (lower y) (lower n) | _ => false end) l
  | _ => None
  end.

(* The imported object [x] stands for entity e of A (reached along some path: module, then list
   attribute and name at every step).  It must carry base / (A's own URL of e) - of THIS entity, not
   of another one that happens to have the same name elsewhere - and so must, recursively, every
   object that B finds under x at the path of one of e's children. *)
Fixpoint path_ok (idf : nat -> str) (b : base) (pk : option kind) (purl : option str) (e : ent) (x : xval)
         {struct e} : bool :=
  match e with
  | Ent id k name p kids =>
    let url := own_url pk purl k (idf id) in
    let generic :=
    match url, x_url x with
    | Some u, JStr xu => str_eqb xu (spec_join b u)
    | Some _, _ => false
    | None, _ => true
    end
    && (fix go (l : list ent) : bool :=
          match l with
          | [] => true
          | c :: r =>
            match slot_child x (slot_of (e_kind c)) (e_name c) with
            | Some xc => path_ok idf b (Some k) url c xc
            | None => true
            end && go r
          end) kids in
    match k, kids with
    | KAlias, t :: _ =>
      (* a name for an entity of another module: the object must be that entity, as its defining module
         (whose id the alias node carries) addresses it *)
      path_ok idf b (Some KModule) (own_url None None KModule (idf id)) t x
    | _, _ => generic
    end
  end.
