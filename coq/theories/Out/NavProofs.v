(* Out/NavProofs.v -- every navigation link of base.html / index.html is emitted only when its
   target page is written; proved over the conditions regenerated from the source
   (Gen/NavConds.v), for arbitrary collection sizes. *)
From Ford Require Import Base.Str Base.StrFacts Gen.NavConds Out.Nav.
From Coq Require Import Lia.

(* turn a goal about the generated boolean conditions into linear arithmetic *)
Ltac split_ifs :=
  repeat match goal with
  | |- context [if ?b then _ else _] =>
      let E := fresh "E" in destruct b eqn:E; rewrite ?E in *
  | H : context [if ?b then _ else _] |- _ =>
      let E := fresh "E" in destruct b eqn:E; rewrite ?E in *
  end.

Ltac bool_to_prop :=
  repeat match goal with
  | H : _ && _ = true |- _ => apply andb_true_iff in H; destruct H
  | H : _ && _ = false |- _ => apply andb_false_iff in H
  | H : _ || _ = true |- _ => apply orb_true_iff in H
  | H : _ || _ = false |- _ => apply orb_false_iff in H; destruct H
  | H : negb _ = true |- _ => apply negb_true_iff in H
  | H : negb _ = false |- _ => apply negb_false_iff in H
  | H : (_ <? _) = true |- _ => apply Nat.ltb_lt in H
  | H : (_ <? _) = false |- _ => apply Nat.ltb_ge in H
  | H : (_ <=? _) = true |- _ => apply Nat.leb_le in H
  | H : (_ <=? _) = false |- _ => apply Nat.leb_gt in H
  | H : (_ =? _) = true |- _ => apply Nat.eqb_eq in H
  | H : (_ =? _) = false |- _ => apply Nat.eqb_neq in H
  | H : _ \/ _ |- _ => destruct H
  | H : true = false |- _ => discriminate H
  | H : false = true |- _ => discriminate H
  end.

Ltac nav_unfold :=
  cbv [nav_link_ok target_ok list_page single_page lookup_page lookup_entity list_pages entity_pages
       nl_cond nl_target nl_template nl_label wf_counts
       str_eqb s list_ascii_of_string Ascii.eqb Bool.eqb implb andb orb negb fst snd] in *.
Ltac nav_compute := nav_unfold; autounfold with navconds in *; nav_unfold.

(* what is left in the goal after [split_ifs]: atomic comparisons and flags *)
Ltac destruct_goal_atoms :=
  repeat match goal with
  | |- context [?a <? ?b] => let E := fresh "E" in destruct (a <? b) eqn:E
  | |- context [?a <=? ?b] => let E := fresh "E" in destruct (a <=? b) eqn:E
  | |- context [?a =? ?b] => let E := fresh "E" in destruct (a =? b) eqn:E
  | |- context [?f ?c] =>
      match type of (f c) with bool => is_var c; let E := fresh "E" in destruct (f c) eqn:E end
  end.

Ltac nav_solve :=
  nav_compute; split_ifs; bool_to_prop; destruct_goal_atoms; bool_to_prop;
  try reflexivity; try discriminate; try congruence; try (exfalso; lia); try lia.

(* every navigation link of base.html / index.html, for all collection sizes and flags *)
Theorem nav_pages : forall l c,
  In l nav_links -> wf_counts c = true -> nav_link_ok l c = true.
Proof.
  intros l c HIn Hwf. unfold nav_links in HIn.
  repeat (destruct HIn as [<- | HIn]; [nav_solve|]).
  destruct HIn.
Qed.

(* non-vacuity: on a one-file project (the shape on which the front page used to link the unwritten
   lists/files.html) the project is well-formed, some link is emitted, and all of them have targets *)
Example nav_pages_nonvacuous :
  wf_counts sample_one_file = true /\
  (exists l, In l nav_links /\ nl_cond l sample_one_file = true /\
             target_ok (nl_target l) sample_one_file = true) /\
  all_links_ok sample_one_file = true.
Proof.
  split; [reflexivity|]. split; [|vm_compute; reflexivity].
  destruct (find (fun l => nl_cond l sample_one_file) nav_links) as [l|] eqn:E;
    [|vm_compute in E; discriminate E].
  exists l. apply find_some in E as [HIn E]. repeat split; auto.
  pose proof (nav_pages l sample_one_file HIn eq_refl) as H.
  unfold nav_link_ok in H. now rewrite E in H.
Qed.

(* the link that used to be dead is present in the list and is now guarded *)
Example nav_files_link_guarded :
  exists l, In l nav_links /\ nl_template l = s "index.html" /\ nl_target l = TList (s "files.html") /\
            nl_cond l sample_one_file = false.
Proof.
  destruct (find (fun l => str_eqb (nl_template l) (s "index.html") &&
                           match nl_target l with TList p => str_eqb p (s "files.html") | _ => false end)
                 nav_links) as [l|] eqn:E; [|vm_compute in E; discriminate E].
  exists l. apply find_some in E as [HIn E]. apply andb_true_iff in E as [E1 E2].
  apply str_eqb_eq in E1. destruct (nl_target l) as [pg|] eqn:T; [|discriminate].
  apply str_eqb_eq in E2. subst pg. repeat split; auto.
  revert HIn E1 T. unfold nav_links. simpl In.
  intros HIn. repeat (destruct HIn as [<- | HIn]; [try (intros; vm_compute; reflexivity); try (vm_compute; intros; discriminate)|]).
  destruct HIn.
Qed.
