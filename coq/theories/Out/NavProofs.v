(* Out/NavProofs.v -- every navigation link of base.html / index.html is emitted only when its
   target page is written; proved over the conditions regenerated from the source
   (Gen/NavConds.v), for arbitrary collection sizes. *)
From Ford Require Import Base.Str Base.StrFacts Gen.NavConds Out.Nav.
From Coq Require Import Lia.

(* turn a goal about the generated boolean conditions into linear arithmetic *)
Ltac split_ifs :=
  repeat match goal with
  | |- context [if ?b then _ else _] =>
      let E := fresh "E" in destruct b eqn:E; rewrite ?E in *
  | H : context [if ?b then _ else _] |- _ =>
      let E := fresh "E" in destruct b eqn:E; rewrite ?E in *
  end.

Ltac bool_to_prop :=
  repeat match goal with
  | H : _ && _ = true |- _ => apply andb_true_iff in H; destruct H
  | H : _ && _ = false |- _ => apply andb_false_iff in H
  | H : _ || _ = true |- _ => apply orb_true_iff in H
  | H : _ || _ = false |- _ => apply orb_false_iff in H; destruct H
  | H : negb _ = true |- _ => apply negb_true_iff in H
  | H : negb _ = false |- _ => apply negb_false_iff in H
  | H : (_ <? _) = true |- _ => apply Nat.ltb_lt in H
  | H : (_ <? _) = false |- _ => apply Nat.ltb_ge in H
  | H : (_ <=? _) = true |- _ => apply Nat.leb_le in H
  | H : (_ <=? _) = false |- _ => apply Nat.leb_gt in H
  | H : (_ =? _) = true |- _ => apply Nat.eqb_eq in H
  | H : (_ =? _) = false |- _ => apply Nat.eqb_neq in H
  | H : _ \/ _ |- _ => destruct H
  | H : true = false |- _ => discriminate H
  | H : false = true |- _ => discriminate H
  end.

Ltac nav_unfold :=
  cbv [nav_link_ok target_ok list_page single_page lookup_page lookup_entity list_pages entity_pages
       nl_cond nl_target nl_template nl_label region_index_files is_index_files wf_counts
       str_eqb s list_ascii_of_string Ascii.eqb Bool.eqb implb andb orb negb fst snd] in *.
Ltac nav_compute := nav_unfold; autounfold with navconds in *; nav_unfold.

(* what is left in the goal after [split_ifs]: atomic comparisons and flags *)
Ltac destruct_goal_atoms :=
  repeat match goal with
  | |- context [?a <? ?b] => let E := fresh "E" in destruct (a <? b) eqn:E
  | |- context [?a <=? ?b] => let E := fresh "E" in destruct (a <=? b) eqn:E
  | |- context [?a =? ?b] => let E := fresh "E" in destruct (a =? b) eqn:E
  | |- context [?f ?c] =>
      match type of (f c) with bool => is_var c; let E := fresh "E" in destruct (f c) eqn:E end
  end.

Ltac nav_solve :=
  nav_compute; split_ifs; bool_to_prop; destruct_goal_atoms; bool_to_prop;
  try reflexivity; try discriminate; try congruence; try (exfalso; lia); try lia.

Theorem nav_pages_partial : forall l c,
  In l nav_links -> wf_counts c = true -> region_index_files l c = false ->
  nav_link_ok l c = true.
Proof.
  intros l c HIn Hwf Hreg. unfold nav_links in HIn.
  repeat (destruct HIn as [<- | HIn]; [nav_solve|]).
  destruct HIn.
Qed.

(* the region is exact: inside it the emitted link has no target *)
Theorem nav_region_exact : forall l c,
  In l nav_links -> wf_counts c = true -> region_index_files l c = true ->
  nl_cond l c = true -> target_ok (nl_target l) c = false.
Proof.
  intros l c HIn Hwf Hreg Hc. unfold nav_links in HIn.
  repeat (destruct HIn as [<- | HIn]; [nav_solve|]).
  destruct HIn.
Qed.

Definition nav_pages_statement : Prop :=
  forall l c, In l nav_links -> wf_counts c = true -> nav_link_ok l c = true.

(* one source file, incl_src (the default): the front page links lists/files.html, which is not written *)
Definition witness_counts : counts := sample_one_file.

Theorem nav_pages_refuted : ~ nav_pages_statement.
Proof.
  intros H.
  assert (E : all_links_ok witness_counts = true).
  { unfold all_links_ok. apply forallb_forall. intros l Hl. now apply H. }
  vm_compute in E. discriminate E.
Qed.

Example nav_partial_nonvacuous :
  exists l, In l nav_links /\ wf_counts witness_counts = true /\
            region_index_files l witness_counts = false /\ nl_cond l witness_counts = true.
Proof.
  destruct (find (fun l => negb (is_index_files l) && nl_cond l witness_counts) nav_links) as [l|] eqn:E;
    [|vm_compute in E; discriminate E].
  exists l. apply find_some in E as [HIn E]. apply andb_true_iff in E as [E1 E2].
  repeat split; auto. unfold region_index_files. apply negb_true_iff in E1. now rewrite E1.
Qed.

Example nav_region_nonvacuous :
  exists l, In l nav_links /\ wf_counts witness_counts = true /\
            region_index_files l witness_counts = true /\ nl_cond l witness_counts = true.
Proof.
  destruct (find (fun l => region_index_files l witness_counts && nl_cond l witness_counts) nav_links)
    as [l|] eqn:E; [|vm_compute in E; discriminate E].
  exists l. apply find_some in E as [HIn E]. apply andb_true_iff in E as [E1 E2]. auto.
Qed.
