(* Out/SettingsTypes.v -- the types shared by the generated schema (Gen/Schema.v) and the
   settings model (Out/Settings.v).  Definitions only. *)
From Coq Require Import ZArith.
From Ford Require Import Base.Str.

(* Python values that occur in FORD's settings objects and in parsed TOML documents.
   [PFT] is an [ExtraFileType] instance; [POther] is an opaque value (float, date, ...). *)
Inductive pv : Type :=
| PNone
| PBool (b : bool)
| PInt (z : Z)
| PStr (x : str)
| PPath (x : str)
| PList (l : list pv)
| PDict (d : list (str * pv))
| PFT (ext comment : str) (lexer : option str)
| POther (tag : str).

(* declared type of a settings field *)
Inductive tyclass : Type :=
| TBool | TInt | TStr | TPath | TListAny      (* bool, int, str, Path, bare list *)
| TOptStr | TOptPath | TOptInt               (* Optional[...] *)
| TListStr | TListPath                       (* List[str], List[Path] *)
| TDictStr | TDictFT.                        (* Dict[str, str], Dict[str, ExtraFileType] *)

Record field := mkfield { f_name : str; f_ty : tyclass; f_default : pv; f_init : bool }.

(* argparse actions of the command line parser *)
Inductive clikind : Type := CStore | CAppend | CTrue | CFalse.
