(* Out/ExternalProofs.v — proofs for C16 (model Out/External.v, spec Out/ExternalSpec.v). *)
From Ford Require Import Base.Str Base.StrFacts Base.Path Out.Names Out.NamesProofs Out.External Out.ExternalSpec.
From Coq Require Import Lia.

Local Arguments Nat.div : simpl never.

(* ================================================================= induction over entities *)

Fixpoint ent_rect' (P : ent -> Prop)
         (H : forall id k name p kids, Forall P kids -> P (Ent id k name p kids)) (e : ent) : P e :=
  match e with
  | Ent id k name p kids =>
    H id k name p kids
      ((fix go (l : list ent) : Forall P l :=
          match l with
          | [] => Forall_nil P
          | c :: r => Forall_cons c (ent_rect' P H c) (go r)
          end) kids)
  end.

(* ================================================================= what B should hold after loading *)

Definition cls_of (k : kind) : xcls :=
  match k with
  | KModule => XModule | KFunction => XFunction | KSubroutine => XSubroutine
  | KGeneric | KAbsInt => XInterface | KType => XType | KVar => XVariable | KBound => XBound
  | KAlias => XVariable
  end.

Definition url_rel (u : option str) : str := match u with Some x => x | None => s "None" end.

(* the External* object for an object of class k *)
Definition node_x (b : base) (k : kind) (name : str) (url : option str) (p : perm)
           (dx : str -> list (str * xval)) (lx : str -> list xval) : xval :=
  XO (cls_of k) (JStr name) (JStr (rebase b (url_rel url)))
     (canon_attrs (cls_of k)
        ((* only ExternalInterface objects get a proctype attribute *)
         match proctype_str k with
         | Some t => if xcls_eqb (cls_of k) XInterface then [(s "proctype", XV (JStr t))] else []
         | None => []
         end
         ++ map (fun sl => (sl, XD (dx sl))) (dict_slots k)
         ++ map (fun sl => (sl, XL (lx sl))) (list_slots k)
         ++ [(s "permission", XV (JStr (perm_str p)))])).

(* the image of entity e in B: same shape as the export, External* objects instead of dicts,
   every URL re-based *)
Fixpoint xlate (idf : nat -> str) (cfg : acfg) (b : base) (pk : option kind) (purl : option str)
         (kept : bool) (e : ent) {struct e} : xval :=
  match e with
  | Ent id k name p kids =>
    let url := own_url pk purl k (idf id) in
    let lst (slot : str) : list xval :=
      (fix go (l : list ent) : list xval :=
         match l with
         | [] => []
         | c :: r =>
           if str_eqb (slot_of (e_kind c)) slot && listed cfg kept k c
           then xlate idf cfg b (Some k) url kept c :: go r
           else go r
         end) kids in
    let dct_of (k' : kind) : list (str * xval) :=
      (fix go (l : list ent) : list (str * xval) :=
         match l with
         | [] => []
         | c :: r =>
           if kind_eqb (e_kind c) k' && accessible c && listed cfg kept k c
           then (lower (e_name c), xlate idf cfg b (Some k) url kept c) :: go r
           else go r
         end) kids in
    let alias_of (slot : str) : list (str * xval) :=
      (fix go (l : list ent) : list (str * xval) :=
         match l with
         | [] => []
         | c :: r =>
           if alias_sel cfg slot c
           then (lower (e_name c), xlate idf cfg b (Some k) url kept c) :: go r
           else go r
         end) kids in
    let dct (slot : str) : list (str * xval) :=
      flat_map (fun k' => if opt_eqb str_eqb (pub_class k') (Some slot) then dct_of k' else []) PUB_KINDS
      ++ alias_of slot in
    let generic := node_x b k name url p dct lst in
    match k, kids with
    | KAlias, t :: _ => xlate idf cfg b (Some KModule) (own_url None None KModule (idf id)) true t
    | _, _ => generic
    end
  end.

(* ================================================================= small facts *)

Lemma after_first_slash_url_text u : after_first_slash (url_text u) = url_rel u.
Proof. reflexivity. Qed.

Lemma truthy_url_text u : truthy (JStr (url_text u)) = true.
Proof. reflexivity. Qed.

Lemma bind_ok {A B} (x : res A) (f : A -> res B) a : x = Ok a -> bind x f = f a.
Proof. intros ->. reflexivity. Qed.

(* ================================================================= dict2obj of an exported node *)

Definition EC (t : str) : option xcls := entity_class (lower t).
Lemma EC_kind k : EC (match proctype_str k with Some t => t | None => obj_str k end) = Some (cls_of k).
Proof. destruct k; reflexivity. Qed.

Lemma import_node_entries b rec k name url p dv lv dx lx :
  (forall sl, In sl (dict_slots k) -> import_pairs rec (dv sl) = Ok (dx sl)) ->
  (forall sl, In sl (list_slots k) -> import_items rec (lv sl) = Ok (lx sl)) ->
  import_node b rec (node_entries k name url p dv lv) = Ok (node_x b k name url p dx lx).
Proof.
  intros HD HL.
  unfold import_node, node_entries, node_x.
  change (entity_class (lower ?t)) with (EC t).
  set (U := url_text url).
  assert (EU : after_first_slash U = url_rel url) by reflexivity.
  assert (TU : negb (str_eqb U []) = true) by reflexivity.
  clearbody U.
  set (R := rebase b) in *. clearbody R.
  pose proof (EC_kind k) as HEC.
  destruct k;
    cbn -[import_pairs import_items canon_attrs EC] in *; rewrite TU;
    cbn -[import_pairs import_items canon_attrs EC]; rewrite HEC;
    cbn -[import_pairs import_items canon_attrs EC];
    rewrite ?HD, ?HL by tauto; cbn -[canon_attrs]; rewrite ?EU; reflexivity.
Qed.

(* ================================================================= filtered maps over the kids *)

Definition sel_map {X} (sel : ent -> bool) (f : ent -> X) : list ent -> list X :=
  fix go (l : list ent) : list X :=
    match l with
    | [] => []
    | c :: r => if sel c then f c :: go r else go r
    end.

Lemma sel_map_in {X} sel (f : ent -> X) l c : In c l -> sel c = true -> In (f c) (sel_map sel f l).
Proof.
  induction l as [|x l IH]; simpl; [tauto|].
  intros [->|H] S.
  - rewrite S. now left.
  - destruct (sel x); [right|]; auto.
Qed.

Lemma sel_map_in_inv {X} sel (f : ent -> X) l y :
  In y (sel_map sel f l) -> exists c, In c l /\ sel c = true /\ y = f c.
Proof.
  induction l as [|x l IH]; simpl; [tauto|].
  destruct (sel x) eqn:S.
  - intros [<-|H]; [exists x; auto|]. destruct (IH H) as (c & A & B & C). exists c; auto.
  - intros H. destruct (IH H) as (c & A & B & C). exists c; auto.
Qed.

Definition dict_sel (cfg : acfg) (kept : bool) (k k' : kind) (c : ent) : bool :=
  kind_eqb (e_kind c) k' && accessible c && listed cfg kept k c.
Definition list_sel (cfg : acfg) (kept : bool) (k : kind) (slot : str) (c : ent) : bool :=
  str_eqb (slot_of (e_kind c)) slot && listed cfg kept k c.

(* an alias node with its target *)
Definition is_alias_node (k : kind) (kids : list ent) : bool :=
  match k, kids with KAlias, _ :: _ => true | _, _ => false end.

Lemma export_ent_alias idf cfg pk purl kept id name p t r :
  export_ent idf cfg pk purl kept (Ent id KAlias name p (t :: r))
  = export_ent idf cfg (Some KModule) (own_url None None KModule (idf id)) true t.
Proof. reflexivity. Qed.
Lemma xlate_alias idf cfg b pk purl kept id name p t r :
  xlate idf cfg b pk purl kept (Ent id KAlias name p (t :: r))
  = xlate idf cfg b (Some KModule) (own_url None None KModule (idf id)) true t.
Proof. reflexivity. Qed.

Lemma is_alias_node_cases k kids :
  is_alias_node k kids = true -> exists t r, k = KAlias /\ kids = t :: r.
Proof. destruct k, kids; simpl; intros H; try discriminate. eauto. Qed.

Lemma export_ent_eq idf cfg pk purl kept id k name p kids :
  is_alias_node k kids = false ->
  export_ent idf cfg pk purl kept (Ent id k name p kids) =
  let url := own_url pk purl k (idf id) in
  JDict (node_entries k name url p
    (fun slot => flat_map (fun k' => if opt_eqb str_eqb (pub_class k') (Some slot)
                                     then sel_map (dict_sel cfg kept k k')
                                            (fun c => (lower (e_name c),
                                                       export_ent idf cfg (Some k) url kept c)) kids
                                     else []) PUB_KINDS
                 ++ sel_map (alias_sel cfg slot)
                      (fun c => (lower (e_name c), export_ent idf cfg (Some k) url kept c)) kids)
    (fun slot => sel_map (list_sel cfg kept k slot) (export_ent idf cfg (Some k) url kept) kids)).
Proof. destruct k, kids; simpl; intros H; try discriminate; reflexivity. Qed.

Lemma xlate_eq idf cfg b pk purl kept id k name p kids :
  is_alias_node k kids = false ->
  xlate idf cfg b pk purl kept (Ent id k name p kids) =
  let url := own_url pk purl k (idf id) in
  node_x b k name url p
    (fun slot => flat_map (fun k' => if opt_eqb str_eqb (pub_class k') (Some slot)
                                     then sel_map (dict_sel cfg kept k k')
                                            (fun c => (lower (e_name c),
                                                       xlate idf cfg b (Some k) url kept c)) kids
                                     else []) PUB_KINDS
                 ++ sel_map (alias_sel cfg slot)
                      (fun c => (lower (e_name c), xlate idf cfg b (Some k) url kept c)) kids)
    (fun slot => sel_map (list_sel cfg kept k slot) (xlate idf cfg b (Some k) url kept) kids).
Proof. destruct k, kids; simpl; intros H; try discriminate; reflexivity. Qed.

(* ================================================================= sizes *)

Lemma jsize_pos j : 1 <= jsize j.
Proof. destruct j; simpl; lia. Qed.

Lemma jsize_in_list x l : In x l -> jsize x < jsize (JList l).
Proof.
  simpl. induction l as [|y l IH]; simpl; [tauto|].
  intros [->|H]; [lia|]. specialize (IH H). lia.
Qed.

Lemma jsize_in_dict k v d : In (k, v) d -> jsize v < jsize (JDict d).
Proof.
  simpl. induction d as [|[k' y] d IH]; simpl; [tauto|].
  intros [E|H]; [injection E as -> ->; lia|]. specialize (IH H). lia.
Qed.

Lemma list_slot_entry k name url p dv lv sl :
  In sl (list_slots k) -> In (sl, JList (lv sl)) (node_entries k name url p dv lv).
Proof.
  intros H. unfold node_entries. apply in_or_app. right. apply in_or_app. right.
  apply in_or_app. right. apply in_or_app. left.
  apply in_map_iff. exists sl. auto.
Qed.
Lemma dict_slot_entry k name url p dv lv sl :
  In sl (dict_slots k) -> In (sl, JDict (dv sl)) (node_entries k name url p dv lv).
Proof.
  intros H. unfold node_entries. apply in_or_app. right. apply in_or_app. right.
  apply in_or_app. left. apply in_map_iff. exists sl. auto.
Qed.

(* ================================================================= lists and dicts of imports *)

Lemma import_items_sel rec sel (f : ent -> json) (g : ent -> xval) kids :
  (forall c, In c kids -> sel c = true -> truthy (f c) = true /\ rec (f c) = Ok (g c)) ->
  import_items rec (sel_map sel f kids) = Ok (sel_map sel g kids).
Proof.
  induction kids as [|c r IH]; intros H; simpl; [reflexivity|].
  destruct (sel c) eqn:S.
  - simpl. destruct (H c (or_introl eq_refl) S) as [T E]. rewrite T, E. simpl.
    rewrite IH; [reflexivity|]. intros c' Hc. apply H. now right.
  - apply IH. intros c' Hc. apply H. now right.
Qed.

Lemma import_pairs_sel rec sel (kf : ent -> str) (f : ent -> json) (g : ent -> xval) kids :
  (forall c, In c kids -> sel c = true -> truthy (f c) = true /\ rec (f c) = Ok (g c)) ->
  import_pairs rec (sel_map sel (fun c => (kf c, f c)) kids) = Ok (sel_map sel (fun c => (kf c, g c)) kids).
Proof.
  induction kids as [|c r IH]; intros H; simpl; [reflexivity|].
  destruct (sel c) eqn:S.
  - simpl. destruct (H c (or_introl eq_refl) S) as [T E]. rewrite T, E. simpl.
    rewrite IH; [reflexivity|]. intros c' Hc. apply H. now right.
  - apply IH. intros c' Hc. apply H. now right.
Qed.

Lemma import_pairs_app rec a b xa xb :
  import_pairs rec a = Ok xa -> import_pairs rec b = Ok xb -> import_pairs rec (a ++ b) = Ok (xa ++ xb).
Proof.
  revert xa. induction a as [|[k x] a IH]; intros xa; simpl.
  - intros [= <-] Hb. exact Hb.
  - destruct (truthy x).
    + destruct (rec x) as [v|e]; simpl; [|discriminate].
      destruct (import_pairs rec a) as [vs|e] eqn:E; simpl; [|discriminate].
      intros [= <-] Hb. rewrite (IH vs eq_refl Hb). reflexivity.
    + intros Ha Hb. now apply IH.
Qed.

Lemma import_pairs_flat {K} rec (F : K -> list (str * json)) (G : K -> list (str * xval)) ks :
  (forall k, In k ks -> import_pairs rec (F k) = Ok (G k)) ->
  import_pairs rec (flat_map F ks) = Ok (flat_map G ks).
Proof.
  induction ks as [|k ks IH]; intros H; simpl; [reflexivity|].
  apply import_pairs_app; [apply H; now left|]. apply IH. intros k' Hk. apply H. now right.
Qed.

Lemma truthy_export idf cfg e : forall pk purl kept, truthy (export_ent idf cfg pk purl kept e) = true.
Proof.
  induction e as [id k name p kids IH] using ent_rect'. intros pk purl kept.
  destruct (is_alias_node k kids) eqn:A.
  - destruct (is_alias_node_cases _ _ A) as (t & r & -> & ->). rewrite export_ent_alias.
    inversion IH; subst. auto.
  - rewrite export_ent_eq by assumption. reflexivity.
Qed.

(* ================================================================= import (export e) *)

Theorem import_export_ent idf cfg b e :
  forall n pk purl kept,
    jsize (export_ent idf cfg pk purl kept e) <= n ->
    import_fuel n b (export_ent idf cfg pk purl kept e) = Ok (xlate idf cfg b pk purl kept e).
Proof.
  induction e as [id k name p kids IH] using ent_rect'.
  intros n pk purl kept Hn.
  destruct (is_alias_node k kids) eqn:AL.
  { destruct (is_alias_node_cases _ _ AL) as (t & r & -> & ->).
    rewrite export_ent_alias in *. rewrite xlate_alias. inversion IH; subst. auto. }
  rewrite export_ent_eq in * by assumption. rewrite xlate_eq by assumption. cbv zeta in *.
  set (url := own_url pk purl k (idf id)) in *.
  match goal with
  | |- context [node_entries k name url p ?dv ?lv] => set (DV := dv) in *; set (LV := lv) in *
  end.
  destruct n as [|n]; [pose proof (jsize_pos (JDict (node_entries k name url p DV LV))); lia|].
  cbn [import_fuel].
  rewrite Forall_forall in IH.
  apply import_node_entries.
  - intros sl Hsl.
    pose proof (jsize_in_dict _ _ _ (dict_slot_entry k name url p DV LV sl Hsl)) as L2.
    unfold DV at 1. unfold DV at 1 in L2.
    apply import_pairs_app.
    + apply import_pairs_flat. intros k' Hk'.
      destruct (opt_eqb str_eqb (pub_class k') (Some sl)) eqn:Ek; [|reflexivity].
      apply import_pairs_sel. intros c Hc Sc. split; [apply truthy_export|].
      apply IH; [exact Hc|].
      match type of L2 with
      | jsize (JDict ?d) < _ =>
        assert (L : jsize (export_ent idf cfg (Some k) url kept c) < jsize (JDict d))
      end.
      { apply (jsize_in_dict (lower (e_name c))). apply in_or_app. left. apply in_flat_map. exists k'. split.
        - exact Hk'.
        - rewrite Ek. apply (sel_map_in (dict_sel cfg kept k k') (fun c0 => (lower (e_name c0), _)) kids c Hc Sc). }
      lia.
    + apply import_pairs_sel. intros c Hc Sc. split; [apply truthy_export|].
      apply IH; [exact Hc|].
      match type of L2 with
      | jsize (JDict ?d) < _ =>
        assert (L : jsize (export_ent idf cfg (Some k) url kept c) < jsize (JDict d))
      end.
      { apply (jsize_in_dict (lower (e_name c))). apply in_or_app. right.
        apply (sel_map_in (alias_sel cfg sl) (fun c0 => (lower (e_name c0), _)) kids c Hc Sc). }
      lia.
  - intros sl Hsl.
    pose proof (jsize_in_dict _ _ _ (list_slot_entry k name url p DV LV sl Hsl)) as L2.
    unfold LV at 1. unfold LV at 1 in L2.
    apply import_items_sel. intros c Hc Sc. split; [apply truthy_export|].
    apply IH; [exact Hc|].
    pose proof (jsize_in_list _ _ (sel_map_in (list_sel cfg kept k sl) (export_ent idf cfg (Some k) url kept) kids c Hc Sc)) as L.
    lia.
Qed.

(* ================================================================= loading what A exported *)

Definition xmods (A : aproject) (b : base) : list xval :=
  map (xlate (ident_of A) (a_cfg A) b None None true) (a_modules A).

Lemma import_all_map idf cfg b mods :
  import_all b (map (export_ent idf cfg None None true) mods)
  = Ok (map (xlate idf cfg b None None true) mods).
Proof.
  induction mods as [|m r IH]; simpl; [reflexivity|].
  unfold import_val. rewrite import_export_ent by lia. simpl. rewrite IH. reflexivity.
Qed.

Theorem load_json_export A b v : load_json b (export A v) = Ok (xmods A b).
Proof. unfold load_json, export, xmods. cbn -[import_all]. apply import_all_map. Qed.

(* the five ways B can be told where A's documentation is, all with a readable description *)
Theorem load_export_local A d v : load (SLocal d (LJson (export A v))) = OLoaded (xmods A (BLocal d)).
Proof. unfold load. rewrite load_json_export. reflexivity. Qed.
Theorem load_export_remote A u v :
  load (SRemote u (RJson (export A v))) = OLoaded (xmods A (BRemote (with_slash u))).
Proof. unfold load. rewrite load_json_export. reflexivity. Qed.

(* ================================================================= attributes of an imported module *)

Lemma module_pub_attr b name url p dx lx w :
  In w PUB_DICTS ->
  assoc_get w (x_attrs (node_x b KModule name url p dx lx)) = Some (XD (dx w)).
Proof.
  intros H. unfold PUB_DICTS in H. simpl in H.
  destruct H as [<-|[<-|[<-|[<-|[]]]]]; reflexivity.
Qed.

Lemma module_pub_all b name url p dx lx :
  forallb (fun w => match assoc_get w (x_attrs (node_x b KModule name url p dx lx)) with
                    | Some (XD _) => true | _ => false end) PUB_DICTS = true.
Proof. reflexivity. Qed.

(* ================================================================= lower *)

Lemma lower_ch_idem c : lower_ch (lower_ch c) = lower_ch c.
Proof. destruct c as [[] [] [] [] [] [] [] []]; reflexivity. Qed.
Lemma lower_idem x : lower (lower x) = lower x.
Proof. unfold lower. rewrite map_map. apply map_ext. intros c. apply lower_ch_idem. Qed.

(* ================================================================= the last match in a dict with distinct keys *)

Definition last_match (n : str) (l : list (str * xval)) : option xval :=
  fold_left (fun acc kv => if str_eqb (lower (fst kv)) (lower n) then Some (snd kv) else acc) l None.

Lemma fold_last_none n (l : list (str * xval)) (acc : option xval) :
  (forall kv, In kv l -> str_eqb (lower (fst kv)) (lower n) = false) ->
  fold_left (fun acc kv => if str_eqb (lower (fst kv)) (lower n) then Some (snd kv) else acc) l acc = acc.
Proof.
  revert acc. induction l as [|kv l IH]; intros acc H; simpl; [reflexivity|].
  rewrite (H kv (or_introl eq_refl)). apply IH. intros kv' Hk. apply H. now right.
Qed.

Lemma last_match_unique n l k v :
  NoDup (map (fun kv => lower (fst kv)) l) -> In (k, v) l -> lower k = lower n ->
  last_match n l = Some v.
Proof.
  unfold last_match. generalize (@None xval) as acc.
  induction l as [|[k' v'] l IH]; intros acc ND Hin E; simpl in *; [tauto|].
  inversion ND as [|? ? Hn ND']; subst.
  destruct Hin as [H|H].
  - injection H as -> ->. rewrite E, str_eqb_refl.
    apply fold_last_none. intros [k2 v2] H2. simpl.
    apply str_eqb_neq. intros E2. apply Hn. rewrite E, <- E2.
    apply (in_map (fun kv => lower (fst kv)) l (k2, v2) H2).
  - apply IH; auto.
Qed.

(* ================================================================= what a USE of B gets *)

Lemma sel_map_filter {X} sel (f : ent -> X) l : sel_map sel f l = map f (filter sel l).
Proof. induction l as [|c r IH]; simpl; [reflexivity|]. destruct (sel c); simpl; now rewrite IH. Qed.

(* what module m makes accessible in table w, in the table's order: its own entities that are accessible
   and documented, then (alias nodes) the names for entities of other modules *)
Definition class_members (cfg : acfg) (m : ent) (w : str) : list ent :=
  flat_map (fun k' => if opt_eqb str_eqb (pub_class k') (Some w)
                      then filter (dict_sel cfg true (e_kind m) k') (e_kids m) else [])
           PUB_KINDS
  ++ filter (alias_sel cfg w) (e_kids m).

(* Fortran: the names accessible in one class of a module are distinct (case-insensitively) *)
Definition names_distinct (cfg : acfg) (m : ent) : Prop :=
  forall w, In w PUB_DICTS -> NoDup (map (fun c => lower (e_name c)) (class_members cfg m w)).

Lemma dict_as_map {X} cfg kept k (f : ent -> X) kids w :
  flat_map (fun k' => if opt_eqb str_eqb (pub_class k') (Some w) then sel_map (dict_sel cfg kept k k') f kids else []) PUB_KINDS
  ++ sel_map (alias_sel cfg w) f kids
  = map f (flat_map (fun k' => if opt_eqb str_eqb (pub_class k') (Some w) then filter (dict_sel cfg kept k k') kids else [])
                    PUB_KINDS ++ filter (alias_sel cfg w) kids).
Proof.
  rewrite map_app, <- sel_map_filter. f_equal.
  induction PUB_KINDS as [|k' ks IH]; simpl; [reflexivity|].
  rewrite map_app, IH. f_equal.
  destruct (opt_eqb str_eqb (pub_class k') (Some w)); [apply sel_map_filter|reflexivity].
Qed.

Lemma pub_class_in k w : pub_class k = Some w -> In w PUB_DICTS /\ In k PUB_KINDS.
Proof. destruct k; simpl; intros [= <-]; split; auto 10. Qed.

Lemma opt_eqb_refl w : opt_eqb str_eqb (Some w) (Some w) = true.
Proof. simpl. apply str_eqb_refl. Qed.

Lemma kind_eqb_refl k : kind_eqb k k = true.
Proof. destruct k; reflexivity. Qed.

Lemma member_in cfg m e w :
  e_kind m = KModule ->
  In e (e_kids m) -> accessible e = true -> shown (c_display cfg) e = true ->
  pub_class (e_kind e) = Some w -> In e (class_members cfg m w).
Proof.
  intros Km Hin Ha Hs Hp. unfold class_members. apply in_or_app. left.
  apply in_flat_map. exists (e_kind e). split.
  - now apply (pub_class_in _ w).
  - rewrite Hp, opt_eqb_refl. apply filter_In. split; [assumption|].
    unfold dict_sel, listed. rewrite Km. simpl. now rewrite kind_eqb_refl, Ha, Hs.
Qed.

Lemma alias_member_in cfg m mid local pa t r w :
  In (Ent mid KAlias local pa (t :: r)) (e_kids m) ->
  accessible (Ent mid KAlias local pa (t :: r)) = true -> shown (c_display cfg) t = true ->
  pub_class (e_kind t) = Some w -> In (Ent mid KAlias local pa (t :: r)) (class_members cfg m w).
Proof.
  intros Hin Ha Hs Hp. unfold class_members. apply in_or_app. right. apply filter_In.
  split; [assumption|]. unfold alias_sel. cbn [alias_target]. now rewrite Hp, opt_eqb_refl, Ha, Hs.
Qed.

Lemma not_alias_of_class e w : pub_class (e_kind e) = Some w -> alias_target e = None.
Proof. destruct e as [id k name p kids]. destruct k; simpl; intros H; try discriminate; reflexivity. Qed.

Lemma x_url_xlate idf cfg b pk purl kept e :
  alias_target e = None ->
  x_url (xlate idf cfg b pk purl kept e)
  = JStr (rebase b (url_rel (own_url pk purl (e_kind e) (idf (e_id e))))).
Proof. destruct e as [id k name p kids]. destruct k, kids; simpl; intros H; try discriminate; reflexivity. Qed.
Lemma x_name_xlate idf cfg b pk purl kept e :
  alias_target e = None -> x_name (xlate idf cfg b pk purl kept e) = JStr (e_name e).
Proof. destruct e as [id k name p kids]. destruct k, kids; simpl; intros H; try discriminate; reflexivity. Qed.

Lemma module_used_all b name url p dx lx n :
  used_all (x_attrs (node_x b KModule name url p dx lx)) n PUB_DICTS = Ok tt.
Proof. reflexivity. Qed.

Lemma module_used_lookup b name url p dx lx w n :
  In w PUB_DICTS ->
  used_lookup (node_x b KModule name url p dx lx) w n = Ok (assoc_get (lower n) (dx w)).
Proof.
  intros Hw. unfold used_lookup. rewrite module_used_all. cbn [bind].
  rewrite (module_pub_attr _ _ _ _ _ _ w Hw). reflexivity.
Qed.

Lemma assoc_get_map_in {X} (key : X -> str) (g : X -> xval) l c :
  NoDup (map key l) -> In c l -> assoc_get (key c) (map (fun x => (key x, g x)) l) = Some (g c).
Proof.
  induction l as [|x l IH]; intros ND Hin; [destruct Hin|].
  simpl in ND. inversion ND as [|? ? Hn ND']; subst. simpl.
  destruct Hin as [->|Hin]; [now rewrite str_eqb_refl|].
  destruct (str_eqb (key c) (key x)) eqn:E.
  - exfalso. apply Hn. apply str_eqb_eq in E. rewrite <- E. now apply in_map.
  - now apply IH.
Qed.

Lemma assoc_get_map_none {X} (key : X -> str) (g : X -> xval) l k :
  (forall x, In x l -> key x <> k) -> assoc_get k (map (fun x => (key x, g x)) l) = None.
Proof.
  induction l as [|x l IH]; intros H; simpl; [reflexivity|].
  destruct (str_eqb k (key x)) eqn:E.
  - apply str_eqb_eq in E. exfalso. apply (H x); [now left|auto].
  - apply IH. intros y Hy. apply H. now right.
Qed.

(* whatever module m makes accessible under the (lower-cased) name of member c of table w is what B's
   USE gets for that name: the object of c (for an alias node: of the entity behind it) *)
Theorem used_lookup_member idf cfg b id name p kids c w :
  let m := Ent id KModule name p kids in
  names_distinct cfg m -> In w PUB_DICTS -> In c (class_members cfg m w) ->
  used_lookup (xlate idf cfg b None None true m) w (e_name c)
  = Ok (Some (xlate idf cfg b (Some KModule) (own_url None None KModule (idf id)) true c)).
Proof.
  intros m ND Hw Hc. unfold m. rewrite xlate_eq by reflexivity. cbv zeta.
  rewrite (module_used_lookup _ _ _ _ _ _ w _ Hw). f_equal.
  rewrite dict_as_map.
  apply (assoc_get_map_in (fun c => lower (e_name c))
           (fun c => xlate idf cfg b (Some KModule) (own_url None None KModule (idf id)) true c)).
  - apply (ND w Hw).
  - exact Hc.
Qed.

Theorem used_lookup_roundtrip idf cfg b id name p kids e w :
  let m := Ent id KModule name p kids in
  names_distinct cfg m ->
  In e kids -> accessible e = true -> shown (c_display cfg) e = true -> pub_class (e_kind e) = Some w ->
  used_lookup (xlate idf cfg b None None true m) w (e_name e)
  = Ok (Some (xlate idf cfg b (Some KModule) (own_url None None KModule (idf id)) true e)).
Proof.
  intros m ND Hin Ha Hs Hp. destruct (pub_class_in _ _ Hp) as [Hw _].
  apply used_lookup_member; auto. apply (member_in cfg m); auto.
Qed.

(* a re-exported name: B's USE of the local name gets the entity behind it, as its defining module
   (id mid) exports it *)
Theorem used_lookup_alias idf cfg b id name p kids mid local pa t r w :
  let m := Ent id KModule name p kids in
  let a := Ent mid KAlias local pa (t :: r) in
  names_distinct cfg m ->
  In a kids -> accessible a = true -> shown (c_display cfg) t = true -> pub_class (e_kind t) = Some w ->
  used_lookup (xlate idf cfg b None None true m) w local
  = Ok (Some (xlate idf cfg b (Some KModule) (own_url None None KModule (idf mid)) true t)).
Proof.
  intros m a ND Hin Ha Hs Hp. destruct (pub_class_in _ _ Hp) as [Hw _].
  exact (used_lookup_member idf cfg b id name p kids a w ND Hw
           (alias_member_in cfg m mid local pa t r w Hin Ha Hs Hp)).
Qed.

(* a name that no documented accessible entity (own or re-exported) of the table carries: B gets no
   object (and so no link) for it *)
Theorem used_lookup_undisplayed idf cfg b id name p kids w n :
  let m := Ent id KModule name p kids in
  (forall c, In c (class_members cfg m w) -> lower (e_name c) <> lower n) ->
  In w PUB_DICTS ->
  used_lookup (xlate idf cfg b None None true m) w n = Ok None.
Proof.
  intros m H Hw. unfold m. rewrite xlate_eq by reflexivity. cbv zeta.
  rewrite (module_used_lookup _ _ _ _ _ _ w _ Hw). f_equal.
  rewrite dict_as_map. now apply assoc_get_map_none.
Qed.

(* ================================================================= re-basing A's relative URLs *)

(* one path segment: no '/', not empty, not "." *)
Definition seg_ok (x : str) : bool := no_slash x && negb (str_eqb x []) && negb (str_eqb x dot).

Lemma split_on_noslash x : forall cur, no_slash x = true -> split_on slash x cur = [rev cur ++ x].
Proof.
  induction x as [|c x IH]; intros cur H; simpl.
  - now rewrite app_nil_r.
  - simpl in H. apply andb_true_iff in H as [Hc Hx].
    destruct (ch_eqb c slash); [discriminate|].
    rewrite IH by assumption. simpl. now rewrite <- app_assoc.
Qed.

Lemma split_on_app a b : forall cur, no_slash a = true ->
  split_on slash (a ++ slash :: b) cur = (rev cur ++ a) :: split_on slash b [].
Proof.
  induction a as [|c a IH]; intros cur H; simpl.
  - unfold ch_eqb, slash. simpl. now rewrite app_nil_r.
  - simpl in H. apply andb_true_iff in H as [Hc Ha].
    destruct (ch_eqb c slash); [discriminate|].
    rewrite IH by assumption. simpl. now rewrite <- app_assoc.
Qed.

Lemma seg_ok_parts x : seg_ok x = true ->
  no_slash x = true /\ str_eqb x [] = false /\ str_eqb x dot = false.
Proof.
  unfold seg_ok. intros H. apply andb_true_iff in H as [H H3]. apply andb_true_iff in H as [H1 H2].
  apply negb_true_iff in H2, H3. auto.
Qed.

Lemma seg_not_slash_start d r : seg_ok d = true -> starts_with slash_s (d ++ r) = false.
Proof.
  intros H. destruct (seg_ok_parts _ H) as (N & E & _).
  destruct d as [|c d]; [discriminate|]. simpl in N. apply andb_true_iff in N as [Nc _].
  unfold slash_s. change (s "/") with ["/"%char]. cbn [app starts_with].
  unfold ch_eqb, slash in Nc. rewrite Ascii.eqb_sym.
  destruct (Ascii.eqb c "/"); [discriminate|reflexivity].
Qed.

Theorem path_join_two base d f :
  seg_ok d = true -> seg_ok f = true ->
  path_join base (d ++ s "/" ++ f) = base ++ s "/" ++ d ++ s "/" ++ f.
Proof.
  intros Hd Hf. unfold path_join.
  rewrite seg_not_slash_start by assumption.
  destruct (seg_ok_parts _ Hd) as (Nd & Ed & Dd). destruct (seg_ok_parts _ Hf) as (Nf & Ef & Df).
  unfold path_comps, split_path.
  change (d ++ s "/" ++ f) with (d ++ slash :: f).
  rewrite split_on_app by assumption. rewrite split_on_noslash by assumption. simpl.
  rewrite Ed, Dd, Ef, Df. simpl. reflexivity.
Qed.

Lemma dir_part_slash u : dir_part (u ++ s "/") = u ++ s "/".
Proof. unfold dir_part. rewrite rev_app_distr. simpl. rewrite rev_involutive. reflexivity. Qed.

Theorem url_join_two u d r :
  has_path (u ++ s "/") = true -> seg_ok d = true ->
  url_join (u ++ s "/") (d ++ r) = (u ++ s "/") ++ d ++ r.
Proof.
  intros Hp Hd. unfold url_join. rewrite seg_not_slash_start by assumption.
  rewrite Hp, dir_part_slash. reflexivity.
Qed.

(* ---- the shape of A's URLs ---- *)

Lemma quote_ch_noslash c : ch_eqb c slash = false -> no_slash (quote_ch c) = true.
Proof. destruct c as [[] [] [] [] [] [] [] []]; intros H; try reflexivity; discriminate H. Qed.

Lemma no_slash_app a b : no_slash (a ++ b) = no_slash a && no_slash b.
Proof. unfold no_slash. apply forallb_app. Qed.

Lemma quote_noslash x : no_slash x = true -> no_slash (quote x) = true.
Proof.
  induction x as [|c x IH]; simpl; [reflexivity|].
  intros H. apply andb_true_iff in H as [Hc Hx].
  unfold quote. simpl. fold (quote x). rewrite no_slash_app, IH by assumption.
  rewrite quote_ch_noslash; [reflexivity|]. now apply negb_true_iff.
Qed.

Lemma strip_frag_noslash x : no_slash x = true -> no_slash (strip_frag x) = true.
Proof.
  induction x as [|c x IH]; simpl; [reflexivity|]. intros H. apply andb_true_iff in H as [Hc Hx].
  destruct (ch_eqb c "#"); [reflexivity|]. simpl. now rewrite Hc, IH.
Qed.

Lemma str_eqb_len a b : length a <> length b -> str_eqb a b = false.
Proof. intros H. apply str_eqb_neq. intros ->. now apply H. Qed.

Lemma seg_ok_long x : no_slash x = true -> 2 <= length x -> seg_ok x = true.
Proof.
  intros N L. unfold seg_ok. rewrite N. simpl.
  rewrite !str_eqb_len; [reflexivity| |]; simpl; lia.
Qed.

Lemma seg_ok_page idn r :
  no_slash idn = true -> no_slash r = true -> seg_ok (idn ++ s ".html" ++ r) = true.
Proof.
  intros N R. apply seg_ok_long.
  - rewrite !no_slash_app, N, R. reflexivity.
  - rewrite !app_length. simpl. lia.
Qed.

Definition page_dir (x : str) : Prop :=
  x = s "module" \/ x = s "proc" \/ x = s "interface" \/ x = s "type".

Lemma page_dir_ok d : page_dir d -> seg_ok d = true /\ strip_frag d = d.
Proof. intros [E|[E|[E|E]]]; subst d; split; reflexivity. Qed.

Lemma dir_of_page pk k d : dir_of pk k = Some d -> page_dir d.
Proof.
  unfold page_dir. destruct k; destruct pk as [[]|]; simpl; intros [= <-]; auto.
Qed.

Lemma strip_frag_app_nohash a b : strip_frag a = a -> strip_frag (a ++ b) = a ++ strip_frag b.
Proof.
  induction a as [|c a IH]; simpl; [reflexivity|].
  destruct (ch_eqb c "#"); [discriminate|]. intros [= E]. now rewrite IH.
Qed.

Lemma obj_noslash k : no_slash (obj_str k) = true.
Proof. destruct k; reflexivity. Qed.

(* every URL A gives an entity of a module (depth 1) is  <page dir>/<one segment> *)
Lemma kid_url_shape idf m e u :
  e_kind m = KModule ->
  no_slash (idf (e_id m)) = true -> no_slash (idf (e_id e)) = true ->
  kid_url idf m e = Some u ->
  exists d f, u = d ++ s "/" ++ f /\ seg_ok d = true /\ seg_ok f = true /\ page_dir d.
Proof.
  intros Hm Nm Ne. unfold kid_url. rewrite Hm.
  unfold own_url at 1.
  destruct (dir_of (Some KModule) (e_kind e)) as [d|] eqn:Ed.
  - intros [= <-]. exists d, (idf (e_id e) ++ s ".html"). pose proof (dir_of_page _ _ _ Ed) as P.
    repeat split; auto.
    + now apply page_dir_ok.
    + rewrite <- (app_nil_r (s ".html")). now apply seg_ok_page.
  - destruct (anchored (e_kind e)); [|discriminate].
    simpl. intros [= <-].
    exists (s "module"), (strip_frag (idf (e_id m) ++ s ".html") ++ s "#" ++ obj_str (e_kind e) ++ s "-" ++ quote (idf (e_id e))).
    split; [|split; [reflexivity|split; [|left; reflexivity]]].
    + reflexivity.
    + apply seg_ok_long.
      * rewrite !no_slash_app, strip_frag_noslash, obj_noslash, quote_noslash; auto.
        rewrite no_slash_app, Nm. reflexivity.
      * rewrite !app_length. simpl. lia.
Qed.

(* the base B was given: a directory, or a URL with a path that ends in "/" *)
Definition base_ok (b : base) : Prop :=
  match b with
  | BLocal _ => True
  | BRemote u => exists u0, u = u0 ++ s "/" /\ has_path u = true
  end.

Theorem rebase_kid_url idf b m e u :
  base_ok b -> e_kind m = KModule ->
  no_slash (idf (e_id m)) = true -> no_slash (idf (e_id e)) = true ->
  kid_url idf m e = Some u ->
  rebase b u = spec_join b u.
Proof.
  intros Hb Hm Nm Ne Hu.
  destruct (kid_url_shape _ _ _ _ Hm Nm Ne Hu) as (d & f & -> & Sd & Sf & _).
  destruct b as [dir|url]; simpl.
  - now apply path_join_two.
  - destruct Hb as (u0 & -> & Hp). now apply url_join_two.
Qed.

Theorem rebase_module_url idf b m u :
  base_ok b -> e_kind m = KModule -> no_slash (idf (e_id m)) = true ->
  module_url idf m = Some u -> rebase b u = spec_join b u.
Proof.
  intros Hb Hm Nm. unfold module_url. rewrite Hm.
  change (own_url None None KModule (idf (e_id m)))
    with (Some (s "module" ++ s "/" ++ idf (e_id m) ++ s ".html")).
  intros [= <-].
  assert (Sf : seg_ok (idf (e_id m) ++ s ".html") = true).
  { rewrite <- (app_nil_r (s ".html")). now apply seg_ok_page. }
  destruct b as [dir|url]; unfold rebase, spec_join.
  - exact (path_join_two dir (s "module") (idf (e_id m) ++ s ".html") eq_refl Sf).
  - destruct Hb as (u0 & -> & Hp).
    exact (url_join_two u0 (s "module") (s "/" ++ idf (e_id m) ++ s ".html") Hp eq_refl).
Qed.

(* ================================================================= the project lists of B *)

Definition objs_pairs : list (str * xval) -> list xval :=
  fix go (l : list (str * xval)) : list xval :=
    match l with [] => [] | (_, a) :: r => objs_of a ++ go r end.
Definition objs_list : list xval -> list xval :=
  fix go (l : list xval) : list xval :=
    match l with [] => [] | a :: r => objs_of a ++ go r end.

Lemma objs_of_XO c n u attrs : objs_of (XO c n u attrs) = XO c n u attrs :: objs_pairs attrs.
Proof. reflexivity. Qed.
Lemma objs_of_XL l : objs_of (XL l) = objs_list l.
Proof. reflexivity. Qed.
Lemma objs_of_XD l : objs_of (XD l) = objs_pairs l.
Proof. reflexivity. Qed.

Lemma in_objs_pairs o l : In o (objs_pairs l) -> exists k a, In (k, a) l /\ In o (objs_of a).
Proof.
  induction l as [|[k a] l IH]; simpl; [tauto|].
  intros H. apply in_app_or in H as [H|H].
  - exists k, a. auto.
  - destruct (IH H) as (k' & a' & A & B). exists k', a'. auto.
Qed.
Lemma in_objs_list o l : In o (objs_list l) -> exists a, In a l /\ In o (objs_of a).
Proof.
  induction l as [|a l IH]; simpl; [tauto|].
  intros H. apply in_app_or in H as [H|H].
  - exists a. auto.
  - destruct (IH H) as (a' & A & B). exists a'. auto.
Qed.

Lemma assoc_get_in {V} k (l : list (str * V)) v : assoc_get k l = Some v -> In (k, v) l.
Proof.
  induction l as [|[k' v'] l IH]; simpl; [discriminate|].
  destruct (str_eqb k k') eqn:E.
  - intros [= ->]. apply str_eqb_eq in E. subst. now left.
  - intros H. right. auto.
Qed.

Lemma in_canon_attrs c set k v :
  In (k, v) (canon_attrs c set) -> In (k, v) set \/ In (k, v) (defaults c).
Proof.
  unfold canon_attrs. intros H. apply in_flat_map in H as (key & _ & H).
  destruct (assoc_get key set) as [v1|] eqn:E1.
  - destruct H as [[= <- <-]|[]]. left. now apply assoc_get_in.
  - destruct (assoc_get key (defaults c)) as [v2|] eqn:E2; [|destruct H].
    destruct H as [[= <- <-]|[]]. right. now apply assoc_get_in.
Qed.

Lemma defaults_no_objs c k v o : In (k, v) (defaults c) -> In o (objs_of v) -> False.
Proof.
  destruct c; simpl; intros H; repeat (destruct H as [[= <- <-]|H]; [simpl; tauto|]); destruct H.
Qed.

(* no module inside a module (Fortran has none) *)
Fixpoint no_module_below (e : ent) : bool :=
  match e with
  | Ent _ _ _ _ kids =>
    (fix go (l : list ent) : bool :=
       match l with
       | [] => true
       | c :: r => negb (kind_eqb (e_kind c) KModule) && no_module_below c && go r
       end) kids
  end.

Lemma no_module_below_kids id k name p kids c :
  no_module_below (Ent id k name p kids) = true -> In c kids ->
  e_kind c <> KModule /\ no_module_below c = true.
Proof.
  simpl. induction kids as [|x r IH]; [intros _ []|].
  intros H [->|Hc].
  - apply andb_true_iff in H as [H _]. apply andb_true_iff in H as [H1 H2]. split; [|exact H2].
    intros E. rewrite E in H1. discriminate.
  - apply andb_true_iff in H as [_ H]. now apply IH.
Qed.

Lemma cls_of_module k : cls_of k = XModule -> k = KModule.
Proof. destruct k; simpl; intros H; try discriminate; reflexivity. Qed.

Definition not_module_obj (o : xval) : Prop := x_cls o <> Some XModule.

Lemma objs_of_xlate_head idf cfg b pk purl kept e :
  exists rest, objs_of (xlate idf cfg b pk purl kept e) = xlate idf cfg b pk purl kept e :: rest
               /\ (no_module_below e = true -> Forall not_module_obj rest)
               /\ (e_kind e = KModule -> x_cls (xlate idf cfg b pk purl kept e) = Some XModule)
               /\ (no_module_below e = true -> e_kind e <> KModule ->
                   not_module_obj (xlate idf cfg b pk purl kept e)).
Proof.
  revert pk purl kept. induction e as [id k name p kids IH] using ent_rect'. intros pk purl kept.
  destruct (is_alias_node k kids) eqn:AL.
  { destruct (is_alias_node_cases _ _ AL) as (t & r & -> & ->). rewrite xlate_alias.
    inversion IH as [|? ? IHt _]; subst.
    destruct (IHt (Some KModule) (own_url None None KModule (idf id)) true) as (rest & E & F & _ & C4).
    exists rest. split; [exact E|]. split; [|split].
    - intros NM. destruct (no_module_below_kids _ _ _ _ _ t NM (or_introl eq_refl)) as [_ NMt]. auto.
    - simpl. discriminate.
    - intros NM _. destruct (no_module_below_kids _ _ _ _ _ t NM (or_introl eq_refl)) as [Kt NMt]. auto. }
  rewrite xlate_eq by assumption. cbv zeta. set (url := own_url pk purl k (idf id)).
  match goal with
  | |- context [node_x b k name url p ?dx ?lx] => set (DX := dx) in *; set (LX := lx) in *
  end.
  unfold node_x. rewrite objs_of_XO. eexists. split; [reflexivity|]. split; [|split].
  2: { simpl. intros ->. reflexivity. }
  2: { intros _ Kk. unfold not_module_obj. simpl. intros [= X]. now apply cls_of_module in X. }
  intros NM. apply Forall_forall. intros o Ho.
  apply in_objs_pairs in Ho as (key & a & Hka & Ho).
  apply in_canon_attrs in Hka as [Hka|Hka]; [|exfalso; eapply defaults_no_objs; eauto].
  rewrite Forall_forall in IH.
  assert (KID : forall c kept', In c kids -> In o (objs_of (xlate idf cfg b (Some k) url kept' c)) -> not_module_obj o).
  { intros c kept' Hc Hoc. destruct (no_module_below_kids _ _ _ _ _ c NM Hc) as [Kc NMc].
    destruct (IH c Hc (Some k) url kept') as (rest & E & F & _ & C4). rewrite E in Hoc.
    destruct Hoc as [<-|Hoc].
    - now apply C4.
    - specialize (F NMc). rewrite Forall_forall in F. now apply F. }
  apply in_app_or in Hka as [Hka|Hka].
  { destruct (proctype_str k); [|destruct Hka]. destruct (xcls_eqb (cls_of k) XInterface); [|destruct Hka].
    destruct Hka as [[= <- <-]|[]]. destruct Ho. }
  apply in_app_or in Hka as [Hka|Hka].
  { apply in_map_iff in Hka as (sl & [= <- <-] & _). rewrite objs_of_XD in Ho.
    apply in_objs_pairs in Ho as (k2 & a2 & Hin & Ho). unfold DX in Hin.
    apply in_app_or in Hin as [Hin|Hin].
    - apply in_flat_map in Hin as (k' & _ & Hin).
      destruct (opt_eqb str_eqb (pub_class k') (Some sl)); [|destruct Hin].
      apply sel_map_in_inv in Hin as (c & Hc & _ & [= -> ->]). eapply KID; eauto.
    - apply sel_map_in_inv in Hin as (c & Hc & _ & [= -> ->]). eapply KID; eauto. }
  apply in_app_or in Hka as [Hka|Hka].
  { apply in_map_iff in Hka as (sl & [= <- <-] & _). rewrite objs_of_XL in Ho.
    apply in_objs_list in Ho as (a2 & Hin & Ho). unfold LX in Hin.
    apply sel_map_in_inv in Hin as (c & Hc & _ & ->). eapply KID; eauto. }
  destruct Hka as [[= <- <-]|[]]. destruct Ho.
Qed.

Definition is_module_obj (o : xval) : bool :=
  match x_cls o with Some c => plist_eqb (project_list c) PLModules | None => false end.

Lemma not_module_filter rest :
  Forall not_module_obj rest -> filter is_module_obj rest = [].
Proof.
  induction 1 as [|o r H _ IH]; simpl; [reflexivity|]. rewrite IH.
  unfold is_module_obj, not_module_obj in *. destruct (x_cls o) as [[]|]; simpl; try reflexivity.
  now contradiction H.
Qed.

(* the ext-module list of B is exactly the list of A's modules *)
Theorem ext_modules_are_modules A b :
  Forall (fun m => e_kind m = KModule /\ no_module_below m = true) (a_modules A) ->
  ext_list (xmods A b) PLModules = xmods A b.
Proof.
  unfold ext_list, xmods. fold is_module_obj.
  induction (a_modules A) as [|m r IH]; intros W; simpl; [reflexivity|].
  inversion W as [|? ? [Km NM] W']; subst.
  destruct (objs_of_xlate_head (ident_of A) (a_cfg A) b None None true m) as (rest & E & F & C & _).
  rewrite E. simpl. rewrite filter_app.
  change (filter _ (flat_map objs_of ?l)) with (filter is_module_obj (flat_map objs_of l)).
  rewrite (IH W'), (not_module_filter _ (F NM)).
  unfold is_module_obj at 1. rewrite (C Km). reflexivity.
Qed.

(* ================================================================= USE resolution *)

Lemma xlate_shape idf cfg b pk purl kept e :
  alias_target e = None ->
  exists attrs, xlate idf cfg b pk purl kept e
                = XO (cls_of (e_kind e)) (JStr (e_name e))
                     (JStr (rebase b (url_rel (own_url pk purl (e_kind e) (idf (e_id e)))))) attrs.
Proof.
  destruct e as [id k name p kids]. destruct k, kids; simpl; intros H; try discriminate;
    eexists; reflexivity.
Qed.

Lemma find_first_local_hit n c locals rest : forall i,
  lower_in n locals = true ->
  exists j, find_first n (number_from c i locals ++ rest) = Ok (Some (HLocal c j))
            /\ i <= j < i + length locals
            /\ (exists x, nth_error locals (j - i) = Some x /\ lower n = lower x).
Proof.
  induction locals as [|x l IH]; intros i H; simpl in *; [discriminate|].
  destruct (str_eqb (lower n) (lower x)) eqn:E.
  - exists i. split; [reflexivity|]. split; [lia|]. exists x. rewrite Nat.sub_diag. split; [reflexivity|].
    now apply str_eqb_eq.
  - simpl in H. destruct (IH (S i) H) as (j & F & R & x' & N & L).
    exists j. split; [exact F|]. split; [lia|]. exists x'. split; [|exact L].
    replace (j - i) with (S (j - S i)) by lia. exact N.
Qed.

Lemma find_first_local_miss n c locals rest : forall i,
  lower_in n locals = false ->
  find_first n (number_from c i locals ++ rest) = find_first n rest.
Proof.
  induction locals as [|x l IH]; intros i H; simpl in *; [reflexivity|].
  apply orb_false_iff in H as [H1 H2]. rewrite H1. now apply IH.
Qed.

Lemma module_not_alias m : e_kind m = KModule -> alias_target m = None.
Proof. destruct m as [id k name p kids]. simpl. intros ->. reflexivity. Qed.

Lemma find_first_xlate idf cfg b mods m :
  Forall (fun x => e_kind x = KModule) mods ->
  NoDup (map (fun e => lower (e_name e)) mods) -> In m mods ->
  find_first (e_name m) (map IExt (map (xlate idf cfg b None None true) mods))
  = Ok (Some (HExt (xlate idf cfg b None None true m))).
Proof.
  induction mods as [|x r IH]; intros KM ND Hin; [destruct Hin|].
  inversion ND as [|? ? Hn ND']; subst. inversion KM as [|? ? Kx KM']; subst. simpl.
  destruct (xlate_shape idf cfg b None None true x (module_not_alias x Kx)) as (attrs & E).
  destruct Hin as [->|Hin].
  - rewrite E. cbn [find_first]. rewrite str_eqb_refl. reflexivity.
  - rewrite E. cbn [find_first].
    destruct (str_eqb (lower (e_name m)) (lower (e_name x))) eqn:Q.
    + exfalso. apply Hn. apply str_eqb_eq in Q. rewrite <- Q.
      apply (in_map (fun e => lower (e_name e)) r m Hin).
    + now apply IH.
Qed.

(* A as Fortran allows it: units of A's module list are modules, contain no modules, have distinct
   names, and the accessible names of each class in a module are distinct *)
Record wf_A (A : aproject) : Prop := {
  wf_kinds : Forall (fun m => e_kind m = KModule /\ no_module_below m = true) (a_modules A);
  wf_modnames : NoDup (map (fun m => lower (e_name m)) (a_modules A));
  wf_names : Forall (names_distinct (a_cfg A)) (a_modules A)
}.

Theorem use_module_roundtrip A b locals m :
  wf_A A -> In m (a_modules A) -> lower_in (e_name m) locals = false ->
  find_used_module locals (xmods A b) (e_name m)
  = Ok (Some (HExt (xlate (ident_of A) (a_cfg A) b None None true m))).
Proof.
  intros W Hin Hl. unfold find_used_module.
  rewrite find_first_local_miss by assumption.
  rewrite ext_modules_are_modules by apply W.
  apply find_first_xlate; [|apply W|assumption].
  eapply Forall_impl; [|apply (wf_kinds A W)]. intros x [Kx _]. exact Kx.
Qed.

(* B's own module wins *)
Theorem use_local_first locals tops n :
  lower_in n locals = true ->
  exists j x, find_used_module locals tops n = Ok (Some (HLocal CModules j))
              /\ nth_error locals j = Some x /\ lower n = lower x.
Proof.
  intros H. unfold find_used_module.
  destruct (find_first_local_hit n CModules locals (map IExt (ext_list tops PLModules)) 0 H)
    as (j & F & _ & x & N & L).
  exists j, x. rewrite Nat.sub_0_r in N. auto.
Qed.

(* ================================================================= the pages A writes *)

Definition no_hash (x : str) : bool := forallb (fun c => negb (ch_eqb c "#")) x.

Lemma strip_frag_id x : no_hash x = true -> strip_frag x = x.
Proof.
  induction x as [|c x IH]; simpl; [reflexivity|]. intros H. apply andb_true_iff in H as [Hc Hx].
  apply negb_true_iff in Hc. rewrite Hc. now rewrite IH.
Qed.
Lemma no_hash_app a b : no_hash (a ++ b) = no_hash a && no_hash b.
Proof. unfold no_hash. apply forallb_app. Qed.
Lemma strip_frag_cut a b : no_hash a = true -> strip_frag (a ++ "#"%char :: b) = a.
Proof.
  induction a as [|c a IH]; simpl; [reflexivity|]. intros H. apply andb_true_iff in H as [Hc Ha].
  apply negb_true_iff in Hc. rewrite Hc. now rewrite IH.
Qed.

Definition pages_kids (idf : nat -> str) (cfg : acfg) (kept : bool) (k : kind) : list ent -> list str :=
  fix go (l : list ent) : list str :=
    match l with
    | [] => []
    | c :: r => if listed cfg kept k c then pages_of idf cfg (Some k) kept c ++ go r else go r
    end.

Lemma pages_of_eq idf cfg pk kept id k name p kids :
  pages_of idf cfg pk kept (Ent id k name p kids)
  = match dir_of pk k with Some d => [d ++ s "/" ++ idf id ++ s ".html"] | None => [] end
    ++ pages_kids idf cfg kept k kids.
Proof. reflexivity. Qed.

Lemma pages_kids_in idf cfg kept k kids c x :
  In c kids -> listed cfg kept k c = true -> In x (pages_of idf cfg (Some k) kept c) ->
  In x (pages_kids idf cfg kept k kids).
Proof.
  induction kids as [|y r IH]; simpl; [tauto|].
  intros [->|Hc] L Hx.
  - rewrite L. apply in_or_app. now left.
  - destruct (listed cfg kept k y); [apply in_or_app; right|]; auto.
Qed.

Lemma page_head idf cfg pk kept e d :
  dir_of pk (e_kind e) = Some d ->
  In (d ++ s "/" ++ idf (e_id e) ++ s ".html") (pages_of idf cfg pk kept e).
Proof. destruct e as [id k name p kids]. simpl e_kind. simpl e_id. intros E. rewrite pages_of_eq, E. now left. Qed.

Lemma page_dir_nohash d : page_dir d -> no_hash d = true.
Proof. intros [E|[E|[E|E]]]; subst d; reflexivity. Qed.

(* an entity of a module that A displays: the page B is sent to is one A wrote *)
Theorem target_written A m e u :
  In m (a_modules A) -> e_kind m = KModule -> In e (e_kids m) ->
  shown (c_display (a_cfg A)) e = true ->
  no_hash (ident_of A (e_id m)) = true -> no_hash (ident_of A (e_id e)) = true ->
  kid_url (ident_of A) m e = Some u ->
  In (page_of u) (pages_written A).
Proof.
  intros Hm Km He Sh Nm Ne Hu.
  unfold pages_written. apply in_flat_map. exists m. split; [assumption|].
  destruct m as [idm km namem pm kidsm]. simpl in Km, He, Nm. subst km.
  unfold kid_url in Hu. simpl e_kind in Hu. simpl e_id in Hu.
  change (own_url None None KModule (ident_of A idm))
    with (Some (s "module" ++ s "/" ++ ident_of A idm ++ s ".html")) in Hu.
  rewrite pages_of_eq. unfold own_url in Hu.
  destruct (dir_of (Some KModule) (e_kind e)) as [d|] eqn:Ed.
  - injection Hu as <-. apply in_or_app. right.
    apply (pages_kids_in _ _ _ _ _ e); [assumption| |].
    + unfold listed. simpl. exact Sh.
    + unfold page_of. rewrite strip_frag_id.
      * now apply page_head.
      * pose proof (page_dir_nohash _ (dir_of_page _ _ _ Ed)) as Nd.
        rewrite no_hash_app, Nd. cbn [no_hash forallb andb negb ch_eqb Ascii.eqb Bool.eqb].
        change (forallb (fun c => negb (ch_eqb c "#")) ?x) with (no_hash x).
        rewrite no_hash_app, Ne. reflexivity.
  - destruct (anchored (e_kind e)); [|discriminate]. injection Hu as <-.
    apply in_or_app. left. simpl dir_of. cbn iota. left.
    set (P := s "module" ++ s "/" ++ ident_of A idm ++ s ".html").
    assert (NP : no_hash P = true).
    { unfold P. change (s "module" ++ s "/" ++ ident_of A idm ++ s ".html")
        with ((s "module" ++ s "/") ++ ident_of A idm ++ s ".html").
      rewrite !no_hash_app, Nm. reflexivity. }
    change (P = strip_frag (strip_frag P ++ "#"%char
                              :: (obj_str (e_kind e) ++ s "-" ++ quote (ident_of A (e_id e))))).
    rewrite (strip_frag_id _ NP). symmetry. now apply strip_frag_cut.
Qed.

(* ================================================================= each page has one owner *)

Definition req_of (pk : option kind) (e : ent) : req :=
  {| r_id := e_id e; r_dir := match dir_of pk (e_kind e) with Some d => d | None => s "None" end;
     r_name := e_name e |}.

Definition reqs_kids (k : kind) : list ent -> list req :=
  fix go (l : list ent) : list req :=
    match l with [] => [] | c :: r => tree_reqs (Some k) c ++ go r end.

Lemma tree_reqs_eq pk id k name p kids :
  is_alias_node k kids = false ->
  tree_reqs pk (Ent id k name p kids) = req_of pk (Ent id k name p kids) :: reqs_kids k kids.
Proof. destruct k, kids; simpl; intros H; try discriminate; reflexivity. Qed.

Lemma alias_target_node id k name p kids :
  alias_target (Ent id k name p kids) = None -> is_alias_node k kids = false.
Proof. destruct k, kids; simpl; intros H; try discriminate; reflexivity. Qed.

Lemma tree_reqs_head pk e : alias_target e = None -> exists rest, tree_reqs pk e = req_of pk e :: rest.
Proof.
  destruct e as [id k name p kids]. intros H. eexists. apply tree_reqs_eq.
  now apply (alias_target_node id k name p kids).
Qed.

Lemma kid_req_in pk m e :
  alias_target m = None -> alias_target e = None ->
  In e (e_kids m) -> In (req_of (Some (e_kind m)) e) (tree_reqs pk m).
Proof.
  destruct m as [id k name p kids]. simpl e_kids. simpl e_kind. intros Am Ae H.
  rewrite tree_reqs_eq by now apply (alias_target_node id k name p kids). right. clear Am.
  induction kids as [|c r IH]; [destruct H|]. simpl.
  apply in_or_app. destruct H as [->|H].
  - left. destruct (tree_reqs_head (Some k) e Ae) as (rest & ->). now left.
  - right. now apply IH.
Qed.

Lemma kid_req_all A m e :
  alias_target m = None -> alias_target e = None ->
  In m (a_modules A) -> In e (e_kids m) -> In (req_of (Some (e_kind m)) e) (all_reqs A).
Proof.
  intros Am Ae Hm He. unfold all_reqs. apply in_or_app. right. apply in_flat_map.
  exists m. split; [assumption|]. now apply kid_req_in.
Qed.

Lemma run_idents_length rs : length (run_idents rs) = length rs.
Proof.
  unfold run_idents. destruct (run_spec rs init [] inv_init) as (_ & _ & _ & L & _).
  - intros it [].
  - exact L.
Qed.

Lemma lookup_ident_nth id : forall rs ns,
  length rs = length ns -> In id (map r_id rs) ->
  exists i r, nth_error rs i = Some r /\ r_id r = id /\
              nth_error ns i = Some (lookup_ident id (combine (map r_id rs) ns)).
Proof.
  induction rs as [|r rs IH]; intros [|n ns] L H; simpl in *; try tauto; try discriminate.
  destruct (Nat.eqb (r_id r) id) eqn:E.
  - exists 0, r. apply Nat.eqb_eq in E. auto.
  - destruct H as [H|H]; [apply Nat.eqb_neq in E; contradiction|].
    destruct (IH ns ltac:(lia) H) as (i & r' & A1 & A2 & A3).
    exists (S i), r'. auto.
Qed.

(* the ident of an entity that made a request, and the position of that request *)
Lemma ident_of_request A r :
  consistent (all_reqs A) -> In r (all_reqs A) ->
  exists i, nth_error (all_reqs A) i = Some r /\
            nth_error (run_idents (all_reqs A)) i = Some (ident_of A (r_id r)).
Proof.
  intros C Hr. unfold ident_of, ident_table. cbv zeta.
  destruct (lookup_ident_nth (r_id r) (all_reqs A) (run_idents (all_reqs A))) as (i & r' & N & I & O).
  - symmetry. apply run_idents_length.
  - now apply in_map.
  - assert (r' = r) by (apply C; auto; eapply nth_error_In; eauto). subst r'.
    exists i. auto.
Qed.

Lemma page_dir_noslash d : page_dir d -> ~ In "/"%char d.
Proof. intros [E|[E|[E|E]]]; subst d; simpl; intuition discriminate. Qed.

(* two different page-owning entities of A's modules never share a page, whatever their names *)
Theorem target_unique A m1 e1 m2 e2 d1 d2 :
  consistent (all_reqs A) ->
  Forall (fun r => no_tilde (final_name (r_name r))) (all_reqs A) ->
  In m1 (a_modules A) -> In m2 (a_modules A) -> e_kind m1 = KModule -> e_kind m2 = KModule ->
  In e1 (e_kids m1) -> In e2 (e_kids m2) ->
  dir_of (Some KModule) (e_kind e1) = Some d1 -> dir_of (Some KModule) (e_kind e2) = Some d2 ->
  e_id e1 <> e_id e2 ->
  kid_url (ident_of A) m1 e1 <> kid_url (ident_of A) m2 e2.
Proof.
  intros C NT M1 M2 K1 K2 E1 E2 D1 D2 Hid.
  unfold kid_url. rewrite K1, K2. unfold own_url at 1 3. rewrite D1, D2.
  intros [= E].
  pose proof (page_dir_noslash _ (dir_of_page _ _ _ D1)) as S1.
  pose proof (page_dir_noslash _ (dir_of_page _ _ _ D2)) as S2.
  change (s "/" ++ ?x) with ("/"%char :: x) in E.
  apply split_at_first_unique in E as [Ed Ei]; auto. apply app_inv_tail in Ei.
  assert (NA : forall e d, dir_of (Some KModule) (e_kind e) = Some d -> alias_target e = None).
  { intros [i k n p l] d. destruct k; simpl; intros H; try discriminate; reflexivity. }
  pose proof (kid_req_all A m1 e1 (module_not_alias m1 K1) (NA e1 d1 D1) M1 E1) as R1.
  pose proof (kid_req_all A m2 e2 (module_not_alias m2 K2) (NA e2 d2 D2) M2 E2) as R2.
  rewrite K1 in R1. rewrite K2 in R2.
  destruct (ident_of_request A _ C R1) as (i & N1 & O1).
  destruct (ident_of_request A _ C R2) as (j & N2 & O2).
  apply (idents_distinct (all_reqs A) i j _ _ _ _ C NT N1 N2 O1 O2).
  - exact Hid.
  - unfold req_of. simpl. rewrite D1, D2. exact Ed.
  - exact Ei.
Qed.

(* ================================================================= the exported description is exact *)

Lemma str_in_In x l : str_in x l = true <-> In x l.
Proof.
  induction l as [|y l IH]; simpl; [split; [discriminate|tauto]|].
  rewrite orb_true_iff, str_eqb_eq, IH. split; intros [H|H]; auto.
Qed.

Lemma same_set_incl a b : incl a b -> incl b a -> same_set a b = true.
Proof.
  intros H1 H2. unfold same_set. apply andb_true_iff. split; apply forallb_forall; intros x Hx;
    apply str_in_In; auto.
Qed.

Lemma all2_map {X Y} (f : X -> Y -> bool) (g : X -> Y) l :
  all2 f l (map g l) = forallb (fun x => f x (g x)) l.
Proof. induction l as [|x l IH]; simpl; [reflexivity|]. now rewrite IH. Qed.

Lemma jname_export idf cfg pk purl kept e :
  alias_target e = None -> jname (export_ent idf cfg pk purl kept e) = e_name e.
Proof. destruct e as [id k name p kids]. destruct k, kids; simpl; intros H; try discriminate; reflexivity. Qed.

Lemma slot_not_alias e l : In l LIST_CLASSES -> str_eqb (slot_of (e_kind e)) l = true -> alias_target e = None.
Proof.
  destruct e as [id k name p kids]. intros Hl E. destruct k; try reflexivity.
  simpl in E. unfold LIST_CLASSES in Hl. simpl in Hl.
  repeat (destruct Hl as [<-|Hl]; [discriminate E|]). destruct Hl.
Qed.

(* the entity behind a re-exported name is accessible in its own module (Fortran: otherwise it could
   not be use-associated) *)
Definition aliases_legal (m : ent) : Prop :=
  forall c t, In c (e_kids m) -> alias_target c = Some t -> accessible t = true.

Lemma shown_default d c : display_default d = true -> shown d c = accessible c.
Proof.
  unfold display_default, shown, accessible. intros H.
  apply andb_true_iff in H as [H H3]. apply andb_true_iff in H as [H1 H2]. apply negb_true_iff in H3.
  destruct (e_perm c); assumption.
Qed.

Lemma class_members_filter cfg m w c :
  e_kind m = KModule -> display_default (c_display cfg) = true -> aliases_legal m ->
  In c (class_members cfg m w)
  <-> In c (filter (fun e => accessible e && opt_eqb str_eqb (class_of e) (Some w)) (e_kids m)).
Proof.
  intros Km DD AL. unfold class_members. rewrite in_app_iff, in_flat_map, !filter_In. split.
  - intros [(k' & Hk & H)|[Hc S]].
    + destruct (opt_eqb str_eqb (pub_class k') (Some w)) eqn:E; [|destruct H].
      apply filter_In in H as [Hc S]. unfold dict_sel in S. apply andb_true_iff in S as [S _].
      apply andb_true_iff in S as [S1 S2].
      split; [assumption|]. rewrite S2. simpl.
      assert (e_kind c = k') by (destruct (e_kind c), k'; simpl in S1; congruence). subst k'.
      unfold class_of, denoted.
      destruct c as [i k n p l]. simpl in *. destruct k; simpl in *; try exact E; discriminate E.
    + split; [assumption|]. unfold alias_sel in S. unfold class_of, denoted.
      destruct (alias_target c) as [t|]; [|discriminate].
      apply andb_true_iff in S as [S S3]. apply andb_true_iff in S as [S1 S2]. now rewrite S2, S1.
  - intros [Hc S]. apply andb_true_iff in S as [S1 S2].
    unfold class_of, denoted in S2. destruct (alias_target c) as [t|] eqn:AT.
    + right. split; [assumption|]. unfold alias_sel. rewrite AT, S2, S1. simpl.
      rewrite (shown_default _ t DD). now apply (AL c t).
    + left. exists (e_kind c). split.
      * destruct (pub_class (e_kind c)) as [w'|] eqn:P; [|discriminate].
        now apply (pub_class_in _ w').
      * rewrite S2. apply filter_In. split; [assumption|]. unfold dict_sel, listed. rewrite Km. simpl.
        now rewrite kind_eqb_refl, S1, (shown_default _ c DD), S1.
Qed.

Lemma module_exact_export idf cfg id name p kids :
  display_default (c_display cfg) = true -> aliases_legal (Ent id KModule name p kids) ->
  module_exact (Ent id KModule name p kids)
               (export_ent idf cfg None None true (Ent id KModule name p kids)) = true.
Proof.
  intros DD AL. rewrite export_ent_eq by reflexivity. cbv zeta.
  set (url := own_url None None KModule (idf id)).
  match goal with
  | |- context [node_entries KModule name url p ?dv ?lv] => set (DV := dv); set (LV := lv)
  end.
  unfold module_exact. apply andb_true_iff. split; [apply andb_true_iff; split|].
  - change (jname (JDict (node_entries KModule name url p DV LV))) with name. apply str_eqb_refl.
  - apply forallb_forall. intros c Hc.
    assert (G : jkeys (jget c (JDict (node_entries KModule name url p DV LV))) = map fst (DV c)).
    { unfold PUB_CLASSES in Hc. simpl in Hc. destruct Hc as [<-|[<-|[<-|[<-|[]]]]]; reflexivity. }
    rewrite G. unfold DV. rewrite dict_as_map, map_map. simpl.
    unfold spec_pub.
    apply same_set_incl; intros x Hx; apply in_map_iff in Hx as (e & <- & He); apply in_map_iff;
      exists e; (split; [reflexivity|]);
      apply (class_members_filter cfg (Ent id KModule name p kids) c e eq_refl DD AL); exact He.
  - apply forallb_forall. intros l Hl.
    assert (G : jlist (jget l (JDict (node_entries KModule name url p DV LV))) = LV l).
    { unfold LIST_CLASSES in Hl. simpl in Hl. destruct Hl as [<-|[<-|[<-|[<-|[<-|[<-|[]]]]]]]; reflexivity. }
    rewrite G. unfold LV. rewrite sel_map_filter, map_map.
    rewrite (map_ext_in _ (fun e => lower (e_name e))).
    2: { intros e He. apply filter_In in He as [_ Se]. unfold list_sel in Se.
         apply andb_true_iff in Se as [Se _]. now rewrite (jname_export _ _ _ _ _ e (slot_not_alias e l Hl Se)). }
    unfold spec_list. simpl e_kids.
    rewrite (filter_ext (list_sel cfg true KModule l) (fun e => accessible e && str_eqb (slot_of (e_kind e)) l)).
    + apply same_set_incl; apply incl_refl.
    + intros e. unfold list_sel, listed. simpl. rewrite (shown_default _ e DD). apply andb_comm.
Qed.

(* with the default display the description names exactly A's modules and, per module, exactly
   its PUBLIC / PROTECTED entities *)
Theorem export_exact_partial A v :
  Forall (fun m => e_kind m = KModule /\ aliases_legal m) (a_modules A) ->
  display_default (c_display (a_cfg A)) = true ->
  exact_on (a_modules A) (export A v) = true.
Proof.
  intros K DD. unfold exact_on, export.
  change (jlist (jget (s "modules") (JDict [(METADATA_NAME, JDict [(s "version", JStr v)]);
            (s "modules", JList (map (export_ent (ident_of A) (a_cfg A) None None true) (a_modules A)))])))
    with (map (export_ent (ident_of A) (a_cfg A) None None true) (a_modules A)).
  rewrite all2_map. apply forallb_forall. intros m Hm.
  rewrite Forall_forall in K. specialize (K m Hm).
  destruct K as [K AL]. destruct m as [id k name p kids]. simpl in K. subst k. now apply module_exact_export.
Qed.

(* ================================================================= [[name]]: B's own names *)

Lemma coll_items_local B tops c :
  is_ext_coll c = false -> coll_items B tops c = number_from c 0 (local_names B c).
Proof. destruct c; simpl; intros E; try discriminate; reflexivity. Qed.

Lemma find_first_number_hit n c names :
  lower_in n names = true -> exists j, find_first n (number_from c 0 names) = Ok (Some (HLocal c j)).
Proof.
  intros H. destruct (find_first_local_hit n c names [] 0 H) as (j & F & _).
  rewrite app_nil_r in F. eauto.
Qed.
Lemma find_first_number_miss n c names :
  lower_in n names = false -> find_first n (number_from c 0 names) = Ok None.
Proof.
  intros H. pose proof (find_first_local_miss n c names [] 0 H) as F.
  rewrite app_nil_r in F. exact F.
Qed.

(* B's own collections are walked first; nothing imported is looked at before one of them has
   answered *)
Lemma find_colls_local_prefix B tops n L E :
  Forall (fun c => is_ext_coll c = false) L ->
  (exists c, In c L /\ lower_in n (local_names B c) = true) ->
  exists c j, find_colls B tops n (L ++ E) = Ok (Some (HLocal c j)).
Proof.
  induction L as [|c L IH]; intros F (w & Hw & Nw); [destruct Hw|].
  inversion F as [|? ? Fc FL]; subst. simpl.
  rewrite coll_items_local by assumption.
  destruct (lower_in n (local_names B c)) eqn:Lc.
  - destruct (find_first_number_hit n c _ Lc) as (j & ->). simpl. eauto.
  - rewrite find_first_number_miss by assumption. simpl. apply IH; [assumption|].
    destruct Hw as [->|Hw]; [congruence|]. exists w. auto.
Qed.

Lemma find_order_shape :
  FIND_ORDER = ALL_LOCAL ++ [CExtModules; CExtTypes; CExtProcedures; CExtInterfaces].
Proof. reflexivity. Qed.

(* a name B defines resolves to B's entity, whatever the external projects hold *)
Theorem find_local_first B tops n child :
  defined_locally B n = true ->
  exists h, project_find B tops n None child = Ok (Some h) /\ is_local h = true.
Proof.
  intros D. unfold defined_locally in D. apply existsb_exists in D as (w & Hw & Nw).
  unfold project_find. rewrite find_order_shape.
  destruct (find_colls_local_prefix B tops n ALL_LOCAL
              [CExtModules; CExtTypes; CExtProcedures; CExtInterfaces]) as (c & j & F).
  { repeat constructor. }
  { exists w. auto. }
  rewrite F. simpl. destruct child as [[cn ce]|]; eexists; split; reflexivity.
Qed.

Theorem find_local_first_ok B tops n child :
  local_first_ok B n (project_find B tops n None child) = true.
Proof.
  unfold local_first_ok. destruct (defined_locally B n) eqn:D; [|reflexivity].
  destruct (find_local_first B tops n child D) as (h & -> & L). exact L.
Qed.

(* ================================================================= load errors *)

(* the model's own fuel always suffices: OutOfFuel is never the answer *)
Lemma bind_oof {A B} (x : res A) (f : A -> res B) :
  x <> Err OutOfFuel -> (forall a, x = Ok a -> f a <> Err OutOfFuel) -> bind x f <> Err OutOfFuel.
Proof.
  destruct x as [a|e]; simpl; intros H1 H2; [now apply H2|].
  intros [= ->]. now apply H1.
Qed.

Lemma import_items_oof rec l :
  (forall x, In x l -> rec x <> Err OutOfFuel) -> import_items rec l <> Err OutOfFuel.
Proof.
  induction l as [|x r IH]; intros H; simpl; [discriminate|].
  assert (Hr : import_items rec r <> Err OutOfFuel) by (apply IH; intros y Hy; apply H; now right).
  destruct (truthy x); [|exact Hr].
  apply bind_oof; [apply H; now left|]. intros v _. apply bind_oof; [exact Hr|]. discriminate.
Qed.

Lemma import_pairs_oof rec l :
  (forall k x, In (k, x) l -> rec x <> Err OutOfFuel) -> import_pairs rec l <> Err OutOfFuel.
Proof.
  induction l as [|[k x] r IH]; intros H; simpl; [discriminate|].
  assert (Hr : import_pairs rec r <> Err OutOfFuel) by (apply IH; intros k' y Hy; apply (H k'); now right).
  destruct (truthy x); [|exact Hr].
  apply bind_oof; [apply (H k); now left|]. intros v _. apply bind_oof; [exact Hr|]. discriminate.
Qed.

Definition items_fine (rec : json -> res xval) (d : list (str * json)) : Prop :=
  (forall k l x, In (k, JList l) d -> In x l -> rec x <> Err OutOfFuel) /\
  (forall k l k2 x, In (k, JDict l) d -> In (k2, x) l -> rec x <> Err OutOfFuel).

Lemma import_attrs_oof rec d keys : items_fine rec d -> import_attrs rec d keys <> Err OutOfFuel.
Proof.
  intros [HL HD]. induction keys as [|k ks IH]; simpl; [discriminate|].
  destruct (assoc_get k d) as [v|] eqn:E; [|exact IH].
  apply assoc_get_in in E.
  destruct v; try (apply bind_oof; [exact IH|discriminate]).
  - apply bind_oof; [apply import_items_oof; intros x Hx; eapply HL; eauto|].
    intros vs _. apply bind_oof; [exact IH|discriminate].
  - apply bind_oof; [apply import_pairs_oof; intros k2 x Hx; eapply HD; eauto|].
    intros vs _. apply bind_oof; [exact IH|discriminate].
Qed.

Lemma import_node_oof b rec d : items_fine rec d -> import_node b rec d <> Err OutOfFuel.
Proof.
  intros H. unfold import_node.
  destruct (assoc_get (s "name") d); [|discriminate].
  destruct (assoc_get (s "external_url") d) as [eu|]; [|discriminate].
  apply bind_oof.
  { destruct (truthy eu); [destruct eu|]; discriminate. }
  intros url _.
  destruct (assoc_get (s "obj") d) as [obj|]; [|discriminate].
  destruct (match assoc_get (s "proctype") d with Some p => p | None => obj end); try discriminate.
  destruct (entity_class (lower x)) as [c|]; [|discriminate].
  apply bind_oof.
  { destruct (xcls_eqb c XInterface); [destruct (assoc_get (s "proctype") d)|]; discriminate. }
  intros pt _. apply bind_oof; [now apply import_attrs_oof|discriminate].
Qed.

Lemma import_fuel_oof b : forall n j, jsize j <= n -> import_fuel n b j <> Err OutOfFuel.
Proof.
  induction n as [|f IH]; intros j L; [pose proof (jsize_pos j); lia|].
  destruct j; simpl; try discriminate.
  apply import_node_oof. split.
  - intros k l0 x Hk Hx. apply IH.
    pose proof (jsize_in_list _ _ Hx). pose proof (jsize_in_dict _ _ _ Hk). lia.
  - intros k l0 k2 x Hk Hx. apply IH.
    pose proof (jsize_in_dict _ _ _ Hx). pose proof (jsize_in_dict _ _ _ Hk). lia.
Qed.

Lemma import_all_oof b l : import_all b l <> Err OutOfFuel.
Proof.
  induction l as [|x r IH]; simpl; [discriminate|].
  apply bind_oof; [apply import_fuel_oof; lia|]. intros v _. apply bind_oof; [exact IH|discriminate].
Qed.

Theorem load_json_total b j : load_json b j <> Err OutOfFuel.
Proof.
  unfold load_json. apply bind_oof.
  - destruct j; try discriminate.
    + destruct (has_substr METADATA_NAME x); discriminate.
    + destruct (existsb (json_is_str METADATA_NAME) l); discriminate.
    + destruct (existsb _ l); [destruct (assoc_get (s "modules") l)|]; discriminate.
  - intros mods _. destruct mods; try discriminate. apply import_all_oof.
Qed.

Lemma caught_python e : e <> OutOfFuel -> caught e = true.
Proof. destruct e; intros H; try reflexivity. now contradiction H. Qed.

Lemma of_res_survives r : r <> Err OutOfFuel -> survives (of_res r) = true.
Proof.
  destruct r as [l|e]; intros H; [reflexivity|]. unfold of_res, of_exn.
  rewrite caught_python; [reflexivity|]. intros ->. now apply H.
Qed.

(* whatever state the description is in - missing, unreadable, not UTF-8, not JSON, JSON of any
   shape whatsoever - the run goes on; and when there is no description only the links are lost *)
Theorem load_errors_contained src :
  survives (load src) = true /\ (has_description src = false -> only_links_lost (load src) = true).
Proof.
  destruct src as [d [| | |j]|u [| | |j]]; simpl; split; try reflexivity; try discriminate;
    intros; apply of_res_survives, load_json_total.
Qed.

(* a description that fails to load leaves nothing behind: the outcome is either everything it
   describes or nothing *)
Theorem load_all_or_nothing src :
  match load src with OLoaded _ | OContained => True | ORaised _ => False end.
Proof.
  destruct (load_errors_contained src) as [H _]. destruct (load src); [exact I|exact I|discriminate H].
Qed.

(* ================================================================= the round trip *)

Lemma kid_url_some idf m e w :
  e_kind m = KModule -> pub_class (e_kind e) = Some w -> exists u, kid_url idf m e = Some u.
Proof.
  intros Km P. unfold kid_url. rewrite Km.
  change (own_url None None KModule (idf (e_id m)))
    with (Some (s "module" ++ s "/" ++ idf (e_id m) ++ s ".html")).
  destruct (e_kind e); simpl in P; try discriminate; eexists; reflexivity.
Qed.

(* B says `use m, only: e` (m a module of A, e accessible in m): the module B finds is A's m and
   the entity it imports carries the URL  base / (A's own URL of e) *)
Theorem roundtrip A b v locals m e w :
  wf_A A -> base_ok b ->
  In m (a_modules A) -> In e (e_kids m) -> accessible e = true ->
  shown (c_display (a_cfg A)) e = true -> pub_class (e_kind e) = Some w ->
  lower_in (e_name m) locals = false ->
  no_slash (ident_of A (e_id m)) = true -> no_slash (ident_of A (e_id e)) = true ->
  exists tops xm x u mu,
    load_json b (export A v) = Ok tops /\
    find_used_module locals tops (e_name m) = Ok (Some (HExt xm)) /\
    module_url (ident_of A) m = Some mu /\ x_url xm = JStr (spec_join b mu) /\
    used_lookup xm w (e_name e) = Ok (Some x) /\
    x_name x = JStr (e_name e) /\
    kid_url (ident_of A) m e = Some u /\ x_url x = JStr (spec_join b u).
Proof.
  intros W Hb Hm He Ha Hs Hp Hl Nm Ne.
  pose proof (wf_kinds A W) as WK. rewrite Forall_forall in WK. destruct (WK m Hm) as [Km _].
  pose proof (wf_names A W) as WN. rewrite Forall_forall in WN. specialize (WN m Hm).
  destruct (kid_url_some (ident_of A) m e w Km Hp) as (u & Hu).
  exists (xmods A b), (xlate (ident_of A) (a_cfg A) b None None true m).
  destruct m as [id k name p kids]. simpl in Km, He. subst k.
  exists (xlate (ident_of A) (a_cfg A) b (Some KModule) (own_url None None KModule (ident_of A id))
                true e), u,
         (s "module" ++ s "/" ++ ident_of A id ++ s ".html").
  split; [apply load_json_export|].
  split; [now apply use_module_roundtrip|].
  split; [reflexivity|].
  split.
  { rewrite x_url_xlate by reflexivity. simpl e_kind. simpl e_id. f_equal.
    apply (rebase_module_url (ident_of A) b (Ent id KModule name p kids)); auto. }
  split; [now apply used_lookup_roundtrip|].
  split; [apply x_name_xlate; now apply (not_alias_of_class e w)|].
  split; [exact Hu|].
  rewrite x_url_xlate by now apply (not_alias_of_class e w). f_equal.
  unfold kid_url in Hu. simpl e_kind in Hu. simpl e_id in Hu. rewrite Hu. simpl url_rel.
  apply (rebase_kid_url (ident_of A) b (Ent id KModule name p kids) e); auto.
Qed.

(* ================================================================= witnesses *)

Definition cfg_default : acfg := {| c_display := [Public; Protected]; c_internals := false |}.

(* two modules of A with a public procedure `init` each, and a private one *)
Definition A_ex : aproject :=
  {| a_modules :=
       [Ent 1 KModule (s "ma") Public
          [Ent 2 KSubroutine (s "init") Public []; Ent 3 KType (s "shape_t") Public
             [Ent 4 KVar (s "side") Public []; Ent 5 KBound (s "draw") Public []];
           Ent 6 KVar (s "count") Protected []; Ent 7 KFunction (s "hid") Private []];
        Ent 8 KModule (s "mb") Private
          [Ent 9 KSubroutine (s "Init") Public []; Ent 10 KType (s "shape_t") Public []]];
     a_cfg := cfg_default; a_pre := [] |}.

Lemma wf_A_ex : wf_A A_ex.
Proof.
  split.
  - repeat constructor.
  - vm_compute. repeat constructor; simpl; intuition discriminate.
  - repeat constructor; intros w H; unfold PUB_DICTS in H; simpl in H;
      destruct H as [<-|[<-|[<-|[<-|[]]]]]; vm_compute; repeat constructor; simpl; intuition discriminate.
Qed.

(* the second `init` lives on proc/init~2.html, and that is where B is sent *)
Example roundtrip_ex :
  exists tops xm x,
    load_json (BRemote (s "https://docs.example.org/a/")) (export A_ex (s "1")) = Ok tops /\
    find_used_module [s "bm"] tops (s "mb") = Ok (Some (HExt xm)) /\
    used_lookup xm (s "pub_procs") (s "init") = Ok (Some x) /\
    x_url x = JStr (s "https://docs.example.org/a/proc/init~2.html").
Proof. do 3 eexists. vm_compute. repeat split; reflexivity. Qed.

(* a display that also shows private entities: they are exported *)
Definition A_private_listed : aproject :=
  {| a_modules := [Ent 1 KModule (s "m") Public
                     [Ent 2 KSubroutine (s "pub") Public []; Ent 3 KSubroutine (s "hid") Private []]];
     a_cfg := {| c_display := [Public; Private; Protected]; c_internals := false |}; a_pre := [] |}.
Lemma export_exact_refuted_private_listed :
  Forall (fun m => e_kind m = KModule) (a_modules A_private_listed) /\
  display_default (c_display (a_cfg A_private_listed)) = false /\
  exact_on (a_modules A_private_listed) (export A_private_listed []) = false.
Proof. split; [repeat constructor|]. split; vm_compute; reflexivity. Qed.

(* a display without `public`: the exported URL of a public entity names a page A does not write *)
Definition A_private_only : aproject :=
  {| a_modules := [Ent 1 KModule (s "m") Public [Ent 2 KSubroutine (s "solve") Public []]];
     a_cfg := {| c_display := [Private]; c_internals := false |}; a_pre := [] |}.
(* the former witness of the dead link: `solve` is public but not displayed - it is no longer in the
   description, B gets no object and no link for it *)
Example undisplayed_regression :
  jget (s "pub_procs") (hd JNull (jlist (jget (s "modules") (export A_private_only [])))) = Some (JDict []) /\
  (exists tops xm, load_json (BLocal (s "/a/doc")) (export A_private_only []) = Ok tops /\
                   find_used_module [] tops (s "m") = Ok (Some (HExt xm)) /\
                   used_lookup xm (s "pub_procs") (s "solve") = Ok None).
Proof. split; [reflexivity|]. do 2 eexists. vm_compute. repeat split; reflexivity. Qed.
Lemma export_exact_refuted_public_unlisted :
  exact_on (a_modules A_private_only) (export A_private_only []) = false.
Proof. vm_compute. reflexivity. Qed.

(* [[shape]]: B has a type `shape`, A a module `shape` *)
Definition B_shape : blocal := [(CTypes, [s "shape"])].
Definition tops_shape : list xval :=
  [XO XModule (JStr (s "shape")) (JStr (s "/a/doc/module/shape.html")) (canon_attrs XModule [])].
(* the former counterexample, now resolved to B's type *)
Example local_first_find_regression :
  defined_locally B_shape (s "shape") = true /\
  project_find B_shape tops_shape (s "shape") None None = Ok (Some (HLocal CTypes 0)) /\
  project_find [] tops_shape (s "shape") None None = Ok (Some (HExt (hd (XS []) tops_shape))).
Proof. repeat split; vm_compute; reflexivity. Qed.

(* descriptions of the wrong shape are contained (they used to end the run) *)
Lemma load_shape_contained d :
  load (SLocal d (LJson (JDict [(METADATA_NAME, JDict [])]))) = OContained /\
  load (SLocal d (LJson (JList [JDict [(s "name", JStr (s "m"))]]))) = OContained /\
  load (SLocal d (LJson (JNum 3))) = OContained /\
  load (SLocal d (LJson (JList [JDict [(s "name", JStr (s "m")); (s "external_url", JNum 1);
                                        (s "obj", JStr (s "module"))]]))) = OContained /\
  load (SLocal d LMissing) = OContained /\ load (SLocal d LUndecodable) = OContained.
Proof. repeat split; reflexivity. Qed.

Lemma consistent_of_nodup rs : NoDup (map r_id rs) -> consistent rs.
Proof.
  induction rs as [|r rs IH]; intros ND r1 r2 H1 H2 E; [destruct H1|].
  simpl in ND. inversion ND as [|? ? Hn ND']; subst.
  destruct H1 as [<-|H1]; destruct H2 as [<-|H2].
  - reflexivity.
  - exfalso. apply Hn. rewrite E. now apply in_map.
  - exfalso. apply Hn. rewrite <- E. now apply in_map.
  - now apply IH.
Qed.

(* ================================================================= idents never contain '/' *)

Lemma no_slash_skipn n x : no_slash x = true -> no_slash (skipn n x) = true.
Proof.
  revert x. induction n as [|n IH]; intros [|c x] H; simpl; auto.
  simpl in H. apply andb_true_iff in H as [_ H]. now apply IH.
Qed.

Lemma replace_fuel_keeps f old new : forall x,
  no_slash new = true -> no_slash x = true -> no_slash (replace_fuel f old new x) = true.
Proof.
  induction f as [|f IH]; intros x Hn Hx; simpl; [assumption|].
  destruct x as [|c x']; [reflexivity|].
  destruct (starts_with old (c :: x')).
  - rewrite no_slash_app, Hn. simpl. apply IH; [assumption|]. now apply no_slash_skipn.
  - simpl in Hx. apply andb_true_iff in Hx as [Hc Hx]. simpl. rewrite Hc. simpl. now apply IH.
Qed.

Lemma replace_fuel_removes new : forall f x,
  length x < f -> no_slash new = true -> no_slash (replace_fuel f [slash] new x) = true.
Proof.
  induction f as [|f IH]; intros x L Hn; [lia|].
  destruct x as [|c x']; [reflexivity|]. simpl in L.
  cbn [replace_fuel starts_with].
  destruct (Ascii.eqb slash c) eqn:E.
  - cbn [andb length skipn]. rewrite no_slash_app, Hn. simpl. apply IH; [lia|assumption].
  - cbn [andb]. simpl. unfold ch_eqb. rewrite Ascii.eqb_sym, E. simpl. apply IH; [lia|assumption].
Qed.

Lemma final_name_noslash n : no_slash (final_name n) = true.
Proof.
  unfold final_name.
  set (n2 := replace (s ">") (s "gt") (replace (s "<") (s "lt") (lower n))).
  assert (H3 : no_slash (replace (s "/") (s "SLASH") n2) = true).
  { unfold replace. change (s "/") with [slash]. cbv iota. apply replace_fuel_removes; [lia|reflexivity]. }
  set (n3 := replace (s "/") (s "SLASH") n2) in *.
  assert (H4 : no_slash (replace (s "*") (s "ASTERISK") n3) = true).
  { unfold replace. change (s "*") with ["*"%char]. cbv iota. now apply replace_fuel_keeps. }
  destruct (replace (s "*") (s "ASTERISK") n3); [reflexivity|exact H4].
Qed.

Lemma uint_noslash d : no_slash (s (DecimalString.NilEmpty.string_of_uint d)) = true.
Proof. induction d; simpl; auto. Qed.

Lemma render_noslash b k : no_slash b = true -> no_slash (render b k) = true.
Proof.
  intros H. unfold render. destruct (k <=? 1); [assumption|].
  rewrite no_slash_app, H. simpl. unfold dec. apply uint_noslash.
Qed.

Lemma run_idents_noslash rs n : In n (run_idents rs) -> no_slash n = true.
Proof.
  intros H. apply In_nth_error in H as (i & Hi).
  destruct (run_spec rs init [] inv_init) as (_ & P & _ & L & O); [intros it []|].
  unfold run_idents in *.
  assert (Hr : exists r, nth_error rs i = Some r).
  { destruct (nth_error rs i) as [r|] eqn:E; [eauto|].
    apply nth_error_None in E. assert (i < length (snd (run init rs))) by (apply nth_error_Some; congruence). lia. }
  destruct Hr as (r & Hr). destruct (O i r Hr) as (it & Hit & _ & Hn).
  rewrite Hi in Hn. injection Hn as ->.
  destruct (P it Hit) as (r' & _ & _ & _ & Hb).
  unfold Names.ident_of. apply render_noslash. rewrite Hb. apply final_name_noslash.
Qed.

Lemma lookup_ident_in id : forall ids ns,
  lookup_ident id (combine ids ns) = [] \/ In (lookup_ident id (combine ids ns)) ns.
Proof.
  induction ids as [|i ids IH]; intros [|n ns]; simpl; auto.
  destruct (Nat.eqb i id); [right; now left|]. destruct (IH ns) as [H|H]; auto.
Qed.

Theorem ident_of_noslash A id : no_slash (ident_of A id) = true.
Proof.
  unfold ident_of, ident_table. cbv zeta.
  destruct (lookup_ident_in id (map r_id (all_reqs A)) (run_idents (all_reqs A))) as [->|H]; [reflexivity|].
  eapply run_idents_noslash; eauto.
Qed.

(* the round trip without any assumption about names *)
Theorem roundtrip_all A b v locals m e w :
  wf_A A -> base_ok b ->
  In m (a_modules A) -> In e (e_kids m) -> accessible e = true ->
  shown (c_display (a_cfg A)) e = true -> pub_class (e_kind e) = Some w ->
  lower_in (e_name m) locals = false ->
  exists tops xm x u mu,
    load_json b (export A v) = Ok tops /\
    find_used_module locals tops (e_name m) = Ok (Some (HExt xm)) /\
    module_url (ident_of A) m = Some mu /\ x_url xm = JStr (spec_join b mu) /\
    used_lookup xm w (e_name e) = Ok (Some x) /\
    x_name x = JStr (e_name e) /\
    kid_url (ident_of A) m e = Some u /\ x_url x = JStr (spec_join b u).
Proof. intros. apply roundtrip; auto using ident_of_noslash. Qed.

(* ================================================================= combined partial statements *)

(* ================================================================= non-vacuity *)

Lemma roundtrip_nonvacuous :
  wf_A A_ex /\ base_ok (BRemote (s "https://docs.example.org/a/")) /\ base_ok (BLocal (s "/srv/a/doc")) /\
  (exists m e, In m (a_modules A_ex) /\ In e (e_kids m) /\ e_name e = s "Init" /\ accessible e = true /\
               pub_class (e_kind e) = Some (s "pub_procs") /\ lower_in (e_name m) [s "bm"] = false /\
               no_slash (ident_of A_ex (e_id m)) = true /\ no_slash (ident_of A_ex (e_id e)) = true /\
               kid_url (ident_of A_ex) m e = Some (s "proc/init~2.html")) /\
  consistent (all_reqs A_ex) /\
  Forall (fun r => no_tilde (final_name (r_name r))) (all_reqs A_ex) /\
  display_default (c_display (a_cfg A_ex)) = true.
Proof.
  split; [exact wf_A_ex|]. split; [exists (s "https://docs.example.org/a"); split; reflexivity|].
  split; [exact I|]. split.
  { exists (Ent 8 KModule (s "mb") Private
              [Ent 9 KSubroutine (s "Init") Public []; Ent 10 KType (s "shape_t") Public []]),
           (Ent 9 KSubroutine (s "Init") Public []).
    repeat split; try (vm_compute; tauto). }
  split.
  { apply consistent_of_nodup. vm_compute. repeat constructor; simpl; intuition discriminate. }
  split; [|reflexivity].
  unfold A_ex, all_reqs; cbn [a_pre a_modules app flat_map tree_reqs].
  repeat (apply Forall_cons || apply Forall_nil); intros H; vm_compute in H; intuition discriminate.
Qed.

(* more non-vacuity: the hypotheses of the other theorems on concrete inputs *)
Example target_written_ex :
  exists m e u, In m (a_modules A_ex) /\ e_kind m = KModule /\ In e (e_kids m) /\
    shown (c_display (a_cfg A_ex)) e = true /\ no_hash (ident_of A_ex (e_id m)) = true /\
    no_hash (ident_of A_ex (e_id e)) = true /\ kid_url (ident_of A_ex) m e = Some u /\
    u = s "module/ma.html#variable-count" /\ In (page_of u) (pages_written A_ex).
Proof.
  exists (Ent 1 KModule (s "ma") Public
          [Ent 2 KSubroutine (s "init") Public []; Ent 3 KType (s "shape_t") Public
             [Ent 4 KVar (s "side") Public []; Ent 5 KBound (s "draw") Public []];
           Ent 6 KVar (s "count") Protected []; Ent 7 KFunction (s "hid") Private []]),
         (Ent 6 KVar (s "count") Protected []), (s "module/ma.html#variable-count").
  repeat split; try (vm_compute; tauto).
Qed.

Example target_unique_ex :
  exists m1 e1 m2 e2,
    In m1 (a_modules A_ex) /\ In m2 (a_modules A_ex) /\ In e1 (e_kids m1) /\ In e2 (e_kids m2) /\
    lower (e_name e1) = lower (e_name e2) /\ e_id e1 <> e_id e2 /\
    dir_of (Some KModule) (e_kind e1) = Some (s "proc") /\ dir_of (Some KModule) (e_kind e2) = Some (s "proc") /\
    kid_url (ident_of A_ex) m1 e1 = Some (s "proc/init.html") /\
    kid_url (ident_of A_ex) m2 e2 = Some (s "proc/init~2.html").
Proof.
  exists (Ent 1 KModule (s "ma") Public
          [Ent 2 KSubroutine (s "init") Public []; Ent 3 KType (s "shape_t") Public
             [Ent 4 KVar (s "side") Public []; Ent 5 KBound (s "draw") Public []];
           Ent 6 KVar (s "count") Protected []; Ent 7 KFunction (s "hid") Private []]),
         (Ent 2 KSubroutine (s "init") Public []),
         (Ent 8 KModule (s "mb") Private
          [Ent 9 KSubroutine (s "Init") Public []; Ent 10 KType (s "shape_t") Public []]),
         (Ent 9 KSubroutine (s "Init") Public []).
  repeat split; try (vm_compute; tauto). vm_compute. discriminate.
Qed.

Example local_first_ex : lower_in (s "MA") [s "x"; s "ma"] = true.
Proof. reflexivity. Qed.

Example find_local_first_ex :
  defined_locally [(CProcedures, [s "Other"])] (s "other") = true.
Proof. reflexivity. Qed.

(* ================================================================= what is exported is documented *)

Lemma class_member_facts cfg m e w :
  e_kind m = KModule -> alias_target e = None -> In e (class_members cfg m w) ->
  In e (e_kids m) /\ accessible e = true /\ shown (c_display cfg) e = true.
Proof.
  intros Km NA H. unfold class_members in H. apply in_app_or in H as [H|H].
  - apply in_flat_map in H as (k' & _ & H).
    destruct (opt_eqb str_eqb (pub_class k') (Some w)); [|destruct H].
    apply filter_In in H as [Hin S]. unfold dict_sel, listed in S. rewrite Km in S. simpl in S.
    apply andb_true_iff in S as [S S3]. apply andb_true_iff in S as [_ S2]. auto.
  - apply filter_In in H as [_ S]. unfold alias_sel in S. rewrite NA in S. discriminate.
Qed.

Lemma class_member_alias cfg m a t w :
  alias_target a = Some t -> In a (class_members cfg m w) ->
  In a (e_kids m) /\ accessible a = true /\ shown (c_display cfg) t = true /\ pub_class (e_kind t) = Some w.
Proof.
  intros AT H. unfold class_members in H. apply in_app_or in H as [H|H].
  - apply in_flat_map in H as (k' & Hk & H).
    destruct (opt_eqb str_eqb (pub_class k') (Some w)); [|destruct H].
    apply filter_In in H as [_ S]. unfold dict_sel in S. apply andb_true_iff in S as [S _].
    apply andb_true_iff in S as [S _]. exfalso.
    destruct a as [i k n p l]. destruct k; simpl in AT; try discriminate.
    simpl in S. unfold PUB_KINDS in Hk. simpl in Hk.
    repeat (destruct Hk as [<-|Hk]; [discriminate S|]). destruct Hk.
  - apply filter_In in H as [Hin S]. unfold alias_sel in S. rewrite AT in S.
    apply andb_true_iff in S as [S S3]. apply andb_true_iff in S as [S1 S2].
    repeat split; auto. simpl in S1. destruct (pub_class (e_kind t)) as [w'|]; [|discriminate].
    apply str_eqb_eq in S1. now subst.
Qed.

(* every entity that a table of public names of the description holds ([class_members] is exactly the
   content of that table) has its page among the pages A writes: the module's own entities ... *)
Theorem exported_target_written A m e w u :
  In m (a_modules A) -> e_kind m = KModule -> alias_target e = None -> In e (class_members (a_cfg A) m w) ->
  no_hash (ident_of A (e_id m)) = true -> no_hash (ident_of A (e_id e)) = true ->
  kid_url (ident_of A) m e = Some u ->
  In (page_of u) (pages_written A).
Proof.
  intros Hm Km NA He Nm Ne Hu. destruct (class_member_facts _ _ _ _ Km NA He) as (Hin & _ & Hs).
  now apply (target_written A m e u).
Qed.

(* ... and the entities of other modules it makes accessible again (alias a for entity t of module ms) *)
Theorem reexported_target_written A m a t ms w u :
  alias_target a = Some t -> In a (class_members (a_cfg A) m w) ->
  In ms (a_modules A) -> e_kind ms = KModule -> In t (e_kids ms) ->
  no_hash (ident_of A (e_id ms)) = true -> no_hash (ident_of A (e_id t)) = true ->
  kid_url (ident_of A) ms t = Some u ->
  In (page_of u) (pages_written A).
Proof.
  intros AT Ha Hms Kms Ht Nm Nt Hu. destruct (class_member_alias _ _ _ _ _ AT Ha) as (_ & _ & Hs & _).
  now apply (target_written A ms t u).
Qed.

Lemma pub_table_is_class_members idf cfg id name p kids w :
  jkeys (jget w (export_ent idf cfg None None true (Ent id KModule name p kids)))
  = (if str_in w PUB_DICTS then map (fun c => lower (e_name c)) (class_members cfg (Ent id KModule name p kids) w)
     else jkeys (jget w (export_ent idf cfg None None true (Ent id KModule name p kids)))).
Proof.
  destruct (str_in w PUB_DICTS) eqn:E; [|reflexivity].
  apply str_in_In in E. rewrite export_ent_eq by reflexivity. cbv zeta.
  set (url := own_url None None KModule (idf id)).
  match goal with
  | |- context [node_entries KModule name url p ?dv ?lv] => set (DV := dv); set (LV := lv)
  end.
  assert (G : jkeys (jget w (JDict (node_entries KModule name url p DV LV))) = map fst (DV w)).
  { unfold PUB_DICTS in E. simpl in E. destruct E as [<-|[<-|[<-|[<-|[]]]]]; reflexivity. }
  rewrite G. unfold DV. rewrite dict_as_map, map_map. reflexivity.
Qed.

(* ================================================================= the shape of A's URLs at any depth *)

(* <page dir>/<one segment of at least two characters without '/'> *)
Definition shaped (u : str) : Prop :=
  exists d f, u = d ++ s "/" ++ f /\ page_dir d /\ no_slash f = true /\ 2 <= length f.
Definition purl_ok (purl : option str) : Prop :=
  match purl with Some pu => shaped pu | None => True end.

Lemma page_dir_strip d r : page_dir d -> strip_frag (d ++ s "/" ++ r) = d ++ s "/" ++ strip_frag r.
Proof. intros [E|[E|[E|E]]]; subst d; reflexivity. Qed.

Lemma strip_frag_length_le x : length (strip_frag x) <= length x.
Proof. induction x as [|c x IH]; simpl; [lia|]. destruct (ch_eqb c "#"); simpl; lia. Qed.

Lemma own_url_shaped (idf : nat -> str) pk purl k (id : nat) u :
  (forall i, no_slash (idf i) = true) -> purl_ok purl ->
  own_url pk purl k (idf id) = Some u -> shaped u.
Proof.
  intros N P. unfold own_url.
  destruct (dir_of pk k) as [d|] eqn:Ed.
  - intros [= <-]. exists d, (idf id ++ s ".html"). repeat split.
    + now apply (dir_of_page pk k).
    + rewrite no_slash_app, N. reflexivity.
    + rewrite app_length. simpl. lia.
  - destruct (anchored k); [|discriminate].
    destruct pk as [pk0|]; [|discriminate]. destruct purl as [pu|]; [|discriminate].
    intros [= <-]. destruct P as (d & f & -> & Pd & Nf & Lf).
    exists d, (strip_frag f ++ s "#" ++ obj_str k ++ s "-" ++ quote (idf id)). repeat split.
    + rewrite (page_dir_strip d f Pd). rewrite <- !app_assoc. reflexivity.
    + exact Pd.
    + rewrite !no_slash_app, strip_frag_noslash, obj_noslash, quote_noslash; auto.
    + rewrite !app_length. simpl. lia.
Qed.

Lemma rebase_shaped b u : base_ok b -> shaped u -> rebase b u = spec_join b u.
Proof.
  intros Hb (d & f & -> & Pd & Nf & Lf).
  assert (Sd : seg_ok d = true) by now apply page_dir_ok.
  assert (Sf : seg_ok f = true) by now apply seg_ok_long.
  destruct b as [dir|url]; simpl.
  - now apply path_join_two.
  - destruct Hb as (u0 & -> & Hp). now apply url_join_two.
Qed.

(* ================================================================= names along the tree *)

(* in every entity, two children in the same list have different names (case-insensitively) *)
Definition slot_key (c : ent) : str * str := (slot_of (e_kind c), lower (e_name c)).
Fixpoint tree_names_ok (e : ent) : Prop :=
  match e with
  | Ent _ _ _ _ kids =>
    NoDup (map slot_key kids) /\
    (fix go (l : list ent) : Prop := match l with [] => True | c :: r => tree_names_ok c /\ go r end) kids
  end.

Lemma tree_names_kids id k name p kids :
  tree_names_ok (Ent id k name p kids) ->
  NoDup (map slot_key kids) /\ (forall c, In c kids -> tree_names_ok c).
Proof.
  simpl. intros [ND H]. split; [exact ND|].
  induction kids as [|x r IH]; intros c []; subst.
  - apply H.
  - destruct H as [_ H]. inversion ND; subst. now apply IH.
Qed.

Lemma nodup_map_inj {X Y} (f : X -> Y) l a b :
  NoDup (map f l) -> In a l -> In b l -> f a = f b -> a = b.
Proof.
  induction l as [|x l IH]; intros ND Ha Hb E; [destruct Ha|].
  simpl in ND. inversion ND as [|? ? Hn ND']; subst.
  destruct Ha as [<-|Ha]; destruct Hb as [<-|Hb]; auto.
  - exfalso. apply Hn. rewrite E. now apply in_map.
  - exfalso. apply Hn. rewrite <- E. now apply in_map.
Qed.

(* ================================================================= slot_child on an imported node *)

Lemma slot_child_node b k name url p dx lx k' n :
  slot_child (node_x b k name url p dx lx) (slot_of k') n
  = if str_in (slot_of k') (list_slots k)
    then find (fun o => match x_name o with JStr y => str_eqb (lower y) (lower n) | _ => false end)
              (lx (slot_of k'))
    else None.
Proof. destruct k, k'; reflexivity. Qed.

Lemma find_map {X Y} (P : Y -> bool) (f : X -> Y) l :
  find P (map f l) = option_map f (find (fun x => P (f x)) l).
Proof. induction l as [|x l IH]; simpl; [reflexivity|]. destruct (P (f x)); [reflexivity|exact IH]. Qed.

Definition path_kids (idf : nat -> str) (b : base) (k : kind) (url : option str) (x : xval) : list ent -> bool :=
  fix go (l : list ent) : bool :=
    match l with
    | [] => true
    | c :: r =>
      match slot_child x (slot_of (e_kind c)) (e_name c) with
      | Some xc => path_ok idf b (Some k) url c xc
      | None => true
      end && go r
    end.

Lemma path_ok_eq idf b pk purl id k name p kids x :
  is_alias_node k kids = false ->
  path_ok idf b pk purl (Ent id k name p kids) x =
  (let url := own_url pk purl k (idf id) in
   match url, x_url x with
   | Some u, JStr xu => str_eqb xu (spec_join b u)
   | Some _, _ => false
   | None, _ => true
   end && path_kids idf b k url x kids).
Proof. destruct k, kids; simpl; intros H; try discriminate; reflexivity. Qed.

Lemma path_ok_alias idf b pk purl id name p t r x :
  path_ok idf b pk purl (Ent id KAlias name p (t :: r)) x
  = path_ok idf b (Some KModule) (own_url None None KModule (idf id)) t x.
Proof. reflexivity. Qed.

Lemma list_slot_not_alias k c :
  str_in (slot_of (e_kind c)) (list_slots k) = true -> alias_target c = None.
Proof.
  destruct c as [i kc n p l]. destruct kc; try reflexivity. destruct k; simpl; discriminate.
Qed.

Lemma path_kids_all idf b k url x kids :
  (forall c, In c kids ->
     match slot_child x (slot_of (e_kind c)) (e_name c) with
     | Some xc => path_ok idf b (Some k) url c xc = true
     | None => True
     end) ->
  path_kids idf b k url x kids = true.
Proof.
  induction kids as [|c r IH]; intros H; simpl; [reflexivity|].
  rewrite IH by (intros c' Hc; apply H; now right).
  specialize (H c (or_introl eq_refl)).
  destruct (slot_child x (slot_of (e_kind c)) (e_name c)); [now rewrite H|reflexivity].
Qed.

(* ================================================================= the theorem *)

Theorem path_ok_xlate idf cfg b e :
  base_ok b -> (forall i, no_slash (idf i) = true) ->
  forall pk purl kept, tree_names_ok e -> purl_ok purl ->
    path_ok idf b pk purl e (xlate idf cfg b pk purl kept e) = true.
Proof.
  intros Hb N. induction e as [id k name p kids IH] using ent_rect'.
  intros pk purl kept T P.
  destruct (tree_names_kids _ _ _ _ _ T) as [ND TK].
  destruct (is_alias_node k kids) eqn:AL.
  { destruct (is_alias_node_cases _ _ AL) as (t & r & -> & ->).
    rewrite path_ok_alias, xlate_alias. inversion IH as [|? ? IHt _]; subst.
    apply IHt; [apply TK; now left|].
    simpl. eapply (own_url_shaped idf None None KModule id); eauto. exact I. }
  rewrite path_ok_eq, xlate_eq by assumption. cbv zeta.
  set (url := own_url pk purl k (idf id)).
  assert (PU : purl_ok url).
  { unfold url. destruct (own_url pk purl k (idf id)) as [u|] eqn:E; [|exact I].
    simpl. eapply own_url_shaped; eauto. }
  match goal with
  | |- context [node_x b k name url p ?dx ?lx] => set (DX := dx); set (LX := lx)
  end.
  apply andb_true_iff. split.
  - unfold node_x. cbn [x_url]. destruct url as [u|] eqn:E; [|reflexivity].
    simpl url_rel. rewrite (rebase_shaped b u Hb PU). apply str_eqb_refl.
  - apply path_kids_all. intros c Hc.
    rewrite slot_child_node.
    destruct (str_in (slot_of (e_kind c)) (list_slots k)) eqn:SI; [|exact I].
    unfold LX. rewrite sel_map_filter, find_map.
    destruct (find _ (filter _ kids)) as [c'|] eqn:F; [|exact I].
    simpl. apply find_some in F as [Hf Hn].
    apply filter_In in Hf as [Hc' Sel].
    unfold list_sel in Sel. apply andb_true_iff in Sel as [Sl _]. apply str_eqb_eq in Sl.
    rewrite x_name_xlate in Hn by (apply (list_slot_not_alias k); now rewrite Sl).
    apply str_eqb_eq in Hn.
    assert (c' = c).
    { apply (nodup_map_inj slot_key kids); auto. unfold slot_key. now rewrite Sl, Hn. }
    subst c'. rewrite Forall_forall in IH. apply IH; auto.
Qed.

Lemma Forall2_map_r {X Y} (R : X -> Y -> Prop) (f : X -> Y) l :
  (forall x, In x l -> R x (f x)) -> Forall2 R l (map f l).
Proof.
  induction l as [|x l IH]; intros H; simpl; constructor.
  - apply H. now left.
  - apply IH. intros y Hy. apply H. now right.
Qed.

(* everything B holds after loading what A exported, at every path of A's entity trees *)
Theorem roundtrip_paths A b v :
  base_ok b -> Forall tree_names_ok (a_modules A) ->
  exists tops, load_json b (export A v) = Ok tops /\
    Forall2 (fun m x => path_ok (ident_of A) b None None m x = true) (a_modules A) tops.
Proof.
  intros Hb T. exists (xmods A b). split; [apply load_json_export|].
  unfold xmods. apply Forall2_map_r. intros m Hm. rewrite Forall_forall in T.
  apply path_ok_xlate; auto using ident_of_noslash. exact I.
Qed.

(* ... and under every object a USE of B imports *)
Theorem roundtrip_paths_use A b v locals m e w :
  wf_A A -> base_ok b -> tree_names_ok m ->
  In m (a_modules A) -> In e (e_kids m) -> accessible e = true ->
  shown (c_display (a_cfg A)) e = true -> pub_class (e_kind e) = Some w ->
  lower_in (e_name m) locals = false ->
  exists tops xm x,
    load_json b (export A v) = Ok tops /\
    find_used_module locals tops (e_name m) = Ok (Some (HExt xm)) /\
    used_lookup xm w (e_name e) = Ok (Some x) /\
    path_ok (ident_of A) b (Some KModule) (module_url (ident_of A) m) e x = true.
Proof.
  intros W Hb T Hm He Ha Hs Hp Hl.
  pose proof (wf_kinds A W) as WK. rewrite Forall_forall in WK. destruct (WK m Hm) as [Km _].
  pose proof (wf_names A W) as WN. rewrite Forall_forall in WN. specialize (WN m Hm).
  destruct m as [id k name p kids]. simpl in Km, He. subst k.
  destruct (tree_names_kids _ _ _ _ _ T) as [_ TK].
  exists (xmods A b), (xlate (ident_of A) (a_cfg A) b None None true (Ent id KModule name p kids)),
         (xlate (ident_of A) (a_cfg A) b (Some KModule) (own_url None None KModule (ident_of A id)) true e).
  split; [apply load_json_export|].
  split; [now apply use_module_roundtrip|].
  split; [now apply used_lookup_roundtrip|].
  unfold module_url. simpl e_kind. simpl e_id.
  apply path_ok_xlate; auto using ident_of_noslash.
  simpl. eapply (own_url_shaped (ident_of A) None None KModule id); auto using ident_of_noslash. exact I.
Qed.

(* non-vacuity: two types of one module with equally named component and binding *)
Definition A_twin : aproject :=
  {| a_modules :=
       [Ent 1 KModule (s "shapes") Public
          [Ent 2 KType (s "circle_t") Public
             [Ent 3 KVar (s "size") Public []; Ent 4 KBound (s "area") Public []];
           Ent 5 KType (s "square_t") Public
             [Ent 6 KVar (s "size") Public []; Ent 7 KBound (s "area") Public []];
           Ent 8 KSubroutine (s "carea") Public [Ent 10 KVar (s "tmp") Public []];
           Ent 9 KSubroutine (s "sarea") Public [Ent 11 KVar (s "tmp") Public []]]];
     a_cfg := cfg_default; a_pre := [] |}.

Example roundtrip_paths_ex :
  Forall tree_names_ok (a_modules A_twin) /\ wf_A A_twin /\ base_ok (BLocal (s "/srv/a/doc")) /\
  (exists tops xm xt,
     load_json (BLocal (s "/srv/a/doc")) (export A_twin []) = Ok tops /\
     find_used_module [] tops (s "shapes") = Ok (Some (HExt xm)) /\
     used_lookup xm (s "pub_types") (s "square_t") = Ok (Some xt) /\
     option_map x_url (slot_child xt (s "variables") (s "size"))
       = Some (JStr (s "/srv/a/doc/type/square_t.html#variable-size~2")) /\
     option_map x_url (slot_child xt (s "boundprocs") (s "area"))
       = Some (JStr (s "/srv/a/doc/type/square_t.html#boundprocedure-area~2")) /\
     forallb (fun mx => path_ok (ident_of A_twin) (BLocal (s "/srv/a/doc")) None None (fst mx) (snd mx))
             (combine (a_modules A_twin) tops) = true).
Proof.
  split; [|split; [|split; [exact I|]]].
  - repeat constructor; simpl; intuition discriminate.
  - split.
    + repeat constructor.
    + vm_compute. repeat constructor; simpl; intuition discriminate.
    + repeat constructor; intros w H; unfold PUB_DICTS in H; simpl in H;
        destruct H as [<-|[<-|[<-|[<-|[]]]]]; vm_compute; repeat constructor; simpl; intuition discriminate.
  - do 3 eexists. vm_compute. repeat split; reflexivity.
Qed.

(* ================================================================= names for entities of other modules *)

(* Module m of A makes entity t of module ms accessible again under the name [local] (alias node a).
   B says `use m, only: local`: it gets the object of t - t's own name, base / (A's own URL of t, on
   ms's side), and the right URLs at every path below it - whatever other entities are called. *)
Theorem roundtrip_reexport A b v locals m ms mid local pa t r w :
  let a := Ent mid KAlias local pa (t :: r) in
  wf_A A -> base_ok b ->
  In m (a_modules A) -> In a (e_kids m) -> accessible a = true ->
  shown (c_display (a_cfg A)) t = true -> pub_class (e_kind t) = Some w ->
  lower_in (e_name m) locals = false ->
  In ms (a_modules A) -> e_id ms = mid -> In t (e_kids ms) -> tree_names_ok t ->
  exists tops xm x u,
    load_json b (export A v) = Ok tops /\
    find_used_module locals tops (e_name m) = Ok (Some (HExt xm)) /\
    used_lookup xm w local = Ok (Some x) /\
    x_name x = JStr (e_name t) /\
    kid_url (ident_of A) ms t = Some u /\ x_url x = JStr (spec_join b u) /\
    path_ok (ident_of A) b (Some KModule) (module_url (ident_of A) ms) t x = true.
Proof.
  intros a W Hb Hm Ha Hacc Hs Hp Hl Hms Hid Ht T.
  pose proof (wf_kinds A W) as WK. rewrite Forall_forall in WK.
  destruct (WK m Hm) as [Km _]. destruct (WK ms Hms) as [Kms _].
  pose proof (wf_names A W) as WN. rewrite Forall_forall in WN. specialize (WN m Hm).
  destruct (kid_url_some (ident_of A) ms t w Kms Hp) as (u & Hu).
  pose proof (not_alias_of_class t w Hp) as NAt.
  destruct m as [id k name p kids]. simpl in Km, Ha. subst k.
  exists (xmods A b), (xlate (ident_of A) (a_cfg A) b None None true (Ent id KModule name p kids)),
         (xlate (ident_of A) (a_cfg A) b (Some KModule) (own_url None None KModule (ident_of A mid)) true t), u.
  split; [apply load_json_export|].
  split; [now apply use_module_roundtrip|].
  split; [now apply (used_lookup_alias (ident_of A) (a_cfg A) b id name p kids mid local pa t r w)|].
  split; [now apply x_name_xlate|].
  split; [exact Hu|].
  assert (EU : own_url (Some KModule) (own_url None None KModule (ident_of A mid)) (e_kind t) (ident_of A (e_id t)) = Some u).
  { unfold kid_url in Hu. rewrite Kms, Hid in Hu. exact Hu. }
  split.
  - rewrite x_url_xlate by assumption. rewrite EU. simpl url_rel. f_equal.
    apply (rebase_kid_url (ident_of A) b ms t); auto using ident_of_noslash.
  - unfold module_url. rewrite Kms, Hid.
    apply path_ok_xlate; auto using ident_of_noslash.
    simpl. eapply (own_url_shaped (ident_of A) None None KModule mid); auto using ident_of_noslash. exact I.
Qed.

(* non-vacuity, and the scenario itself: v1_mod and v2_mod both have a type grid_t; the facade api_mod
   makes v2_mod's accessible as grid_t, v1_mod's as grid_legacy_t, and v2_mod's make_grid as new_grid *)
Definition v1_grid : ent := Ent 2 KType (s "grid_t") Public [Ent 3 KVar (s "n") Public []].
Definition v2_grid : ent := Ent 5 KType (s "grid_t") Public [Ent 6 KVar (s "n") Public []].
Definition v2_make : ent := Ent 7 KFunction (s "make_grid") Public [].
Definition A_facade : aproject :=
  {| a_modules :=
       [Ent 1 KModule (s "v1_mod") Public [v1_grid];
        Ent 4 KModule (s "v2_mod") Public [v2_grid; v2_make];
        Ent 8 KModule (s "api_mod") Public
          [Ent 4 KAlias (s "new_grid") Public [v2_make];
           Ent 4 KAlias (s "grid_t") Public [v2_grid];
           Ent 1 KAlias (s "grid_legacy_t") Public [v1_grid]]];
     a_cfg := cfg_default; a_pre := [] |}.

Lemma wf_A_facade : wf_A A_facade.
Proof.
  split.
  - repeat constructor.
  - vm_compute. repeat constructor; simpl; intuition discriminate.
  - repeat constructor; intros w H; unfold PUB_DICTS in H; simpl in H;
      destruct H as [<-|[<-|[<-|[<-|[]]]]]; vm_compute; repeat constructor; simpl; intuition discriminate.
Qed.

Example reexport_ex :
  wf_A A_facade /\ Forall (fun m => aliases_legal m) (a_modules A_facade) /\
  (* the description keeps the local names as keys, with the entities' own names inside *)
  jkeys (jget (s "pub_types") (nth 2 (jlist (jget (s "modules") (export A_facade []))) JNull))
    = [s "grid_t"; s "grid_legacy_t"] /\
  (exists tops xm xa xb xc,
     load_json (BLocal (s "/srv/a/doc")) (export A_facade []) = Ok tops /\
     find_used_module [] tops (s "api_mod") = Ok (Some (HExt xm)) /\
     used_lookup xm (s "pub_types") (s "grid_t") = Ok (Some xa) /\
     used_lookup xm (s "pub_types") (s "grid_legacy_t") = Ok (Some xb) /\
     used_lookup xm (s "pub_procs") (s "new_grid") = Ok (Some xc) /\
     x_name xb = JStr (s "grid_t") /\ x_name xc = JStr (s "make_grid") /\
     x_url xa = JStr (s "/srv/a/doc/type/grid_t~2.html") /\
     x_url xb = JStr (s "/srv/a/doc/type/grid_t.html") /\
     x_url xc = JStr (s "/srv/a/doc/proc/make_grid.html") /\
     used_lookup xm (s "pub_procs") (s "make_grid") = Ok None).
Proof.
  split; [exact wf_A_facade|]. split.
  - repeat constructor; intros c t Hc AT; simpl in Hc;
      repeat (destruct Hc as [<-|Hc]; [simpl in AT; try discriminate; injection AT as <-; reflexivity|]);
      destruct Hc.
  - split; [reflexivity|]. do 5 eexists. vm_compute. repeat split; reflexivity.
Qed.

Lemma witnesses_legal :
  Forall (fun m => e_kind m = KModule /\ aliases_legal m) (a_modules A_private_listed) /\
  Forall (fun m => e_kind m = KModule /\ aliases_legal m) (a_modules A_private_only).
Proof.
  split; repeat constructor; intros c t Hc AT; simpl in Hc;
    repeat (destruct Hc as [<-|Hc]; [discriminate AT|]); destruct Hc.
Qed.
