(* Out/ExternalProofs.v — proofs for C16 (model Out/External.v, spec Out/ExternalSpec.v). *)
From Ford Require Import Base.Str Base.StrFacts Base.Path Out.Names Out.NamesProofs Out.External Out.ExternalSpec.
From Coq Require Import Lia.

Local Arguments Nat.div : simpl never.

(* ================================================================= induction over entities *)

Fixpoint ent_rect' (P : ent -> Prop)
         (H : forall id k name p kids, Forall P kids -> P (Ent id k name p kids)) (e : ent) : P e :=
  match e with
  | Ent id k name p kids =>
    H id k name p kids
      ((fix go (l : list ent) : Forall P l :=
          match l with
          | [] => Forall_nil P
          | c :: r => Forall_cons c (ent_rect' P H c) (go r)
          end) kids)
  end.

(* ================================================================= what B should hold after loading *)

Definition cls_of (k : kind) : xcls :=
  match k with
  | KModule => XModule | KFunction => XFunction | KSubroutine => XSubroutine
  | KGeneric | KAbsInt => XInterface | KType => XType | KVar => XVariable | KBound => XBound
  end.

Definition url_rel (u : option str) : str := match u with Some x => x | None => s "None" end.

(* the External* object for an object of class k *)
Definition node_x (b : base) (k : kind) (name : str) (url : option str) (p : perm)
           (dx : str -> list (str * xval)) (lx : str -> list xval) : xval :=
  XO (cls_of k) (JStr name) (JStr (rebase b (url_rel url)))
     (canon_attrs (cls_of k)
        (match proctype_str k with Some t => [(s "proctype", XV (JStr t))] | None => [] end
         ++ map (fun sl => (sl, XD (dx sl))) (dict_slots k)
         ++ map (fun sl => (sl, XL (lx sl))) (list_slots k)
         ++ [(s "permission", XV (JStr (perm_str p)))])).

(* the image of entity e in B: same shape as the export, External* objects instead of dicts,
   every URL re-based *)
Fixpoint xlate (idf : nat -> str) (cfg : acfg) (b : base) (pk : option kind) (purl : option str)
         (kept : bool) (e : ent) {struct e} : xval :=
  match e with
  | Ent id k name p kids =>
    let url := own_url pk purl k (idf id) in
    let lst (slot : str) : list xval :=
      (fix go (l : list ent) : list xval :=
         match l with
         | [] => []
         | c :: r =>
           if str_eqb (slot_of (e_kind c)) slot && listed cfg kept k c
           then xlate idf cfg b (Some k) url kept c :: go r
           else go r
         end) kids in
    let dct_of (k' : kind) : list (str * xval) :=
      (fix go (l : list ent) : list (str * xval) :=
         match l with
         | [] => []
         | c :: r =>
           if kind_eqb (e_kind c) k' && accessible c
           then (lower (e_name c), xlate idf cfg b (Some k) url (shown (c_display cfg) c) c) :: go r
           else go r
         end) kids in
    let dct (slot : str) : list (str * xval) :=
      flat_map (fun k' => if opt_eqb str_eqb (pub_class k') (Some slot) then dct_of k' else []) PUB_KINDS in
    node_x b k name url p dct lst
  end.

(* ================================================================= small facts *)

Lemma after_first_slash_url_text u : after_first_slash (url_text u) = url_rel u.
Proof. reflexivity. Qed.

Lemma truthy_url_text u : truthy (JStr (url_text u)) = true.
Proof. reflexivity. Qed.

Lemma bind_ok {A B} (x : res A) (f : A -> res B) a : x = Ok a -> bind x f = f a.
Proof. intros ->. reflexivity. Qed.

(* ================================================================= dict2obj of an exported node *)

Lemma import_node_entries b rec k name url p dv lv dx lx :
  (forall sl, In sl (dict_slots k) -> import_pairs rec (dv sl) = Ok (dx sl)) ->
  (forall sl, In sl (list_slots k) -> import_items rec (lv sl) = Ok (lx sl)) ->
  import_node b rec (node_entries k name url p dv lv) = Ok (node_x b k name url p dx lx).
Proof.
  intros HD HL.
  unfold import_node, node_entries, node_x.
  set (U := url_text url).
  assert (EU : after_first_slash U = url_rel url) by reflexivity.
  assert (TU : truthy (JStr U) = true) by reflexivity.
  destruct k; cbn [proctype_str dict_slots list_slots obj_str map app assoc_get str_eqb s
                  list_ascii_of_string Ascii.eqb Bool.eqb andb];
    rewrite TU, EU; cbn.
Abort.
