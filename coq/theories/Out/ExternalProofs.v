(* Out/ExternalProofs.v — proofs for C16 (model Out/External.v, spec Out/ExternalSpec.v). *)
From Ford Require Import Base.Str Base.StrFacts Base.Path Out.Names Out.NamesProofs Out.External Out.ExternalSpec.
From Coq Require Import Lia.

Local Arguments Nat.div : simpl never.

(* ================================================================= induction over entities *)

Fixpoint ent_rect' (P : ent -> Prop)
         (H : forall id k name p kids, Forall P kids -> P (Ent id k name p kids)) (e : ent) : P e :=
  match e with
  | Ent id k name p kids =>
    H id k name p kids
      ((fix go (l : list ent) : Forall P l :=
          match l with
          | [] => Forall_nil P
          | c :: r => Forall_cons c (ent_rect' P H c) (go r)
          end) kids)
  end.

(* ================================================================= what B should hold after loading *)

Definition cls_of (k : kind) : xcls :=
  match k with
  | KModule => XModule | KFunction => XFunction | KSubroutine => XSubroutine
  | KGeneric | KAbsInt => XInterface | KType => XType | KVar => XVariable | KBound => XBound
  end.

Definition url_rel (u : option str) : str := match u with Some x => x | None => s "None" end.

(* the External* object for an object of class k *)
Definition node_x (b : base) (k : kind) (name : str) (url : option str) (p : perm)
           (dx : str -> list (str * xval)) (lx : str -> list xval) : xval :=
  XO (cls_of k) (JStr name) (JStr (rebase b (url_rel url)))
     (canon_attrs (cls_of k)
        ((* only ExternalInterface objects get a proctype attribute *)
         match proctype_str k with
         | Some t => if xcls_eqb (cls_of k) XInterface then [(s "proctype", XV (JStr t))] else []
         | None => []
         end
         ++ map (fun sl => (sl, XD (dx sl))) (dict_slots k)
         ++ map (fun sl => (sl, XL (lx sl))) (list_slots k)
         ++ [(s "permission", XV (JStr (perm_str p)))])).

(* the image of entity e in B: same shape as the export, External* objects instead of dicts,
   every URL re-based *)
Fixpoint xlate (idf : nat -> str) (cfg : acfg) (b : base) (pk : option kind) (purl : option str)
         (kept : bool) (e : ent) {struct e} : xval :=
  match e with
  | Ent id k name p kids =>
    let url := own_url pk purl k (idf id) in
    let lst (slot : str) : list xval :=
      (fix go (l : list ent) : list xval :=
         match l with
         | [] => []
         | c :: r =>
           if str_eqb (slot_of (e_kind c)) slot && listed cfg kept k c
           then xlate idf cfg b (Some k) url kept c :: go r
           else go r
         end) kids in
    let dct_of (k' : kind) : list (str * xval) :=
      (fix go (l : list ent) : list (str * xval) :=
         match l with
         | [] => []
         | c :: r =>
           if kind_eqb (e_kind c) k' && accessible c
           then (lower (e_name c), xlate idf cfg b (Some k) url (shown (c_display cfg) c) c) :: go r
           else go r
         end) kids in
    let dct (slot : str) : list (str * xval) :=
      flat_map (fun k' => if opt_eqb str_eqb (pub_class k') (Some slot) then dct_of k' else []) PUB_KINDS in
    node_x b k name url p dct lst
  end.

(* ================================================================= small facts *)

Lemma after_first_slash_url_text u : after_first_slash (url_text u) = url_rel u.
Proof. reflexivity. Qed.

Lemma truthy_url_text u : truthy (JStr (url_text u)) = true.
Proof. reflexivity. Qed.

Lemma bind_ok {A B} (x : res A) (f : A -> res B) a : x = Ok a -> bind x f = f a.
Proof. intros ->. reflexivity. Qed.

(* ================================================================= dict2obj of an exported node *)

Definition EC (t : str) : option xcls := entity_class (lower t).
Lemma EC_kind k : EC (match proctype_str k with Some t => t | None => obj_str k end) = Some (cls_of k).
Proof. destruct k; reflexivity. Qed.

Lemma import_node_entries b rec k name url p dv lv dx lx :
  (forall sl, In sl (dict_slots k) -> import_pairs rec (dv sl) = Ok (dx sl)) ->
  (forall sl, In sl (list_slots k) -> import_items rec (lv sl) = Ok (lx sl)) ->
  import_node b rec (node_entries k name url p dv lv) = Ok (node_x b k name url p dx lx).
Proof.
  intros HD HL.
  unfold import_node, node_entries, node_x.
  change (entity_class (lower ?t)) with (EC t).
  set (U := url_text url).
  assert (EU : after_first_slash U = url_rel url) by reflexivity.
  assert (TU : negb (str_eqb U []) = true) by reflexivity.
  clearbody U.
  set (R := rebase b) in *. clearbody R.
  pose proof (EC_kind k) as HEC.
  destruct k;
    cbn -[import_pairs import_items canon_attrs EC] in *; rewrite TU;
    cbn -[import_pairs import_items canon_attrs EC]; rewrite HEC;
    cbn -[import_pairs import_items canon_attrs EC];
    rewrite ?HD, ?HL by tauto; cbn -[canon_attrs]; rewrite ?EU; reflexivity.
Qed.

(* ================================================================= filtered maps over the kids *)

Definition sel_map {X} (sel : ent -> bool) (f : ent -> X) : list ent -> list X :=
  fix go (l : list ent) : list X :=
    match l with
    | [] => []
    | c :: r => if sel c then f c :: go r else go r
    end.

Lemma sel_map_in {X} sel (f : ent -> X) l c : In c l -> sel c = true -> In (f c) (sel_map sel f l).
Proof.
  induction l as [|x l IH]; simpl; [tauto|].
  intros [->|H] S.
  - rewrite S. now left.
  - destruct (sel x); [right|]; auto.
Qed.

Lemma sel_map_in_inv {X} sel (f : ent -> X) l y :
  In y (sel_map sel f l) -> exists c, In c l /\ sel c = true /\ y = f c.
Proof.
  induction l as [|x l IH]; simpl; [tauto|].
  destruct (sel x) eqn:S.
  - intros [<-|H]; [exists x; auto|]. destruct (IH H) as (c & A & B & C). exists c; auto.
  - intros H. destruct (IH H) as (c & A & B & C). exists c; auto.
Qed.

Definition dict_sel (k' : kind) (c : ent) : bool := kind_eqb (e_kind c) k' && accessible c.
Definition list_sel (cfg : acfg) (kept : bool) (k : kind) (slot : str) (c : ent) : bool :=
  str_eqb (slot_of (e_kind c)) slot && listed cfg kept k c.

Lemma export_ent_eq idf cfg pk purl kept id k name p kids :
  export_ent idf cfg pk purl kept (Ent id k name p kids) =
  let url := own_url pk purl k (idf id) in
  JDict (node_entries k name url p
    (fun slot => flat_map (fun k' => if opt_eqb str_eqb (pub_class k') (Some slot)
                                     then sel_map (dict_sel k')
                                            (fun c => (lower (e_name c),
                                                       export_ent idf cfg (Some k) url (shown (c_display cfg) c) c)) kids
                                     else []) PUB_KINDS)
    (fun slot => sel_map (list_sel cfg kept k slot) (export_ent idf cfg (Some k) url kept) kids)).
Proof. reflexivity. Qed.

Lemma xlate_eq idf cfg b pk purl kept id k name p kids :
  xlate idf cfg b pk purl kept (Ent id k name p kids) =
  let url := own_url pk purl k (idf id) in
  node_x b k name url p
    (fun slot => flat_map (fun k' => if opt_eqb str_eqb (pub_class k') (Some slot)
                                     then sel_map (dict_sel k')
                                            (fun c => (lower (e_name c),
                                                       xlate idf cfg b (Some k) url (shown (c_display cfg) c) c)) kids
                                     else []) PUB_KINDS)
    (fun slot => sel_map (list_sel cfg kept k slot) (xlate idf cfg b (Some k) url kept) kids).
Proof. reflexivity. Qed.

(* ================================================================= sizes *)

Lemma jsize_pos j : 1 <= jsize j.
Proof. destruct j; simpl; lia. Qed.

Lemma jsize_in_list x l : In x l -> jsize x < jsize (JList l).
Proof.
  simpl. induction l as [|y l IH]; simpl; [tauto|].
  intros [->|H]; [lia|]. specialize (IH H). lia.
Qed.

Lemma jsize_in_dict k v d : In (k, v) d -> jsize v < jsize (JDict d).
Proof.
  simpl. induction d as [|[k' y] d IH]; simpl; [tauto|].
  intros [E|H]; [injection E as -> ->; lia|]. specialize (IH H). lia.
Qed.

Lemma list_slot_entry k name url p dv lv sl :
  In sl (list_slots k) -> In (sl, JList (lv sl)) (node_entries k name url p dv lv).
Proof.
  intros H. unfold node_entries. apply in_or_app. right. apply in_or_app. right.
  apply in_or_app. right. apply in_or_app. left.
  apply in_map_iff. exists sl. auto.
Qed.
Lemma dict_slot_entry k name url p dv lv sl :
  In sl (dict_slots k) -> In (sl, JDict (dv sl)) (node_entries k name url p dv lv).
Proof.
  intros H. unfold node_entries. apply in_or_app. right. apply in_or_app. right.
  apply in_or_app. left. apply in_map_iff. exists sl. auto.
Qed.

(* ================================================================= lists and dicts of imports *)

Lemma import_items_sel rec sel (f : ent -> json) (g : ent -> xval) kids :
  (forall c, In c kids -> sel c = true -> truthy (f c) = true /\ rec (f c) = Ok (g c)) ->
  import_items rec (sel_map sel f kids) = Ok (sel_map sel g kids).
Proof.
  induction kids as [|c r IH]; intros H; simpl; [reflexivity|].
  destruct (sel c) eqn:S.
  - simpl. destruct (H c (or_introl eq_refl) S) as [T E]. rewrite T, E. simpl.
    rewrite IH; [reflexivity|]. intros c' Hc. apply H. now right.
  - apply IH. intros c' Hc. apply H. now right.
Qed.

Lemma import_pairs_sel rec sel (kf : ent -> str) (f : ent -> json) (g : ent -> xval) kids :
  (forall c, In c kids -> sel c = true -> truthy (f c) = true /\ rec (f c) = Ok (g c)) ->
  import_pairs rec (sel_map sel (fun c => (kf c, f c)) kids) = Ok (sel_map sel (fun c => (kf c, g c)) kids).
Proof.
  induction kids as [|c r IH]; intros H; simpl; [reflexivity|].
  destruct (sel c) eqn:S.
  - simpl. destruct (H c (or_introl eq_refl) S) as [T E]. rewrite T, E. simpl.
    rewrite IH; [reflexivity|]. intros c' Hc. apply H. now right.
  - apply IH. intros c' Hc. apply H. now right.
Qed.

Lemma import_pairs_app rec a b xa xb :
  import_pairs rec a = Ok xa -> import_pairs rec b = Ok xb -> import_pairs rec (a ++ b) = Ok (xa ++ xb).
Proof.
  revert xa. induction a as [|[k x] a IH]; intros xa; simpl.
  - intros [= <-] Hb. exact Hb.
  - destruct (truthy x).
    + destruct (rec x) as [v|e]; simpl; [|discriminate].
      destruct (import_pairs rec a) as [vs|e] eqn:E; simpl; [|discriminate].
      intros [= <-] Hb. rewrite (IH vs eq_refl Hb). reflexivity.
    + intros Ha Hb. now apply IH.
Qed.

Lemma import_pairs_flat {K} rec (F : K -> list (str * json)) (G : K -> list (str * xval)) ks :
  (forall k, In k ks -> import_pairs rec (F k) = Ok (G k)) ->
  import_pairs rec (flat_map F ks) = Ok (flat_map G ks).
Proof.
  induction ks as [|k ks IH]; intros H; simpl; [reflexivity|].
  apply import_pairs_app; [apply H; now left|]. apply IH. intros k' Hk. apply H. now right.
Qed.

Lemma truthy_export idf cfg pk purl kept e : truthy (export_ent idf cfg pk purl kept e) = true.
Proof. destruct e. reflexivity. Qed.

(* ================================================================= import (export e) *)

Theorem import_export_ent idf cfg b e :
  forall n pk purl kept,
    jsize (export_ent idf cfg pk purl kept e) <= n ->
    import_fuel n b (export_ent idf cfg pk purl kept e) = Ok (xlate idf cfg b pk purl kept e).
Proof.
  induction e as [id k name p kids IH] using ent_rect'.
  intros n pk purl kept Hn.
  rewrite export_ent_eq in *. rewrite xlate_eq. cbv zeta in *.
  set (url := own_url pk purl k (idf id)) in *.
  match goal with
  | |- context [node_entries k name url p ?dv ?lv] => set (DV := dv) in *; set (LV := lv) in *
  end.
  destruct n as [|n]; [pose proof (jsize_pos (JDict (node_entries k name url p DV LV))); lia|].
  cbn [import_fuel].
  rewrite Forall_forall in IH.
  apply import_node_entries.
  - intros sl Hsl.
    pose proof (jsize_in_dict _ _ _ (dict_slot_entry k name url p DV LV sl Hsl)) as L2.
    unfold DV at 1. unfold DV at 1 in L2.
    apply import_pairs_flat. intros k' Hk'.
    destruct (opt_eqb str_eqb (pub_class k') (Some sl)) eqn:Ek; [|reflexivity].
    apply import_pairs_sel. intros c Hc Sc. split; [apply truthy_export|].
    apply IH; [exact Hc|].
    match type of L2 with
    | jsize (JDict ?d) < _ =>
      assert (L : jsize (export_ent idf cfg (Some k) url (shown (c_display cfg) c) c) < jsize (JDict d))
    end.
    { apply (jsize_in_dict (lower (e_name c))). apply in_flat_map. exists k'. split.
      - exact Hk'.
      - rewrite Ek. apply (sel_map_in (dict_sel k') (fun c0 => (lower (e_name c0), _)) kids c Hc Sc). }
    lia.
  - intros sl Hsl.
    pose proof (jsize_in_dict _ _ _ (list_slot_entry k name url p DV LV sl Hsl)) as L2.
    unfold LV at 1. unfold LV at 1 in L2.
    apply import_items_sel. intros c Hc Sc. split; [apply truthy_export|].
    apply IH; [exact Hc|].
    pose proof (jsize_in_list _ _ (sel_map_in (list_sel cfg kept k sl) (export_ent idf cfg (Some k) url kept) kids c Hc Sc)) as L.
    lia.
Qed.

(* ================================================================= loading what A exported *)

Definition xmods (A : aproject) (b : base) : list xval :=
  map (xlate (ident_of A) (a_cfg A) b None None true) (a_modules A).

Lemma import_all_map idf cfg b mods :
  import_all b (map (export_ent idf cfg None None true) mods)
  = Ok (map (xlate idf cfg b None None true) mods).
Proof.
  induction mods as [|m r IH]; simpl; [reflexivity|].
  unfold import_val. rewrite import_export_ent by lia. simpl. rewrite IH. reflexivity.
Qed.

Theorem load_json_export A b v : load_json b (export A v) = Ok (xmods A b).
Proof. unfold load_json, export, xmods. cbn -[import_all]. apply import_all_map. Qed.

(* the five ways B can be told where A's documentation is, all with a readable description *)
Theorem load_export_local A d v : load (SLocal d (LJson (export A v))) = OLoaded (xmods A (BLocal d)).
Proof. unfold load. rewrite load_json_export. reflexivity. Qed.
Theorem load_export_remote A u v :
  load (SRemote u (RJson (export A v))) = OLoaded (xmods A (BRemote (with_slash u))).
Proof. unfold load. rewrite load_json_export. reflexivity. Qed.

(* ================================================================= attributes of an imported module *)

Lemma module_pub_attr b name url p dx lx w :
  In w PUB_DICTS ->
  assoc_get w (x_attrs (node_x b KModule name url p dx lx)) = Some (XD (dx w)).
Proof.
  intros H. unfold PUB_DICTS in H. simpl in H.
  destruct H as [<-|[<-|[<-|[<-|[]]]]]; reflexivity.
Qed.

Lemma module_pub_all b name url p dx lx :
  forallb (fun w => match assoc_get w (x_attrs (node_x b KModule name url p dx lx)) with
                    | Some (XD _) => true | _ => false end) PUB_DICTS = true.
Proof. reflexivity. Qed.

(* ================================================================= lower *)

Lemma lower_ch_idem c : lower_ch (lower_ch c) = lower_ch c.
Proof. destruct c as [[] [] [] [] [] [] [] []]; reflexivity. Qed.
Lemma lower_idem x : lower (lower x) = lower x.
Proof. unfold lower. rewrite map_map. apply map_ext. intros c. apply lower_ch_idem. Qed.

(* ================================================================= the last match in a dict with distinct keys *)

Definition last_match (n : str) (l : list (str * xval)) : option xval :=
  fold_left (fun acc kv => if str_eqb (lower (fst kv)) (lower n) then Some (snd kv) else acc) l None.

Lemma fold_last_none n (l : list (str * xval)) (acc : option xval) :
  (forall kv, In kv l -> str_eqb (lower (fst kv)) (lower n) = false) ->
  fold_left (fun acc kv => if str_eqb (lower (fst kv)) (lower n) then Some (snd kv) else acc) l acc = acc.
Proof.
  revert acc. induction l as [|kv l IH]; intros acc H; simpl; [reflexivity|].
  rewrite (H kv (or_introl eq_refl)). apply IH. intros kv' Hk. apply H. now right.
Qed.

Lemma last_match_unique n l k v :
  NoDup (map (fun kv => lower (fst kv)) l) -> In (k, v) l -> lower k = lower n ->
  last_match n l = Some v.
Proof.
  unfold last_match. generalize (@None xval) as acc.
  induction l as [|[k' v'] l IH]; intros acc ND Hin E; simpl in *; [tauto|].
  inversion ND as [|? ? Hn ND']; subst.
  destruct Hin as [H|H].
  - injection H as -> ->. rewrite E, str_eqb_refl.
    apply fold_last_none. intros [k2 v2] H2. simpl.
    apply str_eqb_neq. intros E2. apply Hn. rewrite E, <- E2.
    apply (in_map (fun kv => lower (fst kv)) l (k2, v2) H2).
  - apply IH; auto.
Qed.

(* ================================================================= what a USE of B gets *)

Lemma sel_map_filter {X} sel (f : ent -> X) l : sel_map sel f l = map f (filter sel l).
Proof. induction l as [|c r IH]; simpl; [reflexivity|]. destruct (sel c); simpl; now rewrite IH. Qed.

(* the accessible entities of module m that a USE can import from class dict w *)
Definition class_members (m : ent) (w : str) : list ent :=
  flat_map (fun k' => if opt_eqb str_eqb (pub_class k') (Some w) then filter (dict_sel k') (e_kids m) else [])
           PUB_KINDS.

(* Fortran: the accessible names of one class in a module are distinct (case-insensitively) *)
Definition names_distinct (m : ent) : Prop :=
  forall w, In w PUB_DICTS -> NoDup (map (fun c => lower (e_name c)) (class_members m w)).

Lemma dict_as_map {X} (f : ent -> X) kids w :
  flat_map (fun k' => if opt_eqb str_eqb (pub_class k') (Some w) then sel_map (dict_sel k') f kids else []) PUB_KINDS
  = map f (flat_map (fun k' => if opt_eqb str_eqb (pub_class k') (Some w) then filter (dict_sel k') kids else [])
                    PUB_KINDS).
Proof.
  induction PUB_KINDS as [|k' ks IH]; simpl; [reflexivity|].
  rewrite map_app, IH. f_equal.
  destruct (opt_eqb str_eqb (pub_class k') (Some w)); [apply sel_map_filter|reflexivity].
Qed.

Lemma pub_class_in k w : pub_class k = Some w -> In w PUB_DICTS /\ In k PUB_KINDS.
Proof. destruct k; simpl; intros [= <-]; split; auto 10. Qed.

Lemma opt_eqb_refl w : opt_eqb str_eqb (Some w) (Some w) = true.
Proof. simpl. apply str_eqb_refl. Qed.

Lemma kind_eqb_refl k : kind_eqb k k = true.
Proof. destruct k; reflexivity. Qed.

Lemma member_in m e w :
  In e (e_kids m) -> accessible e = true -> pub_class (e_kind e) = Some w -> In e (class_members m w).
Proof.
  intros Hin Ha Hp. unfold class_members. apply in_flat_map. exists (e_kind e). split.
  - now apply (pub_class_in _ w).
  - rewrite Hp, opt_eqb_refl. apply filter_In. split; [assumption|].
    unfold dict_sel. now rewrite kind_eqb_refl, Ha.
Qed.

Lemma x_url_xlate idf cfg b pk purl kept e :
  x_url (xlate idf cfg b pk purl kept e)
  = JStr (rebase b (url_rel (own_url pk purl (e_kind e) (idf (e_id e))))).
Proof. destruct e. reflexivity. Qed.
Lemma x_name_xlate idf cfg b pk purl kept e : x_name (xlate idf cfg b pk purl kept e) = JStr (e_name e).
Proof. destruct e. reflexivity. Qed.

Theorem used_lookup_roundtrip idf cfg b id name p kids e w :
  let m := Ent id KModule name p kids in
  names_distinct m ->
  In e kids -> accessible e = true -> pub_class (e_kind e) = Some w ->
  used_lookup (xlate idf cfg b None None true m) w (e_name e)
  = Ok (Some (xlate idf cfg b (Some KModule) (own_url None None KModule (idf id))
                    (shown (c_display cfg) e) e)).
Proof.
  intros m ND Hin Ha Hp.
  destruct (pub_class_in _ _ Hp) as [Hw _].
  unfold used_lookup, m. rewrite xlate_eq. cbv zeta.
  rewrite module_pub_all, (module_pub_attr _ _ _ _ _ _ w Hw).
  f_equal. rewrite dict_as_map.
  apply (last_match_unique (e_name e) _ (lower (e_name e))).
  - rewrite map_map. simpl.
    rewrite (map_ext _ (fun c => lower (e_name c))) by (intros c; apply lower_idem).
    apply (ND w Hw).
  - apply (in_map (fun c => (lower (e_name c), xlate idf cfg b (Some KModule)
        (own_url None None KModule (idf id)) (shown (c_display cfg) c) c)) _ e).
    apply (member_in m); assumption.
  - apply lower_idem.
Qed.

(* ================================================================= re-basing A's relative URLs *)

(* one path segment: no '/', not empty, not "." *)
Definition seg_ok (x : str) : bool := no_slash x && negb (str_eqb x []) && negb (str_eqb x dot).

Lemma split_on_noslash x : forall cur, no_slash x = true -> split_on slash x cur = [rev cur ++ x].
Proof.
  induction x as [|c x IH]; intros cur H; simpl.
  - now rewrite app_nil_r.
  - simpl in H. apply andb_true_iff in H as [Hc Hx].
    destruct (ch_eqb c slash); [discriminate|].
    rewrite IH by assumption. simpl. now rewrite <- app_assoc.
Qed.

Lemma split_on_app a b : forall cur, no_slash a = true ->
  split_on slash (a ++ slash :: b) cur = (rev cur ++ a) :: split_on slash b [].
Proof.
  induction a as [|c a IH]; intros cur H; simpl.
  - unfold ch_eqb, slash. simpl. now rewrite app_nil_r.
  - simpl in H. apply andb_true_iff in H as [Hc Ha].
    destruct (ch_eqb c slash); [discriminate|].
    rewrite IH by assumption. simpl. now rewrite <- app_assoc.
Qed.

Lemma seg_ok_parts x : seg_ok x = true ->
  no_slash x = true /\ str_eqb x [] = false /\ str_eqb x dot = false.
Proof.
  unfold seg_ok. intros H. apply andb_true_iff in H as [H H3]. apply andb_true_iff in H as [H1 H2].
  apply negb_true_iff in H2, H3. auto.
Qed.

Lemma seg_not_slash_start d r : seg_ok d = true -> starts_with slash_s (d ++ r) = false.
Proof.
  intros H. destruct (seg_ok_parts _ H) as (N & E & _).
  destruct d as [|c d]; [discriminate|]. simpl in N. apply andb_true_iff in N as [Nc _].
  unfold slash_s. change (s "/") with ["/"%char]. cbn [app starts_with].
  unfold ch_eqb, slash in Nc. rewrite Ascii.eqb_sym.
  destruct (Ascii.eqb c "/"); [discriminate|reflexivity].
Qed.

Theorem path_join_two base d f :
  seg_ok d = true -> seg_ok f = true ->
  path_join base (d ++ s "/" ++ f) = base ++ s "/" ++ d ++ s "/" ++ f.
Proof.
  intros Hd Hf. unfold path_join.
  rewrite seg_not_slash_start by assumption.
  destruct (seg_ok_parts _ Hd) as (Nd & Ed & Dd). destruct (seg_ok_parts _ Hf) as (Nf & Ef & Df).
  unfold path_comps, split_path.
  change (d ++ s "/" ++ f) with (d ++ slash :: f).
  rewrite split_on_app by assumption. rewrite split_on_noslash by assumption. simpl.
  rewrite Ed, Dd, Ef, Df. simpl. reflexivity.
Qed.

Lemma dir_part_slash u : dir_part (u ++ s "/") = u ++ s "/".
Proof. unfold dir_part. rewrite rev_app_distr. simpl. rewrite rev_involutive. reflexivity. Qed.

Theorem url_join_two u d r :
  has_path (u ++ s "/") = true -> seg_ok d = true ->
  url_join (u ++ s "/") (d ++ r) = (u ++ s "/") ++ d ++ r.
Proof.
  intros Hp Hd. unfold url_join. rewrite seg_not_slash_start by assumption.
  rewrite Hp, dir_part_slash. reflexivity.
Qed.

(* ---- the shape of A's URLs ---- *)

Lemma quote_ch_noslash c : ch_eqb c slash = false -> no_slash (quote_ch c) = true.
Proof. destruct c as [[] [] [] [] [] [] [] []]; intros H; try reflexivity; discriminate H. Qed.

Lemma no_slash_app a b : no_slash (a ++ b) = no_slash a && no_slash b.
Proof. unfold no_slash. apply forallb_app. Qed.

Lemma quote_noslash x : no_slash x = true -> no_slash (quote x) = true.
Proof.
  induction x as [|c x IH]; simpl; [reflexivity|].
  intros H. apply andb_true_iff in H as [Hc Hx].
  unfold quote. simpl. fold (quote x). rewrite no_slash_app, IH by assumption.
  rewrite quote_ch_noslash; [reflexivity|]. now apply negb_true_iff.
Qed.

Lemma strip_frag_noslash x : no_slash x = true -> no_slash (strip_frag x) = true.
Proof.
  induction x as [|c x IH]; simpl; [reflexivity|]. intros H. apply andb_true_iff in H as [Hc Hx].
  destruct (ch_eqb c "#"); [reflexivity|]. simpl. now rewrite Hc, IH.
Qed.

Lemma str_eqb_len a b : length a <> length b -> str_eqb a b = false.
Proof. intros H. apply str_eqb_neq. intros ->. now apply H. Qed.

Lemma seg_ok_long x : no_slash x = true -> 2 <= length x -> seg_ok x = true.
Proof.
  intros N L. unfold seg_ok. rewrite N. simpl.
  rewrite !str_eqb_len; [reflexivity| |]; simpl; lia.
Qed.

Lemma seg_ok_page idn r :
  no_slash idn = true -> no_slash r = true -> seg_ok (idn ++ s ".html" ++ r) = true.
Proof.
  intros N R. apply seg_ok_long.
  - rewrite !no_slash_app, N, R. reflexivity.
  - rewrite !app_length. simpl. lia.
Qed.

Definition page_dir (x : str) : Prop :=
  x = s "module" \/ x = s "proc" \/ x = s "interface" \/ x = s "type".

Lemma page_dir_ok d : page_dir d -> seg_ok d = true /\ strip_frag d = d.
Proof. intros [E|[E|[E|E]]]; subst d; split; reflexivity. Qed.

Lemma dir_of_page pk k d : dir_of pk k = Some d -> page_dir d.
Proof.
  unfold page_dir. destruct k; destruct pk as [[]|]; simpl; intros [= <-]; auto.
Qed.

Lemma strip_frag_app_nohash a b : strip_frag a = a -> strip_frag (a ++ b) = a ++ strip_frag b.
Proof.
  induction a as [|c a IH]; simpl; [reflexivity|].
  destruct (ch_eqb c "#"); [discriminate|]. intros [= E]. now rewrite IH.
Qed.

Lemma obj_noslash k : no_slash (obj_str k) = true.
Proof. destruct k; reflexivity. Qed.

(* every URL A gives an entity of a module (depth 1) is  <page dir>/<one segment> *)
Lemma kid_url_shape idf m e u :
  e_kind m = KModule ->
  no_slash (idf (e_id m)) = true -> no_slash (idf (e_id e)) = true ->
  kid_url idf m e = Some u ->
  exists d f, u = d ++ s "/" ++ f /\ seg_ok d = true /\ seg_ok f = true /\ page_dir d.
Proof.
  intros Hm Nm Ne. unfold kid_url. rewrite Hm.
  unfold own_url at 1.
  destruct (dir_of (Some KModule) (e_kind e)) as [d|] eqn:Ed.
  - intros [= <-]. exists d, (idf (e_id e) ++ s ".html"). pose proof (dir_of_page _ _ _ Ed) as P.
    repeat split; auto.
    + now apply page_dir_ok.
    + rewrite <- (app_nil_r (s ".html")). now apply seg_ok_page.
  - destruct (anchored (e_kind e)); [|discriminate].
    simpl. intros [= <-].
    exists (s "module"), (strip_frag (idf (e_id m) ++ s ".html") ++ s "#" ++ obj_str (e_kind e) ++ s "-" ++ quote (idf (e_id e))).
    split; [|split; [reflexivity|split; [|left; reflexivity]]].
    + reflexivity.
    + apply seg_ok_long.
      * rewrite !no_slash_app, strip_frag_noslash, obj_noslash, quote_noslash; auto.
        rewrite no_slash_app, Nm. reflexivity.
      * rewrite !app_length. simpl. lia.
Qed.

(* the base B was given: a directory, or a URL with a path that ends in "/" *)
Definition base_ok (b : base) : Prop :=
  match b with
  | BLocal _ => True
  | BRemote u => exists u0, u = u0 ++ s "/" /\ has_path u = true
  end.

Theorem rebase_kid_url idf b m e u :
  base_ok b -> e_kind m = KModule ->
  no_slash (idf (e_id m)) = true -> no_slash (idf (e_id e)) = true ->
  kid_url idf m e = Some u ->
  rebase b u = spec_join b u.
Proof.
  intros Hb Hm Nm Ne Hu.
  destruct (kid_url_shape _ _ _ _ Hm Nm Ne Hu) as (d & f & -> & Sd & Sf & _).
  destruct b as [dir|url]; simpl.
  - now apply path_join_two.
  - destruct Hb as (u0 & -> & Hp). now apply url_join_two.
Qed.

Theorem rebase_module_url idf b m u :
  base_ok b -> e_kind m = KModule -> no_slash (idf (e_id m)) = true ->
  module_url idf m = Some u -> rebase b u = spec_join b u.
Proof.
  intros Hb Hm Nm. unfold module_url. rewrite Hm.
  change (own_url None None KModule (idf (e_id m)))
    with (Some (s "module" ++ s "/" ++ idf (e_id m) ++ s ".html")).
  intros [= <-].
  assert (Sf : seg_ok (idf (e_id m) ++ s ".html") = true).
  { rewrite <- (app_nil_r (s ".html")). now apply seg_ok_page. }
  destruct b as [dir|url]; unfold rebase, spec_join.
  - exact (path_join_two dir (s "module") (idf (e_id m) ++ s ".html") eq_refl Sf).
  - destruct Hb as (u0 & -> & Hp).
    exact (url_join_two u0 (s "module") (s "/" ++ idf (e_id m) ++ s ".html") Hp eq_refl).
Qed.

(* ================================================================= the project lists of B *)

Definition objs_pairs : list (str * xval) -> list xval :=
  fix go (l : list (str * xval)) : list xval :=
    match l with [] => [] | (_, a) :: r => objs_of a ++ go r end.
Definition objs_list : list xval -> list xval :=
  fix go (l : list xval) : list xval :=
    match l with [] => [] | a :: r => objs_of a ++ go r end.

Lemma objs_of_XO c n u attrs : objs_of (XO c n u attrs) = XO c n u attrs :: objs_pairs attrs.
Proof. reflexivity. Qed.
Lemma objs_of_XL l : objs_of (XL l) = objs_list l.
Proof. reflexivity. Qed.
Lemma objs_of_XD l : objs_of (XD l) = objs_pairs l.
Proof. reflexivity. Qed.

Lemma in_objs_pairs o l : In o (objs_pairs l) -> exists k a, In (k, a) l /\ In o (objs_of a).
Proof.
  induction l as [|[k a] l IH]; simpl; [tauto|].
  intros H. apply in_app_or in H as [H|H].
  - exists k, a. auto.
  - destruct (IH H) as (k' & a' & A & B). exists k', a'. auto.
Qed.
Lemma in_objs_list o l : In o (objs_list l) -> exists a, In a l /\ In o (objs_of a).
Proof.
  induction l as [|a l IH]; simpl; [tauto|].
  intros H. apply in_app_or in H as [H|H].
  - exists a. auto.
  - destruct (IH H) as (a' & A & B). exists a'. auto.
Qed.

Lemma assoc_get_in {V} k (l : list (str * V)) v : assoc_get k l = Some v -> In (k, v) l.
Proof.
  induction l as [|[k' v'] l IH]; simpl; [discriminate|].
  destruct (str_eqb k k') eqn:E.
  - intros [= ->]. apply str_eqb_eq in E. subst. now left.
  - intros H. right. auto.
Qed.

Lemma in_canon_attrs c set k v :
  In (k, v) (canon_attrs c set) -> In (k, v) set \/ In (k, v) (defaults c).
Proof.
  unfold canon_attrs. intros H. apply in_flat_map in H as (key & _ & H).
  destruct (assoc_get key set) as [v1|] eqn:E1.
  - destruct H as [[= <- <-]|[]]. left. now apply assoc_get_in.
  - destruct (assoc_get key (defaults c)) as [v2|] eqn:E2; [|destruct H].
    destruct H as [[= <- <-]|[]]. right. now apply assoc_get_in.
Qed.

Lemma defaults_no_objs c k v o : In (k, v) (defaults c) -> In o (objs_of v) -> False.
Proof.
  destruct c; simpl; intros H; repeat (destruct H as [[= <- <-]|H]; [simpl; tauto|]); destruct H.
Qed.

(* no module inside a module (Fortran has none) *)
Fixpoint no_module_below (e : ent) : bool :=
  match e with
  | Ent _ _ _ _ kids =>
    (fix go (l : list ent) : bool :=
       match l with
       | [] => true
       | c :: r => negb (kind_eqb (e_kind c) KModule) && no_module_below c && go r
       end) kids
  end.

Lemma no_module_below_kids id k name p kids c :
  no_module_below (Ent id k name p kids) = true -> In c kids ->
  e_kind c <> KModule /\ no_module_below c = true.
Proof.
  simpl. induction kids as [|x r IH]; [intros _ []|].
  intros H [->|Hc].
  - apply andb_true_iff in H as [H _]. apply andb_true_iff in H as [H1 H2]. split; [|exact H2].
    intros E. rewrite E in H1. discriminate.
  - apply andb_true_iff in H as [_ H]. now apply IH.
Qed.

Lemma cls_of_module k : cls_of k = XModule -> k = KModule.
Proof. destruct k; simpl; intros H; try discriminate; reflexivity. Qed.

Definition not_module_obj (o : xval) : Prop := x_cls o <> Some XModule.

Lemma objs_of_xlate_head idf cfg b pk purl kept e :
  exists rest, objs_of (xlate idf cfg b pk purl kept e) = xlate idf cfg b pk purl kept e :: rest
               /\ (no_module_below e = true -> Forall not_module_obj rest)
               /\ x_cls (xlate idf cfg b pk purl kept e) = Some (cls_of (e_kind e)).
Proof.
  revert pk purl kept. induction e as [id k name p kids IH] using ent_rect'. intros pk purl kept.
  rewrite xlate_eq. cbv zeta. set (url := own_url pk purl k (idf id)).
  match goal with
  | |- context [node_x b k name url p ?dx ?lx] => set (DX := dx) in *; set (LX := lx) in *
  end.
  unfold node_x. rewrite objs_of_XO. eexists. split; [reflexivity|]. split; [|reflexivity].
  intros NM. apply Forall_forall. intros o Ho.
  apply in_objs_pairs in Ho as (key & a & Hka & Ho).
  apply in_canon_attrs in Hka as [Hka|Hka]; [|exfalso; eapply defaults_no_objs; eauto].
  rewrite Forall_forall in IH.
  assert (KID : forall c kept', In c kids -> In o (objs_of (xlate idf cfg b (Some k) url kept' c)) -> not_module_obj o).
  { intros c kept' Hc Hoc. destruct (no_module_below_kids _ _ _ _ _ c NM Hc) as [Kc NMc].
    destruct (IH c Hc (Some k) url kept') as (rest & E & F & C). rewrite E in Hoc.
    destruct Hoc as [<-|Hoc].
    - unfold not_module_obj. rewrite C. intros [= X]. now apply cls_of_module in X.
    - specialize (F NMc). rewrite Forall_forall in F. now apply F. }
  apply in_app_or in Hka as [Hka|Hka].
  { destruct (proctype_str k); [|destruct Hka]. destruct (xcls_eqb (cls_of k) XInterface); [|destruct Hka].
    destruct Hka as [[= <- <-]|[]]. destruct Ho. }
  apply in_app_or in Hka as [Hka|Hka].
  { apply in_map_iff in Hka as (sl & [= <- <-] & _). rewrite objs_of_XD in Ho.
    apply in_objs_pairs in Ho as (k2 & a2 & Hin & Ho). unfold DX in Hin.
    apply in_flat_map in Hin as (k' & _ & Hin).
    destruct (opt_eqb str_eqb (pub_class k') (Some sl)); [|destruct Hin].
    apply sel_map_in_inv in Hin as (c & Hc & _ & [= -> ->]). eapply KID; eauto. }
  apply in_app_or in Hka as [Hka|Hka].
  { apply in_map_iff in Hka as (sl & [= <- <-] & _). rewrite objs_of_XL in Ho.
    apply in_objs_list in Ho as (a2 & Hin & Ho). unfold LX in Hin.
    apply sel_map_in_inv in Hin as (c & Hc & _ & ->). eapply KID; eauto. }
  destruct Hka as [[= <- <-]|[]]. destruct Ho.
Qed.

Definition is_module_obj (o : xval) : bool :=
  match x_cls o with Some c => plist_eqb (project_list c) PLModules | None => false end.

Lemma not_module_filter rest :
  Forall not_module_obj rest -> filter is_module_obj rest = [].
Proof.
  induction 1 as [|o r H _ IH]; simpl; [reflexivity|]. rewrite IH.
  unfold is_module_obj, not_module_obj in *. destruct (x_cls o) as [[]|]; simpl; try reflexivity.
  now contradiction H.
Qed.

(* the ext-module list of B is exactly the list of A's modules *)
Theorem ext_modules_are_modules A b :
  Forall (fun m => e_kind m = KModule /\ no_module_below m = true) (a_modules A) ->
  ext_list (xmods A b) PLModules = xmods A b.
Proof.
  unfold ext_list, xmods. fold is_module_obj.
  induction (a_modules A) as [|m r IH]; intros W; simpl; [reflexivity|].
  inversion W as [|? ? [Km NM] W']; subst.
  destruct (objs_of_xlate_head (ident_of A) (a_cfg A) b None None true m) as (rest & E & F & C).
  rewrite E. simpl. rewrite filter_app.
  change (filter _ (flat_map objs_of ?l)) with (filter is_module_obj (flat_map objs_of l)).
  rewrite (IH W'), (not_module_filter _ (F NM)).
  unfold is_module_obj at 1. rewrite C, Km. reflexivity.
Qed.
