(* Out/FsModel.v — model of the file-system side of a FORD run (property C19).

   Mirrors, as they are:
     ford/utils.py        normalise_path            (join with the project directory, resolve)
     ford/settings.py     normalise_paths, __post_init__ (exclude_dir.append(output_dir))
     ford/__init__.py     parse_arguments: the "no src_dir inside output_dir" refusal; main's tail
                          (writeout, then dump_modules when externalize)
     ford/fortran_project.py find_all_files: files under an exclude_dir are dropped
     ford/output.py       Documentation.writeout, copytree, DocPage/ListPage/PagetreePage.writeout
                          (copy_subdir entries whose destination leaves <out>/page are skipped)
     ford/pagetree.py     get_page_tree: which directory entries / ordered_subpage entries become
                          pages (names starting with ".", ending in "~" or not plain names are skipped)
     ford/graphs.py       GraphManager.output_graphs, FortranGraph.create_svg/_create_image_file
     ford/tipue_search.py print_output
     ford/external_project.py dump_modules

   Paths are lists of components below the root of the sandbox ("/" of the model).
   Executable definitions only; proofs are in Out/FsModelProofs.v. *)
From Ford Require Import Base.Str.

Definition path := list str.

(* ------------------------------------------------------------------ paths *)

(* a is a component-wise prefix of b  (Python: a in (b, *b.parents)) *)
Fixpoint prefixb (a b : path) : bool :=
  match a, b with
  | [], _ => true
  | x :: a', y :: b' => str_eqb x y && prefixb a' b'
  | _ :: _, [] => false
  end.

Definition path_eqb (a b : path) : bool := list_eqb str_eqb a b.

Fixpoint strip_prefix (a b : path) : option path :=
  match a, b with
  | [], _ => Some b
  | x :: a', y :: b' => if str_eqb x y then strip_prefix a' b' else None
  | _ :: _, [] => None
  end.

(* a path as the user writes it: absolute or relative, components may be "." ".." "" *)
Record rpath := { rp_abs : bool; rp_comps : list str }.

(* symbolic links of the sandbox: absolute path of the link |-> its fully resolved target *)
Definition links := list (path * path).

Fixpoint link_get (p : path) (l : links) : option path :=
  match l with
  | [] => None
  | (k, t) :: l' => if path_eqb p k then Some t else link_get p l'
  end.

Definition is_dot (c : str) : bool := match c with [] => true | _ => str_eqb c (s ".") end.
Definition is_dotdot (c : str) : bool := str_eqb c (s "..").

(* pathlib.Path.resolve(): "." dropped, ".." pops (the root is its own parent), a prefix that is
   a symbolic link is replaced by its target.  [stack] is the resolved prefix, reversed. *)
Fixpoint resolve_aux (ln : links) (stack : list str) (cs : list str) : path :=
  match cs with
  | [] => rev stack
  | c :: cs' =>
    if is_dot c then resolve_aux ln stack cs'
    else if is_dotdot c then resolve_aux ln (tl stack) cs'
    else match link_get (rev (c :: stack)) ln with
         | Some t => resolve_aux ln (rev t) cs'
         | None => resolve_aux ln (c :: stack) cs'
         end
  end.

Definition resolve (ln : links) (cs : list str) : path := resolve_aux ln [] cs.

(* purely lexical normalisation = what the kernel does with a path whose directories are real
   directories (everything FORD itself creates below the resolved output directory) *)
Definition norm (cs : list str) : path := resolve_aux [] [] cs.

Definition pjoin (base : path) (r : rpath) : list str :=
  if rp_abs r then rp_comps r else base ++ rp_comps r.

(* ford.utils.normalise_path: (base_dir / path).absolute().resolve() *)
Definition normalise_path (ln : links) (base : path) (r : rpath) : path :=
  resolve ln (pjoin base r).

Definition clean (p : path) : bool :=
  forallb (fun c => negb (is_dot c) && negb (is_dotdot c)) p.

(* scanning [cs] from a directory that is [k] levels below a root never climbs above the root *)
Fixpoint stays (k : nat) (cs : list str) : bool :=
  match cs with
  | [] => true
  | c :: cs' =>
    if is_dot c then stays k cs'
    else if is_dotdot c then match k with 0 => false | S k' => stays k' cs' end
    else stays (S k) cs'
  end.

(* ------------------------------------------------------------------ settings *)

(* the path-valued settings as written in the project file / on the command line *)
Record rcfg := {
  r_out : rpath;                   (* output_dir (after a command-line override) *)
  r_out_meta : rpath;              (* output_dir when ProjectSettings.__post_init__ ran *)
  r_exclude_dir : list rpath;
  r_graph_dir : option rpath;
  r_src : list rpath;
  r_media : option rpath;
  r_css : option rpath;
  r_favicon : option rpath;        (* None: the default favicon of the package *)
  r_mathjax : option rpath;
  r_page_dir : option rpath;
  r_incl_src : bool; r_graph : bool; r_search : bool; r_externalize : bool }.

Record cfg := {
  out : path;
  excl : list path;                (* exclude_dir + the __post_init__ output_dir + the final output_dir *)
  graph_dir : option path;
  srcs : list path;
  media : option path;
  css : option path;
  favicon : path;
  mathjax : option path;
  page_dir : option path;
  incl_src : bool; graph : bool; search : bool; externalize : bool }.

(* parse_arguments, right after normalise_paths:
     if proj_data.output_dir not in proj_data.exclude_dir: proj_data.exclude_dir.append(output_dir)
   (the list so far: exclude_dir with the output_dir that __post_init__ saw appended) *)
Definition effective_excl (o : path) (base : list path) : list path :=
  if existsb (path_eqb o) base then base else base ++ [o].

(* ProjectSettings.normalise_paths; [pkg] is the directory of the ford package *)
Definition normalise_cfg (ln : links) (dir pkg : path) (r : rcfg) : cfg :=
  let np := normalise_path ln dir in
  {| out := np (r_out r);
     excl := effective_excl (np (r_out r)) (map np (r_exclude_dir r ++ [r_out_meta r]));
     graph_dir := option_map np (r_graph_dir r);
     srcs := map np (r_src r);
     media := option_map np (r_media r);
     css := option_map np (r_css r);
     favicon := match r_favicon r with
                | Some f => np f
                | None => resolve ln (pkg ++ [s "favicon.png"])
                end;
     mathjax := option_map np (r_mathjax r);
     page_dir := option_map np (r_page_dir r);
     incl_src := r_incl_src r; graph := r_graph r; search := r_search r;
     externalize := r_externalize r |}.

(* parse_arguments:  if proj_data.output_dir in (srcdir, *srcdir.parents): raise ValueError *)
Definition refuse (c : cfg) : bool := existsb (fun src => prefixb (out c) src) (srcs c).

(* find_all_files: a candidate file is kept when it lies below a source directory and below
   no excluded directory  (fnmatch(str(src), f"{exclude_dir}/*")) *)
Definition properly_below (d f : path) : bool := prefixb d f && negb (path_eqb d f).
Definition discovered (c : cfg) (f : path) : bool :=
  existsb (fun sd => properly_below sd f) (srcs c) &&
  negb (existsb (fun e => properly_below e f) (excl c)).

(* ------------------------------------------------------------------ what is written *)

Record proj := {
  p_docs : list (str * str);       (* (get_dir(), ident) of every entity page, in write order *)
  p_lists : list str;              (* out_page of every list page *)
  p_srcfiles : list (path * str);  (* project.allfiles: (path, name) *)
  p_graphs : list str              (* imgfile of every graph that create_svg renders, in order *)
}.

Record page := {
  pg_loc : list str;               (* PageNode.location, components ("." = []) *)
  pg_stem : str;                   (* PageNode.filename (stem) *)
  pg_copy : list rpath;            (* PageNode.copy_subdir (page's own, else the project's) *)
  pg_files : list str              (* PageNode.files *)
}.

(* A candidate page as get_page_tree meets it: the names followed from the page directory, one
   per level, exactly as written (os.listdir names or ordered_subpage entries, so any text:
   "..", "sub/../../x.md", ...).  For an index page these are directory names; for another page
   the last one is the .md file. *)
Record cand := {
  cd_entries : list str;
  cd_index : bool;
  cd_stem : str;
  cd_copy : list rpath;
  cd_files : list str }.

(* get_page_tree's loop:  name[0] == "." -> skip;  name[-1] == "~" -> skip;
   Path(name).name != name -> skip (not the name of an entry of this directory) *)
Definition name_ok (n : str) : bool :=
  match n with
  | [] => false
  | c :: _ => negb (ch_eqb c "."%char) && negb (ch_eqb (last n c) "~"%char)
              && negb (existsb (fun x => ch_eqb x "/"%char) n)
  end.

Definition cand_ok (d : cand) : bool := forallb name_ok (cd_entries d).

(* PageNode.location = relpath(path.parent, topdir): the directory names that were followed *)
Definition page_of (d : cand) : page :=
  {| pg_loc := if cd_index d then cd_entries d else removelast (cd_entries d);
     pg_stem := cd_stem d; pg_copy := cd_copy d; pg_files := cd_files d |}.

Definition pages_of (cands : list cand) : list page := map page_of (filter cand_ok cands).

Inductive op :=
| RmTree (p : path)                (* shutil.rmtree(p, ignore_errors=True) *)
| Unlink (p : path)
| MkDir (p : path)                 (* Path.mkdir(), also with exist_ok=True *)
| MkDirParents (p : path)          (* Path.mkdir(parents=True) *)
| Write (p : path)                 (* write_bytes / write_text / open(p, "w") / dot -O *)
| Copy (a b : path)                (* shutil.copy(a, b) *)
| CopyTree (a b : path)            (* ford.output.copytree: shutil.copytree + touch of the copies *)
| Rename (a b : path).

Definition targets (o : op) : list path :=
  match o with
  | RmTree p | Unlink p | MkDir p | MkDirParents p | Write p => [p]
  | Copy _ b | CopyTree _ b => [b]
  | Rename a b => [a; b]
  end.

Definition html (x : str) : str := x ++ s ".html".

Definition out_subdirs : list str :=
  [s "lists"; s "sourcefile"; s "type"; s "proc"; s "interface"; s "module"; s "program";
   s "src"; s "blockdata"; s "namelist"].

Definition asset_dirs : list str := [s "css"; s "js"; s "webfonts"].

(* create_svg -> dot.render(filename): graphviz does os.makedirs(dirname, exist_ok=True), writes
   the dot source, runs "dot -O" which writes "<filename>.svg"; then
   filename.rename(filename + ".gv") *)
Definition graph_file_ops (gd : path) (name : str) : list op :=
  [MkDirParents gd; Write (gd ++ [name]); Write (gd ++ [name ++ s ".svg"]);
   Rename (gd ++ [name]) (gd ++ [name ++ s ".gv"])].

(* GraphManager.output_graphs: nothing unless graph_dir is set *)
Definition graph_ops (c : cfg) (p : proj) : list op :=
  match graph_dir c with
  | None => []
  | Some gd => MkDirParents gd :: flat_map (graph_file_ops gd) (p_graphs p)
  end.

(* PagetreePage.writeout *)
Definition page_root (c : cfg) : path := out c ++ [s "page"].

(* dest = normpath(to_path / item); skipped unless page_dir in (dest, *dest.parents) *)
Definition copy_kept (c : cfg) (pg : page) (item : rpath) : bool :=
  prefixb (page_root c) (norm (pjoin (page_root c ++ pg_loc pg) item)).

Definition page_ops (c : cfg) (pd : path) (pg : page) : list op :=
  let to_path := norm (page_root c ++ pg_loc pg) in
  (if str_eqb (pg_stem pg) (s "index") then [MkDir to_path] else [])
  ++ [Write (norm (page_root c ++ pg_loc pg ++ [html (pg_stem pg)]))]
  ++ map (fun item => CopyTree (norm (pjoin (pd ++ pg_loc pg) item))
                               (norm (pjoin (page_root c ++ pg_loc pg) item)))
         (filter (copy_kept c pg) (pg_copy pg))
  ++ map (fun f => Copy (norm (pd ++ pg_loc pg ++ [f])) to_path) (pg_files pg).

Definition pages_ops (c : cfg) (pages : list page) : list op :=
  match page_dir c with
  | None => []
  | Some pd => flat_map (page_ops c pd) pages
  end.

(* Documentation.writeout, in the order of the code.  [out_is_file]: out_dir.is_file() *)
Definition writeout_ops (out_is_file : bool) (pkg : path) (c : cfg) (p : proj) (cands : list cand)
  : list op :=
  let o := out c in
  [if out_is_file then Unlink o else RmTree o; MkDirParents o]
  ++ map (fun d => MkDir (o ++ [d])) out_subdirs
  ++ map (fun d => CopyTree (pkg ++ [d]) (o ++ [d])) asset_dirs
  ++ (if graph c then graph_ops c p else [])
  ++ (if search c then [CopyTree (pkg ++ [s "search"]) (o ++ [s "search"]);
                        Write (o ++ [s "search"; s "search_database.json"])] else [])
  ++ match media c with Some m => [CopyTree m (o ++ [s "media"])] | None => [] end
  ++ match css c with Some f => [Copy f (o ++ [s "css"; s "user.css"])] | None => [] end
  ++ [Copy (favicon c) (o ++ [s "favicon.png"])]
  ++ (if incl_src c then map (fun f => Copy (fst f) (o ++ [s "src"; snd f])) (p_srcfiles p) else [])
  ++ match mathjax c with
     | Some f => [MkDirParents (o ++ [s "js"; s "MathJax-config"]);
                  Copy f (o ++ [s "js"; s "MathJax-config"; last f []])]
     | None => []
     end
  ++ map (fun d => Write (o ++ [fst d; html (snd d)])) (p_docs p)
  ++ map (fun l => Write (o ++ [s "lists"; l])) (p_lists p)
  ++ pages_ops c (pages_of cands)
  ++ [Write (o ++ [s "index.html"]); Write (o ++ [s "search.html"])].

(* ford.main's tail: docs.writeout(); if externalize: dump_modules(project, path=output_dir) *)
Definition main_ops (out_is_file : bool) (pkg : path) (c : cfg) (p : proj) (cands : list cand)
  : list op :=
  writeout_ops out_is_file pkg c p cands
  ++ (if externalize c then [Write (out c ++ [s "modules.json"])] else []).

(* a whole run: parse_arguments raises before anything is touched when [refuse] holds *)
Definition ford_ops (out_is_file : bool) (pkg : path) (c : cfg) (p : proj) (cands : list cand)
  : list op :=
  if refuse c then [] else main_ops out_is_file pkg c p cands.

(* a page location that never climbs above <out> (an invariant of pages_of, see the proofs) *)
Definition loc_ok (pg : page) : bool := stays 0 (s "page" :: pg_loc pg).

(* ------------------------------------------------------------------ file system *)

(* a symbolic link carries its target as an absolute path (its own links resolved as far as
   they exist: os.path.realpath), which may be missing (dangling link) *)
Inductive node := File (content : nat) | Dir | Link (target : path).

(* a file system is a finite map from paths to nodes, represented by its lookup function;
   [of_list] builds one from an association list (first binding wins) *)
Definition fs := path -> option node.

Fixpoint of_list (l : list (path * node)) : fs :=
  fun p => match l with
           | [] => None
           | (k, n) :: l' => if path_eqb p k then Some n else of_list l' p
           end.

Definition is_dir (f : fs) (p : path) : bool := match f p with Some Dir => true | _ => false end.
Definition is_file (f : fs) (p : path) : bool :=
  match f p with Some (File _) => true | _ => false end.
Definition is_none {A} (x : option A) : bool := match x with None => true | _ => false end.
Definition parent (p : path) : path := removelast p.

Definition upd (f : fs) (p : path) (n : option node) : fs :=
  fun q => if path_eqb q p then n else f q.

(* no prefix of pre ++ cs, from pre on, is a regular file *)
Fixpoint chain_ok (f : fs) (pre : path) (cs : list str) : bool :=
  negb (is_file f pre) &&
  match cs with [] => true | c :: cs' => chain_ok f (pre ++ [c]) cs' end.

(* mkdir(parents=True) / os.makedirs: missing ancestors and the directory itself are created *)
Definition mkdirs (f : fs) (p : path) : fs :=
  if chain_ok f [] p
  then fun q => if prefixb q p then match f q with None => Some Dir | x => x end else f q
  else f.

Definition writable (f : fs) (t : path) : bool := is_dir f (parent t) && negb (is_dir f t).

(* What a path leads to when symbolic links are followed, as the kernel does for stat/open/
   scandir: a link met on the way (also as the last component) is replaced by its target; at most
   [fuel] links are followed in one walk (Linux: 40, then ELOOP).  Never answers with a link. *)
Fixpoint follow (fuel : nat) (f : fs) {struct fuel} : path -> list str -> option node :=
  fix walk (pre : path) (cs : list str) {struct cs} : option node :=
    match cs with
    | [] => match f pre with Some (Link _) => None | x => x end
    | c :: cs' =>
      match f (pre ++ [c]) with
      | Some (Link t) => match fuel with 0 => None | S n => follow n f [] (t ++ cs') end
      | Some Dir => match cs' with [] => Some Dir | _ => walk (pre ++ [c]) cs' end
      | Some (File x) => match cs' with [] => Some (File x) | _ => None end
      | None => None
      end
    end.

Definition deref (f : fs) (p : path) : option node := follow 40 f [] p.

Definition leads_to_dir (f : fs) (p : path) : bool :=
  match deref f p with Some Dir => true | _ => false end.

(* Path.touch() follows links: the entry it acts on (whose mtime it sets, or which it creates
   when missing) is the link's target.  ford.output.copytree touches every entry below the
   destination of a copy; those entries are never links (see [CopyTree] below and
   copies_are_not_links in the proofs), so every touch acts on the entry itself. *)
Definition touch_acts_on (f : fs) (p : path) : path :=
  match f p with Some (Link t) => t | _ => p end.

Definition run_op (o : op) (f : fs) : fs :=
  match o with
  | RmTree p => if is_dir f p then fun q => if prefixb p q then None else f q else f
  | Unlink p => if is_file f p then upd f p None else f
  | MkDir p =>
    match f p with
    | None => if is_dir f (parent p) then upd f p (Some Dir) else f
    | Some _ => f
    end
  | MkDirParents p => mkdirs f p
  | Write p => if writable f p then upd f p (Some (File 0)) else f
  | Copy a b =>                        (* shutil.copy reads through links *)
    match deref f a with
    | Some (File c) =>
      let t := if is_dir f b then b ++ [last a []] else b in
      if writable f t then upd f t (Some (File c)) else f
    | _ => f
    end
  | CopyTree a b =>
    (* shutil.copytree(src, dst) with symlinks=False: every entry is copied as what it leads
       to (a link to a file becomes a file, a link to a directory a directory tree, a dangling
       link or one beyond the 40-link limit is reported and left out) *)
    if leads_to_dir f a && is_none (deref f b) && is_none (f b) then
      let g := mkdirs f b in
      if is_dir g b then
        fun q => match strip_prefix b q with
                 | Some suf => match deref f (a ++ suf) with Some n => Some n | None => g q end
                 | None => g q
                 end
      else f
    else f
  | Rename a b =>
    match f a with
    | Some (File c) => if writable f b then upd (upd f a None) b (Some (File c)) else f
    | _ => f
    end
  end.

Definition run (ops : list op) (f : fs) : fs := fold_left (fun g o => run_op o g) ops f.

(* the roots a run may write below *)
Definition roots (c : cfg) : list path :=
  out c :: match graph_dir c with Some g => [g] | None => [] end.

Definition under_anyb (rs : list path) (p : path) : bool := existsb (fun r => prefixb r p) rs.

(* the part of a file system that lies outside the roots *)
Definition outside (rs : list path) (f : fs) : fs :=
  fun p => if under_anyb rs p then None else f p.
