(* Out/Graph.v — executable model of FORD's graph construction (ford/graphs.py).
   Definitions only; the Spec is in Out/GraphSpec.v, the proofs in Out/GraphProofs.v.

   What is mirrored, as the code is:
   * [ent]/[world]   : what the node constructors read from the correlated FORD objects
                       (ModNode, SubmodNode, TypeNode, ProcNode, ProgNode, BlockNode, FileNode);
   * [call_nodes]    : get_call_nodes (invisible procedures and simple bindings are skipped,
                       their callees shown instead);
   * [decls]         : the (relation, neighbour, label) sequence one constructor walks through;
   * [create]/[link] : GraphData.get_node/register — a node is created the first time it is
                       asked for, its neighbours are created on demand (lazily) before the two
                       adjacency sets (forward at the node, inverse at the neighbour) are updated;
   * [class_succ]    : the add_node method of each of the twelve graph classes;
   * [graph_succ]/[graph_roots]: project-wide graphs leave out entities with "graph: false";
   * [add_nodes]/[bfs]: FortranGraph.__init__/add_nodes/add_to_graph/_add_nested_nodes — hop by hop,
                       graph_maxdepth, the all-or-nothing graph_maxnodes test, truncated, hop_nodes;
   * [run]           : Documentation.__init__'s registration loop and the nodes GraphManager.graph_all
                       creates beforehand for the call graph's extra roots (visible internal procedures,
                       generic / multi-target bindings), then the per-entity graphs and the four
                       project-wide graphs, all on the same registry (C13_no_late_nodes).
   Python sets are lists without duplicates; iteration order (sorted(...) in the code) only
   decides the order of lines in the DOT source and is not modelled: results are compared as sets.

   Deliberate abstractions (each unobservable on the inputs FORD accepts):
   * ModNode / SubmodNode do not pass [hist] down, the other constructors do; the model treats every
     kind alike ("exists already" = in a collection or under construction).  The two differ only for a
     cyclic USE / ancestry relation, which Project.correlate's toposort rejects before any graph is built.
   * a bare name (unresolved callee, third-party module or type) gets a fresh node object at every
     occurrence in the code, all equal by ident; the model keeps one node per (kind, name).  Such nodes
     are never roots and never expanded along an inverse relation, so their split inverse sets are
     never read.
   * the two label dictionaries comp_types / comp_of receive the same concatenations; the model merges
     the component names once ([merge_comps]) and stores the result on both sides.
   * the unused counters ModNode.afferent / efferent are not modelled. *)
From Coq Require Import NArith.
From Ford Require Import Base.Str.

(* ------------------------------------------------------------------ entities *)
Inductive rel := RUses | RAnc | RComp | RCalls | RIface | REff.
Definition rel_eqb (a b : rel) : bool :=
  match a, b with
  | RUses, RUses | RAnc, RAnc | RComp, RComp | RCalls, RCalls | RIface, RIface | REff, REff => true
  | _, _ => false
  end.

Inductive kind := KMod | KSubmod | KType | KProc | KProg | KFile | KBlock.

Record ent := mkEnt {
  e_kind : kind;
  e_str : bool;                           (* node made from a name only (third-party / unresolved) *)
  e_name : str;
  e_parent : option str;                  (* name of the procedure's parent, for show_proc_parent *)
  e_binder : option str;                  (* name of the binding type *)
  e_uses : list nat;                      (* obj.uses *)
  e_anc : option nat;                     (* submodule: parent_submodule or ancestor_module; type: extends *)
  e_comps : list (str * option nat * str);(* local_variables: vartype, proto (None for "*"), name *)
  e_calls : list nat;                     (* obj.calls *)
  e_bindings : list nat;                  (* obj.bindings *)
  e_visible : option bool;                (* None: the object has no attribute "visible" *)
  e_bound : bool;                         (* isinstance(obj, FortranBoundProcedure) *)
  e_deferred : bool;
  e_proctype : str;                       (* getattr(obj, "proctype", "") *)
  e_modprocs : list nat;                  (* m.procedure of obj.modprocs, when truthy *)
  e_modimpl : option nat;                 (* obj.procedure.module of a module procedure interface *)
  e_deps : list nat;                      (* file: dep.source_file for every dep of every unit *)
  e_graph : bool                          (* obj.meta.graph (true for objects without metadata) *)
}.

Definition world := list (nat * ent).

Fixpoint find_ent (w : world) (a : nat) : option ent :=
  match w with
  | [] => None
  | (k, e) :: w' => if Nat.eqb a k then Some e else find_ent w' a
  end.

Definition memn (a : nat) (l : list nat) : bool := existsb (Nat.eqb a) l.

(* ------------------------------------------------------------------ get_call_nodes *)
Definition vis_dflt (w : world) (d : bool) (c : nat) : bool :=
  match find_ent w c with
  | Some e => match e_visible e with Some b => b | None => d end
  | None => d
  end.
Definition is_bound (w : world) (c : nat) : bool :=
  match find_ent w c with Some e => e_bound e | None => false end.
Definition simple_binding (w : world) (c : nat) : bool :=
  match find_ent w c with
  | Some e =>
    e_bound e &&
    match e_bindings e with
    | [b] => negb (is_bound w b) && (e_deferred e || vis_dflt w false b)
    | _ => false
    end
  | None => false
  end.
Definition sub_calls (w : world) (c : nat) : list nat :=
  match find_ent w c with Some e => e_calls e ++ e_bindings e | None => [] end.
Definition is_call_node (w : world) (c : nat) : bool :=
  vis_dflt w true c && negb (simple_binding w c).

(* state: visited, result, out-of-fuel *)
Definition cstate := (list nat * list nat * bool)%type.
Fixpoint call_nodes (fuel : nat) (w : world) (calls : list nat) (st : cstate) : cstate :=
  match fuel with
  | 0 => match calls with [] => st | _ => (fst (fst st), snd (fst st), true) end
  | S f =>
    fold_left (fun (st : cstate) c =>
      if memn c (fst (fst st)) then st else
      let vis := c :: fst (fst st) in
      if is_call_node w c then (vis, snd (fst st) ++ [c], snd st)
      else call_nodes f w (sub_calls w c) (vis, snd (fst st), snd st)) calls st
  end.
Definition call_fuel (w : world) : nat := S (S (length w)).
Definition get_call_nodes (w : world) (calls : list nat) : list nat * bool :=
  let r := call_nodes (call_fuel w) w calls ([], [], false) in (snd (fst r), snd r).

(* ------------------------------------------------------------------ constructors *)
Definition decl := (rel * nat * str)%type.
Definition d_target (d : decl) : nat := snd (fst d).

Fixpoint upsert (t : nat) (n : str) (m : list (nat * str)) : list (nat * str) :=
  match m with
  | [] => [(t, n)]
  | (t', l) :: m' => if Nat.eqb t t' then (t', l ++ s ", " ++ n) :: m' else (t', l) :: upsert t n m'
  end.
Definition comp_pairs (cs : list (str * option nat * str)) : list (nat * str) :=
  flat_map (fun c =>
    match c with
    | (vt, Some p, n) => if str_eqb vt (s "type") || str_eqb vt (s "class") then [(p, n)] else []
    | (_, None, _) => []
    end) cs.
Definition merge_comps (cs : list (str * option nat * str)) : list (nat * str) :=
  fold_left (fun m c => upsert (fst c) (snd c) m) (comp_pairs cs) [].

Definition proctype_of (e : ent) : str :=
  let p := lower (e_proctype e) in
  match p with [] => if e_bound e then s "boundproc" else [] | _ => p end.
Definition plain (l : rel) (xs : list nat) : list decl := map (fun b => (l, b, [])) xs.
Definition opt_list {A} (o : option A) : list A := match o with Some x => [x] | None => [] end.

Definition iface_targets (w : world) (e : ent) : list nat :=
  filter (vis_dflt w true) (e_modprocs e) ++ filter (vis_dflt w true) (opt_list (e_modimpl e)).

(* the sequence of (relation, neighbour, label) the node constructor goes through;
   second component: get_call_nodes ran out of fuel (never, see GraphProofs) *)
Definition decls_err (w : world) (a : nat) : list decl * bool :=
  match find_ent w a with
  | None => ([], false)
  | Some e =>
    if e_str e then ([], false) else
    match e_kind e with
    | KMod | KBlock => (plain RUses (e_uses e), false)
    | KSubmod => (plain RUses (e_uses e) ++ plain RAnc (opt_list (e_anc e)), false)
    | KType => (plain RAnc (opt_list (e_anc e)) ++ map (fun c => (RComp, fst c, snd c)) (merge_comps (e_comps e)), false)
    | KProc =>
      let cn := get_call_nodes w (e_calls e ++ e_bindings e) in
      (plain RUses (e_uses e) ++ plain RCalls (fst cn) ++
       (if str_eqb (proctype_of e) (s "interface") then plain RIface (iface_targets w e) else []), snd cn)
    | KProg =>
      let cn := get_call_nodes w (e_calls e) in
      (plain RUses (e_uses e) ++ plain RCalls (fst cn), snd cn)
    | KFile => (plain REff (filter (fun f => negb (Nat.eqb f a)) (e_deps e)), false)
    end
  end.
Definition decls (w : world) (a : nat) : list decl := fst (decls_err w a).

(* ------------------------------------------------------------------ registry *)
Definition lnk := (nat * rel * nat * str)%type.   (* owner, relation, other end, label *)
Record rstate := mkR {
  r_nodes : list nat;      (* nodes that exist, in creation order *)
  r_fwd : list lnk;        (* uses / ancestor / comp_types / calls / interfaces / efferent, kept at the owner *)
  r_inv : list lnk;        (* used_by / children / comp_of / called_by / interfaced_by / afferent *)
  r_err : bool             (* a fuelled recursion ran dry *)
}.
Definition r_empty : rstate := mkR [] [] [] false.

Definition key_eqb (a : nat) (l : rel) (b : nat) (k : lnk) : bool :=
  Nat.eqb a (fst (fst (fst k))) && rel_eqb l (snd (fst (fst k))) && Nat.eqb b (snd (fst k)).
Definition key_in (a : nat) (l : rel) (b : nat) (ls : list lnk) : bool := existsb (key_eqb a l b) ls.

(* n.used_by.add(self); self.uses.add(n)  — two independent set insertions *)
Definition link (a : nat) (d : decl) (st : rstate) : rstate :=
  let l := fst (fst d) in let b := snd (fst d) in let lab := snd d in
  mkR (r_nodes st)
      (if key_in a l b (r_fwd st) then r_fwd st else r_fwd st ++ [(a, l, b, lab)])
      (if key_in b l a (r_inv st) then r_inv st else r_inv st ++ [(b, l, a, lab)])
      (r_err st).
Definition mark (a : nat) (e : bool) (st : rstate) : rstate :=
  mkR (r_nodes st ++ [a]) (r_fwd st) (r_inv st) (r_err st || e).
Definition set_err (st : rstate) : rstate := mkR (r_nodes st) (r_fwd st) (r_inv st) true.

(* GraphData.get_node: existing node (collection or hist) or a new one, whose constructor first
   obtains each neighbour (creating it if needed) and then records both directions *)
Fixpoint create (fuel : nat) (w : world) (st : rstate) (a : nat) : rstate :=
  if memn a (r_nodes st) then st else
  match fuel with
  | 0 => set_err st
  | S f =>
    fold_left (fun st1 d => link a d (create f w st1 (d_target d)))
              (decls w a) (mark a (snd (decls_err w a)) st)
  end.
Definition reg_fuel (w : world) : nat := S (length w).
Definition get_node (w : world) (st : rstate) (a : nat) : rstate := create (reg_fuel w) w st a.

Definition own (a : nat) (l : rel) (ls : list lnk) : list (nat * str) :=
  flat_map (fun k => if Nat.eqb a (fst (fst (fst k))) && rel_eqb l (snd (fst (fst k)))
                     then [(snd (fst k), snd k)] else []) ls.
Definition fwd_of (st : rstate) (l : rel) (a : nat) : list (nat * str) := own a l (r_fwd st).
Definition inv_of (st : rstate) (l : rel) (a : nat) : list (nat * str) := own a l (r_inv st).

(* ------------------------------------------------------------------ graphs *)
Record edge := mkE { e_tail : nat; e_head : nat; e_dashed : bool; e_lab : str }.

Inductive gclass :=
  GModule | GUses | GUsedBy | GFile | GEff | GAff | GType | GInherits | GInheritedBy
| GCall | GCalls | GCalledBy.

Definition is_boundproc (w : world) (x : nat) : bool :=
  match find_ent w x with
  | Some e => match e_kind e with KProc => str_eqb (proctype_of e) (s "boundproc") | _ => false end
  | None => false
  end.

(* neighbours of x with the edge drawn for each: away from x ([out]) or towards x *)
Definition out_edges (x : nat) (dashed : bool) (ns : list (nat * str)) : list (nat * edge) :=
  map (fun n => (fst n, mkE x (fst n) dashed (snd n))) ns.
Definition in_edges (x : nat) (dashed : bool) (ns : list (nat * str)) : list (nat * edge) :=
  map (fun n => (fst n, mkE (fst n) x dashed (snd n))) ns.

Definition class_succ (w : world) (st : rstate) (c : gclass) (x : nat) : list (nat * edge) :=
  match c with
  | GModule | GUses => out_edges x true (fwd_of st RUses x) ++ out_edges x false (fwd_of st RAnc x)
  | GUsedBy => in_edges x true (inv_of st RUses x) ++ in_edges x false (inv_of st RAnc x)
  | GFile => out_edges x false (fwd_of st REff x)
  | GEff => out_edges x true (fwd_of st REff x)
  | GAff => in_edges x true (inv_of st REff x)
  | GType | GInherits => out_edges x true (fwd_of st RComp x) ++ out_edges x false (fwd_of st RAnc x)
  | GInheritedBy => in_edges x true (inv_of st RComp x) ++ in_edges x false (inv_of st RAnc x)
  | GCall | GCalls => out_edges x (is_boundproc w x) (fwd_of st RCalls x) ++ out_edges x true (fwd_of st RIface x)
  | GCalledBy => in_edges x false (inv_of st RCalls x) ++ in_edges x true (inv_of st RIface x)
  end.
Definition class_nested (c : gclass) : bool :=
  match c with GModule | GFile | GType | GCall => false | _ => true end.
(* BaseNode.in_project_graphs *)
Definition shown (w : world) (x : nat) : bool :=
  match find_ent w x with Some e => e_graph e | None => true end.

Record gstate := mkG {
  g_nodes : list nat;          (* self.added *)
  g_edges : list edge;         (* edges written to the DOT source *)
  g_trunc : option nat;        (* self.truncated (None = -1) *)
  g_hopn : list nat;           (* self.hop_nodes *)
  g_hope : list edge           (* self.hop_edges *)
}.

Definition nd (l : list nat) : list nat := nodup Nat.eq_dec l.
Definition union (a b : list nat) : list nat := a ++ filter (fun y => negb (memn y a)) b.

Definition hop_edges (succ : nat -> list (nat * edge)) (fr : list nat) : list edge :=
  flat_map (fun x => map snd (succ x)) fr.
Definition hop_nodes (succ : nat -> list (nat * edge)) (added fr : list nat) : list nat :=
  nd (filter (fun y => negb (memn y added)) (flat_map (fun x => map fst (succ x)) fr)).

Fixpoint add_nodes (rem : nat) (nested : bool) (succ : nat -> list (nat * edge)) (maxn : N)
         (nesting : nat) (fr : list nat) (g : gstate) : gstate :=
  let hn := hop_nodes succ (g_nodes g) fr in
  let he := hop_edges succ fr in
  if (maxn <? N.of_nat (length hn + length (g_nodes g)))%N then
    (* add_to_graph refuses the whole hop *)
    mkG (g_nodes g) (g_edges g) (Some nesting)
        (if nesting <? 2 then hn else g_hopn g) (if nesting <? 2 then he else g_hope g)
  else
    let g' := mkG (union (g_nodes g) hn) (g_edges g ++ he) (g_trunc g) (g_hopn g) (g_hope g) in
    if nested then
      match hn with
      | [] => g'
      | _ =>
        match rem with
        | 0 => mkG (g_nodes g') (g_edges g') (Some nesting) (g_hopn g') (g_hope g')
        | S r => add_nodes r nested succ maxn (S nesting) hn g'
        end
      end
    else g'.

Definition bfs (nested : bool) (succ : nat -> list (nat * edge)) (depth : nat) (maxn : N)
           (roots : list nat) : gstate :=
  add_nodes (depth - 1) nested succ maxn 1 roots (mkG (nd roots) [] None [] []).

(* max_nesting / max_nodes: maxima over the roots' metadata, starting from 0 and 1 *)
Definition max_depth (lims : list (nat * N)) : nat := fold_left (fun m l => Nat.max m (fst l)) lims 0.
Definition max_nodes (lims : list (nat * N)) : N := fold_left (fun m l => N.max m (snd l)) lims 1%N.

Record greq := mkQ { q_class : gclass; q_roots : list nat; q_limits : list (nat * N) }.

(* project-wide graphs (the four classes that are not nested) drop hidden nodes from every hop, the
   edges that touch them, and hidden roots; per-entity graphs draw everything *)
Definition graph_succ (w : world) (st : rstate) (c : gclass) (x : nat) : list (nat * edge) :=
  if class_nested c then class_succ w st c x
  else filter (fun ne => shown w (fst ne) && shown w (e_tail (snd ne)) && shown w (e_head (snd ne)))
              (class_succ w st c x).
Definition graph_roots (w : world) (c : gclass) (roots : list nat) : list nat :=
  if class_nested c then roots else filter (shown w) roots.

Definition graph_of (w : world) (st : rstate) (q : greq) : gstate :=
  bfs (class_nested (q_class q)) (graph_succ w st (q_class q))
      (max_depth (q_limits q)) (max_nodes (q_limits q)) (graph_roots w (q_class q) (q_roots q)).

(* one FortranGraph(...): the roots' nodes are fetched (created if missing), then the hops *)
Definition run_graph (w : world) (st : rstate) (q : greq) : rstate * gstate :=
  let st' := fold_left (get_node w) (q_roots q) st in (st', graph_of w st' q).

Definition registry (w : world) (regs : list nat) : rstate := fold_left (get_node w) regs r_empty.

Fixpoint run_graphs (w : world) (st : rstate) (qs : list greq) : list gstate :=
  match qs with
  | [] => []
  | q :: qs' => let r := run_graph w st q in snd r :: run_graphs w (fst r) qs'
  end.
Fixpoint final_state (w : world) (st : rstate) (qs : list greq) : rstate :=
  match qs with
  | [] => st
  | q :: qs' => final_state w (fst (run_graph w st q)) qs'
  end.
Definition run (w : world) (regs : list nat) (qs : list greq) : list gstate :=
  run_graphs w (registry w regs) qs.

(* node label: f"{parent.name}::" (show_proc_parent) + f"{binder.name}%" + name *)
Definition node_label (w : world) (show_parent : bool) (a : nat) : str :=
  match find_ent w a with
  | None => []
  | Some e =>
    match e_kind e with
    | KProc =>
      (if show_parent then match e_parent e with Some p => p ++ s "::" | None => [] end else []) ++
      (match e_binder e with Some b => b ++ s "%" | None => [] end) ++ e_name e
    | _ => e_name e
    end
  end.
