(* Out/Escape.v -- HTML escaping as done by Jinja's `e` filter (markupsafe.escape), a minimal model of
   what an HTML reader makes of a piece of text (tags, the five entities), and the classification of
   the template printing sites regenerated in Gen/EscapeSites.v (property C18).
   Executable definitions only; lemmas in Out/EscapeProofs.v. *)
From Ford Require Import Base.Str Gen.EscapeSites.

Definition c_lt : ascii := "<"%char.
Definition c_gt : ascii := ">"%char.
Definition c_amp : ascii := "&"%char.
Definition c_sq : ascii := "'"%char.
Definition c_dq : ascii := """"%char.

(* markupsafe.escape: & < > ' and the double quote become &amp; &lt; &gt; &#39; &#34; *)
Definition escape_ch (c : ascii) : str :=
  if ch_eqb c c_amp then s "&amp;"
  else if ch_eqb c c_lt then s "&lt;"
  else if ch_eqb c c_gt then s "&gt;"
  else if ch_eqb c c_sq then s "&#39;"
  else if ch_eqb c c_dq then s "&#34;"
  else [c].
Definition html_escape (x : str) : str := flat_map escape_ch x.

(* the text-level escape used where source text is put next to links (ford/sourceform.py _esc):
   & < > only; enough for element content, not for attribute values *)
Definition escape_text_ch (c : ascii) : str :=
  if ch_eqb c c_amp then s "&amp;"
  else if ch_eqb c c_lt then s "&lt;"
  else if ch_eqb c c_gt then s "&gt;"
  else [c].
Definition escape_text (x : str) : str := flat_map escape_text_ch x.

(* decoding of the five entities; [skip] = characters of an entity still to be dropped *)
Definition entity_at (x : str) : option (ascii * nat) :=
  if starts_with (s "amp;") x then Some (c_amp, 4)
  else if starts_with (s "lt;") x then Some (c_lt, 3)
  else if starts_with (s "gt;") x then Some (c_gt, 3)
  else if starts_with (s "#39;") x then Some (c_sq, 4)
  else if starts_with (s "#34;") x then Some (c_dq, 4)
  else None.

Fixpoint unesc (skip : nat) (x : str) : str :=
  match x with
  | [] => []
  | c :: x' =>
    match skip with
    | S k => unesc k x'
    | 0 =>
      if ch_eqb c c_amp then
        match entity_at x' with
        | Some (d, n) => d :: unesc n x'
        | None => c :: unesc 0 x'
        end
      else c :: unesc 0 x'
    end
  end.
Definition unescape (x : str) : str := unesc 0 x.

(* text that cannot change the structure of a page, neither in element content nor inside a quoted
   attribute value: no < > quotes, and every & starts one of the five entities *)
Definition plain_ch (c : ascii) : bool :=
  negb (ch_eqb c c_lt || ch_eqb c c_gt || ch_eqb c c_sq || ch_eqb c c_dq).
Fixpoint amps_ok (x : str) : bool :=
  match x with
  | [] => true
  | c :: x' =>
    (if ch_eqb c c_amp then match entity_at x' with Some _ => true | None => false end else true)
    && amps_ok x'
  end.
Definition no_markup (x : str) : bool := forallb plain_ch x && amps_ok x.

(* what a reader of the page gets from a piece of element content: (visible text, number of tags).
   A tag starts at < followed by a letter, / ! or ? (other < are text, as HTML parsers treat them) and
   runs to the next >. *)
Definition tag_start (x : str) : bool :=
  match x with
  | d :: _ => is_alpha d || ch_eqb d "/"%char || ch_eqb d "!"%char || ch_eqb d "?"%char
  | [] => false
  end.

Fixpoint vis (in_tag : bool) (skip : nat) (x : str) : str * nat :=
  match x with
  | [] => ([], 0)
  | c :: x' =>
    match skip with
    | S k => vis in_tag k x'
    | 0 =>
      if in_tag then (if ch_eqb c c_gt then vis false 0 x' else vis true 0 x')
      else if ch_eqb c c_lt && tag_start x' then
        let (t, n) := vis true 0 x' in (t, S n)
      else if ch_eqb c c_amp then
        match entity_at x' with
        | Some (d, k) => let (t, n) := vis false k x' in (d :: t, n)
        | None => let (t, n) := vis false 0 x' in (c :: t, n)
        end
      else let (t, n) := vis false 0 x' in (c :: t, n)
    end
  end.
Definition render_text (x : str) : str * nat := vis false 0 x.

(* ------------------------------------------------------------------ template sites *)

Inductive fclass :=
| FreeText     (* text of the declaration as written in the source: may contain any character *)
| Ident        (* Fortran names, keywords and attribute words: letters, digits, _ ( ) , = and operators *)
| Markup       (* HTML on purpose: Markdown output, graphs, highlighted source, links to entities *)
| Internal     (* produced by FORD / metadata, not by declarations *)
| FUnknown.

Definition free_text_fields : list str :=
  [s "initial"; s "dimension"; s "attribs"; s "attrib"; s "kind"; s "strlen"; s "full_type";
   s "full_declaration"; s "bindC"; s "proto[1]"].
(* (root, field) pairs whose field name is in the list above but whose content is made of keywords
   and names only: binding attributes (pass, deferred, ...), type attributes (abstract, bind(c),
   extends(name)), procedure prefixes (pure, elemental, ...) *)
Definition keyword_only : list (str * str) :=
  [(s "tb", s "full_declaration"); (s "dtype", s "attribs"); (s "proc", s "attribs")].
Definition ident_fields : list str :=
  [s "name"; s "args"; s "intent"; s "permission"; s "parobj"; s "proctype"; s "vartype"; s "filename";
   s "proto[0]"].
Definition markup_fields : list str :=
  [s "doc"; s "summary"; s "contents"; s "src";
   s "afferentgraph"; s "efferentgraph"; s "calledbygraph"; s "callsgraph"; s "callgraph"; s "filegraph";
   s "inherbygraph"; s "inhergraph"; s "typegraph"; s "usedbygraph"; s "usegraph"; s "usesgraph";
   s "absint"; s "ancestor"; s "bind"; s "block"; s "dtype"; s "entity"; s "extends"; s "fin"; s "intr";
   s "item"; s "mod"; s "namelist"; s "parent"; s "proc"; s "procedure"; s "prog"; s "tb"; s "use";
   s "var"; s "variable"].
Definition internal_fields : list str :=
  [s "anchor"; s "anchor_url"; s "get_url()"; s "base_url"; s "page_url"; s "colnum"; s "panelnum";
   s "size"; s "label"; s "line_info"; s "current"; s "next()"; s "honkle"; s "title"; s "url";
   s "project"; s "projectData[license]"; s "author"; s "category"; s "date"; s "license"; s "since";
   s "version"].

Definition pair_in (r f : str) (l : list (str * str)) : bool :=
  existsb (fun p => str_eqb r (fst p) && str_eqb f (snd p)) l.

Definition field_class (root field : str) : fclass :=
  if pair_in root field keyword_only then Ident
  else if str_in field free_text_fields then FreeText
  else if str_in field ident_fields then Ident
  else if str_in field markup_fields then Markup
  else if str_in field internal_fields then Internal
  else FUnknown.

Definition site_class (st : site) : fclass := field_class (st_root st) (st_field st).
Definition reads_source_text (st : site) : bool :=
  match site_class st with FreeText => true | _ => false end.
Definition classified (st : site) : bool :=
  match site_class st with FUnknown => false | _ => true end.

(* escaped on output: the `e` / `escape` filter is applied, or the environment escapes by itself, or --
   in element content -- the printed property escapes & < > in the source text it is built from *)
Definition in_text (st : site) : bool :=
  match st_context st with InText => true | InAttribute => false end.
Definition escaped (st : site) : bool :=
  str_in (s "e") (st_filters st) || str_in (s "escape") (st_filters st) || str_in (s "forceescape") (st_filters st)
  || (autoescape && negb (str_in (s "safe") (st_filters st)))
  || (in_text st && str_in (st_field st) text_escaped_at_source).

(* sites that print a FreeText field without escaping but whose value FORD has already forced to be
   harmless; none at present (the enumerator value, a number, is escaped like the others) *)
Definition inert_by_construction : list str := [].

(* known findings: declaration text printed unescaped (keys of Gen/EscapeSites.v); none at present *)
Definition known_unescaped : list str := [].

Definition site_ok (st : site) : bool :=
  negb (reads_source_text st) || escaped st.
Definition site_excused (st : site) : bool :=
  str_in (st_key st) known_unescaped || str_in (st_key st) inert_by_construction.
Fixpoint find_site (key : str) (l : list site) : option site :=
  match l with
  | [] => None
  | st :: l' => if str_eqb key (st_key st) then Some st else find_site key l'
  end.
