(* Out/ProjectProofs.v — proofs about the order-dependent part of a FORD run (property C12) *)
From Coq Require Import Lia Permutation Sorted.
From Ford Require Import Base.Str Base.StrFacts Base.Order Out.Names Out.NamesProofs Out.Project.

(* ================================================================== enumerate *)

Lemma enumerate_seq_aux {A} : forall (l pre : list A),
  flat_map (fun i => match nth_error (pre ++ l) i with Some x => [x] | None => [] end)
           (seq (length pre) (length l)) = l.
Proof.
  induction l as [|x l IH]; intros pre; simpl; [reflexivity|].
  rewrite nth_error_app2, Nat.sub_diag by lia. simpl. f_equal.
  specialize (IH (pre ++ [x])). rewrite <- app_assoc in IH. simpl in IH.
  rewrite app_length in IH. simpl in IH. rewrite Nat.add_1_r in IH. exact IH.
Qed.

Lemma enumerate_id {A} (l : list A) : enumerate l (seq 0 (length l)) = l.
Proof. exact (enumerate_seq_aux l []). Qed.

Lemma enumerate_perm {A} (l : list A) pi : is_perm pi (length l) -> Permutation (enumerate l pi) l.
Proof.
  intros H.
  pose proof (Permutation_flat_map
                (fun i => match nth_error l i with Some x => [x] | None => [] end) H) as K.
  change (Permutation (enumerate l pi) (enumerate l (seq 0 (length l)))) in K.
  now rewrite enumerate_id in K.
Qed.

Lemma is_perm_id n : is_perm (seq 0 n) n.
Proof. apply Permutation_refl. Qed.

Lemma is_perm_rev n : is_perm (rev (seq 0 n)) n.
Proof. apply Permutation_sym, Permutation_rev. Qed.

(* ================================================================== clash freedom *)

Definition noclashP (rs : list req) : Prop :=
  forall a b, In a rs -> In b rs ->
    (r_id a = r_id b -> a = b) /\ (r_id a <> r_id b -> name_key a <> name_key b).

Lemma req_eqb_eq a b : req_eqb a b = true -> a = b.
Proof.
  destruct a as [i d n], b as [i' d' n']. unfold req_eqb. simpl.
  rewrite !andb_true_iff. intros [[H1 H2] H3].
  apply Nat.eqb_eq in H1. apply str_eqb_eq in H2, H3. now subst.
Qed.

Lemma no_clash_list_sound rs : no_clash_list rs = true -> noclashP rs.
Proof.
  unfold no_clash_list. rewrite forallb_forall. intros H a b Ha Hb.
  specialize (H a Ha). rewrite forallb_forall in H. specialize (H b Hb).
  unfold pair_ok in H. destruct (Nat.eqb (r_id a) (r_id b)) eqn:E.
  - apply Nat.eqb_eq in E. split; [intros _; now apply req_eqb_eq|intros N; contradiction].
  - apply Nat.eqb_neq in E. split; [intros; contradiction|intros _ K].
    apply negb_true_iff in H. assert (T : key_eqb (name_key a) (name_key b) = true) by now apply key_eqb_eq.
    congruence.
Qed.

Lemma noclashP_incl rs rs' : noclashP rs -> incl rs' rs -> noclashP rs'.
Proof. intros H I a b Ha Hb. apply H; now apply I. Qed.

(* the selector state of a clash-free run: every item is the first of its name *)
Record NC (rs : list req) (st : nstate) : Prop := {
  nc_items : forall it, In it (items st) -> exists r, In r rs /\ from_req r it /\ i_k it = 1;
  nc_counts : forall K, count_get K (counts st) <> 0 ->
                exists it, In it (items st) /\ (i_dir it, i_base it) = K }.

Lemma nc_init rs : NC rs init.
Proof. split; simpl; [intros it []|intros K H; now elim H]. Qed.

Lemma get_name_nc rs st r :
  noclashP rs -> In r rs -> NC rs st ->
  NC rs (fst (get_name st r)) /\
  (forall it, In it (items st) -> In it (items (fst (get_name st r)))) /\
  (exists it, In it (items (fst (get_name st r))) /\ i_id it = r_id r).
Proof.
  intros HN Hr [HI HC]. unfold get_name.
  destruct (find_item (r_id r) (items st)) as [it0|] eqn:F; simpl.
  - split; [split; assumption|]. split; [auto|].
    apply find_item_some in F as [F1 F2]. eauto.
  - set (base := final_name (r_name r)).
    assert (Z : count_get (r_dir r, base) (counts st) = 0).
    { destruct (count_get (r_dir r, base) (counts st)) eqn:E; [reflexivity|exfalso].
      destruct (HC (r_dir r, base)) as (it & Hin & Hk); [rewrite E; discriminate|].
      destruct (HI it Hin) as (r' & Hr' & (Fi & Fd & Fb) & _).
      destruct (HN r' r Hr' Hr) as [_ Hne].
      destruct (Nat.eq_dec (r_id r') (r_id r)) as [Eid|Nid].
      - apply find_item_none in F. apply F. rewrite <- Eid, <- Fi. now apply in_map.
      - apply (Hne Nid). unfold name_key. injection Hk as Hd Hb. fold base. congruence. }
    rewrite Z. split; [split; simpl|split; simpl; [auto|eauto]].
    + intros it [<-|Hin].
      * exists r. split; [assumption|]. split; [repeat split; reflexivity|reflexivity].
      * now apply HI.
    + intros K HK. destruct (key_eqb (r_dir r, base) K) eqn:E.
      * apply key_eqb_eq in E. eexists. split; [left; reflexivity|]. exact E.
      * assert (N : (r_dir r, base) <> K) by (intros X; apply key_eqb_eq in X; congruence).
        rewrite count_get_set_other in HK by exact N.
        destruct (HC K HK) as (it & Hin & Hk). exists it. split; [now right|assumption].
Qed.

Lemma run_nc rs0 : noclashP rs0 -> forall rs st, incl rs rs0 -> NC rs0 st ->
  NC rs0 (fst (run st rs)) /\
  (forall it, In it (items st) -> In it (items (fst (run st rs)))) /\
  (forall r, In r rs -> exists it, In it (items (fst (run st rs))) /\ i_id it = r_id r).
Proof.
  intros HN. induction rs as [|r rs IH]; intros st Hin HS; simpl.
  - split; [assumption|]. split; [auto|intros r []].
  - destruct (get_name st r) as [st1 n] eqn:G.
    destruct (run st1 rs) as [st2 ns] eqn:R. simpl.
    destruct (get_name_nc rs0 st r HN (Hin r (or_introl eq_refl)) HS) as (N1 & M1 & C1).
    rewrite G in N1, M1, C1. simpl in N1, M1, C1.
    destruct (IH st1 (fun x Hx => Hin x (or_intror Hx)) N1) as (N2 & M2 & C2).
    rewrite R in N2, M2, C2. simpl in N2, M2, C2.
    split; [assumption|]. split; [auto|].
    intros r' [<-|Hr'].
    + destruct C1 as (it & H1 & H2). exists it. auto.
    + now apply C2.
Qed.

(* what every entity is called at the end of a clash-free run *)
Lemma noclash_ident rs : noclashP rs ->
  forall r, In r rs -> ident_in (fst (run init rs)) (r_id r) = Some (final_name (r_name r)).
Proof.
  intros HN r Hr.
  destruct (run_nc rs HN rs init (incl_refl _) (nc_init rs)) as ([HI _] & _ & C).
  destruct (C r Hr) as (it & Hit & Hid). unfold ident_in.
  destruct (find_item_in (r_id r) (items (fst (run init rs)))) as (it0 & F0).
  { rewrite <- Hid. now apply in_map. }
  rewrite F0. simpl. apply find_item_some in F0 as [F1 F2].
  destruct (HI it0 F1) as (r' & Hr' & (Fi & Fd & Fb) & Fk).
  assert (r' = r) by (apply (HN r' r Hr' Hr); congruence). subst r'.
  unfold ident_of, render. rewrite Fk, Fb. reflexivity.
Qed.

Lemma noclash_absent rs : noclashP rs ->
  forall id, ~ In id (map r_id rs) -> ident_in (fst (run init rs)) id = None.
Proof.
  intros HN id Hid.
  destruct (run_nc rs HN rs init (incl_refl _) (nc_init rs)) as ([HI _] & _ & _).
  unfold ident_in. destruct (find_item id (items (fst (run init rs)))) as [it|] eqn:F; [exfalso|reflexivity].
  apply find_item_some in F as [F1 F2].
  destruct (HI it F1) as (r' & Hr' & (Fi & _) & _). apply Hid. rewrite <- F2, Fi. now apply in_map.
Qed.

(* the identifiers of a clash-free run depend only on the SET of requests *)
Theorem noclash_order_irrelevant rs1 rs2 :
  noclashP rs1 -> (forall r, In r rs1 <-> In r rs2) ->
  forall id, ident_in (fst (run init rs1)) id = ident_in (fst (run init rs2)) id.
Proof.
  intros HN HE id.
  assert (HN2 : noclashP rs2) by (apply (noclashP_incl rs1); [assumption|intros r; apply HE]).
  destruct (in_dec Nat.eq_dec id (map r_id rs1)) as [Hin|Hout].
  - apply in_map_iff in Hin as (r & <- & Hr).
    rewrite (noclash_ident rs1 HN r Hr). symmetry. apply (noclash_ident rs2 HN2 r). now apply HE.
  - rewrite (noclash_absent rs1 HN id Hout). symmetry. apply (noclash_absent rs2 HN2).
    intros Hin. apply Hout. apply in_map_iff in Hin as (r & <- & Hr). apply in_map. now apply HE.
Qed.

(* ================================================================== the pipeline *)

Lemma nth_perm {A} (t1 t2 : list (list A)) :
  Forall2 (@Permutation A) t1 t2 -> forall k, Permutation (nth k t1 []) (nth k t2 []).
Proof.
  induction 1 as [|a b t1 t2 Hab _ IH]; intros [|k]; simpl; auto.
Qed.

Lemma phase_reqs_members e1 e2 t1 t2 ph :
  Permutation e1 e2 -> Forall2 (@Permutation req) t1 t2 ->
  forall r, In r (phase_reqs e1 t1 ph) -> In r (phase_reqs e2 t2 ph).
Proof.
  intros He Ht r. destruct ph as [k|k]; simpl.
  - apply Permutation_in. now apply Permutation_flat_map.
  - apply Permutation_in. now apply nth_perm.
Qed.

Lemma Forall2_perm_sym {A} (t1 t2 : list (list A)) :
  Forall2 (@Permutation A) t1 t2 -> Forall2 (@Permutation A) t2 t1.
Proof. induction 1; constructor; auto using Permutation_sym. Qed.

Lemma Forall2_perm_trans {A} (t1 t2 t3 : list (list A)) :
  Forall2 (@Permutation A) t1 t2 -> Forall2 (@Permutation A) t2 t3 -> Forall2 (@Permutation A) t1 t3.
Proof.
  intros H. revert t3. induction H; intros t3 H3; inversion H3; subst; constructor; eauto using perm_trans.
Qed.

Lemma registration_members pl e1 e2 t1 t2 :
  Permutation e1 e2 -> Forall2 (@Permutation req) t1 t2 ->
  forall r, In r (registration_of pl e1 t1) <-> In r (registration_of pl e2 t2).
Proof.
  intros He Ht r. unfold registration_of. rewrite !in_flat_map.
  split; intros (ph & Hph & Hr); exists ph; (split; [assumption|]).
  - eapply phase_reqs_members; eassumption.
  - eapply phase_reqs_members; [apply Permutation_sym, He|apply Forall2_perm_sym, Ht|assumption].
Qed.

Lemma nth_in_concat {A} (l : list (list A)) k x : In x (nth k l []) -> In x (concat l).
Proof.
  revert k. induction l as [|a l IH]; intros [|k]; simpl; try tauto; intros H; apply in_or_app; eauto.
Qed.

Lemma registration_in_all P pl r :
  In r (registration_of pl (p_files P) (p_sets P)) -> In r (all_reqs P).
Proof.
  unfold registration_of, all_reqs. rewrite in_flat_map. intros ([k|k] & _ & Hr); simpl in Hr.
  - apply in_or_app. left. apply in_flat_map in Hr as (f & Hf & Hr). apply in_flat_map.
    exists f. split; [assumption|]. unfold file_reqs. eapply nth_in_concat. exact Hr.
  - apply in_or_app. right. eapply nth_in_concat. exact Hr.
Qed.

Lemma enum_sets_perm sets sigma : perms_ok sets sigma -> Forall2 (@Permutation req) (enum_sets sets sigma) sets.
Proof.
  unfold perms_ok, enum_sets. induction 1 as [|l pi sets sigma H _ IH]; simpl; constructor; auto.
  now apply enumerate_perm.
Qed.

(* the identifiers of a clash-free project do not depend on the order in which the files are
   enumerated nor on the order within the set-ordered phases — for any sequence of phases *)
Lemma idents_enum_invariant_of pl P e1 e2 t1 t2 :
  no_clashb P = true ->
  Permutation e1 (p_files P) -> Permutation e2 (p_files P) ->
  Forall2 (@Permutation req) t1 (p_sets P) -> Forall2 (@Permutation req) t2 (p_sets P) ->
  forall id, ident_in (fst (run init (registration_of pl e1 t1))) id
           = ident_in (fst (run init (registration_of pl e2 t2))) id.
Proof.
  intros HN E1 E2 T1 T2. apply noclash_order_irrelevant.
  - apply (noclashP_incl (all_reqs P)); [now apply no_clash_list_sound|].
    intros r Hr. apply (registration_in_all P pl).
    now apply (registration_members pl e1 (p_files P) t1 (p_sets P)).
  - intros r. apply registration_members.
    + eapply perm_trans; [exact E1|now apply Permutation_sym].
    + eapply Forall2_perm_trans; [exact T1|now apply Forall2_perm_sym].
Qed.

Theorem perm_invariant_noclash : forall P pi1 pi2 sigma1 sigma2,
  no_clashb P = true ->
  is_perm pi1 (length (p_files P)) -> is_perm pi2 (length (p_files P)) ->
  perms_ok (p_sets P) sigma1 -> perms_ok (p_sets P) sigma2 ->
  idents P pi1 sigma1 = idents P pi2 sigma2.
Proof.
  intros P pi1 pi2 s1 s2 HN H1 H2 S1 S2. unfold idents, idents_enum. apply map_ext. intros id. f_equal.
  unfold final_state, registration.
  apply (idents_enum_invariant_of pipeline P); auto using enumerate_perm, enum_sets_perm.
Qed.

(* ================================================================== the repair candidate *)

Lemma file_leb_total : total file_leb.
Proof. intros a b. apply path_leb_total. Qed.
Lemma file_leb_trans : transitive file_leb.
Proof. intros a b c. apply path_leb_trans. Qed.

Lemma NoDup_map_inj_in {A B} (f : A -> B) (l : list A) a b :
  NoDup (map f l) -> In a l -> In b l -> f a = f b -> a = b.
Proof.
  induction l as [|x l IH]; simpl; intros H Ha Hb E; [contradiction|].
  inversion H as [|? ? Hn Hd]; subst.
  destruct Ha as [<-|Ha]; destruct Hb as [<-|Hb]; auto.
  - exfalso. apply Hn. rewrite E. now apply in_map.
  - exfalso. apply Hn. rewrite <- E. now apply in_map.
Qed.

Lemma sorted_enumeration_canonical files pi1 pi2 :
  NoDup (map f_path files) -> is_perm pi1 (length files) -> is_perm pi2 (length files) ->
  isort file_leb (enumerate files pi1) = isort file_leb (enumerate files pi2).
Proof.
  intros ND H1 H2. apply isort_perm_invariant; [apply file_leb_total|apply file_leb_trans| |].
  - eapply perm_trans; [now apply enumerate_perm|now apply Permutation_sym, enumerate_perm].
  - intros a b Ha Hb L1 L2.
    apply (Permutation_in _ (enumerate_perm files pi1 H1)) in Ha, Hb.
    apply (NoDup_map_inj_in f_path files); auto. now apply path_leb_antisym.
Qed.

Theorem sorted_is_canonical : forall P pi1 pi2 sigma,
  NoDup (map f_path (p_files P)) ->
  is_perm pi1 (length (p_files P)) -> is_perm pi2 (length (p_files P)) ->
  idents_sorted P pi1 sigma = idents_sorted P pi2 sigma.
Proof.
  intros P pi1 pi2 sigma ND H1 H2. unfold idents_sorted.
  now rewrite (sorted_enumeration_canonical (p_files P) pi1 pi2).
Qed.

(* the same for any total, transitive order that separates the files *)
Theorem sorted_is_canonical_gen : forall (leb : pfile -> pfile -> bool) P pi1 pi2 sets,
  total leb -> transitive leb -> antisym_on leb (p_files P) ->
  is_perm pi1 (length (p_files P)) -> is_perm pi2 (length (p_files P)) ->
  idents_enum P (isort leb (enumerate (p_files P) pi1)) sets
  = idents_enum P (isort leb (enumerate (p_files P) pi2)) sets.
Proof.
  intros leb P pi1 pi2 sets T R AS H1 H2. f_equal.
  apply isort_perm_invariant; auto.
  - eapply perm_trans; [now apply enumerate_perm|now apply Permutation_sym, enumerate_perm].
  - intros a b Ha Hb.
    apply AS; [exact (Permutation_in _ (enumerate_perm (p_files P) pi1 H1) Ha)
              |exact (Permutation_in _ (enumerate_perm (p_files P) pi1 H1) Hb)].
Qed.

(* ================================================================== witnesses *)

Definition segs_at (k : nat) (sg : list req) : list (list req) := repeat [] k ++ [sg].
Definition mkr (id : nat) (d n : str) : req := {| r_id := id; r_dir := d; r_name := n |}.

(* two files, each with one module that declares a variable x; everything is first requested
   while the file's entities are converted from markdown (phase ByFile 7) *)
Definition clash_project : project :=
  {| p_files :=
       [ {| f_path := [s "src"; s "a.f90"];
            f_segs := segs_at 7 [mkr 1 (s "sourcefile") (s "a.f90"); mkr 2 (s "module") (s "ma");
                                 mkr 3 (s "None") (s "x")] |};
         {| f_path := [s "src"; s "b.f90"];
            f_segs := segs_at 7 [mkr 4 (s "sourcefile") (s "b.f90"); mkr 5 (s "module") (s "mb");
                                 mkr 6 (s "None") (s "x")] |} ];
     p_sets := [] |}.

Lemma clash_project_idents :
  idents clash_project [0; 1] [] =
    [(1, Some (s "a.f90")); (2, Some (s "ma")); (3, Some (s "x"));
     (4, Some (s "b.f90")); (5, Some (s "mb")); (6, Some (s "x~2"))] /\
  idents clash_project [1; 0] [] =
    [(1, Some (s "a.f90")); (2, Some (s "ma")); (3, Some (s "x~2"));
     (4, Some (s "b.f90")); (5, Some (s "mb")); (6, Some (s "x"))].
Proof. split; vm_compute; reflexivity. Qed.

Lemma clash_project_perms :
  is_perm [0; 1] (length (p_files clash_project)) /\ is_perm [1; 0] (length (p_files clash_project)) /\
  perms_ok (p_sets clash_project) [] /\ no_clashb clash_project = false.
Proof.
  split; [apply Permutation_refl|]. split; [apply perm_swap|]. split; [constructor|reflexivity].
Qed.

(* the anchors of the two variables swap: "variable-x" <-> "variable-x~2" *)
Lemma clash_project_anchors :
  let a (i : item) := anchor (s "variable") i in
  let it k := {| i_id := 3; i_dir := s "None"; i_base := s "x"; i_k := k |} in
  a (it 1) = s "variable-x" /\ a (it 2) = s "variable-x~2".
Proof. split; vm_compute; reflexivity. Qed.

(* the same project with the variables renamed apart: the hypothesis of the partial theorem is
   satisfiable by a non-trivial project *)
Definition noclash_project : project :=
  {| p_files :=
       [ {| f_path := [s "src"; s "a.f90"];
            f_segs := segs_at 7 [mkr 1 (s "sourcefile") (s "a.f90"); mkr 2 (s "module") (s "ma");
                                 mkr 3 (s "None") (s "x")] |};
         {| f_path := [s "src"; s "b.f90"];
            f_segs := segs_at 7 [mkr 4 (s "sourcefile") (s "b.f90"); mkr 5 (s "module") (s "mb");
                                 mkr 6 (s "None") (s "y"); mkr 3 (s "None") (s "x")] |} ];
     p_sets := [[mkr 2 (s "module") (s "ma"); mkr 5 (s "module") (s "mb")]] |}.

Example noclash_project_ok :
  no_clashb noclash_project = true /\
  is_perm [1; 0] (length (p_files noclash_project)) /\
  perms_ok (p_sets noclash_project) [[1; 0]] /\
  NoDup (map f_path (p_files noclash_project)) /\
  idents noclash_project [1; 0] [[1; 0]] =
    [(1, Some (s "a.f90")); (4, Some (s "b.f90")); (6, Some (s "y")); (3, Some (s "x"));
     (2, Some (s "ma")); (5, Some (s "mb"))].
Proof.
  split; [reflexivity|]. split; [apply perm_swap|]. split; [repeat constructor; apply perm_swap|].
  split; [|vm_compute; reflexivity].
  simpl. repeat constructor; simpl; intuition discriminate.
Qed.

(* sorting the files is not the whole repair: two equally named modules that sit in one level
   of the toposort are numbered in the iteration order of a set of objects hashed by id *)
Definition modclash_project : project :=
  {| p_files :=
       [ {| f_path := [s "src"; s "a.f90"]; f_segs := segs_at 7 [mkr 1 (s "module") (s "m")] |};
         {| f_path := [s "src"; s "b.f90"]; f_segs := segs_at 7 [mkr 2 (s "module") (s "m")] |} ];
     p_sets := [[mkr 1 (s "module") (s "m"); mkr 2 (s "module") (s "m")]] |}.

Lemma modclash_sorted_differs :
  perms_ok (p_sets modclash_project) [[0; 1]] /\ perms_ok (p_sets modclash_project) [[1; 0]] /\
  idents_sorted modclash_project [0; 1] [[0; 1]] = [(1, Some (s "m")); (2, Some (s "m~2"))] /\
  idents_sorted modclash_project [0; 1] [[1; 0]] = [(1, Some (s "m~2")); (2, Some (s "m"))].
Proof.
  split; [repeat constructor; apply Permutation_refl|]. split; [repeat constructor; apply perm_swap|].
  split; vm_compute; reflexivity.
Qed.

(* ================================================================== other sets *)

Lemma perm_short {A} (l l' : list A) : length l <= 1 -> Permutation l' l -> l' = l.
Proof.
  destruct l as [|x [|y l]]; simpl; intros L P; try lia.
  - now apply Permutation_nil, Permutation_sym.
  - now apply Permutation_length_1_inv, Permutation_sym.
Qed.

Theorem uses_partial : forall uses pi1 pi2,
  length uses <= 1 -> is_perm pi1 (length uses) -> is_perm pi2 (length uses) ->
  shown_uses uses pi1 = shown_uses uses pi2.
Proof.
  intros uses pi1 pi2 L H1 H2. unfold shown_uses.
  rewrite (perm_short uses _ L (enumerate_perm uses pi1 H1)).
  now rewrite (perm_short uses _ L (enumerate_perm uses pi2 H2)).
Qed.

Lemma uses_refuted_witness :
  is_perm [0; 1] 2 /\ is_perm [1; 0] 2 /\
  shown_uses [s "ma"; s "mb"] [0; 1] <> shown_uses [s "ma"; s "mb"] [1; 0].
Proof. split; [apply Permutation_refl|]. split; [apply perm_swap|]. vm_compute. discriminate. Qed.

Theorem graph_emission_sorted : forall nodes pi1 pi2,
  is_perm pi1 (length nodes) -> is_perm pi2 (length nodes) ->
  emit_nodes nodes pi1 = emit_nodes nodes pi2.
Proof.
  intros nodes pi1 pi2 H1 H2. unfold emit_nodes.
  apply isort_perm_invariant; [apply str_leb_total|apply str_leb_trans| |].
  - eapply perm_trans; [now apply enumerate_perm|now apply Permutation_sym, enumerate_perm].
  - intros a b _ _. apply str_leb_antisym.
Qed.

Lemma child_edges_refuted_witness :
  is_perm [0; 1] 2 /\ is_perm [1; 0] 2 /\
  emit_child_edges (s "base") [s "c1"; s "c2"] [0; 1] <> emit_child_edges (s "base") [s "c1"; s "c2"] [1; 0].
Proof. split; [apply Permutation_refl|]. split; [apply perm_swap|]. vm_compute. discriminate. Qed.

Example graph_emission_example :
  emit_nodes [s "mb"; s "ma~2"; s "ma"; s "Mc"] [2; 0; 3; 1] = [s "Mc"; s "ma"; s "ma~2"; s "mb"]
  /\ is_perm [2; 0; 3; 1] 4.
Proof.
  split; [vm_compute; reflexivity|].
  unfold is_perm. simpl.
  apply Permutation_sym.
  apply (perm_trans (l' := [2; 0; 1; 3])).
  - apply (perm_trans (l' := [0; 2; 1; 3])); [apply perm_skip, perm_swap|apply perm_swap].
  - do 2 apply perm_skip. apply perm_swap.
Qed.

(* ================================================================== writeout *)

Lemma prefixb_app out x : prefixb out (out ++ x) = true.
Proof. induction out as [|c out IH]; simpl; [reflexivity|]. now rewrite str_eqb_refl. Qed.

Lemma write_all_eq out pages f :
  write_all out pages f = rev (map (fun kv => (out ++ fst kv, snd kv)) pages) ++ f.
Proof.
  unfold write_all. revert f. induction pages as [|kv pages IH]; intros f; simpl; [reflexivity|].
  rewrite IH. now rewrite <- app_assoc.
Qed.

Lemma filter_all {A} (p : A -> bool) l : (forall x, In x l -> p x = true) -> filter p l = l.
Proof.
  induction l as [|x l IH]; simpl; intros H; [reflexivity|].
  rewrite (H x (or_introl eq_refl)). f_equal. apply IH. auto.
Qed.

Lemma filter_none {A} (p : A -> bool) l : (forall x, In x l -> p x = false) -> filter p l = [].
Proof.
  induction l as [|x l IH]; simpl; intros H; [reflexivity|].
  rewrite (H x (or_introl eq_refl)). apply IH. auto.
Qed.

Lemma restrict_writeout out pages f :
  restrict out (writeout out pages f) = rev (map (fun kv => (out ++ fst kv, snd kv)) pages).
Proof.
  unfold restrict, writeout. rewrite write_all_eq, filter_app.
  rewrite filter_all, filter_none; [apply app_nil_r| |].
  - intros kv H. unfold remove_subtree in H. apply filter_In in H as [_ H].
    now apply negb_true_iff in H.
  - intros kv H. apply in_rev in H. apply in_map_iff in H as (kv' & <- & _). simpl. apply prefixb_app.
Qed.

Theorem stale_output_irrelevant : forall out pages fs1 fs2,
  restrict out (writeout out pages fs1) = restrict out (writeout out pages fs2).
Proof. intros. now rewrite !restrict_writeout. Qed.

(* observationally: every path below the output directory reads the same after the run *)
Corollary stale_output_irrelevant_get : forall out pages fs1 fs2 p,
  fs_get p (restrict out (writeout out pages fs1)) = fs_get p (restrict out (writeout out pages fs2)).
Proof. intros. now rewrite (stale_output_irrelevant out pages fs1 fs2). Qed.

(* without the removal the result would depend on what was there before *)
Lemma merge_refuted_witness :
  let out := [s "doc"] in
  let pages := [([s "index.html"], s "new")] in
  let stale := [([s "doc"; s "proc"; s "old.html"], s "left over")] in
  restrict out (writeout_merge out pages []) <> restrict out (writeout_merge out pages stale)
  /\ restrict out (writeout out pages []) = restrict out (writeout out pages stale)
  /\ restrict out (writeout out pages stale) = [([s "doc"; s "index.html"], s "new")].
Proof. cbv zeta. split; [vm_compute; discriminate|]. split; vm_compute; reflexivity. Qed.

(* ================================================================== refutations of the full statements *)

Lemma merge_refuted :
  exists out pages fs1 fs2,
    restrict out (writeout_merge out pages fs1) <> restrict out (writeout_merge out pages fs2).
Proof.
  exists [s "doc"], [([s "index.html"], s "new")], [], [([s "doc"; s "proc"; s "old.html"], s "left over")].
  vm_compute. discriminate.
Qed.

Lemma statement_refuted :
  ~ (forall P pi1 pi2 sigma1 sigma2,
       is_perm pi1 (length (p_files P)) -> is_perm pi2 (length (p_files P)) ->
       perms_ok (p_sets P) sigma1 -> perms_ok (p_sets P) sigma2 ->
       idents P pi1 sigma1 = idents P pi2 sigma2).
Proof.
  intros H. destruct clash_project_perms as (P1 & P2 & S & _).
  specialize (H clash_project [0; 1] [1; 0] [] [] P1 P2 S S).
  destruct clash_project_idents as [E1 E2]. rewrite E1, E2 in H. discriminate.
Qed.

Lemma uses_statement_refuted :
  ~ (forall uses pi1 pi2, is_perm pi1 (length uses) -> is_perm pi2 (length uses) ->
       shown_uses uses pi1 = shown_uses uses pi2).
Proof.
  intros H. destruct uses_refuted_witness as (P1 & P2 & N).
  exact (N (H [s "ma"; s "mb"] [0; 1] [1; 0] P1 P2)).
Qed.

Lemma child_edges_statement_refuted :
  ~ (forall parent children pi1 pi2, is_perm pi1 (length children) -> is_perm pi2 (length children) ->
       emit_child_edges parent children pi1 = emit_child_edges parent children pi2).
Proof.
  intros H. destruct child_edges_refuted_witness as (P1 & P2 & N).
  exact (N (H (s "base") [s "c1"; s "c2"] [0; 1] [1; 0] P1 P2)).
Qed.

Lemma noclash_order_irrelevant_b rs1 rs2 :
  no_clash_list rs1 = true -> (forall r, In r rs1 <-> In r rs2) ->
  forall id, ident_in (fst (run init rs1)) id = ident_in (fst (run init rs2)) id.
Proof. intros H. apply noclash_order_irrelevant. now apply no_clash_list_sound. Qed.
